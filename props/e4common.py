"""Shared pieces of the E4 (nsqlookupd) checks C14 and C15: Lean build/audit, harness runs
(sharded, in parallel), replay through the Lean driver, and `PySpec` — a direct, set-based
implementation of the plain registry of the property statement, used as the oracle on the
implementation's own answers (independent of the Lean model's list/pointer shape)."""
import concurrent.futures
import os
import re

TIE = ["Nsq.Tie.Registry"]
TIE_PROTO = ["Nsq.Tie.Registry", "Nsq.Tie.RegistryProto"]
HARNESS = ["e4/e4_core_test.go", "e4/registry_test.go", "e4/proto_test.go", "e4/race_test.go", "e4/liveness_test.go"]

TRUSTED = [
    "translator tools/go2lean (fact kinds routes3, errsites, stmts, calls, consts, regex) reads the "
    "route table, error sites, guards and DB-call order of nsqlookupd off the current sources",
    "Go memory model: every RegistrationDB method runs under its RWMutex (one atomic step each); the "
    "sequential model covers histories in which handler calls do not overlap",
    "correspondence harness harness/e4 (in-process NSQLookupd, real TCP connections, white-box "
    "back-dating of lastUpdate/tombstonedAt instead of sleeping; canonicalisation = sorting)",
    "encoding/json (IDENTIFY body decoding is an input of the model), net/http + httprouter v1.3.0 "
    "(static routing, 404/405/OPTIONS; C15 also models the 301/307 redirects for trailing slash / case / unclean paths, tied by its sweep), bufio",
]


def lean_side(ctx, props, tie=None, specs=("e4_lookupd",)):
    tie = tie or TIE
    ok_gen = True
    for sp in specs:
        g, _ = ctx.gen(sp)
        ok_gen = ok_gen and g
        if not g:
            # never let a stale regenerated file satisfy the tie
            import json
            from framework import ROOT, LEAN
            mod = json.load(open(os.path.join(ROOT, "specs", sp + ".json")))["module"].split(".")[-1]
            try:
                os.remove(os.path.join(LEAN, "Nsq", "Gen", mod + ".lean"))
            except OSError:
                pass
    ok, log = ctx.lean_build(tie + props)
    if not ok:
        ctx.lean_obligation_failed("lake build " + " ".join(tie + props), log[-1500:])
    ctx.lean_audit(props, tie)
    if ctx.thorough():
        ctx.leanchecker(props)
    return ok_gen and ok


def build_harness(ctx, name):
    if not ctx.build_driver("e4"):
        ctx.broken_ties.append("driver drv_e4 does not build")
    binp = ctx.go_test_binary("nsqlookupd", HARNESS, name)
    if not binp:
        ctx.broken_ties.append("harness harness/e4 does not compile against the current tree")
    return binp


def run_test(ctx, binp, test, env, timeout=900):
    e = {"VERIF_SEED": ctx.seed, "VERIF_OUT": ctx.work}
    e.update(env)
    return ctx.run_cmd([binp, "-test.run", "^%s$" % test, "-test.count=1", "-test.timeout=%ds" % timeout],
                       timeout=timeout + 30, env=e)


def inconclusive_reason(rc, out):
    m = [l for l in out.splitlines() if l.startswith("E4-INCONCLUSIVE")]
    if m:
        return m[0][:300]
    if rc == -9:
        return "harness run exceeded its time box"
    return "exit %s: %s" % (rc, " / ".join(out.strip().splitlines()[-2:])[:300])


def run_leg(ctx, binp, test, env, timeout=900, real_failure=None):
    """One harness leg. A run that ends non-zero WITHOUT a real failure (a failure of the daemon as
    judged by `real_failure(rc, out)`: crash, oracle output) says nothing about nsqlookupd — the
    harness gave up on its own I/O budget, or the box was too loaded. It is re-run once in a
    fresh process; only a failure that persists is returned, the first one goes to the notes."""
    rc, out = run_test(ctx, binp, test, env, timeout)
    if rc == 0 or (real_failure and real_failure(rc, out)):
        return rc, out
    why = inconclusive_reason(rc, out)
    ctx.log("%s: inconclusive (%s); re-running once" % (test, why))
    rc2, out2 = run_test(ctx, binp, test, env, timeout)
    if rc2 == 0:
        ctx.notes.append("%s %s: first run inconclusive (%s); the re-run in a fresh process passed" % (
            test, {k: v for k, v in env.items() if "SHARD" in k}, why))
    return rc2, out2


def run_parallel(ctx, jobs, workers=8, real_failure=None):
    """jobs: list of (binp, test, env, timeout) -> list of (rc, out) in order; failed jobs are
    re-run once, one after the other (see run_leg)"""
    with concurrent.futures.ThreadPoolExecutor(max_workers=workers) as ex:
        futs = [ex.submit(run_test, ctx, *j) for j in jobs]
        res = [f.result() for f in futs]
    for k, (rc, out) in enumerate(res):
        if rc != 0 and not (real_failure and real_failure(rc, out)):
            why = inconclusive_reason(rc, out)
            ctx.log("%s %s: inconclusive (%s); re-running once" % (jobs[k][1], jobs[k][2], why))
            rc2, out2 = run_test(ctx, *jobs[k])
            if rc2 == 0:
                ctx.notes.append("%s %s: first run inconclusive (%s); the re-run in a fresh process passed" % (
                    jobs[k][1], {a: b for a, b in jobs[k][2].items() if "SHARD" in a}, why))
            res[k] = (rc2, out2)
    return res


def read_lines(path):
    if not os.path.exists(path):
        return []
    with open(path, errors="replace") as f:
        return f.read().splitlines()


def model_lines(ctx, ops_path):
    rc, out = ctx.driver("e4", stdin_path=ops_path, timeout=1200)
    return out.splitlines()


def hist_lines(ctx, out, key):
    for l in out.splitlines():
        if l.startswith("HIST ") or l.startswith("E4-"):
            if not l.startswith("E4-CURRENT") and not l.startswith("E4-REPLAY-LINE"):
                ctx.corr.setdefault(key, []).append(l[:1500])


def history_of(ops, idx):
    """the conf line + the lines from the last `reset` up to idx: a self-contained replay"""
    start = idx
    while start > 0 and ops[start] != "reset":
        start -= 1
    conf = [l for l in ops[:1] if l.startswith("conf")]
    return conf + ops[start:idx + 1]


# ----------------------------------------------------------------------------- PySpec

NAME_RE = re.compile(rb"^[.a-zA-Z0-9_-]+(#ephemeral)?\Z")


def valid_name(b):
    return 1 <= len(b) <= 64 and NAME_RE.match(b) is not None


def unhex(w):
    return b"" if w == "-" else bytes.fromhex(w)


def hx(b):
    return "-" if not b else b.hex()


def s_(b):
    return b.decode("latin-1")


class PySpec:
    """RegistrySpec as plain Python sets (the oracle). Times are integers (ns)."""

    def __init__(self):
        self.inactive = self.tomblife = 0
        self.unit = 1
        self.topics = []
        # how often the wild-card paths really had a choice (lands in evidence: coverage.correspondence.wildcard)
        self.stats = {"tombstone*": 0, "tombstone* with a real choice (a marked nsqd had >= 2 topics)": 0,
                      "lookup*": 0, "lookup* with a real choice (must != may)": 0}
        self.reset()

    def reset(self):
        self.known_topic = set()
        self.known_chan = set()
        self.topic_reg = set()     # (p, t)
        self.chan_reg = set()      # (p, t, c)
        self.tomb = {}             # (p, t) -> time
        self.live = set()
        self.peer = {}             # p -> [lastUpdate, info]

    # -- steps
    def disconnect(self, p):
        if p not in self.peer:
            return
        self.topic_reg = {x for x in self.topic_reg if x[0] != p}
        self.chan_reg = {x for x in self.chan_reg if x[0] != p}
        self.tomb = {k: v for k, v in self.tomb.items() if k[0] != p}
        self.live.discard(p)
        del self.peer[p]

    def identify(self, p, info, now):
        if p in self.peer:
            self.disconnect(p)
            return "E_INVALID " + hx(b"cannot IDENTIFY again")
        if info[0] == b"" or info[3] == 0 or info[4] == 0 or info[2] == b"":
            return "E_BAD_BODY " + hx(b"IDENTIFY missing fields")
        self.live.add(p)
        self.peer[p] = [now, info]
        return "IDENTIFIED"

    @staticmethod
    def topic_chan(cmd, params):
        if not params:
            return None, "E_INVALID " + hx(cmd + b" insufficient number of params")
        t = params[0]
        c = params[1] if len(params) >= 2 else b""
        if not valid_name(t):
            return None, "E_BAD_TOPIC " + hx(cmd + b" topic name '" + t + b"' is not valid")
        if c != b"" and not valid_name(c):
            return None, "E_BAD_CHANNEL " + hx(cmd + b" channel name '" + c + b"' is not valid")
        return (t, c), None

    def register(self, p, params):
        if p not in self.peer:
            return "E_INVALID " + hx(b"client must IDENTIFY")
        tc, err = self.topic_chan(b"REGISTER", params)
        if err:
            self.disconnect(p)
            return err
        t, c = tc
        self.known_topic.add(t)
        self.topic_reg.add((p, t))
        if c != b"":
            self.known_chan.add((t, c))
            self.chan_reg.add((p, t, c))
        return "OK"

    def unregister(self, p, params):
        if p not in self.peer:
            return "E_INVALID " + hx(b"client must IDENTIFY")
        tc, err = self.topic_chan(b"UNREGISTER", params)
        if err:
            self.disconnect(p)
            return err
        t, c = tc
        if c != b"":
            self.chan_reg.discard((p, t, c))
            if c.endswith(b"#ephemeral") and not any(x[1] == t and x[2] == c for x in self.chan_reg):
                self.known_chan.discard((t, c))
        else:
            self.chan_reg = {x for x in self.chan_reg if not (x[0] == p and x[1] == t)}
            self.topic_reg.discard((p, t))
            self.tomb.pop((p, t), None)
            if t.endswith(b"#ephemeral") and not any(x[1] == t for x in self.topic_reg):
                self.known_topic.discard(t)
        return "OK"

    def ping(self, p, now):
        if p in self.peer:
            self.peer[p][0] = now
        return "OK"

    def http(self, h, bad, t, c, node, now):
        if bad:
            return "400 INVALID_REQUEST"
        if h in ("createTopic", "deleteTopic", "tombstone"):
            if t is None:
                return "400 MISSING_ARG_TOPIC"
        if h == "createTopic":
            if not valid_name(t):
                return "400 INVALID_ARG_TOPIC"
            self.known_topic.add(t)
            return "200"
        if h == "deleteTopic":
            m = (lambda x: True) if t == b"*" else (lambda x: x == t)
            self.known_topic = {x for x in self.known_topic if not m(x)}
            self.known_chan = {x for x in self.known_chan if not m(x[0])}
            self.topic_reg = {x for x in self.topic_reg if not m(x[1])}
            self.chan_reg = {x for x in self.chan_reg if not m(x[1])}
            self.tomb = {k: v for k, v in self.tomb.items() if not m(k[1])}
            return "200"
        if h == "tombstone":
            if node is None:
                return "400 MISSING_ARG_NODE"
            for (p, tt) in list(self.topic_reg):
                if tt == t and p in self.peer:
                    inf = self.peer[p][1]
                    if inf[0] + b":" + str(inf[4]).encode() == node:
                        self.tomb[(p, t)] = now
            return "200"
        # channel create / delete
        if t is None:
            return "400 MISSING_ARG_TOPIC"
        if not valid_name(t):
            return "400 INVALID_ARG_TOPIC"
        if c is None:
            return "400 MISSING_ARG_CHANNEL"
        if not valid_name(c):
            return "400 INVALID_ARG_CHANNEL"
        if h == "createChannel":
            self.known_topic.add(t)
            self.known_chan.add((t, c))
            return "200"
        if h == "deleteChannel":
            if (t, c) not in self.known_chan:
                return "404 CHANNEL_NOT_FOUND"
            self.known_chan.discard((t, c))
            self.chan_reg = {x for x in self.chan_reg if not (x[1] == t and x[2] == c)}
            return "200"
        raise ValueError(h)

    # -- answers
    def recent(self, p, now):
        return p in self.peer and now - self.peer[p][0] <= self.inactive

    def tomb_active(self, p, t, now):
        return (p, t) in self.tomb and now - self.tomb[(p, t)] < self.tomblife

    def info_str(self, p):
        i = self.peer[p][1]
        return "%d:%s:%s:%s:%d:%d" % (p, s_(i[0]), s_(i[1]), s_(i[2]), i[3], i[4])

    def queries(self, now):
        j = lambda xs: ",".join(sorted(xs))
        parts = ["T=" + j(s_(t) for t in self.known_topic)]
        for t in self.topics:
            parts.append("C[%s]=%s" % (s_(t), j(s_(x[1]) for x in self.known_chan if x[0] == t)))
        for t in self.topics:
            if t not in self.known_topic:
                parts.append("L[%s]=404" % s_(t))
                continue
            prods = [p for (p, tt) in self.topic_reg
                     if tt == t and p in self.live and self.recent(p, now) and not self.tomb_active(p, t, now)]
            parts.append("L[%s]=ch=%s;pr=%s" % (s_(t), j(s_(x[1]) for x in self.known_chan if x[0] == t),
                                                  j(self.info_str(p) for p in prods)))
        nodes = []
        for p in self.live:
            if self.recent(p, now):
                ts = ["%s=%d" % (s_(t), 1 if self.tomb_active(p, t, now) else 0)
                      for (q, t) in self.topic_reg if q == p]
                nodes.append(self.info_str(p) + "{" + j(ts) + "}")
        parts.append("N=" + j(nodes))
        dbg = {}
        age = lambda t0: (now - t0) // self.unit
        for p in self.live:
            dbg.setdefault("client::", []).append("%d:%d:0" % (p, age(self.peer[p][0])))
        for (p, t) in self.topic_reg:
            tb = "1:%d" % age(self.tomb[(p, t)]) if (p, t) in self.tomb else "0"
            dbg.setdefault("topic:%s:" % s_(t), []).append("%d:%d:%s" % (p, age(self.peer[p][0]), tb))
        for (p, t, c) in self.chan_reg:
            dbg.setdefault("channel:%s:%s" % (s_(t), s_(c)), []).append("%d:%d:0" % (p, age(self.peer[p][0])))
        parts.append("D=" + " ".join(sorted(k + "[" + j(v) + "]" for k, v in dbg.items())))
        return " | ".join(parts)

    # -- the wild-card paths: the result is a SET (one element per admissible outcome of Go's map iteration)
    def node_of(self, p):
        inf = self.peer[p][1]
        return inf[0] + b":" + str(inf[4]).encode()

    def tombstone_star(self, bad, node, pick_tok, now):
        """POST /topic/tombstone?topic=*&node=N: every nsqd at address N that registered at least one topic is
        tombstoned for EXACTLY ONE of the topics it registered; nothing else changes. `pick_tok` is what the
        real run did: accepted iff it is such an outcome."""
        if bad or node is None or not pick_tok.startswith("pick="):
            return "bad-op"
        body = pick_tok[5:]
        pick = []
        if body != "-":
            for e in body.split(","):
                p_, t_ = e.split(":")
                pick.append((int(p_), unhex(t_)))
        must = {p for (p, t) in self.topic_reg if p in self.peer and self.node_of(p) == node}
        ok = (sorted(p for p, _ in pick) == sorted(must) and all((p, t) in self.topic_reg for p, t in pick))
        if not ok:
            return "invalid-pick: tombstoned %s ; allowed: exactly one registered topic for each of %s" % (
                sorted((p, s_(t)) for p, t in pick), sorted(must))
        self.stats["tombstone*"] += 1
        if any(sum(1 for (q, _) in self.topic_reg if q == p) >= 2 for p in must):
            self.stats["tombstone* with a real choice (a marked nsqd had >= 2 topics)"] += 1
        for p, t in pick:
            self.tomb[(p, t)] = now
        return "200"

    def qstar(self, obs_tok, now):
        """GET /channels?topic=* (channels of all topics, one entry per (topic, channel)) and GET /lookup?topic=*:
        404 iff no topic; an nsqd MUST be listed when it is live, recent, registered for a topic and tombstoned for
        none of its topics; it MAY be listed only when it is live, recent and not tombstoned for some topic of its."""
        j = lambda xs: ",".join(sorted(xs))
        cs = "C[*]=" + j(s_(x[1]) for x in self.known_chan)
        if not self.known_topic:
            return "qstar %s L[*]=404" % cs
        body = obs_tok[4:] if obs_tok.startswith("obs=") else "?"
        try:
            obs = set() if body == "-" else {int(x) for x in body.split(",")}
        except ValueError:
            return "bad-op"
        must, may = set(), set()
        for p in self.live:
            ts = [t for (q, t) in self.topic_reg if q == p]
            if not ts or not self.recent(p, now):
                continue
            flags = [self.tomb_active(p, t, now) for t in ts]
            if not all(flags):
                may.add(p)
            if not any(flags):
                must.add(p)
        self.stats["lookup*"] += 1
        if must != may:
            self.stats["lookup* with a real choice (must != may)"] += 1
        if not (must <= obs <= may):
            return "qstar %s L[*]=not-allowed: listed %s ; must list %s ; may list %s" % (cs, sorted(obs), sorted(must), sorted(may))
        return "qstar %s L[*]=ch=%s;pr=%s" % (cs, j(s_(x[1]) for x in self.known_chan), j(self.info_str(p) for p in obs))

    # -- one line of the E4 protocol; returns the predicted answer line or None (line kind not covered)
    def line(self, l):
        w = l.split()
        if not w:
            return "bad-op"
        noq = False
        if w[0] == "noq":
            noq, w = True, w[1:]
        if w[0] == "conf":
            self.inactive, self.tomblife, self.unit = int(w[1]), int(w[2]), int(w[3])
            self.topics = [unhex(x) for x in w[5].split(",") if x] if len(w) > 5 else []
            return "conf"
        if w[0] == "reset":
            self.reset()
            return "reset"
        now = int(w[0])
        k = w[1]
        opt = lambda x: None if x == "_" else unhex(x)
        if k == "q":
            out = "q"
        elif k == "identify":
            out = self.identify(int(w[2]), (unhex(w[3]), unhex(w[4]), unhex(w[5]), int(w[6]), int(w[7])), now)
        elif k == "register":
            out = self.register(int(w[2]), [unhex(x) for x in w[3:]])
        elif k == "unregister":
            out = self.unregister(int(w[2]), [unhex(x) for x in w[3:]])
        elif k == "ping":
            out = self.ping(int(w[2]), now)
        elif k == "disconnect":
            self.disconnect(int(w[2]))
            out = "closed"
        elif k == "abort":
            # the command is executed, its answer cannot be delivered, the connection is gone at once
            p_, kind, a = int(w[2]), w[3], w[4:]
            if kind == "identify":
                self.identify(p_, (unhex(a[0]), unhex(a[1]), unhex(a[2]), int(a[3]), int(a[4])), now)
            elif kind == "register":
                self.register(p_, [unhex(x) for x in a])
            elif kind == "unregister":
                self.unregister(p_, [unhex(x) for x in a])
            elif kind == "ping":
                self.ping(p_, now)
            else:
                return None
            self.disconnect(p_)
            out = "aborted"
        elif k == "http" and w[2] == "tombstone" and opt(w[4]) == b"*" and len(w) > 7:
            out = self.tombstone_star(w[3] == "1", opt(w[6]), w[7], now)
        elif k == "qstar":
            out = self.qstar(w[2] if len(w) > 2 else "", now)
        elif k == "http":
            if opt(w[4]) == b"*" and w[2] == "tombstone" and w[3] != "1" and opt(w[6]) is not None:
                return None      # wild-card tombstone without the observed pick: cannot be judged
            out = self.http(w[2], w[3] == "1", opt(w[4]), opt(w[5]), opt(w[6]), now)
        else:
            return None
        if noq:
            return "noq"
        return out + " | " + self.queries(now)
