"""E9 — the go-diskqueue engine on its own (`./check E9`); the same leg runs inside C05 and C07."""
from props import e9_dq


def run(ctx):
    ctx.rule = ("generated op sequences on the real go-diskqueue (put with boundary sizes, receive, depth, empty, close/re-open, "
                "kill = directory snapshot, delete, stale metadata, truncated/overwritten/removed/extended files; tiny "
                "maxBytesPerFile; syncEvery 1..1000); a case = op + resulting private state, non-trivial unless `none`")
    corr_broken = []
    e9_dq.leg(ctx, corr_broken)
    if (ctx.broken_ties or corr_broken) and not ctx.violations:
        ctx.broken_without_input(ctx.broken_ties + corr_broken,
                                 "search: %d evaluations of generated diskqueue histories found no FIFO-oracle failure" % ctx.evaluations)
