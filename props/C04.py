"""C04 — timeouts and delays are honoured: never early, boundedly late, range-checked
(engine E1; DESIGN.md §5 C04)."""
import os
import re
import time

from framework import ROOT
from props import e1util, c04opts
from props.e1util import unhex

TIE = ["Nsq.Tie.Num", "Nsq.Tie.PQ", "Nsq.Tie.TickLoop"] + c04opts.TIE
PROPS = ["Nsq.Props.C04", "Nsq.Props.C04Live", "Nsq.Props.C04Micro"] + c04opts.PROPS
MAXI64 = 2 ** 63 - 1


def run(ctx):
    ctx.trusted += [
        "translator tools/go2lean: kind func/funcc renders ByteToBase10 and msToDuration into Lean BitVec "
        "operations; kinds stmts/body render the statements of REQ, DPUB, doPUB, SetMsgTimeout, "
        "TouchMessage, StartInFlightTimeout, StartDeferredTimeout, RequeueMessage, process*Queue, "
        "queueScanWorker, the two heaps and UniqRands as text compared with the model's transcription",
        "strconv.ParseInt(s, 10, 64) (Go standard library): optional sign, decimal digits, exact value, "
        "error outside int64 — modelled, compared on generated spellings",
        "container/heap (Go standard library): up/down/Push/Remove modelled explicitly, compared on the real package",
        "time.Time arithmetic (Add, Sub, UnixNano) is exact integer nanosecond arithmetic for the values used",
        "Go memory model: each Channel critical section is atomic; the atomic model is one step per API call (an abstraction; "
        "the windows inside a call are Props.C04Micro on ChanMicroT, which no driver replays)",
        "correspondence harnesses harness/e1/num_test.go, harness/e1/timing_test.go (white-box clock read-back)",
    ]
    ctx.assumptions += [
        "C04_range_full: max-req-timeout is not the largest representable duration 2^63-1 ns (~292 years); "
        "for that value DPUB's saturating conversion accepts any larger 64-bit millisecond count with delay "
        "2^63-1 ns (theorem dpub_saturation_corner) and the HTTP part needs max-req-timeout >= 0 (hypothesis hpos); "
        "non-digit spellings are refused on TCP only - HTTP defer= accepts strconv.ParseInt's spellings ('+5')",
        "setMsgTimeout_range: max-msg-timeout >= 0",
        "touch_cap: the initial in-flight timeout of a delivery is <= max-msg-timeout: guaranteed for a negotiated "
        "msg_timeout (setMsgTimeout_range); for the daemon default only once nsqd.New compares the two options "
        "(audit A12, fix F40: Props.C04Opts.deadline_cap_fixed / deadline_cap_unfixed_false)",
        "PARTIAL (lateness): with more than QueueScanSelectionCount (20) channels the per-tick selection "
        "is random, so 'soon after' is statistical; wall-clock lateness also depends on the Go timer and "
        "scheduler. Proved instead: a scan at or after the deadline releases the entry "
        "(released_by_first_scan_after_deadline) and every channel (satisfying ChanInv) is scanned in each round of the "
        "scan loop when there are at most 20 (every_channel_scanned_each_tick, uniqRands_perm; whole tick: C04Live)",
        "PARTIAL (lateness): queueScanLoop scans a cached channel list refreshed every QueueScanRefreshInterval "
        "(5 s by default): a channel created since the last refresh waits for the next one (measured: ~5 s late "
        "with the defaults; harness/e1 TestVerifWallClock, VERIF_WALL_DEFAULT_REFRESH=1)",
        "a deferred publish keeps its delay only while it is held in memory (property statement): a message that "
        "spills to the topic's disk queue loses it (nsqd/topic.go put)",
        "never_early_micro_fixed (scan iteration at critical-section granularity, after fix F16): deliveries come "
        "from the channel's queue and message ids are unique (no other message with the same id is published "
        "meanwhile: the popped id is neither queued nor deferred and no defer of it runs in between), the channel satisfies "
        "ChanInv; the pre-fix two-section shape is refuted by never_early_micro_false",
        "an empty delay argument on TCP (`REQ id ` / `DPUB topic `) is the empty digit string and reads as 0",
        "C04Live (tick-count lateness, whole tick of queueScanLoop incl. the dirty loop): clock readings and the math/rand "
        "stream are inputs; <= 20 channels: released by the first tick whose first round reads the clock at/after the "
        "deadline (released_by_first_tick_after_deadline); > 20 channels: released by the first such tick that selects the "
        "channel (released_when_selected) - no deterministic tick bound exists and none is claimed; a tick ends only after "
        "a round with at most QueueScanDirtyPercent dirty channels (dirty_loop_guarantee)",
    ]
    ctx.rule = ("numeric: generated spellings (0, 1, boundary±1, max, 2^63±1, 2^64±k, 40 digits, leading zeros, "
                "signs, spaces, hex/exponent/underscore/unicode digits, empty, one wrong byte) through the real "
                "ByteToBase10, msToDuration, SetMsgTimeout, the real REQ handler, DPUB/REQ over TCP and "
                "/pub?defer= over HTTP, with several max-req-timeout settings; timing: both real heaps on "
                "heaps reached by random histories and on arbitrary arrays, a real Channel under random "
                "histories with scans at / just before / just after deadlines; a case is distinct by its "
                "operation line; non-trivial = not a plain parse error / no-op")
    # 1-2 regenerate, build, audit
    gen_ok, _ = ctx.gen("e1_codec")
    gen_ok2, _ = ctx.gen("e2_tick")      # statement order of the whole queueScanLoop tick (Tie.TickLoop)
    gen_ok = gen_ok and gen_ok2
    for spec in c04opts.SPECS:           # nsqd.New's msg-timeout check, writers/readers of clientV2.MsgTimeout (audit A12)
        ctx.gen(spec)
    ctx.assumptions += c04opts.ASSUMPTIONS
    ctx.trusted += c04opts.TRUSTED
    ok, log = ctx.lean_build(TIE + PROPS)
    if not ok:
        ctx.lean_obligation_failed("lake build " + " ".join(TIE + PROPS), log[-1500:])
    ctx.lean_audit(PROPS, TIE)
    if ctx.thorough():
        ctx.leanchecker(PROPS)
    ctx.build_driver("e1")
    corr_broken = []
    H = "e1/e1_helpers_test.go"
    binp = ctx.go_test_binary("nsqd", [H, "e1/num_test.go", "e1/num_ms_test.go", "e1/timing_test.go"], "e1c04")
    extra_bins = []
    if not binp:
        # white-box parts may stop compiling when internals change: fall back to what still builds
        ctx.broken_ties.append("the full harness (e1/num_test.go + num_ms_test.go + timing_test.go) does not compile "
                               "against the current tree")
        corr_broken.append("white-box harness build")
        binp = ctx.go_test_binary("nsqd", [H, "e1/num_test.go", "e1/timing_test.go"], "e1c04b")
        if not binp:
            binp = ctx.go_test_binary("nsqd", [H, "e1/num_test.go"], "e1c04c")
            tb = ctx.go_test_binary("nsqd", [H, "e1/timing_test.go"], "e1c04d")
            if binp and tb:
                extra_bins.append(tb)
            elif tb:
                binp = tb
    if not binp:
        ctx.broken_ties.append("no part of the C04 harness compiles against the current tree")
        corr_broken.append("harness build")
    elif ctx.replay_in:
        num_ops = ("b10", "ms2dur", "req", "reqtcp", "dpub", "hdefer", "setmsgtimeout")
        e1util.replay(ctx, binp, [
            ("TestVerifNumCorr", "num", lambda o: o.split()[0] in num_ops and o.split()[0] != "ms2dur"),
            ("TestVerifPQCorr", "pq", lambda o: o.split()[0] in ("pq1", "pq2")),
        ], lambda o, i: num_oracle(o, i) if o.split()[0] in num_ops else pq_oracle(o, i))
        return
    else:
        run_all(ctx, binp, corr_broken, scale=1)
        if run_wall(ctx, binp, corr_broken):
            ctx.log("scan-loop refresh leg skipped: the scanner of this tree stops for good (SCANNER-STOPPED above); the leg "
                    "would only run into its 120 s timeout")
        else:
            run_refresh_leg(ctx, corr_broken)
        c04opts.run(ctx, corr_broken)    # audit A12: option pair (msg-timeout, max-msg-timeout) on a real daemon
        for b in extra_bins:
            run_all(ctx, b, corr_broken, scale=1)
            run_wall(ctx, b, corr_broken)
        # search phase: a tie or a correspondence broke but no oracle failed → look harder
        if (ctx.broken_ties or corr_broken) and not ctx.violations:
            limit = ctx.budget(60, 600)
            ctx.log("tie/correspondence broken without an oracle failure: searching other seeds for at most %d s" % limit)
            t_end = time.time() + limit
            seed0 = ctx.seed
            for s in range(1, 9):
                if time.time() > t_end - 15:
                    break
                ctx.seed = seed0 + 1000 * s
                run_all(ctx, binp, [], scale=1, search=True, t_end=t_end)
                if ctx.violations:
                    break
            ctx.seed = seed0
    if (ctx.broken_ties or corr_broken) and not ctx.violations:
        ctx.broken_without_input(ctx.broken_ties + corr_broken,
                                 "search: %d generated cases under the direct oracles (never early, nothing due "
                                 "left, range statement evaluated on every answer) found no failing input"
                                 % ctx.evaluations)


def run_all(ctx, binp, corr_broken, scale=1, search=False, t_end=None):
    corpus = ":".join(e1util.corpus_files("C04", lambda f: "numeric" in os.path.basename(f) or "num_" in os.path.basename(f)))
    plans = [
        ("TestVerifNumCorr", "num", ctx.budget(8000, 40000) * scale, {"VERIF_CORPUS": corpus}, "NUM-HIST"),
        ("TestVerifMsToDurationCorr", "ms", ctx.budget(1000, 10000) * scale, {}, None),
        ("TestVerifPQCorr", "pq", ctx.budget(60000, 400000) * scale,
         {"VERIF_CORPUS": ":".join(e1util.corpus_files("C04", lambda f: "pq" in os.path.basename(f)))}, "PQ-HIST"),
        ("TestVerifChanCorr", "chan", ctx.budget(12000, 100000) * scale, {}, "CHAN-HIST"),
        ("TestVerifUniqCorr", "uniq", ctx.budget(6000, 40000) * scale, {}, None),
    ]
    for test, stream, n, env, tag in plans:
        tmo = ctx.budget(400, 1500)
        if t_end is not None:
            if time.time() > t_end - 5:
                return
            tmo = max(10, int(t_end - time.time()))
        ok, ops, impl, out = e1util.run_corr(ctx, binp, test, stream, n, env, timeout=tmo)
        if t_end is not None and not ok:
            continue  # (cut short by the search budget)
        ctx.log("%s: %d cases" % (test, len(ops)))
        if "no tests to run" in out:
            continue  # that harness file is not part of the binary (fallback build)
        if not ok:
            corr_broken.append("%s exit" % test)
            continue
        if tag:
            ctx.corr.setdefault("histograms", {})[stream] = e1util.histogram(out, tag)
        for l in out.splitlines():
            if l.startswith("ORACLE-FAIL"):
                ctx.violation(oracle_key(stream, l), l, "harness %s seed %s\n%s\n" % (test, ctx.seed, l))
        model = e1util.model_of(ctx, stream)
        ncorpus = 0
        nedge = 0  # corpus files come in corpus_files() order: plain *.ops first, then fixed/*.ops
        for f in corpus.split(":"):
            if f and os.sep + "fixed" + os.sep not in f and stream == "num":
                nedge += sum(1 for l in open(f) if l.strip() and not l.startswith("#"))
        m = re.search(r"NUM-CORPUS lines=(\d+)", out)
        if m:
            ncorpus = int(m.group(1))
            ctx.corr["corpus_replayed"] = {"files": corpus.split(":"), "lines": ncorpus,
                                           "fixed_finding": "corpus/C04/fixed/numeric_overflow.ops"}
        for k, (o, i) in enumerate(zip(ops, impl)):
            ctx.count_case(o, nontrivial=i not in ("err", "parse", "invalid", "nil", "panic", "-"))
            if stream in ("num", "ms"):
                bad = num_oracle(o, i)
                if bad:
                    key = "numeric-overflow" if k >= nedge and k < ncorpus else "num:" + norm_num_key(o, i)
                    ctx.violation(key, bad, "op: %s\nimpl: %s\n(replay: put the op line in a file and run "
                                  "TestVerifNumCorr with VERIF_CORPUS=<file>)\n" % (o, i))
            elif stream == "pq":
                bad = pq_oracle(o, i)
                if bad:
                    ctx.violation("pq:" + o.split()[0] + ":" + o.split()[1], bad, "op: %s\nimpl: %s\n" % (o, i))
        if not search:
            for o, i in list(zip(ops, impl))[:2]:
                ctx.add_sample({"op": o[:200], "impl": i[:200]}, limit=10)
        diffs = ctx.diff_lines(impl, model, stream)
        for idx, a, b in diffs:
            ctx.log("model/impl disagree on `%s`: impl=%s model=%s" % (ops[idx][:300], a[:300], b[:300]))
            corr_broken.append("correspondence %s: %s" % (stream, ops[idx][:200]))


def run_refresh_leg(ctx, corr_broken):
    """The real queueScanLoop on a private NSQD whose channel set changes while its SIZE stays the same within one
    refresh interval (channel `old` deleted, `new` created at once): on `new` an ignored in-flight message must be
    redelivered and a deferred one delivered within refresh + 10 scans + 2.1 s (E2's `scanloop` command, shared with
    C01: harness/e2/e2_live_test.go doScanLoop, corpus/C01/scan_loop_refresh.ops). Boundedly late; if the control
    channel saw nothing either the run is inconclusive (a note), never a failure."""
    import e2
    binp = ctx.go_test_binary("nsqd", e2.HARNESS, "e2c04")
    if not binp:
        ctx.log("the E2 harness (scanloop leg) does not compile against the current tree")
        corr_broken.append("scan-loop refresh leg: harness build")
        return
    script = os.path.join(ROOT, "corpus", "C01", "scan_loop_refresh.ops")
    for k in range(ctx.budget(1, 3)):
        rc, out = e2.harness_run(ctx, binp, ctx.work, "TestVerifE2Replay",
                                 {"VERIF_E2_SCRIPT": script, "VERIF_E2_NAME": "c04refresh", "VERIF_SEED": ctx.seed + 100 * k}, 120)
        fails, hist, done = e2.parse_log(out)
        if done is None:
            ctx.log("scan-loop refresh leg did not complete (rc=%s):\n%s" % (rc, out[-1200:]))
            corr_broken.append("scan-loop refresh leg exit %s" % rc)
            return
        ctx.evaluations += 1
        ctx.corr.setdefault("scan_loop_refresh", []).append({"seed": ctx.seed + 100 * k, "failures": [f["key"] for f in fails]})
        for l in out.splitlines():
            if l.startswith("NOTE"):
                ctx.notes.append(l)
        late = [f for f in fails if f["key"] in ("missed-timeout", "missed-defer", "sched")]
        for f in late:
            ctx.violation("scanloop-refresh:" + f["key"], f["what"],
                          "# ./check C04 --tier quick ; E2 command script (real queueScanLoop, channel replaced within one refresh interval):\n"
                          + open(script).read())
        if late:
            return


def run_wall(ctx, binp, corr_broken):
    """Client-side wall-clock scenarios (DPUB, REQ, msg_timeout, TOUCH with cap) on a daemon with the
    default scan interval: only EARLY delivery is a failure; lateness is measured and reported.
    Returns True iff the dirty-scan-loop leg reported SCANNER-STOPPED (legs that wait for the scanner are then skipped)."""
    # first (about 1 s): the real queueScanLoop with its dirty loop open (1 busy + 2 idle channels). A scanner that stops for
    # good is reported here, with a replay, instead of by the wall-clock scenarios waiting 300 s for a message that never comes.
    scanner_stopped = run_scan_dirty(ctx, binp, corr_broken)
    if scanner_stopped:
        ctx.log("TestVerifWallClock skipped: TestVerifScanLoopDirty reported SCANNER-STOPPED (queueScanLoop releases nothing any "
                "more on this tree; every wall-clock scenario would only wait for its 300 s timeout)")
        rc, out = 0, ""
    else:
        rc, out = ctx.run_cmd([binp, "-test.run", "^TestVerifWallClock$", "-test.count=1", "-test.timeout=300s"],
                              timeout=330, env={"VERIF_SEED": ctx.seed, "VERIF_N": ctx.budget(1, 5), "VERIF_OUT": ctx.work})
    if "no tests to run" in out:
        return scanner_stopped
    for l in out.splitlines():
        if l.startswith("ORACLE-FAIL"):
            ctx.violation("wall-oracle:EARLY", l, "TestVerifWallClock seed %s\n%s\n" % (ctx.seed, l))
    # the real queueScanLoop/queueScanWorker under sustained in-flight timeouts on one of several channels
    for k in range(ctx.budget(1, 4)):
        rc3, out3 = ctx.run_cmd([binp, "-test.run", "^TestVerifScanLoop$", "-test.count=1", "-test.timeout=120s"],
                                timeout=150, env={"VERIF_SEED": ctx.seed + 100 * k, "VERIF_OUT": ctx.work})
        if "no tests to run" in out3:
            break
        bad = [l for l in out3.splitlines() if l.startswith("ORACLE-FAIL")]
        for l in bad:
            ctx.violation("scanloop-oracle:" + l.split()[1].rstrip(":"), l, "TestVerifScanLoop with VERIF_SEED=%s\n%s\n"
                          % (ctx.seed + 100 * k, "\n".join(bad)))
        okl3 = [l for l in out3.splitlines() if l.startswith("SCANLOOP-")]
        if okl3:
            ctx.corr.setdefault("scan_loop", []).append(okl3[0])
            ctx.evaluations += 1
            if okl3[0].startswith("SCANLOOP-INCONCLUSIVE"):
                ctx.notes.append(okl3[0])
        elif not bad:
            ctx.log("TestVerifScanLoop did not complete (rc=%s):\n%s" % (rc3, out3[-1500:]))
            corr_broken.append("scan-loop harness exit %s" % rc3)
        if bad:
            break
    # fixed finding scan-window-requeue (F16): replayed on every run, must not reproduce
    rc4, out4 = ctx.run_cmd([binp, "-test.run", "^TestVerifScanWindowReplay$", "-test.count=1", "-test.timeout=120s"],
                            timeout=150, env={"VERIF_SEED": ctx.seed, "VERIF_OUT": ctx.work})
    m4 = re.search(r"^SCANWINDOW reproduced=(\w+).*$", out4, re.M)
    if m4:
        ctx.corr["scan_window_replay"] = m4.group(0)[:600]
        if m4.group(1) == "true":
            ctx.violation("scan-window-requeue", m4.group(0)[:600],
                          open(os.path.join(ROOT, "corpus", "C04", "fixed", "scan_window_requeue.ops")).read() + m4.group(0) + "\n")
    elif "no tests to run" not in out4:
        ctx.log("TestVerifScanWindowReplay did not complete (rc=%s):\n%s" % (rc4, out4[-1500:]))
        corr_broken.append("scan-window replay exit %s" % rc4)
    # fixed finding stale-heap-entry-hides-due (audit A3, fix F48 = /repo 88fd245): replayed on every run, must not reproduce (VIOLATION if it does)
    rc5, out5 = ctx.run_cmd([binp, "-test.run", "^TestVerifStaleHeapReplay$", "-test.count=1", "-test.timeout=120s"],
                            timeout=150, env={"VERIF_SEED": ctx.seed, "VERIF_OUT": ctx.work})
    m5 = re.search(r"^STALEHEAP reproduced=(\w+).*$", out5, re.M)
    if m5:
        ctx.corr["stale_heap_replay"] = m5.group(0)[:700]
        if m5.group(1) == "true":
            ctx.violation("stale-heap-entry-hides-due", m5.group(0)[:700],
                          open(os.path.join(ROOT, "corpus", "C04", "fixed", "stale_heap_entry.ops")).read() + m5.group(0) + "\n")
    elif "no tests to run" not in out5:
        ctx.log("TestVerifStaleHeapReplay did not complete (rc=%s):\n%s" % (rc5, out5[-1500:]))
        corr_broken.append("stale-heap replay exit %s" % rc5)
    rc2, out2 = ctx.run_cmd([binp, "-test.run", "^TestVerifTouchTCP$", "-test.count=1", "-test.timeout=300s"],
                            timeout=330, env={"VERIF_SEED": ctx.seed, "VERIF_N": ctx.budget(30, 300), "VERIF_OUT": ctx.work})
    for l in out2.splitlines():
        if l.startswith("ORACLE-FAIL"):
            ctx.violation("touchtcp-oracle:" + ("first" if "first delivery" in l else "TOUCH"), l,
                          "TestVerifTouchTCP seed %s\n%s\n" % (ctx.seed, l))
    m2 = re.search(r"TOUCHTCP-OK cases=(\d+)", out2)
    if m2:
        ctx.evaluations += int(m2.group(1))
        ctx.corr["touch_tcp"] = m2.group(0)
    elif "ORACLE-FAIL" not in out2 and "no tests to run" not in out2:
        ctx.log("TestVerifTouchTCP did not complete (rc=%s):\n%s" % (rc2, out2[-1500:]))
        corr_broken.append("touch-tcp harness exit %s" % rc2)
    okl = [l for l in out.splitlines() if l.startswith("WALL-OK")]
    if okl:
        ctx.corr["wall_clock"] = {"summary": okl[0], "late": [l for l in out.splitlines() if l.startswith("WALL-LATE")][:10]}
        m = re.search(r"scenarios=(\d+)", okl[0])
        ctx.evaluations += int(m.group(1)) if m else 0
    elif not scanner_stopped and not any(l.startswith("ORACLE-FAIL") for l in out.splitlines()):
        ctx.log("wall-clock scenarios did not complete (rc=%s):\n%s" % (rc, out[-1500:]))
        corr_broken.append("wall-clock harness exit %s" % rc)
    return scanner_stopped


def run_scan_dirty(ctx, binp, corr_broken):
    """TestVerifScanLoopDirty: real queueScanLoop, 20-25 ms interval, exactly 1 busy + 2 idle channels (33 % dirty > 25 %: the
    `goto loop` repeat is taken on every dirty tick), selection count 20 and channels+1; a requeued and a deferred message on
    the busy channel must be released. FAIL only on positive evidence (SCANNER-STOPPED: nothing released for >= max(40
    intervals, 1 s) with overdue in-flight messages while a control goroutine on a ticker of the same period ran >= 40 times;
    STARVED: in-flight timeouts of the same channel released meanwhile). Returns True iff SCANNER-STOPPED was reported."""
    stopped = False
    for k in range(ctx.budget(2, 4)):
        seed = ctx.seed + 100 * k
        rc, out = ctx.run_cmd([binp, "-test.run", "^TestVerifScanLoopDirty$", "-test.count=1", "-test.timeout=60s"],
                              timeout=90, env={"VERIF_SEED": seed, "VERIF_OUT": ctx.work})
        if "no tests to run" in out:
            break
        lines = out.splitlines()
        bad = [l for l in lines if l.startswith("ORACLE-FAIL")]
        for l in bad:
            kind = l.split()[1].rstrip(":")
            stopped = stopped or kind == "SCANNER-STOPPED"
            ctx.violation("scanloopdirty-oracle:" + kind, l,
                          "# harness/e1/timing_test.go TestVerifScanLoopDirty (real NSQD, real queueScanLoop; 1 busy + 2 idle channels)\n"
                          "# replay: VERIF_SEED=%s <e1 harness test binary> -test.run '^TestVerifScanLoopDirty$' -test.count=1\n%s\n"
                          % (seed, "\n".join(l for l in lines if l.startswith(("ORACLE-FAIL", "SCANLOOPDIRTY-")))))
        res = [l for l in lines if l.startswith(("SCANLOOPDIRTY-OK", "SCANLOOPDIRTY-INCONCLUSIVE"))]
        for l in res:
            ctx.corr.setdefault("scan_loop_dirty", []).append(l)
            ctx.evaluations += 1
            if l.startswith("SCANLOOPDIRTY-INCONCLUSIVE"):
                ctx.notes.append(l)
        for l in lines:
            if l.startswith("SCANLOOPDIRTY-NOTE"):
                ctx.log(l)
            elif l.startswith("SCANLOOPDIRTY-NOREPEAT"):
                ctx.log(l)
                ctx.notes.append(l)
        if bad:
            break
        if not res:
            ctx.log("TestVerifScanLoopDirty did not complete (rc=%s):\n%s" % (rc, out[-1500:]))
            corr_broken.append("dirty-scan-loop harness exit %s" % rc)
            break
    return stopped


def oracle_key(stream, line):
    w = line.split()
    return "%s-oracle:%s" % (stream, re.match(r"[A-Za-z/?=]*", w[1]).group(0) if len(w) > 1 else "")


def norm_num_key(op, impl):
    """Call site + class of the written number: one VIOLATION per way of failing, the first
    failing input of the class is the replay."""
    w = op.split()
    kind = w[0]
    if kind in ("ms2dur", "setmsgtimeout"):
        return kind
    s = unhex(w[1] if kind == "b10" else w[2])
    dig, v = digits_value(s)
    if not dig:
        cls = "not-a-digit-string"
    elif v >= 2 ** 64:
        cls = "beyond-64-bit"
    elif v * 10 ** 6 >= 2 ** 63:
        cls = "beyond-int64-ns"
    else:
        cls = "in-range-value"
    accepted = impl not in ("err", "parse", "range", "invalid")
    return "%s:%s:%s" % (kind, cls, "accepted" if accepted else "refused")


def digits_value(s):
    """(is a plain digit string, value) — the empty string is the empty digit string (0)."""
    if all(48 <= c <= 57 for c in s):
        return True, int(s.decode()) if s else 0
    return False, None


def num_oracle(op, impl):
    """The C04 range statement evaluated directly on the implementation's answer (independent of
    the Lean model): returns None or a description of the failure."""
    w = op.split()
    kind = w[0]
    if impl.startswith("other:") or impl in ("lost",) or impl.startswith("readerr") or impl.startswith("httperr"):
        return "unexpected outcome `%s` for `%s`" % (impl, op)
    if kind == "b10":
        dig, v = digits_value(unhex(w[1]))
        want = "ok %d" % v if dig and v < 2 ** 64 else "err"
        if impl != want:
            return "ByteToBase10(%r) answered `%s`, the number written is %s" % (unhex(w[1]), impl, want)
    elif kind == "ms2dur":
        want = min(int(w[1]) * 10 ** 6, MAXI64)
        if impl != str(want):
            return "msToDuration(%s) = %s, want %d" % (w[1], impl, want)
    elif kind in ("req", "reqtcp"):
        max_req = int(w[1])
        s = unhex(w[2])
        dig, v = digits_value(s)
        if not dig or v >= 2 ** 64:
            if impl != "err":
                return "REQ with delay %r was not refused (answer `%s`)" % (s, impl)
        else:
            want = min(v * 10 ** 6, max_req)
            if kind == "req":
                if impl != str(want):
                    return ("REQ %r (max-req-timeout %d ns) requeued with delay %s ns; min(v ms, max-req-timeout) = %d ns"
                            % (s, max_req, impl, want))
            else:
                lo, hi = int(w[3]), int(w[4])
                if impl != "ok in=true" or not (lo <= want <= hi):
                    return ("REQ %r over TCP: observed delay in [%d, %d] ns, min(v ms, max-req-timeout) = %d ns (answer `%s`)"
                            % (s, lo, hi, want, impl))
    elif kind == "dpub":
        max_req = int(w[1])
        s = unhex(w[2])
        dig, v = digits_value(s)
        if not dig or v >= 2 ** 64:
            want = "parse"
        elif v * 10 ** 6 <= max_req:
            want = str(v * 10 ** 6)
        elif max_req == MAXI64:
            return None  # the excluded configuration (dpub_saturation_corner)
        else:
            want = "range"
        if impl != want:
            return ("DPUB %r with max-req-timeout %d ns answered `%s`; by the range rule: %s"
                    % (s, max_req, impl, want))
    elif kind == "hdefer":
        max_req = int(w[1])
        s = unhex(w[2])
        want = "invalid"
        if re.fullmatch(rb"[+-]?[0-9]+", s):
            v = int(s.decode())
            if -2 ** 63 <= v < 2 ** 63 and 0 <= v and v * 10 ** 6 <= max_req:
                want = str(v * 10 ** 6)
        if impl != want:
            return ("/pub?defer=%r with max-req-timeout %d ns answered `%s`; by the range rule: %s"
                    % (s, max_req, impl, want))
    elif kind == "setmsgtimeout":
        mx, cur, v = int(w[1]), int(w[2]), int(w[3])
        if v == 0:
            want = str(cur)
        elif 1000 <= v <= mx // 10 ** 6:
            want = str(v * 10 ** 6)
        else:
            want = "invalid"
        if impl != want:
            return "SetMsgTimeout(%d) with max-msg-timeout %d ns answered `%s`, want %s" % (v, mx, impl, want)
    return None


def parse_heap(s):
    if s == "-":
        return []
    out = []
    for e in s.split(","):
        a, b, c = e.split(":")
        out.append((int(a), int(b), int(c)))
    return out


def heap_ok(es):
    return all(k == 0 or es[(k - 1) // 2][1] <= e[1] for k, e in enumerate(es)) and \
        all(e[2] == k for k, e in enumerate(es))


def pq_oracle(op, impl):
    """Heap facts evaluated on the implementation's own answer: PeekAndShift never releases an entry
    later than `max` and, from a valid heap, releases the minimum iff it is due; every operation
    keeps heap order + indices from a valid heap and neither loses nor invents an entry."""
    w = op.split()
    variant, kind = w[0], w[1]
    if kind == "push":
        before = parse_heap(w[2])
        after = parse_heap(impl) if impl not in ("panic", "nil") else None
        if after is None:
            return "%s push panicked on %s" % (variant, w[2])
        if sorted((a, b) for a, b, _ in after) != sorted([(a, b) for a, b, _ in before] + [(int(w[3]), int(w[4]))]):
            return "%s push changed the set of entries: %s -> %s" % (variant, w[2], impl)
        if heap_ok(before) and not heap_ok(after):
            return "%s push broke heap order / indices: %s -> %s" % (variant, w[2], impl)
        return None
    before = parse_heap(w[2])
    if impl in ("panic", "nil"):
        if kind == "peek" and heap_ok(before) and before and before[0][1] <= int(w[3]):
            return "%s PeekAndShift(%s) released nothing although the root %d is due (%s)" % (variant, w[3], before[0][1], w[2])
        if kind in ("pop", "remove") and impl == "panic" and before and (kind == "pop" or int(w[3]) < len(before)):
            return "%s %s panicked on a valid request (%s)" % (variant, kind, op[:200])
        return None
    x, rest = impl.split(" | ")
    xi, xp, xx = (int(v) for v in x.split(":"))
    after = parse_heap(rest)
    if kind == "peek" and xp > int(w[3]):
        return "%s PeekAndShift(%s) released an entry with deadline %d (%d early)" % (variant, w[3], xp, xp - int(w[3]))
    if sorted([(a, b) for a, b, _ in after] + [(xi, xp)]) != sorted((a, b) for a, b, _ in before):
        return "%s %s changed the set of entries: %s -> %s" % (variant, kind, w[2], impl)
    if heap_ok(before):
        if not heap_ok(after):
            return "%s %s broke heap order / indices: %s -> %s" % (variant, kind, w[2], impl)
        if kind in ("peek", "pop") and before and xp != min(b for _, b, _ in before):
            return "%s %s returned deadline %d, the minimum is %d" % (variant, kind, xp, min(b for _, b, _ in before))
        if xx != -1:
            return "%s %s left index %d on the removed entry" % (variant, kind, xx)
    return None
