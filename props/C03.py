"""C03 — RDY flow control, CLS and pause (engine E2)."""
import e2
from props import c03rdybytes

TIE = ["Nsq.Tie.Chan", "Nsq.Tie.ChanFunc"] + c03rdybytes.TIE
PROPS = ["Nsq.Props.C03", "Nsq.Props.C03Pump", "Nsq.Props.C03Pause", "Nsq.Props.C03Guard", "Nsq.Props.C03PumpBytes", "Nsq.Props.C03Bound"] + c03rdybytes.PROPS


def run(ctx):
    ctx.rule = ("correspondence: generated episodes with RDY going up and down (0, 1, 2, max, default, out of range, "
                "unparsable, >= 2^63, >= 2^64), CLS, FIN/REQ/timeouts, channel and topic pause/unpause with and without "
                "backlog, competing consumers, buffered and unbuffered output; oracle: harness-side bookkeeping outstanding = "
                "sent - answered - timed out compared with RDY at every message frame; nothing on a paused channel; no "
                "fan-out from a paused topic; RDY accepted iff 0 <= v <= max-rdy-count else fatal E_INVALID; a stalled "
                "delivery (guard true, queue non-empty, nothing sent within 8 s) is a failure; pump leg: every Write on a "
                "consumer connection (net.Pipe, output_buffer_timeout off / running / never) must be explained by the "
                "output-buffer model, nothing published after RDY 0 / pause took effect is taken or sent, a running "
                "ticker flushes within T + 1.5 s")
    ctx.assumptions += [
        "we read 'takes effect' as the pump's next evaluation of IsReadyForMessages: between a RDY decrease / CLS / pause and "
        "that evaluation at most ONE message can still be received (history level: C03Guard.every_delivery_has_its_guard / "
        "deliveries_le_guards over guard | deliverArmed op lists; overshoot_le_one and C03Pump.one_recv_per_guard are step-level facts only; "
        "replayed with hook proto.pump.afterGuard as an observation); the atomic-model theorems treat guard evaluation and send as one step",
        "C03Pump (output buffer): 'flushed by the next flusher tick' needs a running ticker (output_buffer_timeout not "
        "disabled by the client); with it disabled a buffered message waits for the next forced flush / response / heartbeat "
        "(flushed_by_next_tick states both, for a reachable pump state that has not exited); C03PumpBytes' transfer of these statements to a "
        "bounded bufio.Writer is by inspection (frameRun is a standalone fold, not proved equal to Model.Pump's output side); the ticker's period itself is wall-clock (oracle pump-late-flush: T + 1.5 s)",
        "rdy_range_full: max-rdy-count < 2^63 (an int64 option); it is about the local helper countOfValue — the statement "
        "over the bytes on the wire, on a model compared with the real RDY handler, is C03RdyBytes.rdy_range_bytes (audit A9)",
        "0 <= max-rdy-count",
    ]
    for spec in c03rdybytes.SPECS:       # translated ByteToBase10 (Tie.Num) under C03RdyBytes.rdy_range_bytes
        ctx.gen(spec)
    res, broken = e2.run_property(ctx, "C03", TIE, PROPS)
    if not ctx.replay_in:
        c03rdybytes.run(ctx, broken)     # audit A9: the real RDY handler on generated spellings of the count
    if (ctx.broken_ties or broken) and not ctx.violations:
        ctx.broken_without_input(ctx.broken_ties + broken,
                                 "search: %d generated op lines and the concurrent leg found no delivery beyond RDY, on a "
                                 "paused channel or after CLS" % ctx.evaluations)
