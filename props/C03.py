"""C03 — RDY flow control, CLS and pause (engine E2)."""
import e2

TIE = ["Nsq.Tie.Chan"]
PROPS = ["Nsq.Props.C03"]


def run(ctx):
    ctx.rule = ("correspondence: generated episodes with RDY going up and down (0, 1, 2, max, default, out of range, "
                "unparsable, >= 2^63, >= 2^64), CLS, FIN/REQ/timeouts, channel and topic pause/unpause with and without "
                "backlog, competing consumers, buffered and unbuffered output; oracle: harness-side bookkeeping outstanding = "
                "sent - answered - timed out compared with RDY at every message frame; nothing on a paused channel; no "
                "fan-out from a paused topic; RDY accepted iff 0 <= v <= max-rdy-count else fatal E_INVALID; a stalled "
                "delivery (guard true, queue non-empty, nothing sent within 8 s) is a failure")
    ctx.assumptions += [
        "atomic model: the pump's guard evaluation and its send are one step; the one-message overshoot after a RDY "
        "decrease / CLS / pause that the pump has not yet evaluated is not modelled (docs/C03.md)",
        "rdy_range_full: max-rdy-count < 2^63 (an int64 option)",
        "0 <= max-rdy-count",
    ]
    res, broken = e2.run_property(ctx, "C03", TIE, PROPS)
    if (ctx.broken_ties or broken) and not ctx.violations:
        ctx.broken_without_input(ctx.broken_ties + broken,
                                 "search: %d generated op lines and the concurrent leg found no delivery beyond RDY, on a "
                                 "paused channel or after CLS" % ctx.evaluations)
