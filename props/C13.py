"""C13 — stats account for every message (engine E2)."""
import e2

TIE = ["Nsq.Tie.Chan", "Nsq.Tie.ChanFunc"]
PROPS = ["Nsq.Props.C13"]


def run(ctx):
    ctx.rule = ("correspondence: after every operation the white-box counters of the affected channels/topic (depth, in-flight "
                "and deferred maps, message/requeue/timeout counts, every client's ready/in-flight/message/finish/requeue "
                "counts) are compared with the model state; every 40 operations and after each drain GET /stats in JSON and "
                "text with every topic x channel x include_clients combination is canonicalised and compared with the "
                "unfiltered JSON snapshot and with the model; oracle: conservation after the drain on the implementation's "
                "own numbers, topic message_count/message_bytes = acknowledged, no negative number")
    ctx.assumptions += [
        "client_counters (all five counters exact): atomic model; in_flight_count exact and non-negative over ALL schedules "
        "(FIN and pump micro-steps, theorems inflight_exact_full / nonneg_full, fix F13); the former F8 schedule is "
        "replayed with the hook on every run (corpus/C13/fixed/f8_fin_empty.ops)",
        "0 <= max-rdy-count",
        "quiescent moments only (the property says so): GetStats reads the counters one after the other",
    ]
    res, broken = e2.run_property(ctx, "C13", TIE, PROPS)
    if (ctx.broken_ties or broken) and not ctx.violations:
        ctx.broken_without_input(ctx.broken_ties + broken,
                                 "search: %d generated op lines with stats comparison found no counter that drifts"
                                 % ctx.evaluations)
