"""C13 — stats account for every message (engine E2)."""
import re
import e2

TIE = ["Nsq.Tie.Chan", "Nsq.Tie.ChanFunc", "Nsq.Tie.PubCounts"]
PROPS = ["Nsq.Props.C13", "Nsq.Props.C13Pub", "Nsq.Props.C13Full", "Nsq.Props.C13Windows", "Nsq.Props.C13Bytes", "Nsq.Props.C13Nsqd"]


def run(ctx):
    ctx.rule = ("correspondence: after every operation the white-box counters of the affected channels/topic (depth, in-flight "
                "and deferred maps, message/requeue/timeout counts, every client's ready/in-flight/message/finish/requeue "
                "counts) are compared with the model state; every 40 operations and after each drain GET /stats in JSON and "
                "text with every topic x channel x include_clients combination is canonicalised and compared with the "
                "unfiltered JSON snapshot and with the model; oracle: conservation after the drain on the implementation's "
                "own numbers, topic message_count/message_bytes = acknowledged, no negative number")
    ctx.assumptions += [
        "client_counters (all five counters exact): atomic model; in_flight_count exact and non-negative over ALL schedules "
        "(FIN and pump micro-steps, theorems inflight_exact_full / nonneg_full, fix F13); the former F8 schedule is "
        "replayed with the hook on every run (corpus/C13/fixed/f8_fin_empty.ops)",
        "0 <= max-rdy-count",
        "quiescent moments only (the property says so): GetStats reads the counters one after the other",
        "channel backend writes succeed (go-diskqueue Put returns nil): a failing write in REQ / timeout / deferred scan loses the message "
        "and, on the REQ path, leaves the consumer's in_flight_count one too high — open finding chan-backend-write-fails (audit B3), "
        "REQ 0 and timeout-scan paths replayed by TestVerifE2PutFail with an injected write error (the deferred-scan path has a Lean "
        "witness only); Lean: Model.ChanFault (putFail outcomes; a hand-written extension no driver op or tie checks), "
        "Props.C13Full.C13_full_false_put_fault / put_fault_skews_client",
        "the property's formula AS WRITTEN (no sampled-out / ephemeral-drop term) is Props.C13Full.C13_full_partial: durable channel, no "
        "sampling drop in the run; it is refuted with a sampling consumer (C13_full_false_sampling) and on a full #ephemeral queue "
        "(C13_full_false_ephemeral) — channel_conservation carries the two extra terms",
    ]
    ctx.assumptions += [
        "producers (audit B26): pub_counts of one connection; the Go map c.pubCounts is one iteration order of an association list with "
        "distinct keys and every theorem of Props.C13Pub is stated for every order; uint64 counts read as Nat (no 2^64 wrap); the "
        "unfiltered answer is complete on this tree (pub_counts_full_this_tree / pub_counts_complete_fixed: F49 = /repo 6fb5d96 is committed and "
        "Tie.PubCounts.statsPubCounts_eq accepts ONLY its loop shape) — the loop with the unconditional break (the tree before F49) is refuted "
        "(pub_counts_full_false_with_break) and replayed by TestVerifE2PubCounts on every run (finding stats-pubcounts-break, listed fixed: a "
        "reproduction is a VIOLATION)",
    ]
    ctx.gen("e2_pubcounts")     # pub_counts loop of clientV2.Stats + PublishedMessage (Nsq.Tie.PubCounts)
    res, broken = e2.run_property(ctx, "C13", TIE, PROPS)
    run_putfail(ctx, broken)
    run_pubcounts(ctx, broken)
    if (ctx.broken_ties or broken) and not ctx.violations:
        ctx.broken_without_input(ctx.broken_ties + broken,
                                 "search: %d generated op lines with stats comparison found no counter that drifts"
                                 % ctx.evaluations)


def run_putfail(ctx, broken):
    """open finding chan-backend-write-fails (audit B3): the injected backend write error on the real code, every run"""
    binp = ctx.go_test_binary("nsqd", ["e2/e2_putfail_test.go"], "e2pf")
    if not binp:
        ctx.log("the put-fail leg does not compile against the current tree")
        broken.append("put-fail leg does not compile")
        return
    rc, out = ctx.run_cmd([binp, "-test.run", "^TestVerifE2PutFail$", "-test.count=1", "-test.timeout=120s"],
                          timeout=150, env={"VERIF_SEED": ctx.seed, "VERIF_OUT": ctx.work})
    lines = [l for l in out.splitlines() if l.startswith("PUTFAIL ")]
    ctx.corr["putfail_replay"] = [l[:400] for l in lines]
    if not lines and "no tests to run" not in out:
        ctx.log("TestVerifE2PutFail did not complete (rc=%s):\n%s" % (rc, out[-1500:]))
        broken.append("put-fail leg exit %s" % rc)
    for l in lines:
        ctx.evaluations += 1
        if re.search(r"reproduced=true", l):
            ctx.violation("chan-backend-write-fails", l[:400],
                          open(e2.os.path.join(e2.ROOT, "corpus", "C13", "known", "chan_backend_write_fails.ops")).read() + l + "\n")


def run_pubcounts(ctx, broken):
    """audit B26 / fix F49 (finding stats-pubcounts-break): producers publish to several topics over TCP (PUB / MPUB / DPUB), the real
    /stats is read unfiltered, per topic and as text; oracle on the implementation's output. Every run."""
    binp = ctx.go_test_binary("nsqd", ["e2/e2_pubcounts_test.go"], "e2pc")
    if not binp:
        ctx.log("the pub-counts leg does not compile against the current tree")
        broken.append("pub-counts leg does not compile")
        return
    rc, out = ctx.run_cmd([binp, "-test.run", "^TestVerifE2PubCounts$", "-test.count=1", "-test.timeout=120s"],
                          timeout=150, env={"VERIF_SEED": ctx.seed, "VERIF_OUT": ctx.work})
    lines = [l for l in out.splitlines() if l.startswith("PUBCOUNTS ")]
    ctx.corr["pubcounts_replay"] = [l[:600] for l in out.splitlines() if l.startswith("PUBCOUNTS")]
    if len(lines) < 2 or rc != 0:
        ctx.log("TestVerifE2PubCounts did not complete (rc=%s):\n%s" % (rc, out[-1500:]))
        broken.append("pub-counts leg exit %s" % rc)
    script = open(e2.os.path.join(e2.ROOT, "corpus", "C13", "known", "pub_counts_break.ops")).read()
    for l in lines:
        ctx.count_case(l, nontrivial="," in l.split("expected=", 1)[-1].split(" ", 1)[0])
        # key: the known shape (a strict subset of the topics, every listed count right) or anything else
        if re.search(r"\bwrong=true\b", l):
            ctx.violation("stats-pubcounts-wrong", l[:600], script + "# VERIF_SEED=%s\n%s\n" % (ctx.seed, l))
        if re.search(r"\breproduced=true\b", l):
            ctx.violation("stats-pubcounts-break", l[:600], script + "# VERIF_SEED=%s\n%s\n" % (ctx.seed, l))
