"""C09 — nsqd TCP protocol: every input gets its defined answer; limits hold (engine E3).

Also holds the E3 helpers shared with props/C10.py (driver run with the encoding/json oracle loop,
the direct limit oracle evaluated on the implementation's own answers)."""
import json
import os
import re
import struct
from framework import REPO, ROOT

TIE = ["Nsq.Tie.Proto", "Nsq.Tie.ProtoBase10", "Nsq.Tie.ProtoFunc", "Nsq.Tie.ProtoIdentify", "Nsq.Tie.NamesFn"]
PROPS = ["Nsq.Props.C09", "Nsq.Props.C09Identify"]
TIE_AUDIT = ["Nsq.Tie.ProtoAudit"]          # audit round 7 (C09 only; props/C10.py uses TIE / HARNESS above)
PROPS_AUDIT = ["Nsq.Props.C09Audit", "Nsq.Props.C09Batch", "Nsq.Props.C09Agree"]
HARNESS_AUDIT = ["e3/audit09_test.go"]
HARNESS = ["e3/infra_test.go", "e3/proto_test.go", "e3/http_test.go", "e3/httpfull_test.go", "e3/identify_test.go"]
NAME_RE = re.compile(rb"^[.a-zA-Z0-9_-]+(#ephemeral)?$")


# ----------------------------------------------------------------------------- shared E3 helpers
def unhex(s):
    return b"" if s == "-" else bytes.fromhex(s)


def parse_confs(ops):
    confs = {}
    for o in ops:
        w = o.split()
        if w and w[0] == "conf":
            k = ["maxMsg", "maxBody", "maxRdy", "maxReqNs", "maxHbMs", "minObtMs", "maxObtMs", "maxObSize",
                 "maxMtMs", "tlsGate", "tlsConf", "deflate", "snappy", "hbNs", "obtNs", "mtNs", "httpTls"]
            confs[w[1]] = {n: int(v) for n, v in zip(k, w[2:2 + len(k)])}
    return confs


def run_driver(ctx, binp, ops_path, tag):
    """Replay the ops through the Lean driver. IDENTIFY bodies the model wants decoded are handed to
    the real encoding/json (harness TestVerifE3Json) and fed back as `json` ops, until none is
    missing. Returns the model's answer lines (aligned with the ops)."""
    ops = open(ops_path).read().splitlines()
    extra = []
    for it in range(12):
        p = os.path.join(ctx.work, "%s.run%d.ops" % (tag, it))
        with open(p, "w") as f:
            f.write("\n".join(extra + ops) + "\n")
        rc, out = ctx.driver("e3", stdin_path=p, timeout=3000)
        model = out.splitlines()[len(extra):]
        need = sorted({m.split()[1] for m in model if m.startswith("need-json ")})
        if not need:
            ctx._e3_json = extra
            return model
        jin, jout = os.path.join(ctx.work, tag + ".need"), os.path.join(ctx.work, tag + ".got")
        with open(jin, "w") as f:
            f.write("\n".join(need) + "\n")
        rc, o = ctx.run_cmd([binp, "-test.run", "^TestVerifE3Json$", "-test.count=1"], timeout=600,
                            env={"VERIF_JSON_IN": jin, "VERIF_JSON_OUT": jout})
        if rc != 0:
            ctx.log("json oracle failed:\n" + o[-1500:])
            return model
        extra += open(jout).read().splitlines()
        ctx.corr.setdefault("json_oracle_rounds", {})[tag] = it + 1
    return model


def parse_broker(b):
    """B=<...> of an answer line -> list of (name, paused, count, [(len, defer)], [(cname, paused, clients, [(len, defer)])])"""
    out = []
    if b == "-":
        return out

    def msgs(s):
        r = []
        if s == "-":
            return r
        for m in s.split(","):
            if m.startswith("!"):
                r.append((None, None))
                continue
            body, d = m.rsplit("~", 1)
            ln = int(body[1:].split(".")[0]) if body.startswith("#") else (0 if body == "-" else len(body) // 2)
            r.append((ln, int(d)))
        return r
    for t in b.split("/"):
        f = t.split(":")
        if len(f) < 5:
            out.append((None, 0, 0, [], []))
            continue
        chans = []
        if f[4] != "-":
            for c in f[4].split("+"):
                g = c.split(";")
                if len(g) >= 4:
                    chans.append((unhex(g[0]), int(g[1]), int(g[2]), msgs(g[3])))
        out.append((unhex(f[0]), int(f[1]), int(f[2]), msgs(f[3]), chans))
    return out


def limits_fail(impl, conf):
    """The limits of C09/C10 evaluated directly on what the implementation holds after an op
    (white-box snapshot): names grammatical, every queued body in [1, max-msg-size], every delay in
    [0, max-req-timeout], RDY and the negotiated values in range. Independent of the Lean model."""
    f = dict(x.split("=", 1) for x in impl.split() if "=" in x)
    if f.get("E") in ("panic", "hang"):
        return "panic", "the connection handler %s" % f.get("E")
    for (name, _p, count, ms, chans) in parse_broker(f.get("B", "-")):
        if name is None:
            continue
        if not (1 <= len(name) <= 64 and NAME_RE.match(name)):
            return "bad-name", "a topic named %r exists" % name
        allm = list(ms)
        for (cn, _cp, _cl, cms) in chans:
            if not (1 <= len(cn) <= 64 and NAME_RE.match(cn)):
                return "bad-name", "a channel named %r exists" % cn
            allm += cms
        for (ln, d) in allm:
            if ln is None:
                continue
            if ln < 1 or ln > conf["maxMsg"]:
                return "bad-size", "a message of %d bytes is queued (limit %d)" % (ln, conf["maxMsg"])
            if d < 0 or d > conf["maxReqNs"]:
                return "bad-defer", "a message deferred by %d ns is queued (max-req-timeout %d ns)" % (d, conf["maxReqNs"])
    s = f.get("S", "-")
    if s != "-":
        st, hb, obs, obt, sr, mt, rdy = s.split(",")
        hb, obs, obt, sr, mt, rdy = map(int, (hb, obs, obt, sr, mt, rdy))
        if rdy < 0 or rdy > conf["maxRdy"]:
            return "bad-rdy", "ready count %d accepted (max-rdy-count %d)" % (rdy, conf["maxRdy"])
        if not (hb in (0, conf["hbNs"]) or 1000 * 10**6 <= hb <= conf["maxHbMs"] * 10**6):
            return "bad-heartbeat", "heartbeat interval %d ns accepted" % hb
        if not (obs in (1, 16384) or 64 <= obs <= conf["maxObSize"]):
            return "bad-outbuf", "output buffer size %d accepted" % obs
        if not (obt in (0, conf["obtNs"]) or conf["minObtMs"] * 10**6 <= obt <= conf["maxObtMs"] * 10**6):
            return "bad-outbuf-timeout", "output buffer timeout %d ns accepted" % obt
        if not 0 <= sr <= 99:
            return "bad-sample-rate", "sample rate %d accepted" % sr
        if not (mt == conf["mtNs"] or 1000 * 10**6 <= mt <= conf["maxMtMs"] * 10**6):
            return "bad-msg-timeout", "msg timeout %d ns accepted" % mt
    return None


def first_command_fail(op, impl, conf):
    """Exact-arithmetic oracle for the first command of a connection (Python big integers, no
    model): a DPUB delay / RDY count written in decimal, however long, must not be accepted unless
    the number itself is in range; an accepted MPUB must not consume more than its declared size."""
    w = op.split()
    if len(w) != 3 or w[0] != "io":
        return None
    stream = unhex(w[2])
    f = dict(x.split("=", 1) for x in impl.split() if "=" in x)
    replies = [] if f.get("R", "-") == "-" else f["R"].split(",")
    if not stream.startswith(b"  V2"):
        if len(stream) >= 4 and (replies != ["E_BAD_PROTOCOL"] or f.get("E") != "closed"):
            return "bad-magic", "protocol magic %r answered %s / %s instead of E_BAD_PROTOCOL and close" % (
                stream[:4], replies, f.get("E"))
        return None
    rest = stream[4:]
    pre_ok = 0
    m = re.match(rb"SUB ([.a-zA-Z0-9_#-]+) ([.a-zA-Z0-9_#-]+)\n", rest)
    if m:  # "SUB t c" then the command under test
        rest = rest[m.end():]
        pre_ok = 1
    nl = rest.find(b"\n")
    if nl < 0:
        return None
    ps = rest[:nl].rstrip(b"\r").split(b" ")
    after = rest[nl + 1:]
    ans = replies[pre_ok] if len(replies) > pre_ok else None
    if pre_ok and (not replies or replies[0] != "OK"):
        return None
    if ps[0] == b"IDENTIFY" and not pre_ok and ans in ("OK", "JSON") and len(after) >= 4:
        n = struct.unpack(">i", after[:4])[0]
        try:
            d = json.loads(after[4:4 + n].decode("utf-8")) if 0 < n <= len(after) - 4 else None
        except Exception:
            d = None
        if isinstance(d, dict):
            rng = {"heartbeat_interval": ((-1, 0), 1000, conf["maxHbMs"]),
                   "output_buffer_timeout": ((-1, 0), conf["minObtMs"], conf["maxObtMs"]),
                   "output_buffer_size": ((-1, 0), 64, conf["maxObSize"]),
                   "msg_timeout": ((0,), 1000, conf["maxMtMs"]),
                   "sample_rate": ((), 0, 99)}
            for k, (special, lo, hi) in rng.items():
                v = d.get(k)
                if isinstance(v, int) and not isinstance(v, bool) and v not in special and not lo <= v <= hi:
                    return "identify-range", "IDENTIFY %s=%d accepted (documented: %s or %d..%d)" % (
                        k, v, list(special), lo, hi)
    if ps[0] == b"DPUB" and len(ps) >= 3 and ps[2].isdigit() and ans == "OK":
        if int(ps[2]) * 10**6 > conf["maxReqNs"] and conf["maxReqNs"] < 2**63 - 1:
            return "numeric-overflow", "DPUB delay %s ms accepted (max-req-timeout %d ns)" % (ps[2].decode(), conf["maxReqNs"])
    if ps[0] == b"RDY" and len(ps) >= 2 and ps[1].isdigit() and pre_ok and f.get("E") == "eof":
        if int(ps[1]) > conf["maxRdy"] and ans is None:
            return "numeric-overflow", "RDY %s accepted (max-rdy-count %d)" % (ps[1].decode(), conf["maxRdy"])
    if ps[0] == b"MPUB" and len(ps) >= 2 and ans == "OK" and len(after) >= 8:
        declared = struct.unpack(">i", after[:4])[0]
        count = struct.unpack(">i", after[4:8])[0]
        pos, ok = 8, True
        for _ in range(max(count, 0)):
            if pos + 4 > len(after):
                ok = False
                break
            sz = struct.unpack(">i", after[pos:pos + 4])[0]
            pos += 4 + max(sz, 0)
        if ok and pos - 4 > declared:
            return "mpub-declared-size", "MPUB declared a body of %d bytes, %d were consumed and accepted" % (declared, pos - 4)
    return None


def http_fail(op, impl, conf):
    """Direct size oracle for HTTP publishes (no model): an accepted /pub body is within
    max-msg-size, an accepted /mpub body within max-body-size."""
    w = op.split()
    if len(w) != 8 or w[0] != "http" or w[2] != "POST":
        return None
    f = dict(x.split("=", 1) for x in impl.split() if "=" in x)
    if f.get("H") != "200":
        return None
    path, query, cl, body = unhex(w[3]), unhex(w[4]), int(w[5]), unhex(w[6])
    if path == b"/pub" and not 1 <= len(body) <= conf["maxMsg"]:
        return "http-pub-size", "/pub accepted a body of %d bytes (max-msg-size %d)" % (len(body), conf["maxMsg"])
    if path == b"/mpub" and len(body) > conf["maxBody"]:
        if b"binary=" in query and b"binary=false" not in query and b"binary=0" not in query:
            # binary: what counts is the batch that was decoded (trailing bytes are never read)
            pos = 4
            if len(body) >= 4:
                for _ in range(max(struct.unpack(">i", body[:4])[0], 0)):
                    if pos + 4 > len(body):
                        break
                    pos += 4 + max(struct.unpack(">i", body[pos:pos + 4])[0], 0)
            if pos > conf["maxBody"]:
                return "mpub-chunked-size", "binary /mpub (Content-Length %d) accepted a batch of %d bytes (max-body-size %d)" % (
                    cl, pos, conf["maxBody"])
            return None
        return "http-mpub-size", "/mpub accepted a body of %d bytes (max-body-size %d)" % (len(body), conf["maxBody"])
    return None


def spec_oracle(ctx, ops, impl, model_json_lines):
    """Direct oracle against the declarative table (Nsq.Spec.ProtoSpec.allowed, evaluated by the
    driver's `spec` op — not the model): the implementation's answer to the first command of every
    connection must be one the table allows, and close the connection exactly when the table says so."""
    confs = [o for o in ops if o.startswith("conf ")]
    idx = [i for i, o in enumerate(ops) if o.startswith("io ")]
    lines = confs + model_json_lines + ["spec " + ops[i].split(" ", 1)[1] for i in idx]
    p = os.path.join(ctx.work, "spec.ops")
    with open(p, "w") as f:
        f.write("\n".join(lines) + "\n")
    rc, out = ctx.driver("e3", stdin_path=p, timeout=3000)
    ans = out.splitlines()[len(confs) + len(model_json_lines):]
    checked = 0
    for i, a in zip(idx, ans):
        if not a.startswith("A=") or a == "A=-":
            continue
        f = dict(x.split("=", 1) for x in impl[i].split() if "=" in x)
        replies = [] if f.get("R", "-") == "-" else f["R"].split(",")
        if f.get("E") in ("upgraded", "panic", "hang"):
            continue
        ptr, bad, cmdno = 0, None, 0
        stream = unhex(ops[i].split()[2])
        for step in a[2:].split(";"):
            cmdno += 1
            allowed = [x.split("|") for x in step.split(",")]
            kinds = {r for r, _c in allowed}
            if kinds == {"-"}:
                continue                   # the table expects no frame for this command
            if "-" in kinds:
                break                      # frame or no frame: cannot attribute what follows
            checked += 1
            if ptr >= len(replies):
                bad = "command #%d got no answer; the protocol table allows %s" % (cmdno, sorted(kinds))
                break
            r = replies[ptr]
            ptr += 1
            ok = [c for rr, c in allowed if rr == r]
            last = ptr == len(replies)
            if not ok:
                bad = "command #%d answered %s; the protocol table allows %s" % (cmdno, r, sorted(kinds))
            elif all(c == "1" for c in ok) and not (last and f.get("E") == "closed"):
                bad = "command #%d answered %s (fatal) but the connection went on (%s)" % (cmdno, r, impl[i][:80])
            elif all(c == "0" for c in ok) and r.startswith("E_") and last and f.get("E") == "closed":
                bad = "command #%d answered the non-fatal %s and the connection was closed" % (cmdno, r)
            if bad or r.startswith("E_") and ok and ok[0] == "1":
                break
            if r == "JSON" and f.get("E") == "upgraded":
                break
        if bad:
            cmd = stream[4:].split(b"\n")[0].split(b" ")[0][:12].decode("latin1")
            key = "answer:" + re.sub(r"[^A-Za-z0-9_#]+", "_", bad.split(";")[0])[:60]
            ctx.violation(key, "%s (conf %s, first command %r)" % (bad, ops[i].split()[1], cmd),
                          "%s\n%s\n# impl: %s\n# table: %s\n" % (ops_conf_line(ops, ops[i].split()[1]), ops[i], impl[i], a))
    ctx.corr["spec_oracle_checked"] = checked


ADMIN = {b"/topic/create", b"/topic/delete", b"/topic/empty", b"/topic/pause", b"/topic/unpause",
         b"/channel/create", b"/channel/delete", b"/channel/empty", b"/channel/pause", b"/channel/unpause"}


def admin_fail(op, impl, prev_b):
    """Frame oracle for the admin endpoints on the white-box snapshots before/after (no model):
    nothing changes unless the answer is 200; topics other than the named one never change; a
    channel endpoint (other than create) leaves the topic's own queue, counter and pause flag alone
    and does not touch the topic's other channels."""
    import urllib.parse
    w = op.split()
    if len(w) != 8 or w[0] != "http" or unhex(w[3]) not in ADMIN or w[2] != "POST":
        return None
    f = dict(x.split("=", 1) for x in impl.split() if "=" in x)
    after = f.get("B", "-")
    if f.get("H") != "200":
        if after != prev_b:
            return "admin-frame", "%s answered %s but the broker changed" % (unhex(w[3]).decode(), f.get("H"))
        return None
    try:
        q = urllib.parse.parse_qs(unhex(w[4]).decode("latin1"), keep_blank_values=True, strict_parsing=False,
                                  encoding="latin1")
    except Exception:
        return None
    t = q.get("topic", [None])[0]
    if t is None:
        return None
    tkey = t.encode("latin1").hex() or "-"

    def entries(b):
        return {} if b == "-" else {e.split(":", 1)[0]: e for e in b.split("/")}
    eb, ea = entries(prev_b), entries(after)
    for k in set(eb) | set(ea):
        if k != tkey and eb.get(k) != ea.get(k):
            return "admin-frame", "%s on topic %r changed topic %r" % (unhex(w[3]).decode(), t, bytes.fromhex(k))
    path = unhex(w[3])
    # named effect of pause / unpause: the flag of the named object is what the PATH says
    if path in (b"/topic/pause", b"/topic/unpause") and tkey in ea:
        flag = ea[tkey].split(":")[1]
        if flag != ("1" if path == b"/topic/pause" else "0"):
            return "pause-effect", "%s?%s answered 200 and left the topic's pause flag at %s" % (
                path.decode(), unhex(w[4]).decode("latin1"), flag)
    if path in (b"/channel/pause", b"/channel/unpause") and tkey in ea:
        c = q.get("channel", [None])[0]
        for e in ([] if ea[tkey].split(":")[4] == "-" else ea[tkey].split(":")[4].split("+")):
            g = e.split(";")
            if c is not None and g[0] == (c.encode("latin1").hex() or "-") and g[1] != ("1" if path == b"/channel/pause" else "0"):
                return "pause-effect", "%s?%s answered 200 and left the channel's pause flag at %s" % (
                    path.decode(), unhex(w[4]).decode("latin1"), g[1])
    if path.startswith(b"/channel/") and path != b"/channel/create" and tkey in eb and tkey in ea:
        c = q.get("channel", [None])[0]
        fb, fa = eb[tkey].split(":"), ea[tkey].split(":")
        if fb[1:4] != fa[1:4]:
            return "admin-frame", "%s changed the topic's own state %s -> %s" % (path.decode(), fb[1:4], fa[1:4])
        ckey = (c or "").encode("latin1").hex()

        def chans(x):
            return {} if x == "-" else {e.split(";", 1)[0]: e for e in x.split("+")}
        cb, ca = chans(fb[4]), chans(fa[4])
        for k in set(cb) | set(ca):
            if k != ckey and cb.get(k) != ca.get(k):
                return "admin-frame", "%s on channel %r changed channel %r" % (path.decode(), c, bytes.fromhex(k))
    return None


def harness_lines(ctx, out, label):
    hist = {}
    for l in out.splitlines():
        if l.startswith("HIST "):
            parts = l.split()
            if len(parts) == 3 and parts[2].isdigit():
                hist[parts[1]] = int(parts[2])
    ctx.corr.setdefault("histogram", {})[label] = hist
    fails = [l for l in out.splitlines() if l.startswith("ORACLE-FAIL")]
    okl = [l for l in out.splitlines() if l.startswith("ORACLE-OK")]
    return fails, okl


def report_oracle_fail(ctx, line):
    m = re.match(r"ORACLE-FAIL key=(\S+) (stream|req)=(\S+) (?:conf=(\S+) )?what=(.*)", line)
    if m:
        replay = "# %s\n" % line[:600]
        if m.group(2) == "stream" and m.group(4) and m.group(3) != "-":
            replay += "reset\nio %s %s\n" % (m.group(4), m.group(3))      # replayable: ./check C09 --replay <this file>
        elif m.group(2) == "req" and m.group(3).startswith("http"):
            replay += "reset\n" + "\n".join(x.replace("|", " ") for x in m.group(3).split("||")) + "\n"
        ctx.violation(m.group(1), m.group(5)[:400], replay)
    else:
        ctx.violation("harness-oracle", line[:400], line + "\n")


def confirm_disagreement(ctx, binp, testname, name, ops, i):
    """Re-execute the history that contains op i (from its `reset`) twice on fresh nsqd instances and
    compare again. A disagreement that does not reproduce is an artefact of the run (scheduling under
    load), not of the tree: it is noted in the evidence and not counted."""
    j = i
    while j > 0 and not ops[j].startswith("reset"):
        j -= 1
    case = [o for o in ops[j:i + 1] if o.split()[0] in ("reset", "io", "http", "iof")]
    for attempt in range(2):
        d = os.path.join(ctx.work, "confirm_%s_%d_%d" % (name, i, attempt))
        os.makedirs(os.path.join(d, "corpus"), exist_ok=True)
        with open(os.path.join(d, "corpus", "00_case.ops"), "w") as f:
            f.write("\n".join(case) + "\n")
        rc, out = ctx.run_cmd([binp, "-test.run", "^%s$" % testname, "-test.count=1"], timeout=600,
                              env={"VERIF_SEED": ctx.seed, "VERIF_N": 0, "VERIF_OUT": d, "VERIF_REPO": REPO,
                                   "VERIF_CORPUS": os.path.join(d, "corpus")})
        opsf = os.path.join(d, name + ".ops")
        if rc != 0 or not os.path.exists(opsf):
            return True
        o2 = open(opsf).read().splitlines()
        i2 = open(os.path.join(d, name + ".impl")).read().splitlines()
        saved = ctx.work
        ctx.work = d
        try:
            m2 = run_driver(ctx, binp, opsf, name)
        finally:
            ctx.work = saved
        if any(a != b for a, b in zip(i2, m2)) or len(i2) != len(m2):
            return True
    return False


def compare(ctx, name, ops, impl, model, corr_broken, props_for_io=True, binp=None, testname=None):
    """Diff + direct oracles over one ops/impl/model triple."""
    confs = parse_confs(ops)
    ndiff = 0
    last_b = {}
    for i, o in enumerate(ops):
        a = impl[i] if i < len(impl) else "<missing>"
        b = model[i] if i < len(model) else "<missing>"
        w = o.split()
        if w[0] == "reset":
            last_b = {}
        if w[0] in ("io", "http"):
            ctx.count_case(o, nontrivial=("R=-" not in a))
            conf = confs.get(w[1])
            prev_b = last_b.get(w[1], "-")
            fa = dict(x.split("=", 1) for x in a.split() if "=" in x)
            last_b[w[1]] = fa.get("B", "-")
            if conf and w[0] == "http" and ctx.prop == "C10":
                badf = admin_fail(o, a, prev_b)
                if badf:
                    ctx.violation(badf[0], badf[1] + " (conf %s)" % w[1],
                                  "%s\n# broker before: %s\n%s\n# impl: %s\n# model: %s\n" % (
                                      ops_conf_line(ops, w[1]), prev_b, o, a, b))
            if conf:
                bad = limits_fail(a, conf)
                if not bad and w[0] == "io" and ctx.prop == "C09":
                    bad = first_command_fail(o, a, conf)
                if not bad and w[0] == "http" and ctx.prop == "C10":
                    bad = http_fail(o, a, conf)
                if bad:
                    ctx.violation(bad[0], bad[1] + " (conf %s)" % w[1],
                                  "%s\n%s\n# impl: %s\n# model: %s\n" % (ops_conf_line(ops, w[1]), o, a, b))
        if a != b:
            ctx.corr["disagreements_seen"] = ctx.corr.get("disagreements_seen", 0) + 1
            if binp and ndiff < 3 and w[0] in ("io", "http", "iof") and not confirm_disagreement(
                    ctx, binp, testname, name, ops, i):
                # audit B28: never dropped silently. The disagreement DID happen once: it is counted, its whole
                # history (from `reset`) is kept as a replay file, it is listed in the evidence, the direct oracles
                # above were evaluated on the implementation's answer like on any other, and more than two of
                # them in one run are not "load": the correspondence is reported broken.
                tr = ctx.corr.setdefault("unreproduced_disagreements", [])
                j = i
                while j > 0 and not ops[j].startswith("reset"):
                    j -= 1
                rp = ctx.write_replay("unreproduced_%s_%d.ops" % (name, len(tr)),
                                      "# model/impl disagreement seen once, NOT reproduced in 2 re-executions of this history\n"
                                      "# impl:  %s\n# model: %s\n%s\n" % (a[:2000], b[:2000], "\n".join(
                                          x for x in ops[j:i + 1] if x.split()[0] in ("reset", "io", "http", "iof"))))
                tr.append({"op": o[:600], "impl": a[:600], "model": b[:600], "replay": rp})
                ctx.notes.append("model/impl disagreement seen once and not reproduced in 2 re-executions of its history "
                                 "(counted in correspondence.unreproduced_disagreements, history kept in %s): %s | impl %s "
                                 "| model %s" % (rp, o[:300], a[:300], b[:300]))
                ctx.log("UNREPRODUCED-DISAGREEMENT (%d so far; history in %s): %s" % (len(tr), rp, o[:120]))
                if len(tr) > 2:
                    corr_broken.append("correspondence %s: %d disagreements that did not reproduce — the run is "
                                       "not deterministic" % (name, len(tr)))
                continue
            ndiff += 1
            if ndiff <= 5:
                ctx.log("model/impl disagree on `%s`:\n   impl  %s\n   model %s" % (o[:200], a[:300], b[:300]))
                corr_broken.append("correspondence %s: %s" % (name, o[:120]))
                if ndiff == 1:
                    ctx.corr["first_disagreement"] = {"op": o[:2000], "impl": a[:2000], "model": b[:2000]}
    ctx.diff_lines(impl, model, name)
    return ndiff


def ops_conf_line(ops, cid):
    for o in ops:
        if o.startswith("conf %s " % cid):
            return o
    return ""


def identify_leg(ctx, binp, corr_broken):
    """Round 6: IDENTIFY field by field (`idn` ops replayed through Nsq.Model.Identify.identifyFull) and the
    model-free oracle "the response document reflects exactly what was applied to the connection"."""
    N = ctx.budget(2500, 10000)
    rc, out = ctx.run_cmd([binp, "-test.run", "^TestVerifE3Identify$", "-test.count=1", "-test.timeout=3000s"],
                          timeout=3200, env={"VERIF_SEED": ctx.seed, "VERIF_N": N, "VERIF_OUT": ctx.work,
                                             "VERIF_REPO": REPO})
    fails, okl = harness_lines(ctx, out, "idn")
    for l in fails:
        report_oracle_fail(ctx, l)
    if rc != 0 or (not okl and not fails):
        ctx.log("idn harness failed (rc=%s):\n%s" % (rc, out[-3000:]))
        corr_broken.append("idn harness exit %s" % rc)
    opsf = os.path.join(ctx.work, "idn.ops")
    if not os.path.exists(opsf):
        return
    ops = open(opsf).read().splitlines()
    impl = open(os.path.join(ctx.work, "idn.impl")).read().splitlines()
    rc, mout = ctx.driver("e3", stdin_path=opsf, timeout=3000)
    model = mout.splitlines()
    ndiff = 0
    for i, o in enumerate(ops):
        a = impl[i] if i < len(impl) else "<missing>"
        b = model[i] if i < len(model) else "<missing>"
        if o.startswith("idn "):
            ctx.count_case(o, nontrivial=True)
            if i % 211 == 0:
                ctx.add_sample({"op": o, "impl": a[:300]})
        if a != b:
            ndiff += 1
            if ndiff <= 5:
                ctx.log("IDENTIFY model/impl disagree on `%s`:\n   impl  %s\n   model %s" % (o[:300], a[:400], b[:400]))
                corr_broken.append("correspondence idn: %s" % o[:160])
                if ndiff == 1:
                    ctx.corr["first_disagreement_idn"] = {"op": o[:2000], "impl": a[:2000], "model": b[:2000]}
    ctx.diff_lines(impl, model, "idn")



# ----------------------------------------------------------------------------- audit round 7
KEY_MPUB_PARTIAL = "mpub-partial-on-backend-fault"
KEY_TICKER = "ticker-option-kills-daemon"


def tree_checks_ticker_options():
    """Which shape of nsqd.New the tree has (Gen fact; Nsq.Tie.ProtoAudit.newTickerOptionChecks_shape_known
    demands the F31 shape: a24e9f3 is committed)."""
    try:
        txt = open(os.path.join(ROOT, "lean", "Nsq", "Gen", "ProtoAudit.lean")).read()
    except OSError:
        return False
    m = re.search(r"def newTickerOptionChecks : List String := \[(.*?)\]", txt, re.S)
    if not m:
        return False
    if "opts.OutputBufferTimeout <= 0" in m.group(1) and "opts.ClientTimeout/2 <= 0" in m.group(1):
        return True
    return "attempted" if m.group(1).strip() else False      # some check of these options exists, not F31's


TIE_CONNS = ["Nsq.Tie.ConnsStats"]   # what tcpServer.Handle stores in conns = what GetStats / Close assert (shared with C10)


def halfopen_leg(ctx, corr_broken):
    """TCP connections that have not completed the protocol magic (nothing sent / 1-3 bytes / a wrong magic sent
    slowly / a bare magic) while /stats is requested in every format and filter and a normal producer/consumer pair
    works; Exit with such connections open. Model-free oracles only (harness/e3/halfopen_test.go). Used by C09
    ("other clients are unaffected") and C10 (no_500). Lesson of /repo b3a615a -> 919b356."""
    if ctx.replay_in:
        return
    hbin = ctx.go_test_binary("nsqd", ["e3/halfopen_test.go"], "e3ho")
    if not hbin:
        ctx.broken_ties.append("harness e3/halfopen_test.go does not compile against the current tree")
        corr_broken.append("half-open harness build")
        return
    rc, out = ctx.run_cmd([hbin, "-test.run", "^TestVerifE3HalfOpen$", "-test.count=1", "-test.timeout=900s"],
                          timeout=1000, env={"VERIF_SEED": ctx.seed, "VERIF_N": ctx.budget(3, 12), "VERIF_OUT": ctx.work,
                                             "VERIF_REPO": REPO})
    fails, okl = harness_lines(ctx, out, "halfopen")
    seen = set()
    for l in fails:
        m = re.match(r"ORACLE-FAIL key=(\S+)", l)
        if m and m.group(1) in seen:
            continue
        seen.add(m.group(1) if m else l)
        report_oracle_fail(ctx, l)
    if "panic:" in out or "fatal error:" in out:
        ctx.violation("halfopen-panic", "the nsqd process died while half-open TCP connections existed and /stats was requested",
                      out[-4000:])
    elif rc != 0 and not fails or (not okl and not fails):
        ctx.log("half-open harness failed (rc=%s):\n%s" % (rc, out[-3000:]))
        corr_broken.append("half-open harness exit %s" % rc)
    m = re.search(r"ORACLE-OK halfopen requests=(\d+) rounds=(\d+)", out)
    if m:
        ctx.evaluations += int(m.group(1))
        ctx.corr["halfopen"] = m.group(0)
        for k in range(int(m.group(2))):
            ctx.count_case("halfopen round %d seed %s" % (k, ctx.seed), nontrivial=True)


def ticker_leg(ctx, binp, corr_broken):
    """B8: the two option values messagePump hands to time.NewTicker, each in a SUBPROCESS (the daemon may
    die). Model: Nsq.Model.ProtoEnv.firstConnection true o (F31 = /repo a24e9f3 is committed: the model is the CHECKED one
    whatever the probe of the source says; a tree without the checks breaks the tie and dies here: VIOLATION)."""
    shape = tree_checks_ticker_options()
    checked = True
    ctx.corr["tree_checks_ticker_options"] = shape
    if shape is not True:
        corr_broken.append("nsqd.New no longer has F31's two ticker-option checks (probe: %s)" % shape)
    cases = [("defaults", {}, "alive"),
             ("output-buffer-timeout=0", {"VERIF_OBT": "0"}, "bad"),
             ("output-buffer-timeout=-1s", {"VERIF_OBT": "-1000000000"}, "bad"),
             ("client-timeout=1ns", {"VERIF_CT": "1"}, "bad"),
             ("client-timeout=2ns", {"VERIF_CT": "2"}, "alive")]
    res = {}
    for label, env, kind in cases:
        e = {"VERIF_TICKER_CHILD": "1", "VERIF_REPO": REPO}
        e.update(env)
        rc, out = ctx.run_cmd([binp, "-test.run", "^TestVerifE3TickerChild$", "-test.count=1", "-test.timeout=60s"],
                              timeout=90, env=e)
        line = next((l for l in out.splitlines() if l.startswith("TICKER ")), "")
        died = rc != 0 and "non-positive interval" in out
        got = "died" if died else ("refused" if line.startswith("TICKER refused") else
                                   ("alive" if line.startswith("TICKER alive") else "other:" + (line or out[-200:])))
        res[label] = got
        ctx.count_case("ticker " + label, nontrivial=True)
        want = "alive" if kind == "alive" else ("refused" if checked else "died")   # the model's answer
        if got == "died":
            what = ("nsqd started with --%s and the first TCP connection killed the whole daemon (panic: non-positive "
                    "interval for NewTicker in protocolV2.messagePump, a goroutine nothing recovers)" % label)
            replay = "# subprocess: TestVerifE3TickerChild with %s\n# output tail:\n# %s\n" % (
                env, "\n# ".join(out[-1200:].splitlines()))
            if shape:
                ctx.violation(KEY_TICKER + "-regressed", "nsqd.New checks these options (%s) but " % (
                    "F31" if shape is True else "not the way F31 does") + what, replay)
            else:
                ctx.violation(KEY_TICKER, what, replay)
        if got != want:
            ctx.log("ticker options `%s`: the daemon %s, the model says %s" % (label, got, want))
            corr_broken.append("ticker options %s: %s (model: %s)" % (label, got, want))
    ctx.corr["ticker_options"] = res


def audit_leg(ctx, binp, corr_broken):
    """Audit round 7: driver op `iox` (Nsq.Model.ProtoEnv) against harness/e3/audit09_test.go — consumer limit
    reached by connections held open, a write-failing topic backend, a real auth server, compression
    negotiation — with a concurrent bystander and the committed .xops replays (known finding first)."""
    corpus = os.path.join(ctx.work, "corpus_x")
    os.makedirs(corpus, exist_ok=True)
    n = 0
    for sub in ("known", "fixed", ""):
        d = os.path.join(ROOT, "corpus", "C09", sub)
        if os.path.isdir(d):
            for fn in sorted(os.listdir(d)):
                if fn.endswith(".xops"):
                    n += 1
                    with open(os.path.join(corpus, "%02d_%s_%s" % (n, sub or "min", fn)), "w") as f:
                        f.write(open(os.path.join(d, fn)).read())
    N = ctx.budget(700, 5000)
    rc, out = ctx.run_cmd([binp, "-test.run", "^TestVerifE3Audit09$", "-test.count=1", "-test.timeout=3000s"],
                          timeout=3200, env={"VERIF_SEED": ctx.seed, "VERIF_N": N, "VERIF_OUT": ctx.work,
                                             "VERIF_REPO": REPO, "VERIF_CORPUS": corpus})
    fails, okl = harness_lines(ctx, out, "audit")
    for l in fails:
        report_oracle_fail(ctx, l)
    if rc != 0 or (not okl and not fails):
        ctx.log("audit harness failed (rc=%s):\n%s" % (rc, out[-3000:]))
        corr_broken.append("audit harness exit %s" % rc)
        if "panic:" in out or "fatal error:" in out:
            last = os.path.join(ctx.work, "last.ops")
            pl = [l for l in out.splitlines() if l.startswith("panic:") or l.startswith("fatal error:")]
            ctx.violation("panic", "the nsqd process died while serving this connection: %s" % (pl[0][:200] if pl else ""),
                          "# last connection served:\n%s# output tail:\n# %s\n" % (
                              open(last).read() if os.path.exists(last) else "", "\n# ".join(out[-1500:].splitlines())))
    opsf = os.path.join(ctx.work, "audit.ops")
    if not os.path.exists(opsf):
        return
    ops = open(opsf).read().splitlines()
    impl = open(os.path.join(ctx.work, "audit.impl")).read().splitlines()
    model = run_driver(ctx, binp, opsf, "audit")
    confs = parse_confs(ops)
    maxcc = {x.split()[1]: int(x.split()[2]) for x in ops if x.startswith("confx ")}
    auth_on = {x.split()[1]: x.split()[3] == "1" for x in ops if x.startswith("confx ")}
    granted = set()
    ndiff = 0
    for i, o in enumerate(ops):
        a = impl[i] if i < len(impl) else "<missing>"
        b = model[i] if i < len(model) else "<missing>"
        w = o.split()
        if w[0] == "iox" and w[5] == "b" and maxcc.get(w[1], 0) > 0:
            # direct oracle (no model): no channel ever has more consumers than --max-channel-consumers
            fa = dict(x.split("=", 1) for x in a.split() if "=" in x)
            for (tn, _p, _c, _ms, chans) in parse_broker(fa.get("B", "-")):
                for (cn, _cp, ncl, _cms) in chans:
                    if ncl > maxcc[w[1]]:
                        ctx.violation("consumer-limit-exceeded", "channel %r/%r has %d consumers (max-channel-consumers %d)" % (
                            tn, cn, ncl, maxcc[w[1]]), "%s\n# impl: %s\n# model: %s\n" % (o, a, b))
        if w[0] == "authd" and len(w) == 4 and w[3] != "-":
            granted.update(w[3].split(","))
        if w[0] == "iox":
            # direct oracles (no model): (1) the four E_*_FAILED codes of publish / subscribe are documented fatal:
            # such a frame is the last one and the connection is closed; (2) on a node with an auth server no
            # topic outside every authorization the server ever granted holds a message or a consumer
            fa = dict(x.split("=", 1) for x in a.split() if "=" in x)
            rs = [] if fa.get("R", "-") == "-" else fa["R"].split(",")
            for k, r in enumerate(rs):
                if r in ("E_PUB_FAILED", "E_MPUB_FAILED", "E_DPUB_FAILED", "E_SUB_FAILED") and (
                        k != len(rs) - 1 or fa.get("E") != "closed"):
                    ctx.violation("fatal-code-not-closing", "%s was answered and the connection went on (%s)" % (r, a[:120]),
                                  "%s\n# impl: %s\n# model: %s\n" % (o, a, b))
            if auth_on.get(w[1]) and w[5] == "b":
                for (tn, _p, cnt, ms, chans) in parse_broker(fa.get("B", "-")):
                    if tn is not None and tn.hex() not in granted and (cnt > 0 or ms or any(c[2] > 0 for c in chans)):
                        ctx.violation("unauthorized-effect", "topic %r holds messages / consumers although the auth server "
                                      "never granted it (granted: %s)" % (tn, sorted(bytes.fromhex(g) for g in granted)),
                                      "%s\n# impl: %s\n# model: %s\n" % (o, a, b))
        if w[0] in ("iox", "io"):
            ctx.count_case(o, nontrivial=("R=-" not in a))
            if i % 97 == 0 and len(o) < 300:
                ctx.add_sample({"op": o, "impl": a[:300]})
            conf = confs.get(w[1])
            if conf and (w[0] == "io" or w[5] == "b"):
                bad = limits_fail(a, conf)
                if bad:
                    ctx.violation(bad[0], bad[1] + " (conf %s)" % w[1],
                                  "%s\n%s\n# impl: %s\n# model: %s\n" % (ops_conf_line(ops, w[1]), o, a, b))
        if a != b:
            ndiff += 1
            if ndiff <= 5:
                ctx.log("audit leg: model/impl disagree on `%s`:\n   impl  %s\n   model %s" % (o[:300], a[:400], b[:400]))
                corr_broken.append("correspondence audit: %s" % o[:160])
                if ndiff == 1:
                    j = i
                    while j > 0 and not ops[j].startswith("reset"):
                        j -= 1
                    ctx.corr["first_disagreement_audit"] = {"op": o[:2000], "impl": a[:2000], "model": b[:2000],
                                                            "history": [x[:400] for x in ops[j:i + 1]]}
    ctx.diff_lines(impl, model, "audit")


# ----------------------------------------------------------------------------- the check
def run(ctx):
    ctx.trusted += [
        "translator tools/go2lean (kinds errsites, stmts, consts, calls, regex): the regenerated facts are the "
        "source text of the dispatch switch, the New(Fatal)ClientErr call sites and the guards; kind func: "
        "ByteToBase10 translated to BitVec arithmetic and proved equal to the model (Tie.ProtoBase10.byteToBase10_eq)",
        "correspondence harness harness/e3 (in-memory net.Conn feeding tcpServer.Handle/IOLoop; frame parser; "
        "white-box broker snapshot; end of connection read off the error tcp.go logs)",
        "encoding/json (IDENTIFY body → identifyDataV2) is a parameter of the model (theorems hold for every "
        "decoder); the driver is given the real decoder's answers",
        "bufio.Reader.ReadSlice / io.ReadFull semantics as modelled (16 KiB buffer: a line of more than 16384 "
        "bytes including its newline is ErrBufferFull); regexp (names: byte-wise class automaton)",
        "Go memory model: one connection's IOLoop is sequential; connections interact only through the broker",
        "TLS policy and AUTH are gate inputs of the base model (C11); in Nsq.Model.ProtoEnv (audit round 7) the gate is connection state written by AUTH and the auth server a parameter, tied against a real auth server (node A); TTL expiry stays with C11; TLS/snappy/deflate upgrades end the modelled part",
    ]
    ctx.assumptions += [
        "writes to the client succeed (write errors are I/O faults: E_*_FAILED / send errors are outside the model)",
        "base model (Props.C09): no backend write fails and no topic is exiting while a publish runs; a failing write IS an input of Nsq.Model.ProtoEnv (Props.C09Audit): mpub_all_or_nothing_partial needs `no failing write` (open finding mpub-partial-on-backend-fault), answers_independent_of_broker_partial needs --max-channel-consumers = 0",
        "options_never_kill_this_tree: no option value lets a connection kill the daemon - F31 (/repo a24e9f3) is committed, nsqd.New refuses output-buffer-timeout <= 0 and client-timeout < 2ns (C09Audit.accepted_iff; tie newTickerOptionChecks_shape_known accepts only that shape). options_never_kill_unchecked_false is about the tree BEFORE F31 (finding ticker-option-kills-daemon, listed fixed; five option settings are tried in a subprocess on every run: a dying daemon is a VIOLATION)",
        "dpub_exact: max-req-timeout below 2^63-1 ns; req_clamp: 0 <= max-req-timeout <= 2^63-1 ns; the REQ clause of `limits` is conditional on "
        "0 <= max-req-timeout; error_codes_and_classes: AuthGateOk (the auth-gate input is E_AUTH_FIRST, E_AUTH_FAILED or E_UNAUTHORIZED)",
        "C09Identify: refines_protocol_model - IDENTIFY in state init with a decoded body, connection states equal only when the reply is not "
        "E_BAD_BODY; negotiation - 1 <= max-deflate-level",
        "F10 repaired (fixes/F10_mpub_body_limit.patch): mpub_total_le_body_limit is a full theorem of the patched tree",
    ]
    ctx.rule = ("correspondence: histories `reset, io…` on four in-process nsqd configurations (small limits S, "
                "defaults D, tls-required T, compression+saturation Z); an io op is one connection's whole byte "
                "stream: grammar-generated command sequences in every order/state with boundary sizes, counts and "
                "number spellings, truncations, wrong/short magic, 16 KiB±2 lines, garbage, and mutations "
                "(bit flip, delete, insert, splice, length off-by-one, truncate); compared: reply frames + E_ "
                "codes, how the connection ended, final client state, white-box broker snapshot. A case is "
                "distinct by its op line and non-trivial when at least one frame was answered. Direct oracles: "
                "no panic/hang; probe streams (rejected publish leaves message_count/depth unchanged, accepted "
                "adds exactly its messages); limits on the implementation's own state after every op; exact "
                "big-integer check of DPUB/RDY numbers; a concurrent well-behaved producer/consumer pair")
    gen_ok, _ = ctx.gen("e3_proto")
    ctx.gen("e1_codec")   # the translated ByteToBase10 (kind func) for Nsq.Tie.ProtoBase10
    ctx.gen("e1_names")   # the translated isValidName / IsValidTopicName / IsValidChannelName (kind strfunc) for Nsq.Tie.NamesFn
    ctx.gen("e3_protofunc")   # the four clientV2 setters translated (kind pfunc) for Nsq.Tie.ProtoFunc
    ctx.gen("e3_audit09")     # PutMessages / AddClient / CheckAuth / AUTH tail / NewTicker / New option checks
    ctx.gen("e3_conns")       # tcpServer.Handle's conns.Store vs the type assertions of GetStats / Close
    ok, log = ctx.lean_build(TIE + TIE_AUDIT + TIE_CONNS + PROPS + PROPS_AUDIT)
    if not ok:
        ctx.lean_obligation_failed("lake build " + " ".join(TIE + TIE_AUDIT + TIE_CONNS + PROPS + PROPS_AUDIT), log[-1500:])
    ctx.lean_audit(PROPS + PROPS_AUDIT, TIE + TIE_AUDIT + TIE_CONNS)
    if ctx.thorough():
        ctx.leanchecker(PROPS + PROPS_AUDIT)
    corr_broken = []
    ctx.build_driver("e3")
    binp = ctx.go_test_binary("nsqd", HARNESS + HARNESS_AUDIT, "e3proto")
    if not binp:
        ctx.broken_ties.append("harness harness/e3 does not compile against the current tree")
        corr_broken.append("harness build")
    else:
        corpus = os.path.join(ctx.work, "corpus")
        os.makedirs(corpus, exist_ok=True)
        n = 0
        for sub in ("", "fixed", "known"):
            d = os.path.join(ROOT, "corpus", "C09", sub)
            if os.path.isdir(d):
                for fn in sorted(os.listdir(d)):
                    if fn.endswith(".ops"):
                        n += 1
                        with open(os.path.join(corpus, "%02d_%s_%s" % (n, sub or "min", fn)), "w") as f:
                            f.write(open(os.path.join(d, fn)).read())
        if ctx.replay_in:
            for fn in os.listdir(corpus):
                os.remove(os.path.join(corpus, fn))
            with open(os.path.join(corpus, "00_replay.ops"), "w") as f:
                f.write(open(ctx.replay_in).read())
        N = 0 if ctx.replay_in else ctx.budget(8000, 60000)
        rc, out = ctx.run_cmd([binp, "-test.run", "^TestVerifE3Proto$", "-test.count=1", "-test.timeout=3000s"],
                              timeout=3200, env={"VERIF_SEED": ctx.seed, "VERIF_N": N, "VERIF_OUT": ctx.work,
                                                 "VERIF_REPO": REPO, "VERIF_CORPUS": corpus})
        fails, okl = harness_lines(ctx, out, "proto")
        for l in fails:
            report_oracle_fail(ctx, l)
        if rc != 0 or (not okl and not fails):
            ctx.log("corr harness failed (rc=%s):\n%s" % (rc, out[-3000:]))
            corr_broken.append("corr harness exit %s" % rc)
            if "panic:" in out or "fatal error:" in out:
                last = os.path.join(ctx.work, "last.ops")
                lastops = open(last).read() if os.path.exists(last) else ""
                pl = [l for l in out.splitlines() if l.startswith("panic:") or l.startswith("fatal error:")]
                ctx.violation("panic", "the nsqd process died while serving this connection: %s" % (pl[0][:200] if pl else ""),
                              "# the daemon (test process) died; last connection served:\n%s# output tail:\n# %s\n" % (
                                  lastops, "\n# ".join(out[-1500:].splitlines())))
        opsf = os.path.join(ctx.work, "proto.ops")
        if os.path.exists(opsf):
            ops = open(opsf).read().splitlines()
            impl = open(os.path.join(ctx.work, "proto.impl")).read().splitlines()
            model = run_driver(ctx, binp, opsf, "proto")
            compare(ctx, "proto", ops, impl, model, corr_broken, binp=binp, testname="TestVerifE3Proto")
            spec_oracle(ctx, ops, impl, [l for l in ops if l.startswith("json ")] + getattr(ctx, "_e3_json", []))
            for o, i in list(zip(ops, impl)):
                if o.startswith("io ") and len(o) < 300:
                    ctx.add_sample({"op": o, "impl": i[:300]})
            if ctx.replay_in:
                for o, a, b in zip(ops, impl, model):
                    print("op    %s\n impl  %s\n model %s" % (o[:400], a[:600], b[:600]))
    if binp and not ctx.replay_in:
        identify_leg(ctx, binp, corr_broken)
        audit_leg(ctx, binp, corr_broken)
        ticker_leg(ctx, binp, corr_broken)
    halfopen_leg(ctx, corr_broken)
    if (ctx.broken_ties or corr_broken) and not ctx.violations:
        ctx.broken_without_input(ctx.broken_ties + corr_broken,
                                 "search: %d generated operations, the probe/limit/number oracles and the "
                                 "bystander client found no input on which the implementation itself breaks "
                                 "the property" % ctx.evaluations)
