"""C18 — nsqadmin's cluster view equals the sum of its parts (engine E7, DESIGN.md §5 C18)."""
import json
import os
import re
import shutil
from framework import REPO, ROOT

TIE = ["Nsq.Tie.AdminAgg"]
PROPS = ["Nsq.Props.C18"]
STREAMS = [("getv1", "^TestVerifE7GetV1$"), ("latency", "^TestVerifE7Latency$"), ("less", "^TestVerifE7Less$"),
           ("add", "^TestVerifE7Add$"),
           ("views", "^TestVerifE7Views$"),
           ("malformed", "^TestVerifE7Malformed$")]


# ----------------------------------------------------------------------------- op-line parser
class Toks:
    def __init__(self, toks):
        self.t, self.i = toks, 0

    def next(self):
        v = self.t[self.i]
        self.i += 1
        return v

    def s(self):
        v = self.next()
        return "" if v == "-" else v

    def n(self):
        return int(self.next())

    def counted(self, f):
        return [f() for _ in range(self.n())]

    def answer(self, f):
        tag = self.next()
        if tag == "F":
            return None
        assert tag == "O", tag
        return f()

    def nullable(self, tag, f):
        v = self.next()
        if v == "null":
            return None
        assert v == tag, (v, tag)
        return f()


def p_client(t):
    return {"hostname": t.s(), "id": t.s()}


def p_e2e(tok):
    """latency token: 0 absent/null, 1 present, p:<e>,<e>,… present with that percentiles shape (n = null element)"""
    tok = tok.split("/j:")[0]
    if tok.startswith("p:"):
        return True, [None if e == "n" else int(e) for e in tok[2:].split(",") if e]
    return tok == "1", []


def p_chan(t):
    c = {"name": t.s()}
    for k in ("depth", "backend", "inflight", "deferred", "requeue", "timeout", "msg", "zone", "region", "global", "clientCount"):
        c[k] = t.n()
    c["paused"] = t.next() == "1"
    c["e2e"], c["pct"] = p_e2e(t.next())
    c["clients"] = t.counted(lambda: t.nullable("K", lambda: p_client(t)))
    return c


def p_topic(t):
    x = {"name": t.s()}
    for k in ("depth", "backend", "msg", "zone", "region", "global"):
        x[k] = t.n()
    x["paused"] = t.next() == "1"
    x["e2e"], x["pct"] = p_e2e(t.next())
    x["channels"] = t.counted(lambda: t.nullable("C", lambda: p_chan(t)))
    return x


def p_producer(t):
    p = {"hostname": t.s(), "addr": t.s(), "tcp": t.s(), "version": t.s(), "ver": (t.n(), t.n(), t.n()), "remote": t.s()}
    p["topics"] = t.counted(t.s)
    p["tombstones"] = t.counted(lambda: t.next() == "1")
    return p


def parse_op(op):
    toks = op.split()
    assert toks[0] == "view"
    t = Toks(toks[1:])
    kind = t.next()
    req = {"kind": kind}
    if kind in ("topic", "node"):
        req["a"] = t.next()
    elif kind == "channel":
        req["a"], req["b"] = t.next(), t.next()
    assert t.next() == "W" and t.next() == "L"
    w = {"lookupds": [], "addrs": [], "nsqds": {}}
    for _ in range(t.n()):
        l = {"addr": t.s()}
        l["topics"] = t.answer(lambda: t.counted(t.s))
        l["nodes"] = t.answer(lambda: t.counted(lambda: t.nullable("P", lambda: p_producer(t))))
        l["lookup"] = t.answer(lambda: t.counted(lambda: t.nullable("P", lambda: p_producer(t))))
        w["lookupds"].append(l)
    assert t.next() == "A"
    w["addrs"] = t.counted(t.s)
    assert t.next() == "N"
    for _ in range(t.n()):
        n = {"addr": t.s(), "filters": t.next() == "1"}
        n["info"] = t.answer(lambda: {"hostname": t.s(), "addr": t.s(), "tcp": t.s(), "version": t.s(), "ver": (t.n(), t.n(), t.n())})
        n["stats"] = t.answer(lambda: t.counted(lambda: t.nullable("T", lambda: p_topic(t))))
        w["nsqds"][n["addr"]] = n
    w["per_topic"] = {}
    if t.i < len(t.t) and t.t[t.i] == "I":
        t.next()
        for _ in range(t.n()):
            lk, topic = t.s(), t.s()
            lo = t.answer(lambda: t.counted(lambda: t.nullable("P", lambda: p_producer(t))))
            ch = t.answer(lambda: t.counted(t.s))
            w["per_topic"].setdefault((lk, topic), (lo, ch))   # the stub serves the first entry of a topic
    return req, w


# ----------------------------------------------------------------------------- the property, read off the cluster
def stats_of(w, addr, topic_sel):
    """Topics an nsqd reports for the selection (None = the request fails)."""
    n = w["nsqds"].get(addr)
    if n is None or n["stats"] is None:
        return None
    return [t for t in n["stats"] if t is not None and (not n["filters"] or not topic_sel or t["name"] == topic_sel)]


def stage1(req, w):
    """Producers consulted for the view: (list of producer addrs, failures, all_failed)."""
    kind = req["kind"]
    topic_view = kind in ("topic", "channel")
    fails, seen, out = 0, set(), []
    if w["lookupds"]:
        for l in w["lookupds"]:
            ans = l["lookup"] if topic_view else l["nodes"]
            if ans is None:
                fails += 1
                continue
            for p in ans:
                if p is None:
                    continue
                key = p["addr"] if topic_view else p["tcp"]
                if key not in seen:
                    seen.add(key)
                    out.append(p["addr"])
        return out, fails, fails == len(w["lookupds"])
    for a in w["addrs"]:
        n = w["nsqds"].get(a)
        if topic_view:
            st = stats_of(w, a, req["a"])
            if st is None:
                fails += 1
                continue
            # GetNSQDTopicProducers decodes into []struct{Name}: a null element has the empty name
            names = [t["name"] for t in (n["stats"] or []) if t is not None and (not n["filters"] or t["name"] == req["a"])]
            if req["a"] in names:
                if n["info"] is None:
                    fails += 1
                    continue
                # GetNSQDTopicProducers: an /info answer without broadcast_address is completed from the configured address
                out.append(a if n["info"]["addr"].startswith(":") else n["info"]["addr"])
        else:
            if n is None or n["info"] is None or n["stats"] is None:
                fails += 1
                continue
            out.append(n["info"]["addr"])
    return out, fails, fails == len(w["addrs"])


def inactive_expected(w):
    """`/api/topics?inactive=true` by the property's own rule, from the cluster description alone:
    (status, warn, {topic: channels}). nsqlookupd mode: the topics no responding nsqlookupd lists a producer for, each
    with the union of the channels the responding nsqlookupds report; every stage (the topic lists, and for every topic
    the /lookup answers and - for a topic without producers - the /channels answers) is 502 when nobody answers it and
    a warning when somebody does not. Direct mode: the empty map (every topic of an nsqd is live there)."""
    if not w["lookupds"]:
        answers = [stats_of(w, a, "") for a in w["addrs"]]
        fails = sum(1 for a in answers if a is None)
        return (502, None, None) if fails == len(answers) else (200, fails > 0, {})
    tops = [l["topics"] for l in w["lookupds"]]
    fails = sum(1 for a in tops if a is None)
    if fails == len(tops):
        return 502, None, None
    warn, out = fails > 0, {}
    for t in sorted(set(x for a in tops if a is not None for x in a)):
        look, chans = [], []
        for l in w["lookupds"]:
            lo, ch = w["per_topic"].get((l["addr"], t), (l["lookup"], []))
            look.append(lo)
            chans.append(ch)
        lf = sum(1 for a in look if a is None)
        if lf == len(look):
            return 502, None, None
        warn = warn or lf > 0
        if any(p is not None for a in look if a is not None for p in a):
            continue
        cf = sum(1 for a in chans if a is None)
        if cf == len(chans):
            return 502, None, None
        warn = warn or cf > 0
        out[t] = sorted(set(c for a in chans if a is not None for c in a))
    return 200, warn, out


def expected_status(req, w):
    """(status set allowed, warn or None) by the property's own rule: 502 iff nothing answered,
    200 with a warning iff something but not everything failed."""
    kind = req["kind"]
    if kind == "inactive":
        return inactive_expected(w)[:2]
    if kind == "topics":
        if w["lookupds"]:
            answers = [l["topics"] for l in w["lookupds"]]
        else:
            answers = [stats_of(w, a, "") for a in w["addrs"]]
        fails = sum(1 for a in answers if a is None)
        if fails == len(answers):
            return 502, None
        return 200, fails > 0
    prods, f1, allf = stage1(req, w)
    if allf:
        return 502, None
    if kind == "nodes":
        return 200, f1 > 0
    if kind == "node":
        if req["a"] not in prods:
            return 404, None
        return (200, f1 > 0) if stats_of(w, req["a"], "") is not None else (502, None)
    sel = req["a"] if kind in ("topic", "channel") else ""
    answers = [stats_of(w, p, sel) for p in prods]
    f2 = sum(1 for a in answers if a is None)
    if not prods:
        # the property's rule, not the code's: nobody was asked in the second stage, so nothing failed there - the view
        # is built from what the first stage said (nothing): empty, with a warning iff some first-stage answer failed.
        # (GetNSQDStats answers "failed to query any nsqd" for zero producers: known finding view:502-without-producers)
        return (404, None) if kind == "channel" else (200, f1 > 0)
    if f2 == len(prods):
        return 502, None
    if kind == "channel":
        found = any(c is not None and c["name"] == req["b"] for a in answers if a is not None for t in a
                    if t["name"] == req["a"] for c in t["channels"])
        if not found:
            return 404, None
    return 200, (f1 > 0 or f2 > 0)


WRAPPED = [0]   # cases whose exact sums leave the int64 range (evidence)


def w64(x):
    """Go's int64: the exact integer reduced into [-2^63, 2^63). Sums that leave the range are outside the
    property's domain (Props.C18.int64_no_wrap_sufficient); there the view must show the wrapped sum
    (int64_sum_wraps), which is what this oracle then demands."""
    y = ((x + 2 ** 63) % 2 ** 64) - 2 ** 63
    if y != x:
        WRAPPED[0] += 1
    return y


CS13 = ["depth", "memDepth", "backend", "inflight", "deferred", "requeue", "timeout", "msg", "delivery", "zone", "region",
        "global", "clientCount"]
CS8 = [0, 1, 2, 7, 8, 9, 10, 11]     # positions of the topic counters inside the 13-field rendering


def add_fails(op, impl):
    """Stream `add`: the real TopicStats.Add / ChannelStats.Add folded over reports given in the op line; every sum,
    the or-ed paused flag, the node list, the client multiset and the merged channel list are recomputed here."""
    t = Toks(op.split()[1:])
    kind, name = t.next(), t.s()

    def chan():
        c = {"node": t.s(), "host": t.s(), "topic": t.s(), "name": t.s(), "paused": t.next() == "1", "e2e": t.next() == "1"}
        c["cnt"] = [t.n() for _ in range(13)]
        c["clients"] = ["%s~%s~%s" % (t.s() or "-", t.s() or "-", c["node"] or "-") for _ in range(t.n())]
        return c

    def topic():
        x = {"node": t.s(), "host": t.s(), "name": t.s(), "paused": t.next() == "1", "e2e": t.next() == "1"}
        x["cnt"] = [t.n() for _ in range(8)]
        x["channels"] = [chan() for _ in range(t.n())]
        return x

    reports = [topic() if kind == "topic" else chan() for _ in range(t.n())]
    if impl.startswith("panic") or impl.startswith("marshal-error"):
        return "%s.Add over %d report(s): %s" % ("TopicStats" if kind == "topic" else "ChannelStats", len(reports), impl[:160])
    a = impl.split(" ", 2)
    if len(a) < 3 or a[0] != "200":
        return "unreadable answer %r" % impl[:160]
    body = a[2]

    def sums(rows, width):
        return [w64(sum(r[i] for r in rows)) for i in range(width)]

    if kind == "channel":
        m = re.match(r"C/([^/]*)/([^/]*)/([^/]*)/([-0-9,]+)/([01])/([^/]*)/(.*)$", body)
        if not m:
            return "unreadable aggregate %r" % body[:120]
        got = [int(x) for x in m.group(4).split(",")]
        want = sums([r["cnt"] for r in reports], 13)
        if got != want:
            bad = [CS13[i] for i in range(13) if got[i] != want[i]]
            return "ChannelStats.Add: fields %s are %s; the sums over the reports are %s" % (
                bad, [got[CS13.index(b)] for b in bad], [want[CS13.index(b)] for b in bad])
        if (m.group(5) == "1") != any(r["paused"] for r in reports):
            return "ChannelStats.Add: paused=%s but the reports say %s" % (m.group(5), [r["paused"] for r in reports])
        gotc = [] if m.group(6) == "-" else m.group(6).split("+")
        if sorted(gotc) != sorted(c for r in reports for c in r["clients"]):
            return "ChannelStats.Add: clients %s; the reports hold %s" % (sorted(gotc), sorted(c for r in reports for c in r["clients"]))
        nodes = [] if m.group(7) == "-" else m.group(7).split("+")
        wantn = sorted("%s~%s~%s~%s" % (r["node"] or "-", r["host"] or "-", ",".join(str(x) for x in r["cnt"]), "1" if r["paused"] else "0")
                       for r in reports)
        if sorted(nodes) != wantn:
            return "ChannelStats.Add: the node list is not the list of the reports (%d entries for %d reports)" % (len(nodes), len(reports))
        if (m.group(2) == "*") != bool(reports):
            return "ChannelStats.Add: node is %r after %d Add(s)" % (m.group(2), len(reports))
        return None
    m = re.match(r"T/[^/]*/([-0-9,]+)/([01]) N\[([^\]]*)\] C\[(.*)\]$", body)
    if not m:
        return "unreadable aggregate %r" % body[:120]
    got = [int(x) for x in m.group(1).split(",")]
    want = sums([r["cnt"] for r in reports], 8)
    if [got[i] for i in CS8] != want:
        return "TopicStats.Add: counters %s; the sums over the reports are %s" % ([got[i] for i in CS8], want)
    if (m.group(2) == "1") != any(r["paused"] for r in reports):
        return "TopicStats.Add: paused=%s but the reports say %s" % (m.group(2), [r["paused"] for r in reports])
    nodes = [] if m.group(3) == "-" else m.group(3).split(";")
    if len(nodes) != len(reports):
        return "TopicStats.Add: %d node entries for %d reports" % (len(nodes), len(reports))
    entries = [] if m.group(4) == "-" else m.group(4).split(";")
    seen = {}
    for e in entries:
        f = e.split("/")
        seen.setdefault("" if f[0] == "-" else f[0], []).append(f)
    by_name = {}
    for r in reports:
        for c in r["channels"]:
            by_name.setdefault(c["name"], []).append(c)
    if sorted(seen) != sorted(by_name) or any(len(v) != 1 for v in seen.values()):
        return "TopicStats.Add: merged channels %s; the reports hold %s" % (sorted((k, len(v)) for k, v in seen.items()), sorted(by_name))
    for nme, cs in by_name.items():
        f = seen[nme][0]
        if [int(x) for x in f[2].split(",")] != sums([c["cnt"] for c in cs], 13):
            return "TopicStats.Add: channel %r has %s; the sums over its %d report(s) are %s" % (nme, f[2], len(cs), sums([c["cnt"] for c in cs], 13))
        if (f[3] == "1") != any(c["paused"] for c in cs):
            return "TopicStats.Add: channel %r paused=%s" % (nme, f[3])
        gotc = [] if f[4] == "-" else f[4].split("+")
        if sorted(gotc) != sorted(k for c in cs for k in c["clients"]):
            return "TopicStats.Add: channel %r lists clients %s; its reports hold %s" % (nme, sorted(gotc), sorted(k for c in cs for k in c["clients"]))
        if int(f[5]) != len(cs) - 1:
            return "TopicStats.Add: channel %r: %s node entries merged into the first report; %d reports exist" % (nme, f[5], len(cs))
    return None


def property_fails_on(op, impl):
    """Evaluate C18 on one case and the implementation's own answer (independent of the Lean model)."""
    if op.startswith("add "):
        return add_fails(op, impl)
    if op.startswith("getv1 "):
        # the request helper: a normal answer or the one allowed upgrade succeeds; everything else is ONE failed
        # answer after at most one request per port
        f = dict(t.split("=") for t in op.split()[1:])
        a = impl.split()
        ok_expected = f["mode"] in ("0", "7") or (f["https"] == "1" and f["mode"] in ("9", "10", "11"))
        if (a[0] == "ok") != ok_expected:
            return "GETV1 against stub behaviour %s (https=%s) returned %s" % (f["mode"], f["https"], a[0])
        if int(a[1]) > 1 or int(a[2]) > 1:
            return "GETV1 sent %s plain and %s TLS requests for one fetch" % (a[1], a[2])
        return None
    if op.startswith("less "):
        # the comparators, recomputed here: by hostname = plain string order; by node topology = the documented rule
        t = [("" if x == "-" else x) for x in op.split()[2:]]
        if impl not in ("0", "1"):
            return "comparator answer %r" % impl[:100]
        if op.split()[1] == "host":
            want = t[0] < t[1]
        else:
            a, b = t[:5], t[5:]
            if a[0] != b[0]:
                want = a[0] < b[0]
            elif (a[3], a[4]) == (a[1], a[2]):
                want = True
            elif (b[3], b[4]) == (a[1], a[2]):
                want = False
            elif a[3] == a[1]:
                want = True
            elif b[3] == a[1]:
                want = False
            elif a[3] == b[3]:
                want = a[4] < b[4]
            else:
                want = a[3] < b[3]
        return None if (impl == "1") == want else "comparator %s answered %s on %s" % (op.split()[1], impl, " ".join(op.split()[2:]))
    if op.startswith("latval "):
        return None if impl == "marshal-ok" else ("a channel whose latency document carries the value %s: the aggregate cannot "
                                                  "be encoded (%s) - the view answers 500" % (op.split()[1], impl[:120]))
    if op.startswith("lat "):
        # the latency aggregate: whatever shapes the nodes send, decoding and merging must not panic; the aggregate has
        # no nil entry and exactly the distinct quantiles of the non-null entries (recomputed here from the op alone)
        t = op.split()
        docs = [p_e2e(d)[1] for d in t[3:]]
        a = impl.split()
        if a[0] == "panic":
            return "latency aggregate: %s on percentiles %s" % (impl, " ".join(t[3:]) or "(none)")
        if a[0] != "ok":
            return "latency aggregate: unreadable answer %r" % impl[:200]
        got = a[1] if len(a) > 1 else ""
        if got == "nil":
            return None if not docs else "latency aggregate missing although %d node(s) reported one" % len(docs)
        keys = got.split(",") if got else []
        if "n" in keys:
            return "latency aggregate keeps a nil entry (the next Add writes to it): %s" % got
        want = sorted({k for d in docs for k in d if k is not None})
        if sorted(set(int(k) for k in keys)) != want:
            return "latency aggregate has quantiles %s; the nodes reported %s" % (got or "(none)", want)
        if t[1] == "fresh" and len(keys) != len(set(keys)):
            return "latency aggregate lists a quantile twice: %s" % got
        return None
    try:
        req, w = parse_op(op)
    except Exception as ex:  # malformed op line: machinery problem, not a property failure
        return None
    a = impl.split(" ", 2)
    if len(a) < 3 or not a[0].isdigit():
        return "unreadable answer %r" % impl[:200]
    status = int(a[0])
    if status == 500:
        return "%s view answered 500 (a panic recovered by the router)" % req["kind"]
    exp, warn = expected_status(req, w)
    if status == 502 and exp != 502 and req["kind"] in ("topic", "channel", "counter") and not stage1(req, w)[0]:
        return ("%s view answered 502 although %s: no producer is known, so GetNSQDStats' `len(errs) == len(producers)` "
                "holds with 0 == 0" % (req["kind"], "every upstream that was asked answered" if stage1(req, w)[1] == 0
                                       else "some upstreams answered"))
    if status != exp:
        return "%s view answered %d; by the cluster contents it must be %d" % (req["kind"], status, exp)
    if status != 200:
        return None
    if warn is not None and (a[1] == "1") != warn:
        return "%s view: warning %s but %s upstream answer(s) failed" % (req["kind"], a[1], "some" if warn else "no")
    body = a[2]
    kind = req["kind"]
    if kind == "inactive":
        m = re.match(r"I\[(.*)\]$", body)
        if not m:
            return "unreadable inactive-topics view %r" % body[:120]
        got = {}
        for e in ([] if m.group(1) == "-" else m.group(1).split(";")):
            k, v = e.rsplit("=", 1)
            got["" if k == "-" else k] = [] if v == "-" else [("" if c == "-" else c) for c in v.split("+")]
        want = inactive_expected(w)[2]
        if got != want:
            bad = sorted(k for k in set(got) | set(want) if got.get(k) != want.get(k))[:3]
            return "inactive-topics view shows %s; by what the responding nsqlookupds say it is %s" % (
                dict((k, got.get(k)) for k in bad), dict((k, want.get(k)) for k in bad))
    if kind == "topics":
        if w["lookupds"]:
            names = set(t for l in w["lookupds"] if l["topics"] is not None for t in l["topics"])
        else:
            names = set()
            for ad in w["addrs"]:
                n = w["nsqds"].get(ad)
                if n is not None and n["stats"] is not None:
                    names.update(("" if t is None else t["name"]) for t in n["stats"])
        got = [] if body == "-" else [("" if x == "-" else x) for x in body.split(",")]
        if got != sorted(names):
            return "topics view lists %s; the responding upstreams report %s" % (got, sorted(names))
    if kind in ("topic", "channel"):
        prods, _, _ = stage1(req, w)
        tkeys = {"depth": 0, "backend": 2, "msg": 7, "zone": 9, "region": 10, "global": 11}
        ckeys = dict(tkeys, inflight=3, deferred=4, requeue=5, timeout=6, clientCount=12)
        keys = tkeys if kind == "topic" else ckeys
        tot = dict((k, 0) for k in keys)
        paused, clients, nreports = False, [], 0
        for p in prods:
            st = stats_of(w, p, req["a"])
            for t in st or []:
                if t["name"] != req["a"]:
                    continue
                if kind == "topic":
                    nreports += 1
                    paused = paused or t["paused"]
                    for k in tot:
                        tot[k] += t[k]
                else:
                    for c in t["channels"]:
                        if c is not None and c["name"] == req["b"]:
                            nreports += 1
                            paused = paused or c["paused"]
                            clients += ["%s~%s~%s" % (k["hostname"] or "-", k["id"] or "-", p) for k in c["clients"] if k is not None]
                            for k in tot:
                                tot[k] += c[k]
        m = re.match(r"T/[^/]*/([-0-9,]+)/([01]) N\[([^\]]*)\]", body) if kind == "topic" else \
            re.match(r"C/[^/]*/[^/]*/[^/]*/([-0-9,]+)/([01])/([^/]*)/(.*)$", body)
        if not m:
            return "unreadable %s view %r" % (kind, body[:120])
        cs = [int(x) for x in m.group(1).split(",")]
        got = dict((k, cs[i]) for k, i in keys.items())
        tot = dict((k, w64(v)) for k, v in tot.items())
        if got != tot:
            bad = sorted(k for k in tot if got[k] != tot[k])
            return "%s view shows %s; the sum over the responding nodes is %s" % (
                kind, dict((k, got[k]) for k in bad), dict((k, tot[k]) for k in bad))
        if cs[1] != w64(cs[0] - cs[2]):
            return "%s view: memory_depth %d is not depth - backend_depth" % (kind, cs[1])
        if cs[8] != w64(cs[9] + cs[10] + cs[11]):
            return "%s view: delivery_msg_count %d is not the sum of the three locality counters" % (kind, cs[8])
        if (m.group(2) == "1") != paused:
            return "%s view: paused=%s but the nodes report paused=%s" % (kind, m.group(2), paused)
        nodes = [] if m.group(3 if kind == "topic" else 4) == "-" else m.group(3 if kind == "topic" else 4).split(";" if kind == "topic" else "+")
        if len(nodes) != nreports:
            return "%s view lists %d node report(s); the responding nodes sent %d" % (kind, len(nodes), nreports)
        if kind == "topic":
            bad = topic_channels_fail(req, w, prods, body)
            if bad:
                return bad
        if kind == "channel":
            include = all((not w["nsqds"][p]["filters"]) or True for p in prods if p in w["nsqds"])
            gotc = [] if m.group(3) == "-" else m.group(3).split("+")
            if sorted(gotc) != sorted(clients):
                return "channel view lists clients %s; the responding nodes report %s" % (sorted(gotc), sorted(clients))
    if kind == "node":
        m = re.match(r"(\S+) (-?\d+) (-?\d+) T\[", body)
        st = stats_of(w, req["a"], "")
        if m and st is not None:
            tm = w64(sum(t["msg"] for t in st))
            tc = sum(1 for t in st for c in t["channels"] if c is not None for k in c["clients"] if k is not None)
            if int(m.group(2)) != tm or int(m.group(3)) != tc:
                return "node view of %s shows total_messages=%s total_clients=%s; its topics report %d messages and %d clients" % (
                    req["a"], m.group(2), m.group(3), tm, tc)
    if kind == "counter":
        prods, _, _ = stage1(req, w)
        exp = {}
        for p in prods:
            for t in stats_of(w, p, "") or []:
                for c in t["channels"]:
                    if c is not None:
                        key = "%s:%s:%s" % (t["name"], c["name"], p)
                        exp[key] = exp.get(key, 0) + c["msg"]
        got = {} if body == "-" else dict((kv.rsplit("=", 1)[0], int(kv.rsplit("=", 1)[1])) for kv in body.split(","))
        exp = dict((k, w64(v)) for k, v in exp.items())
        if got != exp:
            bad = sorted(k for k in set(got) | set(exp) if got.get(k) != exp.get(k))[:3]
            return "counter view shows %s; the nodes report %s" % (dict((k, got.get(k)) for k in bad), dict((k, exp.get(k)) for k in bad))
    if kind == "nodes" and w["lookupds"]:
        tcps = set(p["tcp"] for l in w["lookupds"] if l["nodes"] is not None for p in l["nodes"] if p is not None)
        m = re.match(r"P\[(.*)\]$", body)
        entries = [] if not m or m.group(1) == "-" else m.group(1).split(";")
        gott = [e.split("/")[2] for e in entries]
        if sorted(gott) != sorted(tcps):
            return "nodes view has entries for %s; the responding nsqlookupds mention %s" % (sorted(gott), sorted(tcps))
        for e in entries:
            f = e.split("/")
            tcp, remotes = f[2], ("/".join(f[5:-1]))
            n = sum(1 for l in w["lookupds"] if l["nodes"] is not None for p in l["nodes"] if p is not None and p["tcp"] == tcp)
            have = 0 if remotes == "-" else len(remotes.split("+"))
            if have != n:
                return "nodes view: %s has %d remote address(es); %d answers mention it" % (tcp, have, n)
            # every topic~tombstone pair shown for a node is a pair some responding nsqlookupd reported for that node
            # (topics[i] with tombstones[i]; a shorter tombstones array means "not tombstoned"); which answer wins when
            # several mention the node is scheduling, so the union over the answers is what is demanded
            up = set()
            for l in w["lookupds"]:
                for p in (l["nodes"] or []):
                    if p is not None and p["tcp"] == tcp:
                        for i, tn in enumerate(p["topics"]):
                            up.add("%s~%s" % (tn or "-", "1" if i < len(p["tombstones"]) and p["tombstones"][i] else "0"))
            shown = [] if f[-1] == "-" else f[-1].split("+")
            wrong = sorted(x for x in shown if x not in up)
            if len(f) < 7 or any(re.search(r"[/+;\]\[]", x) or x.count("~") != 1 for x in up):
                wrong = []   # a name that collides with the rendering's separators: not judged here
            if wrong:
                return ("nodes view: %s is shown with topic~tombstoned %s; the responding nsqlookupds report only %s for it"
                        % (tcp, wrong, sorted(up)))
    return None


CH_FIELDS = [("depth", 0), ("backend", 2), ("inflight", 3), ("deferred", 4), ("requeue", 5), ("timeout", 6), ("msg", 7),
             ("zone", 9), ("region", 10), ("global", 11), ("clientCount", 12)]


def topic_channels_fail(req, w, prods, body):
    """/api/topics/:t on the implementation's own answer: every channel some responding node reports for the topic
    appears exactly once, and its counters are the sums over those node reports."""
    m = re.search(r" C\[(.*)\]$", body)
    if not m:
        return "unreadable topic view %r" % body[-120:]
    entries = [] if m.group(1) == "-" else m.group(1).split(";")
    got = {}
    for e in entries:
        f = e.split("/")
        name = "" if f[0] == "-" else f[0]
        got.setdefault(name, []).append([int(x) for x in f[2].split(",")] + [f[3] == "1"] + [int(f[5]) if len(f) > 5 and f[5].isdigit() else None])
    exp = {}
    reports = {}
    for p in prods:
        for t in stats_of(w, p, req["a"]) or []:
            if t["name"] != req["a"]:
                continue
            for c in t["channels"]:
                if c is None:
                    continue
                reports[c["name"]] = reports.get(c["name"], 0) + 1
                tot = exp.setdefault(c["name"], dict((k, 0) for k, _ in CH_FIELDS))
                tot["paused"] = tot.get("paused", False) or c["paused"]
                for k, _ in CH_FIELDS:
                    tot[k] += c[k]
    dup = sorted(n for n, v in got.items() if len(v) > 1)
    if dup:
        return "topic view lists channel %r %d times (each with part of the sums)" % (dup[0], len(got[dup[0]]))
    if sorted(got) != sorted(exp):
        return "topic view lists channels %s; the responding nodes report %s" % (sorted(got), sorted(exp))
    for n, tot in exp.items():
        cs = got[n][0]
        tot = dict((k, (w64(v) if k != "paused" else v)) for k, v in tot.items())
        bad = [k for k, i in CH_FIELDS if cs[i] != tot[k]]
        if bad:
            return "topic view, channel %r: %s; the sums over the node reports are %s" % (
                n, dict((k, cs[dict(CH_FIELDS)[k]]) for k in bad), dict((k, tot[k]) for k in bad))
        if cs[13] != tot["paused"]:
            return "topic view, channel %r: paused=%s but the nodes report %s" % (n, cs[13], tot["paused"])
        # the merged entry is the first reporter's own object: its node list holds the OTHER reports, nothing else
        if cs[14] is not None and cs[14] != reports[n] - 1:
            return "topic view, channel %r: %d node entries merged into the first report; %d node report(s) exist" % (
                n, cs[14], reports[n])
    return None


def inactive_drops_errors(op, impl):
    """The known shape of the `?inactive=true` defect: a 200 without warning (or a 200 instead of the 502) while one of
    the per-topic /lookup or /channels answers failed - the handler throws those two errors away."""
    try:
        req, w = parse_op(op)
    except Exception:
        return False
    if req["kind"] != "inactive" or not impl.startswith("200 "):
        return False
    exp, warn, _ = inactive_expected(w)
    failed = any(lo is None or ch is None for lo, ch in w["per_topic"].values()) or any(l["lookup"] is None for l in w["lookupds"])
    return failed and (exp == 502 or (warn and impl.split()[1] == "0"))


def crash_key(out):
    """Normalised call site of a process-fatal panic from the Go trace."""
    m = re.search(r"panic: ([^\n]*)", out)
    what = m.group(1) if m else "process died"
    site = "?"
    for line in out.splitlines():
        mm = re.match(r"(github\.com/nsqio/nsq/[^\s(]+(?:\([^)]*\))?[^\s(]*)\(", line.strip())
        if mm and "/harness" not in line and "zz_verif" not in line:
            site = mm.group(1).split("/")[-1]
            break
    return what, site


def finding_key(site, what=""):
    if site == "view-hangs":
        return "view-hangs"
    return _finding_key(site)


def _finding_key(site):
    """The same key for a generated failure and for the committed replay of the same defect, so that an entry
    of known_findings (open or fixed) absorbs exactly its own defect."""
    if "E2eProcessingLatencyAggregate" in site and "UnmarshalJSON" in site:
        return "crash:null-percentile"
    if "UnmarshalJSON" in site:
        return "crash:clusterinfo.(*Producer).UnmarshalJSON"
    if "TCPAddress" in site or "HTTPAddress" in site:
        return "crash:null-producer"
    if "GetNSQDStats" in site:
        return "crash:null-stats-element"
    if "E2eProcessingLatencyAggregate" in site:
        return "crash:missing-e2e-latency"
    return "crash:%s" % site


def run_stream(ctx, binp, name, test, n):
    """Run one harness stream to the end, restarting after every process death or hang.
    Returns (ops, impl, crashes, error) where crashes = [(op, panic text, site, trace)]; a view that got no
    answer within its deadline is reported with site "view-hangs"."""
    ops_all, impl_all, crashes = [], [], []
    skip, hangs = 0, 0
    for attempt in range(400):
        for suffix in (".ops", ".impl"):
            p = os.path.join(ctx.work, name + suffix)
            if os.path.exists(p):
                os.remove(p)
        env = {"VERIF_SEED": ctx.seed, "VERIF_OUT": ctx.work, "VERIF_N": n, "VERIF_SKIP": skip}
        if name == "latency":
            # claim audit 2, C18 item 6: the `latval` lines of the committed replay files are READ and run by the stream
            env["VERIF_LATVAL_FILES"] = ":".join(p for p, _ in latval_replays())
        if hangs >= 2:
            env["VERIF_HANG_OFF"] = "1"   # the hang has its replays; do not wait 5 s for every further occurrence
        rc, out = ctx.run_cmd([binp, "-test.run", test, "-test.count=1", "-test.timeout=900s"], timeout=1000, env=env)
        opsp, implp = os.path.join(ctx.work, name + ".ops"), os.path.join(ctx.work, name + ".impl")
        ops = open(opsp).read().splitlines() if os.path.exists(opsp) else []
        impl = open(implp).read().splitlines() if os.path.exists(implp) else []
        for l in out.splitlines():
            if l.startswith("E7-UNSORTED "):
                ctx.violation("order:" + l.split()[1], "a list of the " + l[12:], "harness line: %s\n" % l)
            elif l.startswith("E7-"):
                ctx.corr.setdefault("distribution", []).append(l)
        if rc == 0:
            ops_all += ops
            impl_all += impl[:len(ops)]
            return ops_all, impl_all, crashes, None
        idxp = os.path.join(ctx.work, name + ".idx")
        if len(ops) == len(impl) + 1 and os.path.exists(idxp):
            hang = [l for l in out.splitlines() if l.startswith("VIEW-HANGS")]
            if hang:
                hangs += 1
                crashes.append((ops[-1], hang[0], "view-hangs", hang[0]))
            else:
                what, site = crash_key(out)
                crashes.append((ops[-1], what, site, out[-3000:]))
            ops_all += ops[:-1]
            impl_all += impl
            skip = int(open(idxp).read().strip()) + 1
            continue
        return ops_all + ops[:len(impl)], impl_all + impl, crashes, "harness %s exit %s:\n%s" % (test, rc, out[-2000:])
    return ops_all, impl_all, crashes, "harness %s: more than 400 process deaths" % test


def req_key(op):
    w = op.split()
    return w[1]


def run(ctx):
    ctx.trusted += [
        "translator tools/go2lean (kinds aggstruct, aggadd, aggcounters, aggfetch): struct field lists, the flattened "
        "statements of TopicStats.Add / ChannelStats.Add, their += statements as a Counters update, and the error "
        "accounting / key / sort statements of the eight fetch functions of data.go",
        "encoding/json (the model takes decoded upstream answers: null elements, absent members, rejected bodies "
        "are explicit in the cluster description), net/http, httprouter's panic handler",
        "blang/semver: version triples are inputs",
        "correspondence harness harness/e7/view_test.go (stub upstreams serving the generated cluster, canonical "
        "rendering of nsqadmin's JSON with goroutine-order-dependent lists sorted)",
        "Go memory model: the fetch goroutines' critical sections are atomic (the model processes upstreams in "
        "list order; order independence is a theorem)",
    ]
    ctx.assumptions += [
        "the sum clauses (sum_fields, channels_merge, …) speak about exact integers; what nsqadmin shows is the exact sum "
        "reduced to int64 (Props.C18.int64_sum_wraps / counters_go_sum) and equals it iff it fits (int64_wrap_exact; "
        "sufficient: non-negative counters with a sum below 2^63, int64_no_wrap_sufficient). Clusters whose sums leave "
        "the range are generated on purpose and compared against the wrapped sums",
        "Go language semantics of int64 +, -, += (two's complement wrap-around) — the model's wrap64",
        "latency aggregates (E2eProcessingLatencyAggregate.UnmarshalJSON / Add): only the SHAPE of the percentiles array is "
        "modelled and compared (Model/Latency, stream `latency`); the float values are not (open finding view:latency-overflow-500)",
        "the model the driver runs is Fixes.tree = /repo as committed: F53 905ac51 and F54 786fd8f are in, F58 (`?inactive=true` reports "
        "the errors of its per-topic fetches) was committed as 783e91a and REVERTED by 338c8a6 (it turned nsqlookupd's ordinary 404 "
        "TOPIC_NOT_FOUND into permanent warnings and, with one nsqlookupd, into a 502 of the whole listing), so the switch inactiveErrs "
        "is off (tie Tie.AdminAgg.topics_inactive_discards_errors accepts only the committed, unfixed shape). The defect is the open "
        "known finding view:inactive-drops-errors again (inactive_drops_errors_this_tree; judged by the oracle on every generated and "
        "replayed case); inactive_warning / inactive_view_lists are theorems about the PROPOSAL (Fixes.all), not about this tree; "
        "for this tree: view_no_panic_tree, inactive_view_lists_tree, and tree_view_eq_all (view Fixes.tree = view Fixes.all for "
        "every request other than `?inactive=true`, Proofs.AggregateTree) which carries the other Fixes.all theorems over",
        "counter_view_from_upstreams states the counter map relative to the channel map of GetNSQDStats (itself described by "
        "channels_merge over the upstreams' answers); that two different (topic, channel) pairs never share a key "
        "`topic:channel` (names without ':') is not proved and not needed for the statement as given",
        "/info without broadcast_address is generated together with a missing http_port only (address ':0'); hostnames of "
        "configured nsqds are 127.0.0.1 in the model (Nsqd.host); the stubs listen on one loopback IP private to the harness "
        "process, which the harness renders as 127.0.0.1",
        "sort.Sort returns a sorted permutation when Less is a strict weak order (library contract; order_by_host proves the "
        "by-hostname comparators are, order_clients_by_topology that ClientStatsByNodeTopology.Less is not)",
        "the per-node channel lists nested inside /api/topics/:t `nodes[]` are not compared (they alias the merged channel objects)",
    ]
    ctx.rule = ("correspondence: generated clusters (1-3 nsqlookupd, 1-4 nsqd, topics on some nodes only, same channel on many "
                "nodes, zero/small/huge counters, clients with/without optional members, duplicate names, version skew) x six views; "
                "random failing answers in six flavours (500, 404, invalid JSON, wrong shape, out-of-range number, closed "
                "connection); every subset of failing answers for a 2+2 cluster in both modes; a separate stream of structurally "
                "inconsistent answers (short/long tombstones, null array elements, missing latency member, absent channel), each also "
                "next to a failing peer; `?inactive=true` in both modes with per-topic /lookup and /channels answers failing (random "
                "and every subset for two nsqlookupds); negative counters; /info without broadcast_address / hostname in direct "
                "mode; stream `add`: the real TopicStats.Add / ChannelStats.Add on random report sequences built as Go values "
                "(nil/empty sub-slices, counters anywhere in int64, missing latency) against Counters.add / ChanAgg.add; "
                "a case is distinct by its op line, non-trivial when the answer is a 200 with content; oracle: property_fails_on "
                "(status/warning rule, union of topics, depth/message/backend sums) and process liveness")
    ctx.gen("e7_agg")
    ok, log = ctx.lean_build(TIE + PROPS)
    if not ok:
        ctx.lean_obligation_failed("lake build " + " ".join(TIE + PROPS), log[-1500:])
    ctx.lean_audit(PROPS, TIE)
    if ctx.thorough():
        ctx.leanchecker(PROPS)
    corr_broken = []
    if not ctx.build_driver("e7"):
        corr_broken.append("driver drv_e7 does not build")
        ctx.broken_ties.append("lake build drv_e7")
    binp = ctx.go_test_binary("nsqadmin", ["e7/gate_test.go", "e7/view_test.go", "e7/latency_test.go"], "e7view")
    if not binp:
        ctx.broken_ties.append("harness e7/view_test.go does not compile against the current tree")
        corr_broken.append("harness build")
    elif ctx.replay_in:
        # --replay <file>: re-execute the op lines of one replay file, model and implementation side by side
        lines = [l[4:] if l.startswith("op: ") else l for l in open(ctx.replay_in).read().splitlines()]
        for op in [l for l in lines if l.startswith("view ") or l.startswith("getv1 ")]:
            impl, crash = replay_one(ctx, binp, op)
            rc, mout = ctx.driver("e7", stdin=op + "\n")
            ctx.count_case(op, nontrivial=True)
            print("op:    " + op[:400])
            print("impl:  " + (impl if impl else ("NO ANSWER: %s" % crash[0] if crash[1] == "view-hangs" else
                                                   "PROCESS DIED: %s in %s" % crash[:2])))
            print("model: " + mout.strip())
            if crash and crash[1] == "view-hangs":
                ctx.violation("view-hangs", "no answer within the deadline: %s" % crash[0], "op: %s\n\n%s\n" % (op, crash[2]))
            elif crash:
                ctx.violation(finding_key(crash[1]), "nsqadmin died (%s in %s) while serving the %s view" % (
                    crash[0], crash[1], req_key(op)), "op: %s\n\n%s\n" % (op, crash[2]))
            else:
                bad = property_fails_on(op, impl)
                if bad:
                    ctx.violation("view:%s:%s" % (req_key(op), impl.split()[0]), bad, "op: %s\nimpl: %s\n" % (op, impl))
        return
    else:
        replay_known(ctx, binp)
        n = ctx.budget(300, 3000)
        for name, test in STREAMS:
            ops, impl, crashes, err = run_stream(ctx, binp, name, test, n)
            if err:
                ctx.log(err)
                corr_broken.append(err.splitlines()[0])
            for op, what, site, trace in crashes:
                if site == "view-hangs" and op.startswith("getv1"):
                    ctx.violation("getv1-hangs", "the upstream request helper never returns: %s" % what,
                                  "op: %s\n\n%s\n" % (op, trace))
                    continue
                if site == "view-hangs":
                    ctx.violation("view-hangs", "the %s view never answers although other upstreams responded "
                                  "(an upstream fetch does not terminate): %s" % (req_key(op), what),
                                  "op: %s\n\n%s\nupstream behaviours (X … sym endpoint mode): 8 = 403 {\"https_port\": N} on the "
                                  "plain port and again on port N\n" % (op, trace))
                    continue
                ctx.violation(finding_key(site),
                              "nsqadmin died (%s in %s) while serving the %s view" % (what, site, req_key(op)),
                              "op: %s\n\n%s\n" % (op, trace))
            if name == "latency" and not err:
                for rp, ls in latval_replays():
                    for l in ls:
                        if l not in ops:
                            ctx.broken_ties.append("replay file %s: the case `%s` was not run by the latency stream" % (
                                os.path.relpath(rp, ROOT), l))
                ctx.corr["latval_replay_lines_run"] = sum(len(ls) for _, ls in latval_replays())
            opsp = os.path.join(ctx.work, name + ".all.ops")
            with open(opsp, "w") as fh:
                fh.write("\n".join(ops) + ("\n" if ops else ""))
            rc, mout = ctx.driver("e7", stdin_path=opsp)
            model = mout.splitlines()
            kinds = {}
            for o, i in zip(ops, impl):
                ctx.count_case(o, nontrivial=(i.startswith("200 ") and not i.endswith(" -")) or o.startswith("getv1")
                               or o.startswith("lat") or o.startswith("less ") or o.startswith("add "))
                k = o.split()[1] + ":" + i.split()[0]
                kinds[k] = kinds.get(k, 0) + 1
            ctx.corr.setdefault("outcomes", {})[name] = kinds
            ctx.corr["int64_wrapped_sums_checked"] = WRAPPED[0]
            for o, i in list(zip(ops, impl))[:2]:
                ctx.add_sample({"op": o[:400], "impl": i[:400]})
            failing = set()
            for idx, (o, i) in enumerate(zip(ops, impl)):
                bad = property_fails_on(o, i)
                if bad:
                    failing.add(idx)
                    key = "view:%s:%s" % (req_key(o), i.split()[0])
                    if o.startswith("getv1"):
                        key = "getv1:" + o.split()[2]
                    if o.startswith("latval "):
                        key = "view:latency-overflow-500"
                    if o.startswith("less "):
                        key = "order:comparator:" + o.split()[1]
                    if o.startswith("add "):
                        key = "add:" + o.split()[1]
                    if o.startswith("lat "):
                        key = "crash:null-percentile" if " panic decode " in " " + i + " " and "nil map" in i else "latency:" + i[:60]
                    if "no producer is known" in bad:
                        key = "view:502-without-producers"
                    if o.startswith("view inactive ") and inactive_drops_errors(o, i):
                        key = "view:inactive-drops-errors"
                    if "/j:" in o and not o.startswith("lat "):
                        key = "view:upstream-nodes-member"
                    if key == "view:channel:500":
                        key = "view:channel-not-found"
                    elif key == "view:topic:500" and " 0 " in o:
                        key = "crash:missing-e2e-latency"   # TopicStats.Add on a topic without latency data (handler: 500)
                    ctx.violation(key, bad, "op: %s\nimpl: %s\n" % (o, i))
            diffs = [d for d in ctx.diff_lines(impl, model[:len(impl)], name, max_report=50) if d[0] not in failing][:5]
            for idx, a, b in diffs:
                ctx.log("model/impl disagree on `%s`:\n   impl=%s\n  model=%s" % (ops[idx][:600], a[:600], b[:600]))
                corr_broken.append("correspondence %s line %d" % (name, idx))
    if (ctx.broken_ties or corr_broken) and not ctx.violations:
        ctx.broken_without_input(ctx.broken_ties + corr_broken,
                                 "search: %d generated cases; the direct oracle found no wrong status, union or sum and the "
                                 "process stayed alive" % ctx.evaluations)


def latval_replays():
    """[(path, [latval lines])] of the committed replay files (fixed and open findings of C18) that hold `latval` lines:
    these are not `view` ops (replay_known skips them); the latency stream reads the files (VERIF_LATVAL_FILES) and run()
    checks that every such line was executed."""
    kf = os.path.join(ROOT, "known_findings.d", "C18.json")
    out = []
    if not os.path.exists(kf):
        return out
    d = json.load(open(kf))
    for status in ("fixed", "open"):
        for ent in d.get(status, []):
            rp = os.path.join(ROOT, ent.get("replay", ""))
            if ent.get("property") != "C18" or not os.path.isfile(rp):
                continue
            ls = [" ".join(l.split()) for l in open(rp).read().splitlines() if l.startswith("latval ")]
            if ls:
                out.append((rp, ls))
    return out


def replay_known(ctx, binp):
    """Known findings are replayed, not remembered: every committed replay (fixed and open) is run through the
    real code first. A fixed one must pass; an open one prints KNOWN-FINDING only if it still reproduces."""
    kf = os.path.join(ROOT, "known_findings.d", "C18.json")
    if not os.path.exists(kf):
        return
    d = json.load(open(kf))
    for status in ("fixed", "open"):
        for ent in d.get(status, []):
            if ent.get("property") != "C18":
                continue
            rp = os.path.join(ROOT, ent["replay"])
            if not os.path.exists(rp):
                ctx.broken_ties.append("replay file %s missing" % ent["replay"])
                continue
            ops = [l for l in open(rp).read().splitlines() if l.startswith("view ")]
            for op in ops:
                impl, crash = replay_one(ctx, binp, op)
                rc, mout = ctx.driver("e7", stdin=op + "\n")
                ctx.count_case(op, nontrivial=True)
                if crash:
                    what, site, trace = crash
                    ctx.violation(ent["key"], "nsqadmin died (%s in %s) while serving the %s view [replay %s]" % (
                        what, site, req_key(op), ent["replay"]), "op: %s\n\n%s\n" % (op, trace))
                    continue
                bad = property_fails_on(op, impl)
                if bad:
                    ctx.violation(ent["key"], bad + " [replay %s]" % ent["replay"], "op: %s\nimpl: %s\n" % (op, impl))
                elif impl != mout.strip():
                    ctx.log("replay %s: model/impl disagree\n   impl=%s\n  model=%s" % (ent["replay"], impl, mout.strip()))
                    ctx.broken_ties.append("correspondence on replay %s" % ent["replay"])


def replay_one(ctx, binp, op):
    rp = os.path.join(ctx.work, "replay_one.ops")
    with open(rp, "w") as fh:
        fh.write(op + "\n")
    for suffix in (".ops", ".impl"):
        p = os.path.join(ctx.work, "replay" + suffix)
        if os.path.exists(p):
            os.remove(p)
    rc, out = ctx.run_cmd([binp, "-test.run", "^TestVerifE7Replay$", "-test.count=1", "-test.timeout=120s"], timeout=150,
                          env={"VERIF_SEED": ctx.seed, "VERIF_OUT": ctx.work, "VERIF_REPLAY": rp})
    implp = os.path.join(ctx.work, "replay.impl")
    impl = open(implp).read().splitlines() if os.path.exists(implp) else []
    if rc != 0:
        hang = [l for l in out.splitlines() if l.startswith("VIEW-HANGS")]
        if hang:
            return None, (hang[0], "view-hangs", hang[0])
        what, site = crash_key(out)
        return None, (what, site, out[-3000:])
    return (impl[0] if impl else "no-answer"), None
