"""C14 — nsqlookupd answers reflect exactly the live registrations (engine E4, DESIGN.md §5 C14)."""
import glob
import os
from framework import ROOT
import props.e4common as e4

PROPS = ["Nsq.Props.C14", "Nsq.Props.C14Star", "Nsq.Props.C14Sched", "Nsq.Props.C14Stamps", "Nsq.Props.C14Unreg"]


def check_stream(ctx, label, ops_path, impl_path, use_oracle=True, sample=False):
    """correspondence (Lean model vs implementation) + direct oracle (PySpec vs implementation)"""
    ops, impl = e4.read_lines(ops_path), e4.read_lines(impl_path)
    if not ops or len(ops) != len(impl):
        ctx.log("%s: missing or truncated output (%d ops, %d impl)" % (label, len(ops), len(impl)))
        return ["%s: harness output truncated" % label]
    model = e4.model_lines(ctx, ops_path)
    broken = []
    diffs = ctx.diff_lines(impl, model, label)
    for idx, a, b in diffs[:3]:
        ctx.log("%s: model/impl disagree at line %d `%s`\n   impl : %s\n   model: %s" % (label, idx, ops[idx], a[:600], b[:600]))
        broken.append("correspondence %s line %d: %s" % (label, idx, ops[idx]))
    if use_oracle:
        spec = e4.PySpec()
        bad = 0
        for idx, (o, i) in enumerate(zip(ops, impl)):
            want = spec.line(o)
            if want is None:
                continue
            nontrivial = " OK |" in i[:40] or i.startswith(("200", "IDENTIFIED", "closed", "aborted"))
            ctx.count_case(o.split(" ", 1)[-1] + "@" + i[-80:], nontrivial=nontrivial)
            if want != i:
                bad += 1
                if bad <= 3 and len(ctx.violations) < 5:   # a handful of distinct histories is enough
                    hist = e4.history_of(ops, idx)
                    what = ("after %d step(s) the answers differ from the plain registry: op `%s`; nsqlookupd: %s ; "
                            "registry predicts: %s" % (len(hist) - 2, o, first_diff(i, want)[0], first_diff(i, want)[1]))
                    ctx.violation("c14:" + rel_ids(" ; ".join(normalise(h) for h in hist[-4:])), what, "\n".join(hist) + "\n")
        wc = ctx.corr.setdefault("wildcard", {})
        for k, v in spec.stats.items():
            wc[k] = wc.get(k, 0) + v
        if sample:
            for k in (1, len(ops) // 2, len(ops) - 1):
                ctx.add_sample({"op": ops[k], "impl": impl[k][:300]})
    else:
        ctx.evaluations += len(ops)
    return broken


def hist_total(ctx, res, key):
    """sum of the HIST lines (operation:result -> count) of all shards of a leg: the OK/error histogram of the leg"""
    tot = {}
    for rc, out in res:
        for l in out.splitlines():
            if l.startswith("HIST "):
                for kv in l.split()[2:]:
                    k, _, v = kv.rpartition("=")
                    if v.isdigit():
                        tot[k] = tot.get(k, 0) + int(v)
    ctx.corr[key] = " ".join("%s=%d" % kv for kv in sorted(tot.items()))


def first_diff(a, b):
    pa, pb = a.split(" | "), b.split(" | ")
    for x, y in zip(pa, pb):
        if x != y:
            return x[:200], y[:200]
    return a[:200], b[:200]


def rel_ids(key):
    """connection ids are fresh counters: name them by order of appearance so that the same history
    found twice is one finding"""
    import re
    seen = {}

    def sub(m):
        seen.setdefault(m.group(2), "#%d" % (len(seen) + 1))
        return m.group(1) + seen[m.group(2)]
    return re.sub(r"\b((?:identify|register|unregister|ping|disconnect|abort) )(\d+)", sub, key)


def normalise(line):
    w = line.split()
    return " ".join(w[1:]) if w and w[0].lstrip("-").isdigit() else line


def replay(ctx, binp, path, label):
    rc, out = e4.run_leg(ctx, binp, "TestVerifE4Replay", {"VERIF_REPLAY": path}, timeout=300)
    if rc != 0 or "E4-REPLAY-DONE" not in out:
        ctx.log("replay %s failed (rc=%s):\n%s" % (path, rc, out[-1500:]))
        return ["replay %s did not complete" % label]
    return check_stream(ctx, label, os.path.join(ctx.work, "replay.ops"), os.path.join(ctx.work, "replay.impl"))


RACE_WHAT = {
    "unregister-gc-vs-register": "a producer that REGISTERed an #ephemeral channel and was answered OK is not registered: "
                                 "a concurrent UNREGISTER of the last other producer deleted the key in between",
    "unregister-gc-vs-register-topic": "a producer that REGISTERed an #ephemeral topic and was answered OK is missing from "
                                       "the topic: a concurrent UNREGISTER of the last other producer deleted the key",
    "register-vs-topic-delete": "REGISTER topic channel overlapping /topic/delete left the producer registered for the "
                                "topic but not for the channel (no serial order gives that)",
    "create-channel-vs-topic-delete": "POST /channel/create overlapping POST /topic/delete left the topic without the "
                                      "channel created with it, or the channel without its topic (no serial order gives that)",
    "lookup-vs-topic-delete": "GET /lookup?topic=x overlapping a loop of POST /channel/create?topic=x&channel=c ; POST /topic/delete?topic=x "
                              "answered 200 with channels [] although every state a serial order reaches has x together with c or "
                              "neither (doLookup is three critical sections)",
    "nodes-vs-topic-delete": "GET /nodes overlapping a loop of POST /topic/delete?topic=y ; REGISTER y by node A ; REGISTER y by node B "
                             "listed y for B but not for A, a state no serial order reaches (doNodes is 1 + 2n critical sections)",
}


def tombstone_run(ctx, binr):
    """audit B6: the -race build of the harness runs POST /topic/tombstone against GET /lookup, /nodes, /debug"""
    if not binr:
        return None
    return e4.run_test(ctx, binr, "TestVerifE4TombstoneRace", {"VERIF_MS": ctx.budget(1000, 4000)}, 300)


def tombstone_eval(ctx, res):
    """The Go race detector is the oracle. A report naming (*Producer).Tombstone is the known finding
    race:tombstone-unlocked-write; any other data race report is a finding of its own."""
    if res is None:
        return ["harness harness/e4 does not compile with -race against the current tree"]
    rc, out = res
    m = [l for l in out.splitlines() if l.startswith("TOMBRACE ")]
    if not m:
        ctx.log("tombstone race leg failed:\n" + out[-1500:])
        return ["tombstone race leg (race build) exit %s without a result line" % rc]
    rounds = int(m[0].split()[1].split("=")[1])
    ctx.evaluations += rounds
    blocks = out.split("WARNING: DATA RACE")[1:]
    tomb = [b for b in blocks if "(*Producer).Tombstone" in b]
    other = [b for b in blocks if "(*Producer).Tombstone" not in b]
    ctx.corr.setdefault("races", {})["tombstone-unlocked-write"] = "race-detector reports=%d (other=%d) %s" % (
        len(tomb), len(other), m[0][9:])
    if tomb:
        readers = sorted(set(w for b in tomb for w in ("IsTombstoned", "doDebug", "doNodes", "doLookup") if w in b))
        ctx.violation("race:tombstone-unlocked-write",
                      "Go data race: POST /topic/tombstone writes Producer.tombstoned/tombstonedAt outside the RegistrationDB lock "
                      "while %s read them (%d race-detector reports in %d rounds)" % (", ".join(readers), len(tomb), rounds),
                      "race tombstone-unlocked-write\n# run: ./check C14 --replay corpus/C14/known/races.ops\n" + tomb[0][:3000])
    for b in other[:1]:
        frames = [l.strip() for l in b.splitlines() if l.strip().startswith("github.com/nsqio/nsq/nsqlookupd.")][:2]
        ctx.violation("race:data-race:" + "|".join(f.split("(")[0] + f.split(")")[0][-12:] for f in frames),
                      "Go data race in nsqlookupd reported by the race detector: " + " / ".join(frames),
                      "race tombstone-unlocked-write\n" + b[:3000])
    return []


def races_run(ctx, binp):
    return e4.run_leg(ctx, binp, "TestVerifE4Races", {"VERIF_MS": ctx.budget(1200, 4000)}, 300)


def races(ctx, binp, only=None, res=None):
    """known findings (concurrency): replayed on every run, reported only if they reproduce"""
    rc, out = res if res is not None else races_run(ctx, binp)
    seen = {}
    for l in out.splitlines():
        w = l.split()
        if len(w) == 4 and w[0] == "RACE":
            seen[w[1]] = (int(w[2].split("=")[1]), int(w[3].split("=")[1]))
    ctx.corr.setdefault("races", {}).update({k: "bad=%d rounds=%d" % v for k, v in seen.items()})
    if rc != 0:
        ctx.log("race harness failed:\n" + out[-1500:])
        return ["race harness exit %s" % rc]
    for name, (bad, rounds) in seen.items():
        if only and name not in only:
            continue
        ctx.evaluations += rounds
        if bad > 0:
            # F12, F21, F37 are committed and the ties accept only the one-critical-section shapes: a torn answer is a
            # VIOLATION under the key of the `fixed` entry it re-opens (known_findings.d/C14.json), with the race replay
            ctx.violation("race:" + name, RACE_WHAT.get(name.split(":")[0], name) + " (%d of %d rounds)" % (bad, rounds),
                          "race %s\n# run: ./check C14 --replay corpus/C14/known/races.ops\n" % name)
    return []


def tree_shape(ctx):
    """which critical-section shape the regenerated facts found (the Bools the `…_tree` theorems are stated over)"""
    from framework import LEAN, sh
    f = os.path.join(ctx.work, "shape.lean")
    with open(f, "w") as fh:
        fh.write("import Nsq.Tie.Registry\nopen Nsq.Tie.Registry in\n#eval IO.println s!\"SHAPE treeAtomic={treeAtomic} "
                 "unregisterAtomic={unregisterAtomic} readersAtomic={readersAtomic} tombstoneAtomic={tombstoneAtomic}\"\n")
    rc, out = sh(["lake", "env", "lean", f], cwd=LEAN, timeout=300)
    m = [l for l in out.splitlines() if l.startswith("SHAPE ")]
    shape = dict(kv.split("=") for kv in m[0].split()[1:]) if m else {}
    ctx.corr["tree_shape"] = shape or ("not evaluated (tie does not build): " + out[-200:])
    return shape


def run(ctx):
    ctx.trusted += [t for t in e4.TRUSTED if not t.startswith("Go memory model")]
    ctx.trusted.append(
        "Go memory model: a RegistrationDB method body between Lock/RLock and the deferred unlock is one atomic step w.r.t. "
        "every other such body (sync.RWMutex). WHICH handlers are one such body is not trusted: regenerated lock/call facts "
        "(Tie.Registry register_shape, unregister_shape, admin_topic_shape, readers_shape, tombstone_shape: ONLY the shapes of "
        "the committed fixes F12 994e31e, F21 0d24920, F37 682420a, F38 415122f are accepted) decide treeAtomic = readersAtomic = "
        "tombstoneAtomic = true, and the theorems `…_tree` are stated over these computed Bools")
    ctx.assumptions += [
        "Nsq.Props.C14 (deterministic part) carries Op.modelled / t != '*'; Nsq.Props.C14Star removes both: POST "
        "/topic/tombstone?topic=* and GET /lookup?topic=* are modelled as SETS of allowed results (one per admissible "
        "outcome `pick` of Go's map iteration); the harness reads the outcome off the real run and model + oracle accept "
        "or refuse it",
        "refines_run / history_answers are about histories whose handler calls do not overlap (one call = one step). "
        "Overlapping calls: the WRITERS REGISTER, UNREGISTER channel, /topic/create|delete, /channel/create are one critical "
        "section each on this tree (facts; concurrent_schedules_linearizable_tree: key set of a serial order, for c != '' and "
        "t != '*'; the whole DB in concurrent_register_delete_linearizable_fixed / concurrent_create_delete_linearizable_fixed; "
        "unregister_shape holds no Lock fact for RemoveProducerAndPrune and no theorem is stated over unregisterAtomic / "
        "tombstoneAtomic - for these the race legs are the check) and so linearize; the READERS GET /lookup "
        "and GET /nodes are one critical section each since F37 (/repo 682420a; facts: readers_atomic): "
        "concurrent_readers_linearizable_this_tree - the registry part of their answers (lookupDB / nodesDB; PING's lastUpdate "
        "stamp lives outside the lock and outside the section model) is that of one state of the writers' serial order, for "
        "every schedule. The `…_false` theorems (concurrent_lookup_delete_linearizable_false, "
        "concurrent_nodes_delete_linearizable_false, concurrent_schedules_linearizable_unfixed_false) are about the shapes "
        "BEFORE the fixes; their findings are listed `fixed` and replayed on every run (a reproduction is a VIOLATION). "
        "Handlers that remain several sections by design (UNREGISTER topic, the IOLoop exit = disconnect, /channel/delete) "
        "only remove: a reader sees the registry after a PREFIX of their sections (atomic_reader_sees_prefix), e.g. a "
        "disconnecting node with part of its topics",
        "the model's tombstone step (tombstoneDB, one step) is one critical section of the code since F38 (/repo 415122f) + F37: "
        "a checked fact (Tie.Registry.tombstone_atomic), no longer an assumption; the -race build of the harness still runs "
        "POST /topic/tombstone against the readers on every run (a data-race report is a VIOLATION)",
    ]
    ctx.rule = ("every history of length L over the full alphabet (2 producers x {IDENTIFY, PING, disconnect, "
                "REGISTER/UNREGISTER x 2 topics (one #ephemeral) x {no channel, c, d#ephemeral}} + create/delete "
                "topic/channel + tombstone x 2 nodes + tombstone topic=* + the topic=* queries + advance time by 1 or 2 units) from an empty registry, all "
                "answers (/topics, /channels, /lookup per topic, /nodes, /debug) compared after EVERY step; plus long "
                "random histories (3 producers, two sharing one node address) and concurrent histories at quiescent "
                "points. A case = (operation, resulting answers); non-trivial = the operation succeeded")
    # the -race build of the harness (audit B6) compiles in the background while the Lean side is checked
    import concurrent.futures
    pool = concurrent.futures.ThreadPoolExecutor(max_workers=1)
    race_bin = pool.submit(ctx.go_test_binary, "nsqlookupd", e4.HARNESS, "e4c14race", None, "verif", True)
    e4.lean_side(ctx, PROPS)
    shape = tree_shape(ctx)
    if shape:
        print("tree shape (from regenerated facts): " + " ".join("%s=%s" % kv for kv in sorted(shape.items())))
    broken = []
    binp = e4.build_harness(ctx, "e4c14")
    first = e4.read_lines(ctx.replay_in)[:10] if ctx.replay_in else []
    if binp and ctx.replay_in and any(l.startswith("race ") for l in first):
        names = [l.split()[1] for l in e4.read_lines(ctx.replay_in) if l.startswith("race ")]
        broken += races(ctx, binp, only=names)
        if "tombstone-unlocked-write" in names:
            broken += tombstone_eval(ctx, tombstone_run(ctx, race_bin.result()))
        print("races: %s" % ctx.corr.get("races"))
    elif binp and ctx.replay_in:
        broken += replay(ctx, binp, os.path.abspath(ctx.replay_in), "replay")
        ml = e4.model_lines(ctx, os.path.join(ctx.work, "replay.ops"))
        for k, l in enumerate(e4.read_lines(os.path.join(ctx.work, "replay.impl"))):
            print("op   : " + e4.read_lines(os.path.join(ctx.work, "replay.ops"))[k][:400])
            print("impl : " + l[:400])
            print("model: " + (ml[k][:400] if k < len(ml) else "<missing>"))
    elif binp:
        # the race legs (free-running goroutines, time-boxed) run next to the sequential legs; evaluated at the end
        race_res = pool.submit(lambda: (races_run(ctx, binp), tombstone_run(ctx, race_bin.result())))
        for f in sorted(glob.glob(os.path.join(ROOT, "corpus", "C14", "*.ops"))):
            broken += replay(ctx, binp, f, "corpus:" + os.path.basename(f))
        nsh = 8
        jobs = []
        L = 3
        for s in range(nsh):
            jobs.append((binp, "TestVerifE4Exhaustive", {"VERIF_LEN": L, "VERIF_SHARD": s, "VERIF_NSHARD": nsh,
                                                          "VERIF_ALPHA": "full"}, 900))
        res = e4.run_parallel(ctx, jobs, workers=nsh)
        for s, (rc, out) in enumerate(res):
            if rc != 0:
                ctx.log("exhaustive shard %d failed:\n%s" % (s, out[-1500:]))
                broken.append("exhaustive harness shard %d exit %s" % (s, rc))
                continue
            if s == 0:
                e4.hist_lines(ctx, out, "exhaustive_full_len%d_shard0" % L)
            broken += check_stream(ctx, "exh_%d" % s, os.path.join(ctx.work, "exh_%d.ops" % s),
                                   os.path.join(ctx.work, "exh_%d.impl" % s), sample=(s == 0))
        hist_total(ctx, res, "exhaustive_full_len%d_all_shards" % L)
        # audit B27: the same alphabet and length from the state in which both producers have IDENTIFYed (from the empty
        # registry ~99 %% of the REGISTER/UNREGISTER steps are E_INVALID "client must IDENTIFY"): a strided 1/16 sample in
        # the quick tier, 1/2 (78 732 histories, rotating with the seed) in the thorough tier (which must stay within ~10 min)
        stride = ctx.budget(16 * nsh, 2 * nsh)
        jobs = [(binp, "TestVerifE4Exhaustive", {"VERIF_LEN": L, "VERIF_SHARD": (s * (stride // nsh) + ctx.seed) % stride,
                                                  "VERIF_NSHARD": stride, "VERIF_ALPHA": "full", "VERIF_PRE": "ident"}, 900)
                for s in range(nsh)]
        res = e4.run_parallel(ctx, jobs, workers=nsh)
        for s, (rc, out) in enumerate(res):
            sh = jobs[s][2]["VERIF_SHARD"]
            if rc != 0:
                ctx.log("exhaustive(identified) shard %d failed:\n%s" % (sh, out[-1500:]))
                broken.append("exhaustive(identified) harness shard %d exit %s" % (sh, rc))
                continue
            if s == 0:
                e4.hist_lines(ctx, out, "exhaustive_full_len%d_identified_shard" % L)
            broken += check_stream(ctx, "exhp_%d" % sh, os.path.join(ctx.work, "exhp_%d.ops" % sh),
                                   os.path.join(ctx.work, "exhp_%d.impl" % sh))
        hist_total(ctx, res, "exhaustive_full_len%d_identified_all_shards" % L)
        # longer histories over the reduced alphabet (strided sample in the quick tier)
        jobs = []
        L2 = 4
        stride = ctx.budget(8 * nsh, nsh)
        for s in range(nsh):
            jobs.append((binp, "TestVerifE4Exhaustive", {"VERIF_LEN": L2, "VERIF_SHARD": (s + ctx.seed) % stride,
                                                          "VERIF_NSHARD": stride, "VERIF_ALPHA": "small"}, 1500))
        res = e4.run_parallel(ctx, jobs, workers=nsh)
        for s, (rc, out) in enumerate(res):
            sh = (s + ctx.seed) % stride
            if rc != 0:
                ctx.log("exhaustive(small) shard %d failed:\n%s" % (sh, out[-1500:]))
                broken.append("exhaustive(small) harness shard %d exit %s" % (sh, rc))
                continue
            if s == 0:
                e4.hist_lines(ctx, out, "exhaustive_small_len%d" % L2)
            broken += check_stream(ctx, "exhs_%d" % sh, os.path.join(ctx.work, "exh_%d.ops" % sh),
                                   os.path.join(ctx.work, "exh_%d.impl" % sh))
        if ctx.thorough():
            # depth 5 over the 13-operation alphabet (371 293 histories): round 10 budget - HALF of them per run (8 of 16
            # shards, rotating with the seed: two seeds of different parity cover all of them); the whole set took ~3.5 min
            # of a 754 s thorough run on a loaded box (target <= 8 min)
            jobs = [(binp, "TestVerifE4Exhaustive", {"VERIF_LEN": 5, "VERIF_SHARD": (2 * s + ctx.seed) % (2 * nsh),
                                                      "VERIF_NSHARD": 2 * nsh, "VERIF_ALPHA": "tiny"}, 2400) for s in range(nsh)]
            res = e4.run_parallel(ctx, jobs, workers=nsh)
            for s, (rc, out) in enumerate(res):
                sh = (2 * s + ctx.seed) % (2 * nsh)
                if rc != 0:
                    ctx.log("exhaustive(tiny,5) shard %d failed:\n%s" % (sh, out[-1500:]))
                    broken.append("exhaustive(tiny,5) harness shard %d exit %s" % (sh, rc))
                    continue
                if s == 0:
                    e4.hist_lines(ctx, out, "exhaustive_tiny_len5")
                broken += check_stream(ctx, "exh5_%d" % sh, os.path.join(ctx.work, "exh_%d.ops" % sh),
                                       os.path.join(ctx.work, "exh_%d.impl" % sh))
            # full alphabet, length 4: a 1/64 strided sample of the 5.3 million histories (1/32 before round 10)
            jobs = [(binp, "TestVerifE4Exhaustive", {"VERIF_LEN": 4, "VERIF_SHARD": (s * 64 + ctx.seed) % 512,
                                                      "VERIF_NSHARD": 512, "VERIF_ALPHA": "full"}, 1500) for s in range(nsh)]
            res = e4.run_parallel(ctx, jobs, workers=nsh)
            for s, (rc, out) in enumerate(res):
                sh = (s * 64 + ctx.seed) % 512
                if rc != 0:
                    ctx.log("exhaustive(full,4) shard %d failed:\n%s" % (sh, out[-1500:]))
                    broken.append("exhaustive(full,4) harness shard %d exit %s" % (sh, rc))
                    continue
                if s == 0:
                    e4.hist_lines(ctx, out, "exhaustive_full_len4_sample")
                broken += check_stream(ctx, "exh4_%d" % sh, os.path.join(ctx.work, "exh_%d.ops" % sh),
                                       os.path.join(ctx.work, "exh_%d.impl" % sh))
        # long random histories (real HTTP)
        nr = ctx.budget(2, 8)
        jobs = [(binp, "TestVerifE4Random", {"VERIF_N": ctx.budget(12, 60), "VERIF_LEN": ctx.budget(150, 300),
                                              "VERIF_SHARD": s}, 1500) for s in range(nr)]
        res = e4.run_parallel(ctx, jobs, workers=nr)
        for s, (rc, out) in enumerate(res):
            if rc != 0:
                ctx.log("random shard %d failed:\n%s" % (s, out[-1500:]))
                broken.append("random harness shard %d exit %s" % (s, rc))
                continue
            if s == 0:
                e4.hist_lines(ctx, out, "random")
            broken += check_stream(ctx, "rnd_%d" % s, os.path.join(ctx.work, "rnd_%d.ops" % s),
                                   os.path.join(ctx.work, "rnd_%d.impl" % s), sample=(s == 0))
        # option edge values: --tombstone-lifetime 0 / negative (tombstones never in force), --inactive-producer-timeout
        # negative (every nsqd hidden). (inactive = 0 is a threshold: listed only at the very instant of the last PING,
        # not observable live; tied by the strict `>` fact.) Theorems: C14Star.tombstone_lifetime_nonpositive_disables, …
        edge = [("tomblife0", {"VERIF_E4_TOMBLIFE_S": 0}), ("tomblife-neg", {"VERIF_E4_TOMBLIFE_S": -7}),
                ("inactive-neg", {"VERIF_E4_INACTIVE_S": -1})]
        jobs = []
        for k, (name, env) in enumerate(edge):
            e = {"VERIF_N": ctx.budget(4, 20), "VERIF_LEN": 120, "VERIF_SHARD": 100 + k}
            e.update(env)
            jobs.append((binp, "TestVerifE4Random", e, 900))
        res = e4.run_parallel(ctx, jobs, workers=len(edge))
        for k, (rc, out) in enumerate(res):
            if rc != 0:
                ctx.log("option-edge leg %s failed:\n%s" % (edge[k][0], out[-1500:]))
                broken.append("option-edge harness %s exit %s" % (edge[k][0], rc))
                continue
            e4.hist_lines(ctx, out, "option_edge_" + edge[k][0])
            broken += check_stream(ctx, "edge_" + edge[k][0], os.path.join(ctx.work, "rnd_%d.ops" % (100 + k)),
                                   os.path.join(ctx.work, "rnd_%d.impl" % (100 + k)))
        # concurrent histories, quiescent points
        rc, out = e4.run_leg(ctx, binp, "TestVerifE4Concurrent", {"VERIF_N": ctx.budget(15, 150), "VERIF_LEN": 40}, 900)
        if rc != 0:
            ctx.log("concurrent harness failed:\n" + out[-1500:])
            broken.append("concurrent harness exit %s" % rc)
        else:
            e4.hist_lines(ctx, out, "concurrent")
            broken += check_stream(ctx, "conc", os.path.join(ctx.work, "conc.ops"), os.path.join(ctx.work, "conc.impl"))
        r1, r2 = race_res.result()
        broken += races(ctx, binp, res=r1)
        broken += tombstone_eval(ctx, r2)
    if (ctx.broken_ties or broken) and not ctx.violations:
        ctx.broken_without_input(ctx.broken_ties + broken,
                                 "search: %d generated (operation, answers) cases were all as the plain registry "
                                 "predicts" % ctx.evaluations)
