"""Helpers shared by the engine-E1 property modules (C04, C07, C12)."""
import glob
import os
import re

from framework import ROOT


def corpus_files(prop, sub=None):
    """Committed .ops files of a property (minimised past failures first, then fixed findings)."""
    base = os.path.join(ROOT, "corpus", prop)
    pats = [os.path.join(base, "*.ops"), os.path.join(base, "fixed", "*.ops"), os.path.join(base, "known", "*.ops")]
    out = []
    for p in pats:
        out += sorted(glob.glob(p))
    if sub:
        out = [f for f in out if sub(f)]
    return out


def run_corr(ctx, binp, test, stream, n, extra_env=None, timeout=900):
    """Run one correspondence test of a harness binary; returns (ok, ops, impl, stdout)."""
    env = {"VERIF_SEED": ctx.seed, "VERIF_N": n, "VERIF_OUT": ctx.work}
    env.update(extra_env or {})
    for ext in (".ops", ".impl"):
        try:
            os.remove(os.path.join(ctx.work, stream + ext))
        except OSError:
            pass
    rc, out = ctx.run_cmd([binp, "-test.run", "^%s$" % test, "-test.count=1", "-test.timeout=%ds" % timeout],
                          timeout=timeout + 30, env=env)
    opsf = os.path.join(ctx.work, stream + ".ops")
    ops = open(opsf).read().splitlines() if os.path.exists(opsf) else []
    implf = os.path.join(ctx.work, stream + ".impl")
    impl = open(implf).read().splitlines() if os.path.exists(implf) else []
    oracle_fail = [l for l in out.splitlines() if l.startswith("ORACLE-FAIL")]
    ok = (rc == 0) or bool(oracle_fail)  # an oracle failure makes the go test fail: that is a result, not a breakdown
    pan = go_panic(out)
    if pan and not oracle_fail:
        # the real code panicked under a generated, valid use: that is a failure with an input (the run)
        ctx.violation("panic:" + stream, "PANIC in the code under test during %s: %s" % (test, pan),
                      "harness %s seed %s N %s\n%s\n" % (test, ctx.seed, n, out[-3000:]))
        ok = True
    if not ok:
        ctx.log("harness %s failed (rc=%s):\n%s" % (test, rc, out[-2500:]))
    return ok, ops, impl, out


def go_panic(out):
    """First line of a Go panic in a test binary's output plus the innermost nsq frames, or None."""
    m = re.search(r"^panic: (.*)$", out, re.M)
    if not m or "test timed out" in m.group(1):
        return None
    frames = [l.strip() for l in out[m.end():].splitlines() if "nsqio/nsq" in l and "zz_verif" not in l and "(" in l]
    return (m.group(1) + " at " + " <- ".join(frames[:4]))[:500]


def model_of(ctx, stream):
    rc, mout = ctx.driver("e1", stdin_path=os.path.join(ctx.work, stream + ".ops"), timeout=1200)
    return mout.splitlines()


def histogram(out, tag):
    m = re.search(r"^%s (.*)$" % re.escape(tag), out, re.M)
    return m.group(1) if m else ""


def unhex(h):
    return b"" if h == "-" else bytes.fromhex(h)


def replay_ops(path):
    """Operation lines of a replay / corpus file: `op: <line>` entries of a written replay, or the
    raw operation lines of an .ops file."""
    ops = []
    for l in open(path).read().splitlines():
        l = l.strip()
        if l.startswith("op: "):
            ops.append(l[4:])
        elif l and not l.startswith("#") and not l.startswith("impl:") and not l.startswith("model:") \
                and not l.startswith("(") and re.match(r"^[a-z0-9]+ ", l) and ":" not in l.split()[0]:
            ops.append(l)
    return ops


def replay(ctx, binp, plans, oracle):
    """--replay: run the operation lines of ctx.replay_in on the real code (through the harness's corpus
    hook) and through the model, print both answers side by side, evaluate the oracle.
    plans: list of (test, stream, accepts(op) -> bool)."""
    ops = replay_ops(ctx.replay_in)
    print("replaying %d operation line(s) of %s against %s" % (len(ops), ctx.replay_in, os.environ.get("VERIF_REPO", "/repo")))
    done = 0
    for test, stream, accepts in plans:
        mine = [o for o in ops if accepts(o)]
        if not mine:
            continue
        f = os.path.join(ctx.work, "replay_%s.ops" % stream)
        with open(f, "w") as fh:
            fh.write("\n".join(mine) + "\n")
        ok, rops, impl, out = run_corr(ctx, binp, test, stream, 0, {"VERIF_CORPUS": f}, timeout=600)
        for l in out.splitlines():
            if l.startswith("ORACLE-FAIL"):
                print("  " + l)
                ctx.violation("replay-oracle", l, "replay of %s\n%s\n" % (ctx.replay_in, l))
        model = model_of(ctx, stream) if ok else []
        for k, o in enumerate(rops):
            i = impl[k] if k < len(impl) else "<missing>"
            m = model[k] if k < len(model) else "<missing>"
            bad = oracle(o, i)
            print("op:    %s\n  impl:  %s\n  model: %s\n  %s%s" % (
                o[:400], i[:400], m[:400], "AGREE" if i == m else "DIFFER",
                ("; PROPERTY FAILS: " + bad) if bad else ""))
            ctx.count_case(o)
            done += 1
            if bad:
                ctx.violation("replay", bad, "op: %s\nimpl: %s\nmodel: %s\n" % (o, i, m))
    if done == 0:
        print("no replayable operation line found (channel histories and end-to-end failures are replayed by "
              "re-running the check with the VERIF_SEED named in the replay file)")
