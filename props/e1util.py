"""Helpers shared by the engine-E1 property modules (C04, C07, C12)."""
import glob
import os
import re

from framework import ROOT


def corpus_files(prop, sub=None):
    """Committed .ops files of a property (minimised past failures first, then fixed findings)."""
    base = os.path.join(ROOT, "corpus", prop)
    pats = [os.path.join(base, "*.ops"), os.path.join(base, "fixed", "*.ops"), os.path.join(base, "known", "*.ops")]
    out = []
    for p in pats:
        out += sorted(glob.glob(p))
    if sub:
        out = [f for f in out if sub(f)]
    return out


def run_corr(ctx, binp, test, stream, n, extra_env=None, timeout=900):
    """Run one correspondence test of a harness binary; returns (ok, ops, impl, stdout)."""
    env = {"VERIF_SEED": ctx.seed, "VERIF_N": n, "VERIF_OUT": ctx.work}
    env.update(extra_env or {})
    for ext in (".ops", ".impl"):
        try:
            os.remove(os.path.join(ctx.work, stream + ext))
        except OSError:
            pass
    rc, out = ctx.run_cmd([binp, "-test.run", "^%s$" % test, "-test.count=1", "-test.timeout=%ds" % timeout],
                          timeout=timeout + 30, env=env)
    opsf = os.path.join(ctx.work, stream + ".ops")
    ops = open(opsf).read().splitlines() if os.path.exists(opsf) else []
    implf = os.path.join(ctx.work, stream + ".impl")
    impl = open(implf).read().splitlines() if os.path.exists(implf) else []
    oracle_fail = [l for l in out.splitlines() if l.startswith("ORACLE-FAIL")]
    ok = (rc == 0) or bool(oracle_fail)  # an oracle failure makes the go test fail: that is a result, not a breakdown
    if not ok:
        ctx.log("harness %s failed (rc=%s):\n%s" % (test, rc, out[-2500:]))
    return ok, ops, impl, out


def model_of(ctx, stream):
    rc, mout = ctx.driver("e1", stdin_path=os.path.join(ctx.work, stream + ".ops"), timeout=1200)
    return mout.splitlines()


def histogram(out, tag):
    m = re.search(r"^%s (.*)$" % re.escape(tag), out, re.M)
    return m.group(1) if m else ""


def unhex(h):
    return b"" if h == "-" else bytes.fromhex(h)
