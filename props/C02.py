"""C02 — exclusive in-flight ownership; redelivery only after REQ/timeout; FIN is final (engine E2)."""
import e2

TIE = ["Nsq.Tie.Chan"]
PROPS = ["Nsq.Props.C02", "Nsq.Props.C02Micro"]


def run(ctx):
    ctx.rule = ("correspondence: generated nsqd episodes (mem-queue-size 0/1/2/3/10000, tiny max-bytes-per-file, 1..3 topics x "
                "0..3 channels x 0..3 consumers, ephemeral and durable; structured stream + malformed stream of foreign / "
                "duplicate / late / wrong-connection answers) executed on a real NSQD and replayed through the Lean state "
                "machine; a case is one op/observation line, distinct by its canonical text, non-trivial unless it is a "
                "barrier/bookkeeping line or a refused answer; oracle: at most one holder, attempts consecutive, no delivery "
                "after FIN, failed answers change nothing (white-box dump before/after), heap/map agreement")
    ctx.assumptions += [
        "attempts_consecutive: stated for deliveries number n < 65536 of one message (the wire field is uint16)",
        "micro-step windows of the in-flight map/heap: proved on the micro-step model Nsq.Model.ChanMicro (one step per "
        "critical section, any schedule; deadlines abstracted: the scan may pop any heap member); the real-code witnesses "
        "are the steered late-answer and fin-vs-scan legs; the free-running concurrent leg checks the invariants at "
        "quiescent points",
        "model assumptions (named, not proved of the code): message ids are unique (a put of an id the channel has already seen is "
        "refused: 'id-reused'; real ids come from the guid factory, C12) and connection ids are never reused ('conn-reused'; "
        "nsqd.clientIDSequence only grows)",
    ]
    res, broken = e2.run_property(ctx, "C02", TIE, PROPS)
    if (ctx.broken_ties or broken) and not ctx.violations:
        ctx.broken_without_input(ctx.broken_ties + broken,
                                 "search: %d generated op lines and the concurrent leg found no ownership violation"
                                 % ctx.evaluations)
