"""C01 — at-least-once delivery (engine E2): safety half proved, liveness partial."""
import e2

TIE = ["Nsq.Tie.Chan"]
PROPS = ["Nsq.Props.C01", "Nsq.Props.C01Live"]
PROPS = PROPS + ["Nsq.Props.C01DQ"]  # E9 glue (builder dq2): memory queue + go-diskqueue backend: overflow to disk and back keeps the multiset


def run(ctx):
    ctx.rule = ("correspondence: generated nsqd episodes (queue configurations mem-queue-size 0/1/2/3/10000 with tiny "
                "max-bytes-per-file so disk queues roll; TCP and HTTP PUB/MPUB/DPUB; REQ with any delay, TOUCH, timeouts by "
                "scans at chosen times, disconnects with messages in flight, pause/unpause, channels created with a backlog) "
                "replayed through the Lean state machine; a case is one op/observation line; oracle: client-side ledger — after "
                "every history each channel is drained by a well-behaved consumer and finished+emptied+sampled-out must equal "
                "the acknowledged publishes the channel was entitled to; no message body/id that was never published")
    ctx.assumptions += [
        "liveness ('keeps being redelivered for as long as the daemon runs') is proved in Nsq.Props.C01Live "
        "(eventually_delivered, redelivered_until_gone) for every infinite schedule of the channel model UNDER the named fairness "
        "hypotheses FairScanInFlight / FairScanDeferred (weak fairness of a scan tick with t >= deadline), FairTake (strong fairness "
        "of the consumer pumps towards each queued message: the queue is a bag, Go's select decides which message a pump receives) "
        "and ReadyInfOften (some consumer's guard holds infinitely often); that the Go scheduler, timers and queueScanLoop satisfy "
        "them is NOT discharged (tick-count side: Nsq.Props.C04Live); the drain-and-compare oracle measures it",
        "topic level: only enabledness of the fan-out step is proved (pump_enabled)",
        "an #ephemeral channel may drop on overflow and a sampling consumer may drop: the two deliberate drops of the statement",
        "Channel.Empty / channel deletion / shutdown windows belong to C08 / C05",
    ]
    res, broken = e2.run_property(ctx, "C01", TIE, PROPS)
    if (ctx.broken_ties or broken) and not ctx.violations:
        ctx.broken_without_input(ctx.broken_ties + broken,
                                 "search: %d generated op lines incl. the drain-and-compare ledger and the concurrent leg "
                                 "found no lost or phantom message" % ctx.evaluations)
