"""C01 — at-least-once delivery (engine E2): safety half proved, liveness partial."""
import e2

TIE = ["Nsq.Tie.Chan", "Nsq.Tie.TopicEph"]
PROPS = ["Nsq.Props.C01", "Nsq.Props.C01Live", "Nsq.Props.C01Topic", "Nsq.Props.C01PumpLedger", "Nsq.Props.C01Eph", "Nsq.Props.C01Snap", "Nsq.Props.C01Raw"]
PROPS = PROPS + ["Nsq.Props.C01DQ"]  # E9 glue (builder dq2): memory queue + go-diskqueue backend: overflow to disk and back keeps the multiset


def run(ctx):
    ctx.rule = ("correspondence: generated nsqd episodes (queue configurations mem-queue-size 0/1/2/3/10000 with tiny "
                "max-bytes-per-file so disk queues roll; TCP and HTTP PUB/MPUB/DPUB; REQ with any delay, TOUCH, timeouts by "
                "scans at chosen times, disconnects with messages in flight, pause/unpause, channels created with a backlog) "
                "replayed through the Lean state machine; a case is one op/observation line; oracle: client-side ledger — after "
                "every history each channel is drained by a well-behaved consumer and finished+emptied+sampled-out must equal "
                "the acknowledged publishes the channel was entitled to; no message body/id that was never published")
    ctx.assumptions += [
        "liveness ('keeps being redelivered for as long as the daemon runs') is proved in Nsq.Props.C01Live "
        "(eventually_delivered, redelivered_until_gone) for every infinite schedule of the channel model UNDER the named fairness "
        "hypotheses FairScanInFlight / FairScanDeferred (weak fairness of a scan tick with t >= deadline), FairTake (strong fairness "
        "of the consumer pumps towards each queued message: the queue is a bag, Go's select decides which message a pump receives) "
        "and ReadyInfOften (some consumer's guard holds infinitely often); that the Go scheduler, timers and queueScanLoop satisfy "
        "them is NOT discharged (tick-count side: Nsq.Props.C04Live); the drain-and-compare oracle measures it",
        "topic level (round 7, Nsq.Props.C01Topic, every infinite schedule NExec of API-level ops of the nsqd-level model from a state "
        "satisfying the invariant): eventually_fanned_out / acked_eventually_delivered — a message in a topic queue is fanned out to EVERY "
        "channel the topic has at that moment and is then delivered on each of them, or that channel ceases to own it (while it exists: one of "
        "the four removal events, fanned_then_gone_is_removed) or the channel itself disappeared (#ephemeral, reaped) — UNDER the named hypotheses FairTopicPump (strong "
        "fairness of Topic.messagePump towards each queued message; the topic queue is a bag), PumpEnabledInfOften (topic unpaused with "
        ">= 1 channel infinitely often) and the four channel-level hypotheses per channel; not discharged for the Go scheduler",
        "an #ephemeral channel may drop on overflow and a sampling consumer may drop: the two deliberate drops of the statement",
        "Channel.Empty / channel deletion / shutdown windows belong to C08 / C05",
        "#ephemeral TOPICS (audit A5) are an extension model (Nsq.Model.TopicEph over ChanNsqd, theorems Nsq.Props.C01Eph): "
        "ack_implies_enqueued is FALSE for them (ack_implies_enqueued_false_ephemeral); an acknowledged PUB is, per step, either put in the topic queue "
        "or recorded as dropped (eph_ack_enqueued_or_dropped; 'never both' under id-freshness hypotheses that are not a proved invariant; "
        "MPUB: kept + dropped = published), dropped only when the memory queue had no room "
        "(only_deliberate_drops_topic), and counted either way (eph_counts_include_dropped) — the third deliberate drop of the statement; "
        "fanout_complete / the liveness theorems are NOT restated over the extension; an ephemeral topic deleting itself with its last "
        "channel is not modelled",
    ]
    if not ctx.replay_in:
        ctx.gen("e2_topiceph")      # Topic.put / NewTopic's #ephemeral branch / dummyBackendQueue.Put (Nsq.Tie.TopicEph)
    res, broken = e2.run_property(ctx, "C01", TIE, PROPS)
    if (ctx.broken_ties or broken) and not ctx.violations:
        ctx.broken_without_input(ctx.broken_ties + broken,
                                 "search: %d generated op lines incl. the drain-and-compare ledger and the concurrent leg "
                                 "found no lost or phantom message" % ctx.evaluations)
