"""C01 — at-least-once delivery (engine E2): safety half proved, liveness partial."""
import e2

TIE = ["Nsq.Tie.Chan"]
PROPS = ["Nsq.Props.C01"]


def run(ctx):
    ctx.rule = ("correspondence: generated nsqd episodes (queue configurations mem-queue-size 0/1/2/3/10000 with tiny "
                "max-bytes-per-file so disk queues roll; TCP and HTTP PUB/MPUB/DPUB; REQ with any delay, TOUCH, timeouts by "
                "scans at chosen times, disconnects with messages in flight, pause/unpause, channels created with a backlog) "
                "replayed through the Lean state machine; a case is one op/observation line; oracle: client-side ledger — after "
                "every history each channel is drained by a well-behaved consumer and finished+emptied+sampled-out must equal "
                "the acknowledged publishes the channel was entitled to; no message body/id that was never published")
    ctx.assumptions += [
        "liveness ('keeps being redelivered for as long as the daemon runs') needs Go scheduler fairness and the timing of "
        "queueScanLoop: only enabledness is proved (deliver_enabled, timeout_enabled, deferred_enabled, pump_enabled); the "
        "drain-and-compare oracle measures it",
        "an #ephemeral channel may drop on overflow and a sampling consumer may drop: the two deliberate drops of the statement",
        "Channel.Empty / channel deletion / shutdown windows belong to C08 / C05",
    ]
    res, broken = e2.run_property(ctx, "C01", TIE, PROPS)
    if (ctx.broken_ties or broken) and not ctx.violations:
        ctx.broken_without_input(ctx.broken_ties + broken,
                                 "search: %d generated op lines incl. the drain-and-compare ledger and the concurrent leg "
                                 "found no lost or phantom message" % ctx.evaluations)
