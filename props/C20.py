"""C20 — relay tools forward every record exactly and acknowledge only on success (engine E8, DESIGN.md §5 C20)."""
import os
import re
import framework as fw
import c20_opts   # round 6: to_nsq main loop end-to-end leg + option surface (sub-builder `relay`)

TIE = ["Nsq.Tie.ToolsSplit", "Nsq.Tie.ToolsRelay"] + c20_opts.TIE
PROPS = ["Nsq.Props.C20", "Nsq.Props.C20GiveUp"] + c20_opts.PROPS
CORPUS = os.path.join(fw.ROOT, "corpus", "C20")
F5_KEY = "to_nsq-unterminated-final-record"


def unhex(s):
    return b"" if s == "-" else bytes.fromhex(s)


def hexs(b):
    return b.hex() if b else "-"


def spec_records(delim, data):
    """the property's own words: the non-empty delimiter-separated records, in order"""
    return [p for p in data.split(bytes([delim])) if p]


def fmt_records(recs):
    return "n=%d [%s]" % (len(recs), ",".join(hexs(r) for r in recs))


def run_tonsq(ctx, binp, label, replay=None):
    """real readAndPublish on inputs → (ops, impl) or None"""
    out = os.path.join(ctx.work, "tonsq_" + label)
    os.makedirs(out, exist_ok=True)
    env = {"VERIF_SEED": ctx.seed, "VERIF_N": ctx.budget(3000, 60000), "VERIF_OUT": out}
    if replay:
        env["VF_E8_REPLAY"] = replay
    cmd = [binp, "-test.run", "^TestVerifToNsqCorr$", "-test.count=1", "-test.timeout=0"]
    rc, log = ctx.run_cmd(cmd, timeout=ctx.budget(300, 1800), env=env)
    if (rc != 0 or "ORACLE-DONE" not in log) and "ORACLE-FAIL" not in log:
        # infrastructure failure (seen once in six thorough runs on a loaded machine, no oracle line): keep the
        # log tail in the evidence and run the leg once more before calling the harness broken
        ctx.log("to_nsq harness ended without a verdict (%s), retrying once:\n%s" % (label, log[-800:]))
        ctx.corr.setdefault("to_nsq_harness_retries", []).append(log[-300:])
        rc, log = ctx.run_cmd(cmd, timeout=ctx.budget(300, 1800), env=env)
    if rc != 0 or "ORACLE-DONE" not in log:
        ctx.log("to_nsq harness failed (%s):\n%s" % (label, log[-1500:]))
        return None, log
    ops = open(os.path.join(out, "tonsq.ops")).read().splitlines()
    impl = open(os.path.join(out, "tonsq.impl")).read().splitlines()
    return (ops, impl, os.path.join(out, "tonsq.ops")), log


def check_tonsq(ctx, ops, impl, opsfile, label, corr_broken):
    """oracle (records of the input) + correspondence with the model of the fixed rule"""
    rc, mout = ctx.driver("e8", stdin_path=opsfile)
    model = mout.splitlines()
    worst = None
    nbad = 0
    for o, i in zip(ops, impl):
        w = o.split()
        d, data = unhex(w[2])[0], unhex(w[3])
        want = spec_records(d, data)
        ctx.count_case(o, nontrivial=len(want) > 0)
        if i != fmt_records(want):
            nbad += 1
            if worst is None or len(data) < len(unhex(worst[0].split()[3])):
                worst = (o, i, fmt_records(want), d, data)
    if worst:
        o, i, want, d, data = worst
        unterminated = len(data) > 0 and data[-1] != d
        key = F5_KEY if unterminated else "to_nsq-records"
        ctx.violation(key, "to_nsq published %s for input %s (delimiter %02x); the records are %s  [%d of %d inputs differ]" % (
            i, hexs(data), d, want, nbad, len(ops)), o + "\n")
    diffs = ctx.diff_lines(impl, model, "tonsq:" + label)
    for idx, a, b in diffs[:2]:
        ctx.log("to_nsq model/impl disagree on `%s`: impl=%s model=%s" % (ops[idx][:100], a[:100], b[:100]))
    if diffs:
        corr_broken.append("correspondence to_nsq (%s)" % label)
    return nbad


def run_relay(ctx, binp, test, name, corr_broken, n):
    out = os.path.join(ctx.work, name)
    os.makedirs(out, exist_ok=True)
    rc, log = ctx.run_cmd([binp, "-test.run", "^%s$" % test, "-test.count=1"], timeout=ctx.budget(300, 1800),
                          env={"VERIF_SEED": ctx.seed, "VERIF_N": n, "VERIF_OUT": out})
    if "ORACLE-DONE" not in log:
        ctx.log("%s harness failed:\n%s" % (name, log[-1500:]))
        corr_broken.append("%s harness exit %s" % (name, rc))
        return
    ops = open(os.path.join(out, name + ".ops")).read().splitlines()
    impl = open(os.path.join(out, name + ".impl")).read().splitlines()
    rc2, mout = ctx.driver("e8", stdin_path=os.path.join(out, name + ".ops"))
    model = mout.splitlines()
    for o, i in zip(ops, impl):
        ctx.count_case(o + "|" + i, nontrivial=("request:" in i or "publish:" in i or "accepted" in i or "rejected" in i))
    hist = {}
    for l in log.splitlines():
        if l.startswith("HIST "):
            w = l.split()
            hist[w[1]] = int(w[2])
    ctx.corr.setdefault("relay", {})[name] = {"histogram": hist, "lines": len(ops),
                                               "oracle": [l for l in log.splitlines() if l.startswith("ORACLE-DONE")]}
    for o, i in list(zip(ops, impl))[:2]:
        ctx.add_sample({"op": o[:160], "impl": i[:160]})
    for l in log.splitlines():
        if l.startswith("ORACLE-FAIL"):
            what = l[len("ORACLE-FAIL "):]
            key = name + "-oracle:" + re.sub(r"\d+", "N", what)[:70]
            ctx.violation(key, "%s: %s" % (name, what), "seed %s\n%s\n" % (ctx.seed, what))
    diffs = ctx.diff_lines(impl, model, name)
    for idx, a, b in diffs[:3]:
        ctx.log("%s model/impl disagree on `%s`:\n   impl =%s\n   model=%s" % (name, ops[idx][:160], a[:200], b[:200]))
        bad = relay_property_fails(a, b)
        if bad:
            ctx.violation(name + "-corr:" + bad[0], "%s: %s (op `%s`)" % (name, bad[1], ops[idx][:120]), ops[idx] + "\nimpl: " + a + "\nmodel: " + b + "\n")
    if diffs:
        corr_broken.append("correspondence %s" % name)


def relay_property_fails(impl, model):
    """impl / model answers differ: is the implementation's own answer a property failure?"""
    fi = re.findall(r"fin:(\d+)", impl)
    fm = re.findall(r"fin:(\d+)", model)
    if fi and not fm:
        return ("early-fin", "message %s finished where the model (finish only after the destination accepted) requeues" % fi[0])
    ri = re.findall(r"request:(\d+):([0-9a-f-]+)", impl)
    rm = re.findall(r"request:(\d+):([0-9a-f-]+)", model)
    if fi and len(ri) < len(rm):
        return ("skipped-address", "message finished after %d of %d requests" % (len(ri), len(rm)))
    return None


def giveup(ctx, binp, corr_broken):
    """known finding replay: the tool as shipped (handler behind go-nsq's handlerLoop, max_attempts 5)"""
    rc, log = ctx.run_cmd([binp, "-test.run", "^TestVerifN2HGiveUp$", "-test.count=1"], timeout=120)
    rows = [dict(kv.split("=") for kv in l.split()[1:]) for l in log.splitlines() if l.startswith("GIVEUP ")]
    if len(rows) < 4:
        ctx.log("give-up replay did not run:\n" + log[-800:])
        corr_broken.append("give-up replay (TestVerifN2HGiveUp)")
        return
    ctx.corr["give_up"] = rows
    for r in rows:
        mx, att = int(r["max_attempts"]), int(r["attempts"])
        ctx.evaluations += 1
        model_gives_up = mx > 0 and att > mx          # Nsq.Model.Relay.Http.shouldFail
        observed = (r["response"] == "FIN" and r["requests"] == "0")
        if observed != model_gives_up or (not observed and (r["response"] != "REQ" or r["requests"] != "1")):
            corr_broken.append("correspondence give-up rule attempts=%d: %s" % (att, r))
        if observed:   # property: a failing destination must lead to Requeue, never to Finish
            ctx.violation("gives-up-after-max-attempts",
                          "nsq_to_http finished a message (attempts=%d, max_attempts=%d) without any request while the "
                          "destination answers 500" % (att, mx), "tool=nsq_to_http max_attempts=%d attempts=%d destination=500\n" % (mx, att))


def run(ctx):
    ctx.trusted += [
        "bufio.Reader.ReadBytes (modelled as: the bytes up to and including the first delimiter, or the rest with io.EOF)",
        "go-nsq v1.1.0: Consumer.handlerLoop applies Requeue(-1) on a handler error and Finish() otherwise unless "
        "auto-response is disabled (its skeleton is regenerated and compared); Producer delivers one transaction "
        "result per PublishAsync; net/http, url.QueryEscape/Unescape, encoding/json, go-hostpool (choice of host is an input)",
        "go2lean kinds `trimrule` (condition of the trim in readAndPublish) and `skeleton`",
        "correspondence harnesses harness/e8/{tonsq,n2n,n2h}_test.go with the scripted stubs harness/e8/stub_nsqd.go",
    ]
    ctx.assumptions += [
        "http_eventual_delivery_partial: redelivery of unfinished messages by the source (C01) and a destination that "
        "eventually accepts are hypotheses (fairness); only `if one attempt is accepted everywhere then Finish` is proved",
        "a stalled nsq_to_nsq transaction is never answered by the tool itself: the source's message timeout redelivers it",
        "JSON filter (--require-json-field / --whitelist-json-field) is an arbitrary function of the body in the model",
        "tool_fin_only_after_accept_partial: the consumer library does not give up (max_attempts = 0 or attempts <= "
        "max_attempts); with the default max_attempts=5 the full statement is refuted (open finding gives-up-after-max-attempts)",
    ]
    ctx.rule = ("to_nsq: generated (delimiter, input) pairs — any bytes, empty records, runs of delimiters, missing final "
                "delimiter, records of 4090..4101 and 8189..8194 bytes around the bufio buffer — through the real "
                "readAndPublish loop into 1-3 stub nsqds; distinct by input, non-trivial when at least one record exists. "
                "relays: one case = one message through the real HandleMessage (+ responder) against scripted "
                "destinations (HTTP status 200..599, stall, refused connection; nsqd OK / E_PUB_FAILED / dropped "
                "connection / refused connection) in every mode, GET and POST, sampling 1.0/0.5/0.0, JSON filters")
    gen_ok, _ = ctx.gen("e8_relay")
    ctx.gen(c20_opts.SPEC)
    c20_opts.declare(ctx)
    built = []
    for mod in TIE + PROPS:
        ok, log = ctx.lean_build([mod])
        if ok:
            built.append(mod)
        else:
            ctx.lean_obligation_failed("lake build " + mod, log[-1500:])
    ctx.lean_audit([m for m in PROPS if m in built], [m for m in TIE if m in built])
    if ctx.thorough() and PROPS[0] in built:
        ctx.leanchecker(PROPS)
    corr_broken = []
    if not ctx.build_driver("e8"):
        corr_broken.append("driver drv_e8 does not build")
    # ---- to_nsq
    b_tonsq = ctx.go_test_binary("apps/to_nsq", ["e8/tonsq_test.go", "e8/tonsq_e2e_test.go", "e8/stub_nsqd.go"], "e8tonsq", pkgname="main")
    if not b_tonsq:
        ctx.broken_ties.append("harness e8/tonsq_test.go does not compile against the current tree")
    elif ctx.replay_in:
        res, log = run_tonsq(ctx, b_tonsq, "replay", os.path.abspath(ctx.replay_in))
        if res:
            for o, i in zip(res[0], res[1]):
                w = o.split()
                print("%s\n   impl   %s\n   spec   %s" % (o, i, fmt_records(spec_records(unhex(w[2])[0], unhex(w[3])))))
            check_tonsq(ctx, res[0], res[1], res[2], "replay", corr_broken)
    else:
        # known findings are replayed, not remembered: fixed ones must pass
        for k in ctx.known_findings().get("fixed", []) + ctx.known_findings().get("open", []):
            if k.get("property") != "C20" or not k.get("replay"):
                continue
            res, log = run_tonsq(ctx, b_tonsq, "known", os.path.join(fw.ROOT, k["replay"]))
            if res is None:
                corr_broken.append("replay of %s did not run" % k["replay"])
            else:
                check_tonsq(ctx, res[0], res[1], res[2], "known", corr_broken)
        res, log = run_tonsq(ctx, b_tonsq, "gen")
        if res is None:
            corr_broken.append("to_nsq harness")
        else:
            check_tonsq(ctx, res[0], res[1], res[2], "gen", corr_broken)
            for l in log.splitlines():
                if l.startswith("ORACLE-FAIL"):
                    ctx.violation("to_nsq-destinations-differ", "to_nsq: " + l, l + "\n")
            sizes = {"0": 0, "1-64": 0, "65-4095": 0, "4096+": 0, "unterminated": 0}
            for o in res[0]:
                w = o.split()
                data = unhex(w[3])
                n = len(data)
                sizes["0" if n == 0 else "1-64" if n <= 64 else "65-4095" if n < 4096 else "4096+"] += 1
                if n and data[-1] != unhex(w[2])[0]:
                    sizes["unterminated"] += 1
            ctx.corr["to_nsq_inputs"] = sizes
            ctx.add_sample({"op": res[0][0], "impl": res[1][0]})
        c20_opts.tonsq_e2e(ctx, b_tonsq, corr_broken)
    # ---- relays
    if not ctx.replay_in:
        b = ctx.go_test_binary("apps/nsq_to_nsq", ["e8/n2n_test.go", "e8/n2n_opts_test.go", "e8/stub_nsqd.go"], "e8n2n", pkgname="main")
        if not b:
            ctx.broken_ties.append("harness e8/n2n_test.go does not compile against the current tree")
        else:
            run_relay(ctx, b, "TestVerifN2NCorr", "n2n", corr_broken, ctx.budget(720, 7200))
            c20_opts.opts_leg(ctx, b, "TestVerifN2NOpts", "n2n_opts", corr_broken)
        b = ctx.go_test_binary("apps/nsq_to_http", ["e8/n2h_test.go", "e8/n2h_opts_test.go", "e8/stub_nsqd.go"], "e8n2h", pkgname="main")
        if not b:
            ctx.broken_ties.append("harness e8/n2h_test.go does not compile against the current tree")
        else:
            run_relay(ctx, b, "TestVerifN2HCorr", "n2h", corr_broken, ctx.budget(1800, 18000))
            n2h_tool = c20_opts.build_tool(ctx, "apps/nsq_to_http", "nsq_to_http_real")
            c20_opts.opts_leg(ctx, b, "TestVerifN2HOpts", "n2h_opts", corr_broken, env={"VF_E8_N2H_BIN": n2h_tool or ""})
        if b:
            giveup(ctx, b, corr_broken)
    if (ctx.broken_ties or corr_broken) and not ctx.violations:
        ctx.broken_without_input(ctx.broken_ties + corr_broken,
                                 "search: %d generated inputs / messages through the real tools found no property failure"
                                 % ctx.evaluations)
