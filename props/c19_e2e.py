"""End-to-end leg of C19 (thorough tier): the real nsq_to_file binary against a real nsqd, stopped by
SIGTERM / SIGHUP+SIGTERM / SIGKILL at a random instant, under strace.

Oracles (none of them depends on timing: any instant is a legal stop):
  * syscall trace: before `FIN <id>` is written to the nsqd socket, the record of that message was
    written to a file and the file was fsynced afterwards (Lean checker `drv_e8 trm …`, proved sound);
  * after the stop: #(published bodies found intact in decodable files) >= #published - #(still owed
    by the channel: depth + in flight + deferred)   — everything the channel no longer owes is on disk;
  * after a second run drained the channel: every published body is in the files (at least once);
  * no file in the output dir was lost between the first and the second run.
"""
import collections
import gzip
import io
import json
import os
import re
import signal
import socket
import subprocess
import time
import urllib.request
import zlib

import framework as fw


def free_port(ip):
    """a free port on `ip`, a loopback address private to this process (fw.loopback): nobody else binds it between this
    probe and the daemon's own Listen (the checks may run in parallel; on 127.0.0.1 the port could go to another check)"""
    s = socket.socket()
    s.bind((ip, 0))
    p = s.getsockname()[1]
    s.close()
    return p


def http(url, data=None, timeout=5):
    req = urllib.request.Request(url, data=data, method="POST" if data is not None else "GET")
    with urllib.request.urlopen(req, timeout=timeout) as r:
        return r.read()


def decode_strict(raw):
    """gzip file → (payload of the complete members, status). status: "ok" = complete members and nothing else;
    "torn" = the file ends inside a member (what a kill / os.Exit leaves of the open member; contributes nothing);
    "corrupt" = garbage where a member has to start, broken deflate stream or checksum (audit C29: the old decoder
    silently stopped there)"""
    out = b""
    while raw:
        if not b"\x1f\x8b\x08".startswith(raw[:3]):   # a member starts with 1f 8b 08; a shorter tail must be a prefix of it
            return out, "corrupt"
        d = zlib.decompressobj(16 + zlib.MAX_WBITS)
        try:
            part = d.decompress(raw)
        except zlib.error:
            return out, "corrupt"
        if not d.eof:
            return out, "torn"
        out += part
        raw = d.unused_data
    return out, "ok"


def decoder_selftest():
    """pins the three answers of decode_strict on crafted files; returns the list of wrong answers"""
    m1, m2 = gzip.compress(b"m0|a\nm1|b\n"), gzip.compress(b"m2|c\n")
    full, bad = m1 + m2, []
    for n in range(len(full) + 1):
        want = ("ok" if n in (0, len(m1), len(full)) else "torn", 0 if n < len(m1) else (15 if n == len(full) else 10))
        got = decode_strict(full[:n])
        if (got[1], len(got[0])) != want:
            bad.append("prefix %d: %s/%d want %s/%d" % (n, got[1], len(got[0]), want[0], want[1]))
    for tail in (b"x", b"# closed\n", b"\x00", b"\x1f\x8b\x07"):
        got = decode_strict(full + tail)
        if (got[1], len(got[0])) != ("corrupt", 15):
            bad.append("garbage %r: %s/%d" % (tail, got[1], len(got[0])))
    flipped = bytearray(full)
    flipped[len(m1) - 8] ^= 0xFF
    if decode_strict(bytes(flipped)) != (b"", "corrupt"):
        bad.append("flipped checksum accepted")
    return bad


def decode_members(raw):
    return decode_strict(raw)[0]


def gz_status(root):
    res = {}
    for base, _, files in os.walk(root):
        for f in files:
            p = os.path.join(base, f)
            res[os.path.relpath(p, root)] = decode_strict(open(p, "rb").read())[1]
    return res


def tree(root, gz):
    res = {}
    for base, _, files in os.walk(root):
        for f in files:
            p = os.path.join(base, f)
            if os.path.relpath(p, root).split(os.sep)[0] not in ("o", "w"):
                continue
            raw = open(p, "rb").read()
            res[os.path.relpath(p, root)] = decode_members(raw) if gz else raw
    return res


def whole_lines(files):
    """multiset of the newline-terminated lines of all files, counted per file: an unterminated tail of a file is
    not a line and is not completed by the next file (audit C30: the old `b"\\n".join(files)` did both)"""
    c = collections.Counter()
    for v in files.values():
        for ln in v.split(b"\n")[:-1]:
            c[ln] += 1
    return c


def glued_to_torn_tail(body, before, after):
    """`body` owns no line of `after`; is it glued to the unterminated tail a killed first run left in a file that
    the second run re-opened with O_APPEND (finding torn-tail-append)? Returns the file name or None."""
    for name, old in before.items():
        if not old or old.endswith(b"\n"):
            continue
        # the re-opened file keeps its name, or - work-dir mode - has been moved to the output dir (possibly under a
        # bumped revision) by the second run's Close(): look for the first run's bytes as a prefix under any name
        cands = [(name, after[name])] if name in after else []
        cands += [(k, v) for k, v in sorted(after.items()) if k != name and v.startswith(old)]
        for k, new in cands:
            if not new.startswith(old):
                continue
            end = new.find(b"\n", len(old))
            if end >= 0 and new[len(old):end] == body:
                return k
    return None


def owed(http_addr):
    st = json.loads(http("http://%s/stats?format=json&topic=t" % http_addr))
    for t in st.get("topics", []):
        for c in t.get("channels", []):
            if c["channel_name"] == "nsq_to_file":
                return c["depth"] + c["in_flight_count"] + c["deferred_count"], t["depth"] + t.get("backend_depth", 0) * 0
    return 0, 0


def unescape(s):
    """strace's C-style string → bytes"""
    out = bytearray()
    i, n = 0, len(s)
    while i < n:
        c = s[i]
        if c != "\\":
            out.append(ord(c) & 0xFF)
            i += 1
            continue
        i += 1
        c = s[i]
        if c in "01234567":
            j = i
            while j < n and j < i + 3 and s[j] in "01234567":
                j += 1
            out.append(int(s[i:j], 8) & 0xFF)
            i = j
        elif c == "x":
            out.append(int(s[i + 1:i + 3], 16))
            i += 3
        else:
            out.append({"n": 10, "t": 9, "r": 13, "v": 11, "f": 12, "a": 7, "b": 8, "e": 27}.get(c, ord(c)))
            i += 1
    return bytes(out)


def parse_trace(path, dirs, gz):
    """strace log of the real binary → per-message events for `drv_e8 trm`:
       m:<file>:<n>  the record of message n was written to file <file>. Plain output: the write(2) whose data is
                     the body + "\n" (one write since F46) or the body alone (two writes before F46). gzip output (audit C30.5 — it used to be "receipt of the message", which made the checker
                     accept nearly anything): the bytes of every write(2) to a data file are re-assembled per file and
                     decoded; the event is emitted at the write(2) that *completes the gzip member* (the one carrying
                     its trailer) whose payload holds the body as a whole line. So FIN n is accepted only after the
                     member with n's record was closed, reached the file, and the file was fsynced afterwards.
       s:<file>      fsync of that file;   f:<n>  `FIN <id>` written to the nsqd socket.
    Message ids come from the MESSAGE frames read from the socket (id → body)."""
    fds, names, ev, pend = {}, {}, [], {}
    sock = None
    inbuf = b""
    body_ids = {}     # body -> [message numbers]
    idnum = {}        # nsq message id -> number
    num_body = {}     # number -> body
    fin_bodies = collections.Counter()   # body -> number of FIN commands written for it
    nfin = 0
    gzbuf = {}        # gzip: file -> bytes written so far that are not yet part of a complete member
    stats = {"gz_members": 0, "gz_corrupt": 0, "record_writes": 0}
    for raw in open(path, errors="replace"):
        m = re.match(r"^(\d+)\s+(.*)$", raw.rstrip("\n"))
        if not m:
            continue
        pid, l = m.group(1), m.group(2)
        if l.endswith("<unfinished ...>"):
            pend[pid] = l[:-len("<unfinished ...>")]
            continue
        mm = re.match(r"<\.\.\. (\w+) resumed>(.*)$", l)
        if mm:
            l = pend.pop(pid, mm.group(1) + "(") + mm.group(2)
        mo = re.match(r'openat\(AT_FDCWD, "([^"]*)", ([A-Z_|0-9]+)[^)]*\)\s+= (\d+)', l)
        if mo:
            p, flags, fd = mo.group(1), mo.group(2), int(mo.group(3))
            if any(p.startswith(d + "/") for d in dirs) and ("O_WRONLY" in flags or "O_RDWR" in flags):
                fds[fd] = 1 + names.setdefault(p, len(names))
            else:
                fds.pop(fd, None)
            continue
        mo = re.match(r"close\((\d+)\s*\)\s+= 0", l)
        if mo:
            fds.pop(int(mo.group(1)), None)
            continue
        mo = re.match(r'(read|write)\((\d+),\s+"((?:[^"\\]|\\.)*)"(\.\.\.)?,\s*\d+\s*\)\s+= (\d+)', l)
        if mo:
            call, fd, data, n = mo.group(1), int(mo.group(2)), unescape(mo.group(3)), int(mo.group(5))
            data = data[:n]
            if call == "write":
                if data == b"  V2":
                    sock = fd
                elif fd in fds:
                    # since F46 (/repo 85f4c48) a record is ONE write(2) of body + "\n"; before it the body was a write(2) of
                    # its own. Both are recognised here (this is a syscall-level oracle, not a tie): round 10 - the parser
                    # knew only the old form, saw no record write at all on the committed tree and reported every FIN as
                    # fin-before-fsync in the thorough tier (record_writes = 0 in the replay)
                    rec = data if data in body_ids else (data[:-1] if data.endswith(b"\n") and data[:-1] in body_ids else None)
                    if not gz and rec is not None:
                        for k in body_ids[rec]:
                            ev.append("m:%d:%d" % (fds[fd], k))
                            stats["record_writes"] += 1
                    elif gz:
                        fno = fds[fd]
                        buf = gzbuf.get(fno, b"") + data
                        while buf:
                            d = zlib.decompressobj(16 + zlib.MAX_WBITS)
                            try:
                                part = d.decompress(buf)
                            except zlib.error:
                                stats["gz_corrupt"] += 1
                                buf = b""
                                break
                            if not d.eof:
                                break
                            stats["gz_members"] += 1
                            for ln in part.split(b"\n")[:-1]:
                                for k in sorted(set(body_ids.get(ln, []))):
                                    ev.append("m:%d:%d" % (fno, k))
                                    stats["record_writes"] += 1
                            buf = d.unused_data
                        gzbuf[fno] = buf
                elif fd == sock:
                    for mf in re.finditer(rb"FIN ([0-9a-f]{16})\n", data):
                        nfin += 1
                        k = idnum.setdefault(mf.group(1), len(idnum) + 1)
                        ev.append("f:%d" % k)
                        if k in num_body:
                            fin_bodies[num_body[k]] += 1
            elif fd == sock:
                inbuf += data
                while len(inbuf) >= 8:
                    size = int.from_bytes(inbuf[:4], "big")
                    if len(inbuf) < 4 + size:
                        break
                    ftype = int.from_bytes(inbuf[4:8], "big")
                    frame = inbuf[8:4 + size]
                    inbuf = inbuf[4 + size:]
                    if ftype == 2 and len(frame) >= 26:
                        k = idnum.setdefault(frame[10:26], len(idnum) + 1)
                        body_ids.setdefault(frame[26:], []).append(k)
                        num_body[k] = frame[26:]
            continue
        mo = re.match(r"(fsync|fdatasync)\((\d+)\s*\)\s+= 0", l)
        if mo and int(mo.group(2)) in fds:
            ev.append("s:%d" % fds[int(mo.group(2))])
    return ev, nfin, fin_bodies, stats


def run(ctx, rounds):
    rng = fw.SplitMix64(ctx.seed * 7919 + 19)
    bindir = os.path.join(ctx.work, "e2e_bin")
    os.makedirs(bindir, exist_ok=True)
    for app in ("nsqd", "nsq_to_file"):
        rc, out = fw.sh(["go", "build", "-o", os.path.join(bindir, app), "./apps/" + app], cwd=fw.REPO, timeout=900)
        if rc != 0:
            ctx.log("e2e: go build %s failed:\n%s" % (app, out[-1500:]))
            return ["e2e build of " + app]
    broken = ["e2e strict gzip decoder self-test: " + b for b in decoder_selftest()]
    summary = []
    for rnd in range(rounds):
        root = os.path.join(ctx.work, "e2e_%d" % rnd)
        for d in ("data", "o", "w"):
            os.makedirs(os.path.join(root, d), exist_ok=True)
        ip = fw.loopback()
        tcp, hp = free_port(ip), free_port(ip)
        hp = "%s:%d" % (ip, hp)      # the daemon's HTTP address
        gz = rng.below(3) == 0
        workdir = rng.below(2) == 0
        stop = ["kill", "term", "hup-term", "kill"][rng.below(4)]
        opts = ["--topic", "t", "--nsqd-tcp-address", "%s:%d" % (ip, tcp), "--output-dir", os.path.join(root, "o"),
                "--sync-interval", ["100ms", "300ms", "1s"][rng.below(3)], "--max-in-flight", str([1, 7, 50, 200][rng.below(4)]),
                "--host-identifier", "h", "--datetime-format", ["%Y-%m-%d_%H", "%H%M%S"][rng.below(2)]]
        if gz:
            opts.append("--gzip")
        if workdir:
            opts += ["--work-dir", os.path.join(root, "w")]
        if rng.below(2) == 0:
            opts += ["--rotate-size", str(200 + rng.below(3000))]
        if rng.below(3) == 0:
            opts += ["--rotate-interval", "1s"]
        nsqd = subprocess.Popen([os.path.join(bindir, "nsqd"), "--tcp-address", "%s:%d" % (ip, tcp), "--http-address",
                                 hp, "--data-path", os.path.join(root, "data"), "--mem-queue-size", "50",
                                 "--msg-timeout", "3s"], stdout=subprocess.DEVNULL, stderr=subprocess.DEVNULL)
        tool = None
        try:
            for _ in range(100):
                try:
                    http("http://%s/ping" % hp, timeout=1)
                    break
                except Exception:
                    time.sleep(0.05)
            http("http://%s/topic/create?topic=t" % hp, data=b"")
            http("http://%s/channel/create?topic=t&channel=nsq_to_file" % hp, data=b"")
            bodies = []

            def publish(k):
                batch = []
                for _ in range(k):
                    b = ("e2e-%d-%d-%016x" % (rnd, len(bodies), rng.next())).encode() + b"x" * rng.below(60)
                    bodies.append(b)
                    batch.append(b)
                http("http://%s/mpub?topic=t" % hp, data=b"\n".join(batch))

            publish(150 + rng.below(300))
            strace_log = os.path.join(root, "strace.txt")
            tool = subprocess.Popen(["strace", "-f", "-s", "70000", "-e", "trace=openat,read,write,fsync,fdatasync,close", "-o", strace_log,
                                     os.path.join(bindir, "nsq_to_file")] + opts, stdout=subprocess.DEVNULL, stderr=subprocess.DEVNULL)
            # keep publishing while it runs, stop at a random instant
            t_end = time.time() + 0.3 + rng.below(1500) / 1000.0
            hups = 0
            while time.time() < t_end:
                publish(20 + rng.below(60))
                if stop == "hup-term" and rng.below(3) == 0:
                    # the traced process is strace's child: signal the tool itself
                    for pid in child_pids(tool.pid):
                        os.kill(pid, signal.SIGHUP)
                    hups += 1
                time.sleep(0.02)
            pids = child_pids(tool.pid)
            for pid in pids:
                os.kill(pid, signal.SIGKILL if stop == "kill" else signal.SIGTERM)
            try:
                tool.wait(timeout=40)
            except subprocess.TimeoutExpired:
                tool.kill()
                broken.append("e2e round %d: tool did not stop after %s" % (rnd, stop))
            time.sleep(0.3)
            still, _ = owed(hp)
            files = tree(root, gz)
            lines = whole_lines(files)
            present = sum(1 for b in bodies if lines[b] > 0)   # bodies carry a unique tag and no newline
            tr, nfin, fin_bodies, tstats = parse_trace(strace_log, [os.path.join(root, "o"), os.path.join(root, "w")], gz)
            rc, ans = ctx.driver("e8", stdin="trm " + " ".join(tr) + "\n")
            ctx.evaluations += 1
            rec = {"round": rnd, "stop": stop, "gzip": gz, "workdir": workdir, "published": len(bodies), "owed": still,
                   "present": present, "fin_writes": nfin, "trace_events": len(tr), "checker": ans.strip(), "hups": hups}
            rec.update(tstats)
            if gz:
                # strict decodability (audit C29): nothing corrupt; at most one file ends in an unfinished member (the
                # one that was open when the process died); none after a clean exit
                gst = gz_status(root)
                gst = {k: v for k, v in gst.items() if k.split(os.sep)[0] in ("o", "w")}
                rec["gz_files"] = dict(collections.Counter(gst.values()))
                ntorn = sum(1 for v in gst.values() if v == "torn")
                bad = sorted(k for k, v in gst.items() if v == "corrupt")
                if bad or tstats["gz_corrupt"]:
                    ctx.violation("tofile-e2e-gzip-corrupt", "gzip output of the real nsq_to_file does not decompress to its end: %s "
                                  "(corrupt streams in the write trace: %d; %s)" % (bad, tstats["gz_corrupt"], json.dumps(rec)),
                                  json.dumps({"opts": opts, "stop": stop, "rec": rec}) + "\n")
                if ntorn > 1 or (ntorn and tool.returncode == 0 and stop != "kill"):
                    ctx.violation("tofile-e2e-gzip-torn", "%d gzip output file(s) end in an unfinished member after %s (exit %s) (%s)"
                                  % (ntorn, stop, tool.returncode, json.dumps(rec)),
                                  json.dumps({"opts": opts, "stop": stop, "rec": rec}) + "\n")
            if ans.strip() != "ok" and tstats["record_writes"] == 0 and nfin > 0:
                # the parser recognised no record write at all although FINs were written: the shape of the record
                # write changed under the parser (as F46 did) - a broken oracle, not a finding about the tool
                broken.append("e2e strace parser: %d FIN writes but no record write recognised (round %d; record write shape changed?)"
                              % (nfin, rnd))
            elif ans.strip() != "ok":
                ctx.violation("tofile-e2e-syscall", "real nsq_to_file wrote a FIN to nsqd while a written output file was not yet "
                              "fsynced (%s)" % json.dumps(rec), json.dumps({"opts": opts, "stop": stop}) + "\n" + " ".join(tr) + "\n")
            # every FIN command the tool wrote is backed by a whole line of its own (multiset: a body finished
            # twice — redelivered after a timeout — needs two lines)
            unbacked = [b for b, k in fin_bodies.items() if lines[b] < k]
            rec["fin_bodies"] = sum(fin_bodies.values())
            rec["fin_unbacked"] = len(unbacked)
            if unbacked:
                ctx.violation("tofile-e2e-fin-without-line", "real nsq_to_file sent FIN for %d message(s) that own no whole line of any "
                              "(decodable) file after the stop, e.g. %r (%s)" % (len(unbacked), unbacked[0][:60], json.dumps(rec)),
                              json.dumps({"opts": opts, "stop": stop, "rec": rec}) + "\n")
            if present < len(bodies) - still:
                ctx.violation("tofile-e2e-lost", "after %s the channel no longer owes %d of %d messages but only %d are in the files (%s)"
                              % (stop, len(bodies) - still, len(bodies), present, json.dumps(rec)),
                              json.dumps({"opts": opts, "stop": stop, "rec": rec}) + "\n")
            # second run drains the channel; afterwards everything must be there, nothing may be gone
            before = {k: v for k, v in files.items() if k.startswith("o/")}
            tool = subprocess.Popen([os.path.join(bindir, "nsq_to_file")] + opts, stdout=subprocess.DEVNULL, stderr=subprocess.DEVNULL)
            for _ in range(300):
                still2, _ = owed(hp)
                if still2 == 0:
                    break
                time.sleep(0.1)
            tool.send_signal(signal.SIGTERM)
            try:
                tool.wait(timeout=40)
            except subprocess.TimeoutExpired:
                tool.kill()
            files2 = tree(root, gz)
            lines2 = whole_lines(files2)
            missing = [b for b in bodies if lines2[b] == 0]
            # finding torn-tail-append (own leg: harness/e8/tofile_lines_test.go): the killed first run left "bodyA" without
            # its newline, the second run appended "bodyB\n" to the same file; B is acknowledged but owns no line
            torn = [(b, glued_to_torn_tail(b, files, files2)) for b in missing]
            rec["torn_tail_append"] = sum(1 for _, f in torn if f)
            for b, f in torn:
                if f:
                    ctx.violation("torn-tail-append", "after SIGKILL the file %s ended in a record without its newline; the next run "
                                  "appended %r right behind it and acknowledged it (the message owns no line)" % (f, b[:60]),
                                  json.dumps({"opts": opts, "rec": rec}) + "\n")
            missing = [b for b, f in torn if not f]
            rec["drained_missing"] = len(missing)
            rec["owed_after_drain"] = still2
            if still2 == 0 and missing:
                ctx.violation("tofile-e2e-missing", "channel drained but %d of %d published messages are in no file (%s)"
                              % (len(missing), len(bodies), json.dumps(rec)), json.dumps({"opts": opts, "rec": rec}) + "\n")
            for k, v in before.items():
                if k not in files2:
                    ctx.violation("tofile-e2e-file-gone", "output file %s of the first run disappeared during the second run" % k,
                                  json.dumps({"opts": opts}) + "\n")
                elif not files2[k].startswith(v):
                    ctx.violation("tofile-e2e-file-changed", "output file %s of the first run was overwritten by the second run" % k,
                                  json.dumps({"opts": opts}) + "\n")
            summary.append(rec)
        except Exception as ex:  # machinery problem: never silently pass
            broken.append("e2e round %d raised %r" % (rnd, ex))
        finally:
            for p in (tool, nsqd):
                if p and p.poll() is None:
                    p.kill()
    ctx.corr["e2e"] = summary
    if summary and not any(r["fin_writes"] > 0 for r in summary):
        broken.append("e2e leg saw no FIN write in any round")
    return broken


def child_pids(strace_pid):
    """the traced nsq_to_file process (strace's only child)"""
    out = subprocess.run(["ps", "-o", "pid=", "--ppid", str(strace_pid)], stdout=subprocess.PIPE).stdout.decode().split()
    return [int(x) for x in out]
