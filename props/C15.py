"""C15 — nsqlookupd survives arbitrary input (engine E4, DESIGN.md §5 C15, finding F2)."""
import glob
import hashlib
import os
import re
from framework import ROOT
import props.e4common as e4

PROPS = ["Nsq.Props.C15", "Nsq.Props.C15Admin"]
F2_KEY = "identify-negative-size"


def crash_key(ctx, line):
    """normalised key of a crashing input: does the pre-fix model panic on it (finding F2)?"""
    conf = "conf 0 0 1 unfixed -\n"
    rc, out = ctx.driver("e4", stdin=conf + line + "\n", timeout=120)
    ls = out.splitlines()
    if len(ls) >= 2 and ls[1].startswith("fin=panic"):
        return F2_KEY
    return "crash:" + hashlib.sha1(line.split(" ", 1)[-1].encode()).hexdigest()[:12]


def last_current(out):
    cur = [l for l in out.splitlines() if l.startswith("E4-CURRENT ") or l.startswith("E4-REPLAY-LINE ")]
    return cur[-1].split(" ", 1)[1] if cur else None


def died(rc, out):
    return rc != 0 and ("panic:" in out or "fatal error:" in out or "exit status 2" in out) and "E4-INCONCLUSIVE" not in out


def report_crash(ctx, conf_line, out, where):
    line = last_current(out)
    m = re.search(r"^(panic: .*|fatal error: .*)$", out, re.M)
    why = m.group(1) if m else "process died"
    if line is None or line.startswith("(long line"):
        ctx.violation("crash:" + where, "nsqlookupd process died during %s (%s); input too long to print" % (where, why),
                      out[-3000:])
        return
    key = crash_key(ctx, line)
    w = line.split()
    what = ("the nsqlookupd process died (%s) on one TCP connection sending %d bytes: %s" %
            (why, len(w[3]) // 2 if len(w) > 3 else 0, (w[3] if len(w) > 3 else line)[:120]))
    ctx.violation(key, what, conf_line + "\n" + line + "\n")


def check_lines(ctx, label, ops, impl, model):
    broken = []
    for idx, a, b in ctx.diff_lines(impl, model, label)[:3]:
        ctx.log("%s: model/impl disagree at line %d `%s`\n   impl : %s\n   model: %s" % (label, idx, ops[idx][:300], a[:500], b[:500]))
        broken.append("correspondence %s line %d: %s" % (label, idx, ops[idx][:200]))
    return broken


def oracle_names(ctx, o, i):
    """every topic / channel name the daemon lists is a valid name (invalid names are refused)"""
    for part in i.split(" | "):
        m = re.match(r"(T|C\[[^\]]*\])=(.*)$", part)
        if not m or m.group(2) == "" or m.group(2).startswith("!"):
            continue
        for nm in m.group(2).split(","):
            if not e4.valid_name(nm.encode("latin-1")):
                ctx.violation("invalid-name-accepted:%d" % min(len(nm), 66),
                              "nsqlookupd lists the invalid name %r (%d bytes)" % (nm[:80], len(nm)), o + "\n")


def oracle_hostile(ctx, ops, impl):
    """bystander intact + still answering after every hostile stream; never an undocumented error"""
    by, regs = None, []
    kinds = {}
    for o, i in zip(ops, impl):
        oracle_names(ctx, o, i)
        w = o.split()
        if w and w[0] == "reset":
            by, regs = None, []
        if len(w) > 2 and w[1] == "identify" and by is None:
            by, regs = w[2], []
        if len(w) > 3 and w[1] == "register" and w[2] == by and i.startswith("OK"):
            regs.append((e4.unhex(w[3]).decode("latin-1"), e4.unhex(w[4]).decode("latin-1") if len(w) > 4 else ""))
        if len(w) > 2 and w[1] in ("stream", "spoof"):
            q = i.split(" | ")
            reps = q[0].split("replies=")[1].split(",") if "replies=" in q[0] else []
            codes = []
            for r in reps:
                if not r:
                    continue
                txt = bytes.fromhex(r).decode("latin-1") if r != "-" else ""
                c = txt.split(" ")[0]
                codes.append(c)
                kinds[c] = kinds.get(c, 0) + 1
                if c.startswith("E_") and c not in ("E_INVALID", "E_BAD_TOPIC", "E_BAD_CHANNEL", "E_BAD_BODY", "E_BAD_PROTOCOL"):
                    ctx.violation("undocumented-error:" + c, "reply %s is not one of the documented errors" % c, o + "\n")
                if not c.startswith("E_") and c not in ("OK", "IDENTIFY-RESPONSE"):
                    ctx.violation("unknown-reply", "unexpected reply %r" % txt[:60], o + "\n")
            if w[1] == "stream" and len(w) > 3:
                raw = e4.unhex(w[3])
                want = None if raw[:4] == b"  V1" else ([] if len(raw) < 4 else ["E_BAD_PROTOCOL"])
                if want is not None and codes != want:
                    ctx.violation("bad-magic-accepted", "a connection that opened with %r (not the magic \"  V1\") was answered %s "
                                  "instead of %s" % (raw[:4], codes[:4], want), "\n".join([ops[0], o]) + "\n")
            exp = [x.split("=", 1)[1] for x in w if x.startswith("expect=")]
            if exp and codes[-1:] != exp:
                ctx.violation("documented-error-missing:" + exp[0],
                              "after a valid IDENTIFY the last command of the stream (REGISTER/UNREGISTER with an invalid name, or a "
                              "second IDENTIFY) must be refused with %s as the last reply; the replies were %s" % (exp[0], codes[-4:]),
                              "\n".join([ops[0], o]) + "\n")
            if "noident=1" in w and "IDENTIFY-RESPONSE" in codes:
                ctx.violation("identify-trailing-garbage-accepted",
                              "an IDENTIFY whose declared body has non-white-space bytes after the JSON document was "
                              "accepted (answers: %s); it must be refused with E_BAD_BODY" % codes[:4],
                              "\n".join([ops[0], o]) + "\n")
            if "legal=1" in w and (codes[:1] != ["IDENTIFY-RESPONSE"] or any(c.startswith("E_") for c in codes)):
                ctx.violation("honest-identify-kicked",
                              "a well-formed IDENTIFY (document followed by white space only, possibly arriving in two "
                              "segments) and valid commands after it were answered %s" % codes[:4],
                              "\n".join([ops[0], o]) + "\n")
            if any(x.startswith("T=") and "smuggled" in x.split("=", 1)[1].split(",") for x in q):
                ctx.violation("body-bytes-run-as-command",
                              "topic `smuggled` is registered, but it only ever occurs INSIDE a declared IDENTIFY body: "
                              "bytes of a body were read as a command line", "\n".join([ops[0], o]) + "\n")
            if any(c.startswith("E_") for c in codes[:-1]):
                ctx.violation("error-not-fatal", "an error reply was not the last reply of the connection", o + "\n")
            # a connection that has ended (however it ended) is in no answer any more
            ghost = [x for x in q if (x.startswith("N=") or x.startswith("D=")) and
                     re.search(r"(=|,|\[| )%s:" % w[2], x)]
            if ghost:
                ctx.violation("ghost-connection:" + w[1], "connection %s has ended but nsqlookupd still lists it: %s" % (
                    w[2], ghost[0][:200]), "\n".join([ops[0]] + [o]) + "\n")
            ctx.count_case(" ".join(w[3:])[:300], nontrivial=len(codes) > 1 or (len(codes) == 1 and not codes[0].startswith("E_BAD_PROTOCOL")))
            if by is not None:
                nd = [x for x in q if x.startswith("N=")]
                shown = []

                def listed(topic, chan):
                    part = [x for x in q if x.startswith("L[%s]=" % topic)]
                    shown.extend(part)
                    if not part:
                        return True   # topic not among the queried ones
                    m = re.match(r"L\[[^\]]*\]=ch=([^;]*);pr=(.*)$", part[0])
                    return bool(m) and (chan == "" or chan in m.group(1).split(",")) and \
                        any(x.startswith(by + ":") for x in m.group(2).split(","))
                okb = all(listed(t_, c_) for (t_, c_) in regs) and \
                    bool(nd) and any(x.startswith(by + ":") for x in nd[0][2:].split("},"))
                lk, le = shown[:2], []
                if not okb:
                    # one VIOLATION per kind of loss (the first input of each kind is the replay)
                    spoofed = any(re.search(r"(=|,)-1:hA:", x) for x in shown + nd)
                    kind = "listed-under-foreign-address" if spoofed else ("after-spoof" if w[1] == "spoof" else "after-stream")
                    what = ("the well-behaved producer %s is listed under an address that is not its connection's (a member of "
                            "an IDENTIFY document chose remote_address / the DB id)" % by) if spoofed else \
                           ("after a hostile connection the well-behaved producer %s is no longer listed for its "
                            "topics/channels" % by)
                    hist = e4.history_of(ops, ops.index(o))
                    # hostile connections are independent of each other: the bystander's own lines + this input
                    mini = [h for h in hist[:-1] if h.startswith("conf") or
                            (len(h.split()) > 2 and h.split()[2] == by and h.split()[1] in ("identify", "register"))]
                    ctx.violation("bystander-lost:" + kind, what + ": %s" % ((shown + nd)[:3],),
                                  "\n".join(mini + [hist[-1]]) + "\n")
    tot = ctx.corr.setdefault("hostile_reply_kinds", {})
    for k_, v_ in kinds.items():
        tot[k_] = tot.get(k_, 0) + v_


def oracle_sweep(ctx, ops, impl):
    prevq = None
    st = {}
    for o, i in zip(ops, impl):
        oracle_names(ctx, o, i)
        q = i.split(" | ", 1)
        w = o.split()
        if "raw" in w[:3]:
            m = re.match(r"status=(\d+)", q[0])
            code = int(m.group(1)) if m else -1
            st[code] = st.get(code, 0) + 1
            ctx.count_case(" ".join(w[1:]), nontrivial=(code == 200))
            # /ping answers the two bytes "OK", /info a document whose only member is the version (whatever the query)
            if code == 200 and w[w.index("raw") + 1:w.index("raw") + 3] == ["GET", "/ping"] and "body=4f4b" not in q[0]:
                ctx.violation("http-ping-body", "GET /ping answered %s instead of the body OK" % q[0], o + "\n")
            if code == 200 and w[w.index("raw") + 1:w.index("raw") + 3] == ["GET", "/info"] and "body=version" not in q[0]:
                ctx.violation("http-info-body", "GET /info answered %s instead of {\"version\": <binary version>}" % q[0], o + "\n")
            k = w.index("raw")
            busy_ok = code == 500 and w[k + 1:k + 3] == ["GET", "/debug/pprof/profile"]   # text judged in the harness (E4-ORACLE)
            if (code >= 500 and not busy_ok) or code < 0:
                ctx.violation("http-5xx:" + " ".join(w[k + 1:k + 3]), "HTTP request answered %s" % q[0], o + "\n")
            if code in (301, 307, 308) and (code == 301) != (w[k + 1] == "GET"):
                ctx.violation("http-redirect-code:" + w[k + 1], "redirect %d for method %s (301 is for GET only: another method "
                              "would be re-sent as GET)" % (code, w[k + 1]), o + "\n")
            if not (200 <= code < 300) and len(q) > 1 and prevq is not None and q[1] != prevq:
                ctx.violation("http-non2xx-changed:" + " ".join(w[k + 1:k + 3]),
                              "a request answered %d changed the registry: %s" % (code, o), o + "\n")
        prevq = q[1] if len(q) > 1 else None
    ctx.corr["sweep_status_histogram"] = st


def liveness(ctx, binp, params=None):
    """concurrent liveness leg: readers on every read route + TCP peers + admin calls, then probes"""
    env = {"VERIF_MS": ctx.budget(2000, 8000), "VERIF_READERS": ctx.budget(6, 10), "VERIF_PEERS": ctx.budget(4, 8),
           "VERIF_DEADLINE_MS": 10000}
    env.update(params or {})
    real = lambda rc_, out_: died(rc_, out_)
    rc, out = e4.run_test(ctx, binp, "TestVerifE4Liveness", env, 180)
    if rc != 0 and not real(rc, out):
        # a wedge must persist in a fresh daemon under a fresh load; slowness of a loaded box does not
        first = [l for l in out.splitlines() if l.startswith("LIVENESS-WEDGED")] or [e4.inconclusive_reason(rc, out)]
        ctx.log("liveness leg failed (%s); re-running once" % first[0][:200])
        rc2, out2 = e4.run_test(ctx, binp, "TestVerifE4Liveness", env, 180)
        if rc2 == 0:
            ctx.notes.append("liveness leg: first run failed (%s); the re-run with a fresh daemon passed" % first[0][:300])
        rc, out = rc2, out2
    ok = [l for l in out.splitlines() if l.startswith("LIVENESS-OK")]
    wedged = [l for l in out.splitlines() if l.startswith("LIVENESS-WEDGED")]
    mix = [l for l in out.splitlines() if l.startswith("LIVENESS-MIX")]
    if ok and rc == 0:
        ctx.corr.setdefault("liveness", []).append(ok[0][:1500])
        ctx.evaluations += sum(int(x.split("=")[1]) for x in ok[0].split() if "=" in x and x.split("=")[1].isdigit()
                               and not x.startswith(("readers", "peers", "ms")))
        return []
    if wedged or rc == -9:
        why = wedged[0][len("LIVENESS-WEDGED "):] if wedged else "the liveness run itself hung"
        replay = "liveness ms=%s readers=%s peers=%s deadline_ms=%s\n# %s\n# %s\n# run: ./check C15 --replay <this file>\n" % (
            env["VERIF_MS"], env["VERIF_READERS"], env["VERIF_PEERS"], env["VERIF_DEADLINE_MS"], why, (mix[0] if mix else ""))
        ctx.violation("wedge", "nsqlookupd stopped answering under concurrent reads and registrations: " + why[:300], replay)
        return []
    if died(rc, out):
        ctx.violation("crash:liveness", "nsqlookupd died during the concurrent liveness leg", out[-3000:])
        return []
    ctx.log("liveness harness failed (rc=%s):\n%s" % (rc, out[-1500:]))
    return ["liveness harness exit %s" % rc]


UNBOUNDED = {
    "line": ("unbounded-line-read",
             "a TCP connection sent %d bytes without a newline; nsqlookupd buffered all of them (live heap +%d bytes) and kept "
             "waiting: reader.ReadString('\\n') at lookup_protocol_v1.go:41 has no maximum line length"),
    "http-body": ("unbounded-http-body-read",
                  "a POST /topic/create carried a %d-byte body; nsqlookupd buffered all of it (live heap +%d bytes) before looking "
                  "at the request - the finding fixed by /repo 894b9eb (F33: internal/http_api.NewReqParams only calls "
                  "url.ParseQuery and no longer reads req.Body) is back: some code reads the whole body without a limit again"),
}


def unbounded(ctx, binp):
    """open known finding unbounded-line-read and FIXED finding unbounded-http-body-read (/repo 894b9eb, F33; a
    reproduction is a VIOLATION): both replayed on every run (corpus/C15/known/)"""
    mib = 32
    for l in e4.read_lines(os.path.join(ROOT, "corpus", "C15", "known", "unbounded_reads.txt")):
        if l.startswith("mib="):
            mib = int(l.split("=")[1])
    rc, out = e4.run_leg(ctx, binp, "TestVerifE4Unbounded", {"VERIF_UNBOUNDED_MIB": mib}, 300, real_failure=died)
    if died(rc, out):
        ctx.violation("crash:unbounded", "nsqlookupd died while a peer sent %d MiB without a newline / as a POST body" % mib, out[-3000:])
        return []
    if rc != 0 or "E4-UNBOUNDED-DONE" not in out:
        ctx.log("unbounded-read replay failed (rc=%s):\n%s" % (rc, out[-1500:]))
        return ["unbounded-read replay did not complete"]
    for l in out.splitlines():
        if l.startswith("E4-UNBOUNDED"):
            ctx.corr.setdefault("unbounded_reads", []).append(l)
        if l.startswith("E4-UNBOUNDED kind="):
            kv = dict(x.split("=", 1) for x in l.split()[1:])
            ctx.evaluations += 1
            if kv.get("reproduced") == "true":
                key, what = UNBOUNDED[kv["kind"]]
                ctx.violation(key, what % (int(kv["sent"]), int(kv["live_heap_growth"])),
                              "unbounded kind=%s mib=%d\n# run: ./check C15 (TestVerifE4Unbounded, corpus/C15/known/unbounded_reads.txt)\n" % (kv["kind"], mib))
    return []


def run_replay(ctx, binp, path, label, must_pass_key=None):
    """a committed replay runs in its own process (it may kill it)"""
    rc, out = e4.run_leg(ctx, binp, "TestVerifE4Replay", {"VERIF_REPLAY": path}, timeout=300, real_failure=died)
    ops_all = [l for l in e4.read_lines(path) if l.strip() and not l.startswith("#")]
    if rc != 0 or "E4-REPLAY-DONE" not in out:
        if died(rc, out):
            report_crash(ctx, ops_all[0] if ops_all and ops_all[0].startswith("conf") else "conf 0 0 1 fixed -", out,
                         "replay " + label)
            return []
        ctx.log("replay %s failed (rc=%s):\n%s" % (path, rc, out[-1500:]))
        return ["replay %s did not complete" % label]
    ops = e4.read_lines(os.path.join(ctx.work, "replay.ops"))
    impl = e4.read_lines(os.path.join(ctx.work, "replay.impl"))
    model = e4.model_lines(ctx, os.path.join(ctx.work, "replay.ops"))
    ctx.evaluations += len(ops)
    oracle_hostile(ctx, ops, impl)
    return check_lines(ctx, label, ops, impl, model)


def run(ctx):
    ctx.trusted += e4.TRUSTED
    ctx.assumptions += [
        "encoding/json.Unmarshal into PeerInfo is an arbitrary function `decode` (every theorem quantifies over it)",
        "writes of replies succeed (a failing write ends the loop like a fatal error)",
        "isolation (tcp_isolation) is per TCP connection and for handler calls that do not overlap; the HTTP admin API is the "
        "unauthenticated operator surface: admin_call_touches_only states which entries each accepted call touches",
        "HTTP paths with non-ASCII bytes / %-escapes are outside the class the router model is tied on (httprouter folds case with "
        "strings.EqualFold); pprof answers written after the client has gone are not exercised",
        "memory is NOT bounded per peer: open known finding unbounded-line-read (TCP; line_buffer_bounded_false is the MODEL "
        "statement, the live-heap replay the evidence about the daemon); the HTTP sibling unbounded-http-body-read is fixed by "
        "/repo 894b9eb (F33) and replayed as a fixed finding; the liveness leg is a stress test (test evidence), not a proof",
    ]
    ctx.rule = ("(liveness leg: readers on every read route + TCP peers + admin calls run concurrently, then every route "
                "and a fresh IDENTIFY+REGISTER must be answered within a deadline) hostile byte streams, each on a fresh TCP connection next to a well-behaved bystander producer: "
                "wrong/short magic, unknown and mis-cased commands, argument counts, invalid names (length 65, bad "
                "characters, '#ephemeral' alone), Unicode white space, long and unterminated lines, IDENTIFY with "
                "every size class (0, exact, short/long by one, at/over the limit, 2^31-1, negative, truncated) and "
                "valid/invalid/truncated JSON bodies; well-formed hostile peers whose IDENTIFY document carries extra members "
                "(remote_address, id, RemoteAddress, peerInfo …) naming the bystander's ip:port and which then REGISTER / "
                "UNREGISTER the bystander's names; plus every HTTP route x method x argument subset. A case = one "
                "stream / one request; non-trivial = it got past the magic / was answered 200")
    e4.lean_side(ctx, PROPS, tie=e4.TIE_PROTO, specs=("e4_lookupd", "e4_proto"))
    broken = []
    binp = e4.build_harness(ctx, "e4c15")
    first = [l for l in e4.read_lines(ctx.replay_in)[:5]] if ctx.replay_in else []
    if binp and ctx.replay_in and first and first[0].startswith("liveness"):
        kv = dict(x.split("=") for x in first[0].split()[1:])
        broken += liveness(ctx, binp, {"VERIF_MS": kv.get("ms", 2000), "VERIF_READERS": kv.get("readers", 6),
                                       "VERIF_PEERS": kv.get("peers", 4), "VERIF_DEADLINE_MS": kv.get("deadline_ms", 10000)})
        print("liveness: %s" % (ctx.corr.get("liveness") or "WEDGED"))
    elif binp and ctx.replay_in:
        broken += run_replay(ctx, binp, os.path.abspath(ctx.replay_in), "replay")
        ml = e4.model_lines(ctx, os.path.join(ctx.work, "replay.ops"))
        for k, l in enumerate(e4.read_lines(os.path.join(ctx.work, "replay.impl"))):
            print("op   : " + e4.read_lines(os.path.join(ctx.work, "replay.ops"))[k][:400])
            print("impl : " + l[:400])
            print("model: " + (ml[k][:400] if k < len(ml) else "<missing>"))
    elif binp:
        # 1. fixed findings are replayed and must pass; other corpus entries likewise
        for f in sorted(glob.glob(os.path.join(ROOT, "corpus", "C15", "fixed", "*.ops")) +
                        glob.glob(os.path.join(ROOT, "corpus", "C15", "*.ops"))):
            broken += run_replay(ctx, binp, f, "corpus:" + os.path.basename(f))
        # 2. hostile streams
        nsh = ctx.budget(4, 12)
        jobs = [(binp, "TestVerifE4Hostile", {"VERIF_N": ctx.budget(600, 12000), "VERIF_SHARD": s}, 1500) for s in range(nsh)]
        res = e4.run_parallel(ctx, jobs, workers=nsh, real_failure=died)
        for s, (rc, out) in enumerate(res):
            ops = e4.read_lines(os.path.join(ctx.work, "hostile_%d.ops" % s))
            if rc != 0:
                if died(rc, out):
                    report_crash(ctx, ops[0] if ops else "conf 0 0 1 fixed -", out, "hostile shard %d" % s)
                else:
                    ctx.log("hostile shard %d failed:\n%s" % (s, out[-1500:]))
                broken.append("hostile harness shard %d exit %s" % (s, rc))
                continue
            if s == 0:
                e4.hist_lines(ctx, out, "hostile")
            impl = e4.read_lines(os.path.join(ctx.work, "hostile_%d.impl" % s))
            model = e4.model_lines(ctx, os.path.join(ctx.work, "hostile_%d.ops" % s))
            oracle_hostile(ctx, ops, impl)
            broken += check_lines(ctx, "hostile_%d" % s, ops, impl, model)
            if s == 0:
                for k in (5, len(ops) // 2):
                    ctx.add_sample({"op": ops[k][:300], "impl": impl[k][:300]})
        # reach of the hostile generator (audit C32): every documented error code must be a sizeable share of the
        # error replies, i.e. the streams get past IDENTIFY into getTopicChan (evidence only, not a verdict)
        kinds = ctx.corr.get("hostile_reply_kinds", {})
        errs = sum(v for k, v in kinds.items() if k.startswith("E_"))
        share = {k: round(100.0 * v / max(errs, 1), 1) for k, v in kinds.items() if k.startswith("E_")}
        ctx.corr["hostile_error_share_percent"] = share
        thin = [c for c in ("E_BAD_TOPIC", "E_BAD_CHANNEL", "E_INVALID", "E_BAD_BODY") if share.get(c, 0) < 10.0]
        if thin and errs:
            ctx.notes.append("hostile generator reach below 10%% of the error replies for %s (%s)" % (thin, share))
        # 2b. concurrent liveness ("stop it answering others")
        broken += liveness(ctx, binp)
        # 2c. open known findings: unbounded line / body reads (replayed on every run)
        broken += unbounded(ctx, binp)
        # 3. HTTP sweep through the daemon's real listener (thorough: all value classes; and once more through
        #    ServeHTTP on a second server object for comparison)
        sweeps = [{}] if not ctx.thorough() else [{"VERIF_FULL": "1"}, {"VERIF_INPROC": "1"}]
        for env in sweeps:
            rc, out = e4.run_leg(ctx, binp, "TestVerifE4HttpSweep", env, 900, real_failure=died)
            if rc != 0:
                if died(rc, out):
                    ctx.violation("crash:http-sweep", "nsqlookupd died during the HTTP sweep", out[-3000:])
                ctx.log("sweep failed:\n" + out[-1500:])
                broken.append("sweep harness exit %s" % rc)
                continue
            e4.hist_lines(ctx, out, "sweep")
            for l in out.splitlines():
                if l.startswith("E4-ORACLE pprof-undocumented-answer"):
                    ctx.violation("pprof-undocumented-answer:" + " ".join(l.split()[2:4])[:80],
                                  "a net/http/pprof row answered something other than 200 / 400 (bad `seconds`) / 500 (CPU "
                                  "profile already running): " + l[:300], l.split(" | ", 1)[-1] + "\n")
            ops = e4.read_lines(os.path.join(ctx.work, "sweep.ops"))
            impl = e4.read_lines(os.path.join(ctx.work, "sweep.impl"))
            model = e4.model_lines(ctx, os.path.join(ctx.work, "sweep.ops"))
            oracle_sweep(ctx, ops, impl)
            broken += check_lines(ctx, "sweep", ops, impl, model)
            ctx.add_sample({"op": ops[len(ops) // 3], "impl": impl[len(ops) // 3][:300]})
    if (ctx.broken_ties or broken) and not ctx.violations:
        ctx.broken_without_input(ctx.broken_ties + broken,
                                 "search: %d hostile streams / requests: the process survived all of them, every "
                                 "error was a documented one and the bystander stayed listed" % ctx.evaluations)
