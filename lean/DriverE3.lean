import Nsq.Model.Line
import Nsq.Model.ProtoV2
import Nsq.Model.HttpApi
import Nsq.Model.HttpFull
import Nsq.Model.HttpBody
import Nsq.Model.Identify
import Nsq.Model.ProtoEnv
import Nsq.Spec.ProtoSpec
/-!
Driver for engine E3 (proto): one operation per input line, one canonical answer line out.
The broker and the tables persist across lines (a case is `reset` followed by operations).

  conf <id> <maxMsg> <maxBody> <maxRdy> <maxReqNs> <maxHbMs> <minObtMs> <maxObtMs> <maxObSize>
       <maxMtMs> <tlsGate> <tlsConfigured> <deflate> <snappy> <hbNs> <obtNs> <mtNs> <httpTlsRefuse> <cfgNames,…>
  json <hexbody> bad | <hb> <obs> <obt> <mt> <sr> <fn> <tls> <deflate> <snappy>
  reset
  io <conf> <hexstream>
  iof <conf> <hexstream> <hexid,…>   (the ids are in flight for this connection)
  http <conf> <method> <hexpath> <hexquery> <contentLength|-1> <hexbody> <healthy>
  httpx … (same fields)   whole-table model `HttpFull.serve`: status, headers, kind of body, broker
  httpb … (same fields; body hex or rep:<hex>:<n>)  audit 7: `serve` status + body bytes read (R now, RO before F33) + broker
  spec <conf> <hexstream>
  name <hex> | b10 <hex> | pint <hex> | query <hex> | mpubtext <maxMsg> <maxBody> <hex>
-/
open Nsq Nsq.Line Nsq.Model.ProtoV2 Nsq.Model

structure DConf where
  conf : Conf
  hbNs : Int
  obtNs : Int
  mtNs : Int
  http : HttpApi.HConf

structure DState where
  confs : List (String × DConf) := []
  json : List (Bytes × Option IdentifyData) := []
  brokers : List (String × Broker) := []   -- one broker per configuration (= per nsqd)
  xconfs : List (String × Int × Bool) := []               -- audit09: max-channel-consumers, auth enabled
  authd : List (Bytes × Option (Nat × List Bytes)) := []  -- audit09: secret → none = error | (n, granted topics)

def b01 (s : String) : Bool := s == "1"

def DState.broker (st : DState) (cid : String) : Broker :=
  ((st.brokers.find? (·.1 == cid)).map (·.2)).getD []

def DState.setBroker (st : DState) (cid : String) (b : Broker) : DState :=
  { st with brokers := (cid, b) :: st.brokers.filter (·.1 != cid) }

def fnv1a (bs : Bytes) : UInt32 :=
  bs.foldl (fun h c => (h ^^^ c.toUInt32) * 16777619) 2166136261

def showBytes (b : Bytes) : String :=
  if b.length > 48 then s!"#{b.length}.{(fnv1a b).toNat}" else hex b

def showMsg (m : Msg) : String := s!"{showBytes m.body}~{m.deferNs}"

def joinOr (sep : String) (xs : List String) : String :=
  if xs.isEmpty then "-" else sep.intercalate xs

def insertSorted (x : String) : List String → List String
  | [] => [x]
  | y :: ys => if x ≤ y then x :: y :: ys else y :: insertSorted x ys

def sortStrs (xs : List String) : List String := xs.foldr insertSorted []

def showChan (c : Chan) : String :=
  s!"{hex c.name};{if c.paused then 1 else 0};{c.clients};{joinOr "," (sortStrs (c.msgs.map showMsg))}"

def showTopic (t : Topic) : String :=
  s!"{hex t.name}:{if t.paused then 1 else 0}:{t.count}:{joinOr "," (t.msgs.map showMsg)}:{joinOr "+" (sortStrs (t.chans.map showChan))}"

def showBroker (b : Broker) : String := joinOr "/" (sortStrs (b.map showTopic))

def showReply : Reply → String
  | .ok => "OK" | .closeWait => "CLOSE_WAIT" | .json => "JSON" | .err c => c.toString

def showEnd : End → String
  | .eof => "eof" | .closed => "closed" | .upgraded => "upgraded" | .panic => "panic"
  | .outOfFuel => "out-of-fuel"

def showSt : St → String
  | .init => "init" | .subscribed => "subscribed" | .closing => "closing"

def showConn (s : ConnState) : String :=
  s!"{showSt s.st},{s.hbNs},{s.obSize},{s.obtNs},{s.sampleRate},{s.msgTimeoutNs},{s.rdy}"

def lookupJson (tbl : List (Bytes × Option IdentifyData)) (body : Bytes) : Option (Option IdentifyData) :=
  (tbl.find? (fun e => e.1 == body)).map (·.2)

/-- First IDENTIFY body the run would hand to `encoding/json` that is not in the table yet
(only used to ask the harness for the real decoder's answer; the answer line itself always comes
from the model's `serve`). -/
partial def scanNeed (conf : Conf) (tbl : List (Bytes × Option IdentifyData))
    (s : ConnState) (b : Broker) (bs : Bytes) : Option Bytes :=
  match readLine bs with
  | .line l rest =>
    let ps := splitSp l
    let need : Option Bytes :=
      if ps.head? == some cIDENTIFY && s.st == .init then
        match readBody conf.maxBodySize rest with
        | .ok body _ => if (lookupJson tbl body).isNone then some body else none
        | _ => none
      else none
    match need with
    | some x => some x
    | none =>
      let stp := exec conf s b ps rest
      if stp.ctl == .cont then scanNeed conf tbl stp.st stp.broker stp.rest else none
  | _ => none

/-- What the declarative table allows for each command of a connection, in order. The connection
state is advanced with the model's `exec` (the table itself is evaluated on every command). -/
partial def specWalk (conf : Conf) (s : ConnState) (bs : Bytes) (fuel : Nat) : List String :=
  if fuel == 0 then [] else
  match readLine bs with
  | .line l rest =>
    let ps := splitSp l
    let al := Nsq.Spec.ProtoSpec.allowed conf s ps rest
    let here := joinOr "," (al.map (fun a =>
      s!"{match a.1 with | some r => showReply r | none => "-"}|{if a.2 then 1 else 0}"))
    let stp := exec conf s [] ps rest
    if stp.ctl == .cont then here :: specWalk conf stp.st stp.rest (fuel - 1) else [here]
  | _ => []

/-! ### audit09 (`iox`): the model with consumer limit, backend fault and authorization state -/

def authdOf (tbl : List (Bytes × Option (Nat × List Bytes))) (secret : Bytes) : ProtoEnv.AuthdRes :=
  match (tbl.find? (fun e => e.1 == secret)).map (·.2) with
  | some (some (n, topics)) => .state n (fun t _ => topics.contains t)
  | _ => .failed

/-- First IDENTIFY body of an `iox` run that is not in the json table yet. -/
partial def scanNeedX (xc : ProtoEnv.XConf) (tbl : List (Bytes × Option IdentifyData))
    (x : ProtoEnv.XState) (b : Broker) (bs : Bytes) : Option Bytes :=
  match readLine bs with
  | .line l rest =>
    let ps := splitSp l
    let need : Option Bytes :=
      if ps.head? == some cIDENTIFY && x.conn.st == .init then
        match readBody xc.base.maxBodySize rest with
        | .ok body _ => if (lookupJson tbl body).isNone then some body else none
        | _ => none
      else none
    match need with
    | some y => some y
    | none =>
      let r := ProtoEnv.execX xc x b ps rest
      if r.1.ctl == .cont then scanNeedX xc tbl r.2 r.1.broker r.1.rest else none
  | _ => none

/-- `name:message_count:depth` per topic (nodes whose queues live in a disk backend). -/
def showQueues (b : Broker) : String :=
  joinOr "/" (sortStrs (b.map (fun t =>
    s!"{hex t.name}:{t.count}:{t.msgs.length + (t.chans.map (fun c => c.msgs.length)).foldl (· + ·) 0}")))

def parseInt (s : String) : Int := s.toInt?.getD 0

def parseConf (w : List String) : Option (String × DConf) :=
  match w with
  | [id, maxMsg, maxBody, maxRdy, maxReq, maxHb, minObt, maxObt, maxObs, maxMt, tlsGate, tlsConf,
     defl, snap, hb, obt, mt, httpTls, cfgNames] =>
    let conf : Conf :=
      { maxMsgSize := parseInt maxMsg, maxBodySize := parseInt maxBody, maxRdy := parseInt maxRdy,
        maxReqTimeoutNs := parseInt maxReq, maxHeartbeatMs := parseInt maxHb, minObtMs := parseInt minObt,
        maxObtMs := parseInt maxObt, maxObSize := parseInt maxObs, maxMsgTimeoutMs := parseInt maxMt,
        tlsGate := b01 tlsGate, authGate := none, authCmd := .disabled, tlsConfigured := b01 tlsConf,
        deflateEnabled := b01 defl, snappyEnabled := b01 snap, decode := fun _ => none }
    let hc : HttpApi.HConf :=
      { maxMsgSize := parseInt maxMsg, maxBodySize := parseInt maxBody,
        maxReqTimeoutMs := Int.tdiv (parseInt maxReq) 1000000,
        tlsRefuse := b01 httpTls,
        cfgNames := (cfgNames.splitOn ",").map Names.ascii }
    some (id, { conf := conf, hbNs := parseInt hb, obtNs := parseInt obt, mtNs := parseInt mt, http := hc })
  | _ => none

def parseJson (w : List String) : Option (Option IdentifyData) :=
  match w with
  | ["bad"] => some none
  | [hb, obs, obt, mt, sr, fn, tls, defl, snap] =>
    some (some { heartbeat := parseInt hb, outBufSize := parseInt obs, outBufTimeout := parseInt obt,
                 msgTimeout := parseInt mt, sampleRate := parseInt sr, featureNegotiation := b01 fn,
                 tlsv1 := b01 tls, deflate := b01 defl, snappy := b01 snap })
  | _ => none

def showOptNat : Option Nat → String
  | some n => s!"{n}" | none => "err"

def showOptInt : Option Int → String
  | some n => s!"{n}" | none => "err"

def showQuery : Option (List (Bytes × Bytes)) → String
  | none => "err"
  | some kv => joinOr "&" (kv.map (fun p => s!"{hex p.1}={hex p.2}"))

def showChanView (c : HttpFull.ChanView) : String :=
  s!"{hex c.name};{if c.paused then 1 else 0};{c.clients};{c.total}"

def showTopicView (t : HttpFull.TopicView) : String :=
  s!"{hex t.name}:{if t.paused then 1 else 0}:{t.count}:{t.depth}:{joinOr "+" (t.chans.map showChanView)}"

def showBody : HttpFull.Body → String
  | .empty => "empty"
  | .text s => s!"text:{s}"
  | .freeText => "free"
  | .optText => "str"
  | .errJson m => s!"err:{m}"
  | .tlsJson => "tls"
  | .json .info => "info"
  | .json (.stats ts c m) =>
    let anyChan := ts.any (fun t => !t.chans.isEmpty)
    s!"stats:{if anyChan then (if c then "1" else "0") else "-"}:{if m then 1 else 0}:{joinOr "/" (ts.map showTopicView)}"
  | .json (.level n) => s!"level:{n}"
  | .json (.cfgValue _) => "cfg"
  | .external => "external"

def stepLine (st : DState) (line : String) : DState × String :=
  match words line with
  | "conf" :: rest =>
    match parseConf rest with
    | some (id, c) => ({ st with confs := (id, c) :: st.confs.filter (·.1 != id) }, "ok")
    | none => (st, "bad-op")
  | "json" :: h :: rest =>
    match unhex h, parseJson rest with
    | some body, some d => ({ st with json := (body, d) :: st.json }, "ok")
    | _, _ => (st, "bad-op")
  | ["cfgstr", cid, names] =>
    match st.confs.find? (·.1 == cid) with
    | some (_, dc) =>
      let dc' := { dc with http := { dc.http with cfgStrNames := (names.splitOn ",").map Names.ascii } }
      ({ st with confs := (cid, dc') :: st.confs.filter (·.1 != cid) }, "ok")
    | none => (st, "bad-op")
  | ["reset"] => ({ st with brokers := [] }, "ok")
  | ["io", cid, h] =>
    match st.confs.find? (·.1 == cid), unhex h with
    | some (_, dc), some bs =>
      let tbl := st.json
      let conf := { dc.conf with decode := fun body => (lookupJson tbl body).getD none }
      let s0 := freshConn dc.hbNs dc.obtNs dc.mtNs
      let need := if bs.take 4 == magicV2 then scanNeed conf tbl s0 (st.broker cid) (bs.drop 4) else none
      match need with
      | some body => (st, s!"need-json {hex body}")
      | none =>
        let r := serve conf s0 (st.broker cid) bs
        let conn := if r.fin == .eof then showConn r.st else "-"
        (st.setBroker cid r.broker,
         s!"R={joinOr "," (r.replies.map showReply)} E={showEnd r.fin} S={conn} B={showBroker r.broker}")
    | _, _ => (st, "bad-op")
  | ["iof", cid, h, idsHex] =>
    -- one connection with the given message ids in flight for it; the broker is not compared
    match st.confs.find? (·.1 == cid), unhex h with
    | some (_, dc), some bs =>
      let ids := (idsHex.splitOn ",").filterMap unhex
      let conf := { dc.conf with decode := fun body => (lookupJson st.json body).getD none }
      let s0 := { freshConn dc.hbNs dc.obtNs dc.mtNs with inflight := ids }
      let r := serve conf s0 (st.broker cid) bs
      let stateOf (id : Bytes) : String :=
        r.eff.foldl (fun acc e =>
          if acc != "inflight" then acc else
          match e with
          | .fin i => if i == id then "gone" else acc
          | .req i ns => if i == id then (if ns == 0 then "requeued" else s!"deferred:{ns}") else acc
          | _ => acc) "inflight"
      let conn := if r.fin == .eof then showConn r.st else "-"
      (st.setBroker cid r.broker,
       s!"R={joinOr "," (r.replies.map showReply)} E={showEnd r.fin} S={conn} F={",".intercalate (ids.map (fun i => s!"{hex i}={stateOf i}"))}")
    | _, _ => (st, "bad-op")
  | ["spec", cid, h] =>
    -- what the declarative table allows as the answer to the FIRST command of a fresh connection
    match st.confs.find? (·.1 == cid), unhex h with
    | some (_, dc), some bs =>
      let tbl := st.json
      let conf := { dc.conf with decode := fun body => (lookupJson tbl body).getD none }
      let s0 := freshConn dc.hbNs dc.obtNs dc.mtNs
      if bs.take 4 == magicV2 then
        (st, "A=" ++ joinOr ";" (specWalk conf s0 (bs.drop 4) 64))
      else (st, "A=-")
    | _, _ => (st, "bad-op")
  | ["http", cid, method, hp, hq, cl, hb, healthy] =>
    match st.confs.find? (·.1 == cid), unhex hp, unhex hq, unhex hb with
    | some (_, dc), some path, some query, some body =>
      let rq : HttpApi.Request :=
        { method := Names.ascii method, path := path, rawQuery := query, contentLength := parseInt cl,
          body := body }
      let r := HttpApi.handle dc.http (b01 healthy) (st.broker cid) rq
      (st.setBroker cid r.2,
       s!"H={HttpApi.showStatus r.1.status} M={if r.1.msg.isEmpty then "-" else r.1.msg} B={showBroker r.2}")
    | _, _, _, _ => (st, "bad-op")
  | ["httpx", cid, method, hp, hq, cl, hb, healthy] =>
    match st.confs.find? (·.1 == cid), unhex hp, unhex hq, unhex hb with
    | some (_, dc), some path, some query, some body =>
      let rq : HttpApi.Request :=
        { method := Names.ascii method, path := path, rawQuery := query, contentLength := parseInt cl,
          body := body }
      let r := HttpFull.serve dc.http (b01 healthy) (st.broker cid) rq
      (st.setBroker cid r.2,
       s!"W={HttpApi.showStatus r.1.status} CT={if r.1.ctJson then 1 else 0} X={if r.1.nsqHdr then 1 else 0} K={showBody r.1.body} B={showBroker r.2}")
    | _, _, _, _ => (st, "bad-op")
  | ["httpb", cid, method, hp, hq, cl, hb, healthy] =>
    -- audit round 7 (C10, B16): the whole-table answer plus the number of body bytes the handler reads
    -- (`R`: current tree, `RO`: the tree before fix F33). Body: hex, or `rep:<hex>:<count>`.
    let body? : Option Bytes :=
      match hb.splitOn ":" with
      | ["rep", h, n] => (unhex h).map (fun c => (List.replicate n.toNat! c).flatten)
      | _ => unhex hb
    match st.confs.find? (·.1 == cid), unhex hp, unhex hq, body? with
    | some (_, dc), some path, some query, some body =>
      let rq : HttpApi.Request :=
        { method := Names.ascii method, path := path, rawQuery := query, contentLength := parseInt cl,
          body := body }
      let r := HttpFull.serve dc.http (b01 healthy) (st.broker cid) rq
      (st.setBroker cid r.2,
       s!"W={HttpApi.showStatus r.1.status} R{HttpBody.showRead (HttpBody.bodyRead dc.http rq)} RO{HttpBody.showRead (HttpBody.bodyReadOld dc.http rq)} B={showBroker r.2}")
    | _, _, _, _ => (st, "bad-op")
  | ["idn", cid, hb, obs, obt, mt, sr, fn, tls, defl, snap, dl, hcid, hhost, hua, hreg, hzone, maxDefl, auth] =>
    match st.confs.find? (·.1 == cid), unhex hcid, unhex hhost, unhex hua, unhex hreg, unhex hzone with
    | some (_, dc), some cid', some host, some ua, some reg, some zone =>
      let x : Identify.IdFull :=
        { d := { heartbeat := parseInt hb, outBufSize := parseInt obs, outBufTimeout := parseInt obt,
                 msgTimeout := parseInt mt, sampleRate := parseInt sr, featureNegotiation := b01 fn,
                 tlsv1 := b01 tls, deflate := b01 defl, snappy := b01 snap },
          deflateLevel := parseInt dl, info := ⟨cid', host, ua, reg, zone⟩ }
      let nc : Identify.NConf :=
        { maxDeflateLevel := parseInt maxDefl, maxMsgTimeoutMs := dc.conf.maxMsgTimeoutMs, authRequired := b01 auth }
      let c0 : Identify.Client := { info := ⟨[], [], [], [], []⟩, conn := freshConn dc.hbNs dc.obtNs dc.mtNs }
      let showC (c : Identify.Client) : String :=
        s!"C={c.conn.hbNs},{c.conn.obSize},{c.conn.obtNs},{c.conn.sampleRate},{c.conn.msgTimeoutNs} M={hex c.info.clientID},{hex c.info.hostname},{hex c.info.userAgent},{hex c.info.region},{hex c.info.zone}"
      let bi (b : Bool) : String := if b then "1" else "0"
      match Identify.identifyFull dc.conf nc c0 x with
      | .badBody c => (st, s!"O=badbody {showC c} D=- U=-")
      | .ok c => (st, s!"O=ok {showC c} D=- U=-")
      | .failed c => (st, s!"O=failed {showC c} D=- U=-")
      | .doc c r n =>
        (st, s!"O=doc {showC c} D={r.maxRdyCount},{r.maxMsgTimeout},{r.msgTimeout},{bi r.tlsv1},{bi r.deflate},{r.deflateLevel},{r.maxDeflateLevel},{bi r.snappy},{r.sampleRate},{bi r.authRequired},{r.outputBufferSize},{r.outputBufferTimeout} U={if n.tlsv1 then "-" else bi n.snappy ++ bi n.deflate}")
    | _, _, _, _, _, _ => (st, "bad-op")
  | ["confx", cid, maxcc, authOn] =>
    ({ st with xconfs := (cid, s!"{maxcc}".toInt?.getD 0, b01 authOn) :: st.xconfs.filter (·.1 != cid) }, "ok")
  | ["authd", hs, "fail"] =>
    match unhex hs with
    | some sec => ({ st with authd := (sec, none) :: st.authd.filter (·.1 != sec) }, "ok")
    | none => (st, "bad-op")
  | ["authd", hs, n, topics] =>
    match unhex hs with
    | some sec =>
      let ts := if topics == "-" then [] else (topics.splitOn ",").filterMap unhex
      ({ st with authd := (sec, some (n.toNat?.getD 0, ts)) :: st.authd.filter (·.1 != sec) }, "ok")
    | none => (st, "bad-op")
  | ["mkt", cid, ht] =>
    match unhex ht with
    | some t => (st.setBroker cid (getTopic (st.broker cid) t), "ok")
    | none => (st, "bad-op")
  | ["iox", cid, h, keep, fault, vw] =>
    -- one connection under `ProtoEnv`: keep = 1: the connection stays open after its bytes (no
    -- teardown); fault = k: only k further backend writes succeed; vw = b | q: what of the broker is shown
    match st.confs.find? (·.1 == cid), unhex h with
    | some (_, dc), some bs =>
      let tbl := st.json
      let (maxcc, authOn) := ((st.xconfs.find? (·.1 == cid)).map (·.2)).getD (0, false)
      let conf := { dc.conf with decode := fun body => (lookupJson tbl body).getD none }
      let xc : ProtoEnv.XConf :=
        { base := conf, maxChanConsumers := maxcc, authEnabled := authOn, authd := authdOf st.authd }
      let x0 : ProtoEnv.XState :=
        { conn := freshConn dc.hbNs dc.obtNs dc.mtNs, auth := none, putsOk := fault.toNat? }
      let need := if bs.take 4 == magicV2 then scanNeedX xc tbl x0 (st.broker cid) (bs.drop 4) else none
      match need with
      | some body => (st, s!"need-json {hex body}")
      | none =>
        let r := if keep == "1" then ProtoEnv.connectX xc x0 (st.broker cid) bs
                 else ProtoEnv.serveX xc x0 (st.broker cid) bs
        let fin := if keep == "1" && r.fin == .eof then "open" else showEnd r.fin
        let conn := if r.fin == .eof then showConn r.st else "-"
        let bv := if vw == "q" then showQueues r.broker else showBroker r.broker
        (st.setBroker cid r.broker,
         s!"R={joinOr "," (r.replies.map showReply)} E={fin} S={conn} B={bv}")
    | _, _ => (st, "bad-op")
  | ["jsarr", h] =>
    match unhex h with
    | some b => (st, if HttpFull.isStrArrayJson b then "accept" else "reject")
    | none => (st, "bad-op")
  | ["loglevel", h] =>
    match unhex h with
    | some b => (st, showOptNat (HttpFull.parseLogLevel b))
    | none => (st, "bad-op")
  | ["name", h] =>
    match unhex h with
    | some b => (st, if Names.isValidName b then "valid" else "invalid")
    | none => (st, "bad-op")
  | ["b10", h] =>
    match unhex h with
    | some b => (st, showOptNat (Base10.byteToBase10 b))
    | none => (st, "bad-op")
  | ["pint", h] =>
    match unhex h with
    | some b => (st, showOptInt (Base10.parseInt64 b))
    | none => (st, "bad-op")
  | ["query", h] =>
    match unhex h with
    | some b => (st, showQuery (HttpApi.parseQuery b))
    | none => (st, "bad-op")
  | _ => (st, "bad-op")

partial def loop (h : IO.FS.Stream) (out : IO.FS.Stream) (st : DState) : IO Unit := do
  let line ← h.getLine
  if line.isEmpty then return ()
  let (st', ans) := stepLine st (line.dropRightWhile (· == '\n'))
  out.putStrLn ans
  loop h out st'

def main : IO Unit := do
  let out ← IO.getStdout
  loop (← IO.getStdin) out {}
  out.flush
