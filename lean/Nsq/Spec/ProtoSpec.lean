import Nsq.Model.ProtoV2
/-
The short declarative specification of the nsqd TCP protocol, written from the protocol
definition (docs/protocol.md, the option names) and NOT from the order of checks in the code:

* `Limits`  — what may ever be accepted (names, sizes, counts, negotiated ranges, RDY, delays);
* `answer`  — for a command in a connection state: success when it has no defect, otherwise one of
  the documented `E_*` codes of its defects, each with its fatal / non-fatal class.
-/
namespace Nsq.Spec.ProtoSpec
open Nsq.Model.ProtoV2 Nsq.Model.Names Nsq.Model.Base10 Nsq.Model

/-! ## Grammar of names -/

/-- `base` is a non-empty string over `[.a-zA-Z0-9_-]`. -/
def IsBase (base : Bytes) : Prop := base ≠ [] ∧ ∀ c ∈ base, nameChar c = true

/-- A topic / channel name: 1–64 bytes, a base optionally followed by `#ephemeral`. -/
def Grammatical (s : Bytes) : Prop :=
  1 ≤ s.length ∧ s.length ≤ 64 ∧ ∃ base, IsBase base ∧ (s = base ∨ s = base ++ ephSuffix)

/-! ## Decimal numbers -/

def IsDigit (c : UInt8) : Prop := 48 ≤ c.toNat ∧ c.toNat ≤ 57

/-- Value of a digit string as an unbounded natural number. -/
def decVal : Bytes → Nat → Nat
  | [], n => n
  | d :: ds, n => decVal ds (n * 10 + (d.toNat - 48))

/-! ## Limits -/

def MsgOk (conf : Conf) (m : Msg) : Prop :=
  1 ≤ m.body.length ∧ (m.body.length : Int) ≤ conf.maxMsgSize ∧
    (m.deferNs = 0 ∨ (0 ≤ m.deferNs ∧ m.deferNs ≤ conf.maxReqTimeoutNs))

/-- The four negotiated ranges of IDENTIFY plus the sample rate. -/
def IdentOk (conf : Conf) (d : IdentifyData) : Prop :=
  (d.heartbeat = -1 ∨ d.heartbeat = 0 ∨ (1000 ≤ d.heartbeat ∧ d.heartbeat ≤ conf.maxHeartbeatMs)) ∧
  (d.outBufSize = -1 ∨ d.outBufSize = 0 ∨ (64 ≤ d.outBufSize ∧ d.outBufSize ≤ conf.maxObSize)) ∧
  (d.outBufTimeout = -1 ∨ d.outBufTimeout = 0 ∨
    (conf.minObtMs ≤ d.outBufTimeout ∧ d.outBufTimeout ≤ conf.maxObtMs)) ∧
  (0 ≤ d.sampleRate ∧ d.sampleRate ≤ 99) ∧
  (d.msgTimeout = 0 ∨ (1000 ≤ d.msgTimeout ∧ d.msgTimeout ≤ conf.maxMsgTimeoutMs))

/-- What an accepted command may do. -/
def EffOk (conf : Conf) : Effect → Prop
  | .enq t ms =>
    isValidName t = true ∧ 1 ≤ ms.length ∧
      (ms.length = 1 ∨ (ms.length : Int) ≤ Mpub.maxMessages conf.maxBodySize) ∧
      ∀ m ∈ ms, MsgOk conf m
  | .sub t c => isValidName t = true ∧ isValidName c = true
  | .rdy n => 0 ≤ n ∧ n ≤ conf.maxRdy
  | .req _ ns => 0 ≤ conf.maxReqTimeoutNs → 0 ≤ ns ∧ ns ≤ conf.maxReqTimeoutNs
  | .identify d => IdentOk conf d
  | .fin _ => True
  | .touch _ => True
  | .cls => True

/-! ## The answer table -/

inductive Cmd
  | identify | auth | sub | pub | mpub | dpub | rdy | fin | req | touch | cls | nop | unknown
deriving DecidableEq, Repr

def classify (name : Bytes) : Cmd :=
  if name = ascii "IDENTIFY" then .identify
  else if name = ascii "AUTH" then .auth
  else if name = ascii "SUB" then .sub
  else if name = ascii "PUB" then .pub
  else if name = ascii "MPUB" then .mpub
  else if name = ascii "DPUB" then .dpub
  else if name = ascii "RDY" then .rdy
  else if name = ascii "FIN" then .fin
  else if name = ascii "REQ" then .req
  else if name = ascii "TOUCH" then .touch
  else if name = ascii "CLS" then .cls
  else if name = ascii "NOP" then .nop
  else .unknown

/-- What can be wrong with a command. -/
inductive Defect
  | unknownCommand      -- not one of the twelve commands
  | tlsRequired         -- TLS policy not satisfied (every command but IDENTIFY)
  | wrongState          -- command not allowed in the connection state
  | heartbeatsOff       -- SUB with heartbeats disabled
  | params              -- too few (AUTH: not exactly zero) parameters
  | topicName | channelName
  | number              -- a numeric parameter is not a decimal number that fits 64 bits
  | range               -- RDY count / DPUB delay outside its range
  | messageId           -- not 16 bytes
  | bodySize            -- size field missing, not positive, above the limit, or body cut short
  | bodyContent         -- IDENTIFY: not JSON / an option out of range
  | batch (c : Code)    -- MPUB: the batch is malformed (the reader's code)
  | compression         -- IDENTIFY: snappy and deflate both requested
  | auth (c : Code)     -- authorization gate (C11)
  | notInFlight         -- FIN / REQ / TOUCH of a message this client does not hold
deriving DecidableEq, Repr

/-- The documented code and class (true = fatal: the connection is closed) of a defect. -/
def codeOf : Cmd → Defect → Code × Bool
  | _, .unknownCommand => (.E_INVALID, true)
  | _, .tlsRequired => (.E_INVALID, true)
  | _, .wrongState => (.E_INVALID, true)
  | _, .heartbeatsOff => (.E_INVALID, true)
  | _, .params => (.E_INVALID, true)
  | _, .topicName => (.E_BAD_TOPIC, true)
  | _, .channelName => (.E_BAD_CHANNEL, true)
  | _, .number => (.E_INVALID, true)
  | _, .range => (.E_INVALID, true)
  | _, .messageId => (.E_INVALID, true)
  | .pub, .bodySize => (.E_BAD_MESSAGE, true)
  | .dpub, .bodySize => (.E_BAD_MESSAGE, true)
  | _, .bodySize => (.E_BAD_BODY, true)
  | _, .bodyContent => (.E_BAD_BODY, true)
  | _, .batch c => (c, true)
  | _, .compression => (.E_IDENTIFY_FAILED, true)
  | _, .auth c => (c, true)
  | .fin, .notInFlight => (.E_FIN_FAILED, false)
  | .req, .notInFlight => (.E_REQ_FAILED, false)
  | _, .notInFlight => (.E_TOUCH_FAILED, false)

/-- The reply of a command without defects. -/
def successReply (conf : Conf) (c : Cmd) (d : Option IdentifyData) : Option Reply :=
  match c with
  | .identify =>
    match d with
    | some x => if x.featureNegotiation then some .json else some .ok
    | none => some .ok
  | .auth => some .json
  | .sub => some .ok
  | .pub => some .ok
  | .mpub => some .ok
  | .dpub => some .ok
  | .cls => some .closeWait
  | _ => none

/-- State rule of each command. -/
def stateOk (c : Cmd) (st : St) : Bool :=
  match c with
  | .identify => st == .init
  | .auth => st == .init
  | .sub => st == .init
  | .rdy => st == .subscribed || st == .closing
  | .fin => st == .subscribed || st == .closing
  | .req => st == .subscribed || st == .closing
  | .touch => st == .subscribed || st == .closing
  | .cls => st == .subscribed
  | _ => true

/-- Is the size-prefixed body that follows the command line acceptable under `limit`? -/
def bodyOk (limit : Int) (rest : Bytes) : Bool :=
  match readLen rest with
  | none => false
  | some (n, r) => decide (1 ≤ n) && decide (n ≤ limit) && decide (n.toNat ≤ r.length)

def param (ps : List Bytes) (i : Nat) : Option Bytes := ps[i]?

/-- The body following the command line, when `bodyOk`. -/
def bodyOf (rest : Bytes) : Bytes :=
  match readLen rest with
  | none => []
  | some (n, r) => r.take n.toNat

/-- Every defect of a command instance (`ps` = the split line, `rest` = the bytes after it), each
judged on its own. -/
def defects (conf : Conf) (s : ConnState) (ps : List Bytes) (rest : Bytes) : List Defect :=
  let c := classify (ps.headD [])
  (if c = .unknown then [.unknownCommand] else []) ++
  (if c ≠ .identify ∧ c ≠ .unknown ∧ !conf.tlsGate then [.tlsRequired] else []) ++
  (if !stateOk c s.st then [.wrongState] else []) ++
  (if c = .sub ∧ s.hbNs ≤ 0 then [.heartbeatsOff] else []) ++
  (match c with
   | .sub => if ps.length < 3 then [.params] else []
   | .pub => if ps.length < 2 then [.params] else []
   | .mpub => if ps.length < 2 then [.params] else []
   | .dpub => if ps.length < 3 then [.params] else []
   | .fin => if ps.length < 2 then [.params] else []
   | .touch => if ps.length < 2 then [.params] else []
   | .req => if ps.length < 3 then [.params] else []
   | .auth => if ps.length ≠ 1 then [.params] else []
   | _ => []) ++
  (match c, param ps 1 with
   | .sub, some t => if isValidName t then [] else [.topicName]
   | .pub, some t => if isValidName t then [] else [.topicName]
   | .mpub, some t => if isValidName t then [] else [.topicName]
   | .dpub, some t => if isValidName t then [] else [.topicName]
   | .fin, some id => if id.length = 16 then [] else [.messageId]
   | .req, some id => if id.length = 16 then [] else [.messageId]
   | .touch, some id => if id.length = 16 then [] else [.messageId]
   | .rdy, some n =>
     (match byteToBase10 n with
      | none => [.number]
      | some v => if toInt64 v < 0 ∨ toInt64 v > conf.maxRdy then [.range] else [])
   | _, _ => []) ++
  (match c, param ps 1 with
   | .rdy, none => if 1 > conf.maxRdy then [.range] else []
   | _, _ => []) ++
  (match c, param ps 2 with
   | .sub, some ch => if isValidName ch then [] else [.channelName]
   | .dpub, some n =>
     (match byteToBase10 n with
      | none => [.number]
      | some v => if msToDuration v < 0 ∨ msToDuration v > conf.maxReqTimeoutNs then [.range] else [])
   | .req, some n => if (byteToBase10 n).isNone then [.number] else []
   | _, _ => []) ++
  (match c with
   | .identify =>
     if bodyOk conf.maxBodySize rest then
       (match conf.decode (bodyOf rest) with
        | none => [.bodyContent]
        | some d =>
          (if (applyIdentify conf s d).isNone then [.bodyContent] else []) ++
          (if d.featureNegotiation ∧ (conf.deflateEnabled && d.deflate) ∧ (conf.snappyEnabled && d.snappy)
           then [.compression] else []))
     else [.bodySize]
   | .auth => if bodyOk conf.maxBodySize rest then [] else [.bodySize]
   | .pub => if bodyOk conf.maxMsgSize rest then [] else [.bodySize]
   | .dpub => if bodyOk conf.maxMsgSize rest then [] else [.bodySize]
   | .mpub =>
     (match readLen rest with
      | none => [.bodySize]
      | some (n, r) =>
        if n ≤ 0 ∨ n > conf.maxBodySize then [.bodySize]
        else match Mpub.readMPUB conf.maxMsgSize conf.maxBodySize r with
          | .err code => [.batch code]
          | _ => [])
   | _ => []) ++
  (match c with
   | .sub => (match conf.authGate with | some code => [.auth code] | none => [])
   | .pub => (match conf.authGate with | some code => [.auth code] | none => [])
   | .mpub => (match conf.authGate with | some code => [.auth code] | none => [])
   | .dpub => (match conf.authGate with | some code => [.auth code] | none => [])
   | .auth =>
     (match conf.authCmd with
      | .alreadySet => [.auth .E_INVALID]
      | .disabled => [.auth .E_AUTH_DISABLED]
      | .failed => [.auth .E_AUTH_FAILED]
      | .noAuthz => [.auth .E_UNAUTHORIZED]
      | .ok => [])
   | _ => []) ++
  (match c, param ps 1 with
   | .fin, some id => if id ∈ s.inflight then [] else [.notInFlight]
   | .req, some id => if id ∈ s.inflight then [] else [.notInFlight]
   | .touch, some id => if id ∈ s.inflight then [] else [.notInFlight]
   | _, _ => [])

/-- Allowed (reply, closes?) pairs for a command instance. RDY in state `closing` is ignored
whatever its argument (documented: "ignoring RDY after CLS"). -/
def answer (conf : Conf) (s : ConnState) (ps : List Bytes) (rest : Bytes)
    (reply : Option Reply) (closes : Bool) : Prop :=
  let c := classify (ps.headD [])
  if c = .rdy ∧ s.st = .closing ∧ conf.tlsGate then reply = none ∧ closes = false
  else if defects conf s ps rest = [] then
    reply = successReply conf c (conf.decode (bodyOf rest)) ∧ closes = false
  else
    ∃ d ∈ defects conf s ps rest, reply = some (.err (codeOf c d).1) ∧ closes = (codeOf c d).2

end Nsq.Spec.ProtoSpec
