import Nsq.Model.ProtoV2
/-
The short declarative specification of the nsqd TCP protocol, written from the protocol
definition (docs/protocol.md, the option names) and NOT from the order of checks in the code:

* `Limits`  — what may ever be accepted (names, sizes, counts, negotiated ranges, RDY, delays);
* `answer`  — for a command in a connection state: success when it has no defect, otherwise one of
  the documented `E_*` codes of its defects, each with its fatal / non-fatal class.
-/
namespace Nsq.Spec.ProtoSpec
open Nsq.Model.ProtoV2 Nsq.Model.Names Nsq.Model.Base10 Nsq.Model

/-! ## Grammar of names -/

/-- `base` is a non-empty string over `[.a-zA-Z0-9_-]`. -/
def IsBase (base : Bytes) : Prop := base ≠ [] ∧ ∀ c ∈ base, nameChar c = true

/-- A topic / channel name: 1–64 bytes, a base optionally followed by `#ephemeral`. -/
def Grammatical (s : Bytes) : Prop :=
  1 ≤ s.length ∧ s.length ≤ 64 ∧ ∃ base, IsBase base ∧ (s = base ∨ s = base ++ ephSuffix)

/-! ## Decimal numbers -/

def IsDigit (c : UInt8) : Prop := 48 ≤ c.toNat ∧ c.toNat ≤ 57

/-- Value of a digit string as an unbounded natural number. -/
def decVal : Bytes → Nat → Nat
  | [], n => n
  | d :: ds, n => decVal ds (n * 10 + (d.toNat - 48))

/-! ## Limits -/

def MsgOk (conf : Conf) (m : Msg) : Prop :=
  1 ≤ m.body.length ∧ (m.body.length : Int) ≤ conf.maxMsgSize ∧
    (m.deferNs = 0 ∨ (0 ≤ m.deferNs ∧ m.deferNs ≤ conf.maxReqTimeoutNs))

/-- The four negotiated ranges of IDENTIFY plus the sample rate. -/
def IdentOk (conf : Conf) (d : IdentifyData) : Prop :=
  (d.heartbeat = -1 ∨ d.heartbeat = 0 ∨ (1000 ≤ d.heartbeat ∧ d.heartbeat ≤ conf.maxHeartbeatMs)) ∧
  (d.outBufSize = -1 ∨ d.outBufSize = 0 ∨ (64 ≤ d.outBufSize ∧ d.outBufSize ≤ conf.maxObSize)) ∧
  (d.outBufTimeout = -1 ∨ d.outBufTimeout = 0 ∨
    (conf.minObtMs ≤ d.outBufTimeout ∧ d.outBufTimeout ≤ conf.maxObtMs)) ∧
  (0 ≤ d.sampleRate ∧ d.sampleRate ≤ 99) ∧
  (d.msgTimeout = 0 ∨ (1000 ≤ d.msgTimeout ∧ d.msgTimeout ≤ conf.maxMsgTimeoutMs))

/-- What an accepted command may do. -/
def EffOk (conf : Conf) : Effect → Prop
  | .enq t ms =>
    isValidName t = true ∧ 1 ≤ ms.length ∧
      (ms.length = 1 ∨ (ms.length : Int) ≤ Mpub.maxMessages conf.maxBodySize) ∧
      ∀ m ∈ ms, MsgOk conf m
  | .sub t c => isValidName t = true ∧ isValidName c = true
  | .rdy n => 0 ≤ n ∧ n ≤ conf.maxRdy
  | .req _ ns => 0 ≤ conf.maxReqTimeoutNs → 0 ≤ ns ∧ ns ≤ conf.maxReqTimeoutNs
  | .identify d => IdentOk conf d
  | .fin _ => True
  | .touch _ => True
  | .cls => True

/-! ## The answer table -/

inductive Cmd
  | identify | auth | sub | pub | mpub | dpub | rdy | fin | req | touch | cls | nop | unknown
deriving DecidableEq, Repr

def classify (name : Bytes) : Cmd :=
  if name = ascii "IDENTIFY" then .identify
  else if name = ascii "AUTH" then .auth
  else if name = ascii "SUB" then .sub
  else if name = ascii "PUB" then .pub
  else if name = ascii "MPUB" then .mpub
  else if name = ascii "DPUB" then .dpub
  else if name = ascii "RDY" then .rdy
  else if name = ascii "FIN" then .fin
  else if name = ascii "REQ" then .req
  else if name = ascii "TOUCH" then .touch
  else if name = ascii "CLS" then .cls
  else if name = ascii "NOP" then .nop
  else .unknown

/-- What can be wrong with a command. -/
inductive Defect
  | unknownCommand      -- not one of the twelve commands
  | tlsRequired         -- TLS policy not satisfied (every command but IDENTIFY)
  | wrongState          -- command not allowed in the connection state
  | heartbeatsOff       -- SUB with heartbeats disabled
  | params              -- too few (AUTH: not exactly zero) parameters
  | topicName | channelName
  | number              -- a numeric parameter is not a decimal number that fits 64 bits
  | range               -- RDY count / DPUB delay outside its range
  | messageId           -- not 16 bytes
  | bodySize            -- size field missing, not positive, above the limit, or body cut short
  | bodyContent         -- IDENTIFY: not JSON / an option out of range
  | batch (c : Code)    -- MPUB: the batch is malformed (the reader's code)
  | compression         -- IDENTIFY: snappy and deflate both requested
  | auth (c : Code)     -- authorization gate (C11)
  | notInFlight         -- FIN / REQ / TOUCH of a message this client does not hold
deriving DecidableEq, Repr

/-- The documented code and class (true = fatal: the connection is closed) of a defect. -/
def codeOf : Cmd → Defect → Code × Bool
  | _, .unknownCommand => (.E_INVALID, true)
  | _, .tlsRequired => (.E_INVALID, true)
  | _, .wrongState => (.E_INVALID, true)
  | _, .heartbeatsOff => (.E_INVALID, true)
  | _, .params => (.E_INVALID, true)
  | _, .topicName => (.E_BAD_TOPIC, true)
  | _, .channelName => (.E_BAD_CHANNEL, true)
  | _, .number => (.E_INVALID, true)
  | _, .range => (.E_INVALID, true)
  | _, .messageId => (.E_INVALID, true)
  | .pub, .bodySize => (.E_BAD_MESSAGE, true)
  | .dpub, .bodySize => (.E_BAD_MESSAGE, true)
  | _, .bodySize => (.E_BAD_BODY, true)
  | _, .bodyContent => (.E_BAD_BODY, true)
  | _, .batch c => (c, true)
  | _, .compression => (.E_IDENTIFY_FAILED, true)
  | _, .auth c => (c, true)
  | .fin, .notInFlight => (.E_FIN_FAILED, false)
  | .req, .notInFlight => (.E_REQ_FAILED, false)
  | _, .notInFlight => (.E_TOUCH_FAILED, false)

/-- The reply of a command without defects. -/
def successReply (conf : Conf) (c : Cmd) (d : Option IdentifyData) : Option Reply :=
  match c with
  | .identify =>
    match d with
    | some x => if x.featureNegotiation then some .json else some .ok
    | none => some .ok
  | .auth => some .json
  | .sub => some .ok
  | .pub => some .ok
  | .mpub => some .ok
  | .dpub => some .ok
  | .cls => some .closeWait
  | _ => none

/-- State rule of each command. -/
def stateOk (c : Cmd) (st : St) : Bool :=
  match c with
  | .identify => st == .init
  | .auth => st == .init
  | .sub => st == .init
  | .rdy => st == .subscribed || st == .closing
  | .fin => st == .subscribed || st == .closing
  | .req => st == .subscribed || st == .closing
  | .touch => st == .subscribed || st == .closing
  | .cls => st == .subscribed
  | _ => true

/-- Is the size-prefixed body that follows the command line acceptable under `limit`? -/
def bodyOk (limit : Int) (rest : Bytes) : Bool :=
  match readLen rest with
  | none => false
  | some (n, r) => decide (1 ≤ n) && decide (n ≤ limit) && decide (n.toNat ≤ r.length)

def param (ps : List Bytes) (i : Nat) : Option Bytes := ps[i]?

/-- The body following the command line, when `bodyOk`. -/
def bodyOf (rest : Bytes) : Bytes :=
  match readLen rest with
  | none => []
  | some (n, r) => r.take n.toNat

def isPublish (c : Cmd) : Bool := c == .pub || c == .mpub || c == .dpub
def takesTopic (c : Cmd) : Bool := c == .sub || isPublish c
def takesId (c : Cmd) : Bool := c == .fin || c == .req || c == .touch

/-- Minimum number of space-separated fields (command included). -/
def minParams : Cmd → Nat
  | .sub => 3 | .pub => 2 | .mpub => 2 | .dpub => 3 | .fin => 2 | .touch => 2 | .req => 3 | _ => 1

def allCodes : List Code :=
  [.E_INVALID, .E_BAD_BODY, .E_BAD_TOPIC, .E_BAD_CHANNEL, .E_BAD_MESSAGE, .E_PUB_FAILED, .E_MPUB_FAILED,
   .E_DPUB_FAILED, .E_FIN_FAILED, .E_REQ_FAILED, .E_TOUCH_FAILED, .E_SUB_FAILED, .E_IDENTIFY_FAILED,
   .E_AUTH_DISABLED, .E_AUTH_FAILED, .E_UNAUTHORIZED, .E_AUTH_FIRST, .E_AUTH_ERROR, .E_BAD_PROTOCOL]

/-- Every defect there is. -/
def allDefects : List Defect :=
  [.unknownCommand, .tlsRequired, .wrongState, .heartbeatsOff, .params, .topicName, .channelName, .number,
   .range, .messageId, .bodySize, .bodyContent, .compression, .notInFlight] ++
  allCodes.map .batch ++ allCodes.map .auth

/-- The size field and batch of an MPUB, judged from the bytes that follow the command line. -/
def mpubSizeOk (conf : Conf) (rest : Bytes) : Bool :=
  match readLen rest with
  | none => false
  | some (n, _) => decide (1 ≤ n) && decide (n ≤ conf.maxBodySize)

def mpubBatch (conf : Conf) (rest : Bytes) : Mpub.Res :=
  match readLen rest with
  | none => .err .E_BAD_BODY
  | some (n, r) => Mpub.readMPUB conf.maxMsgSize conf.maxBodySize (r.take n.toNat)   -- the declared body only

/-- Does the command instance (`ps` = the split line, `rest` = the bytes after it) have defect `d`?
Each defect is judged on its own — no order of checks. -/
def hasDefect (conf : Conf) (s : ConnState) (ps : List Bytes) (rest : Bytes) (c : Cmd) : Defect → Bool
  | .unknownCommand => c == .unknown
  | .tlsRequired => c != .identify && !conf.tlsGate
  | .wrongState => !stateOk c s.st
  | .heartbeatsOff => c == .sub && decide (s.hbNs ≤ 0)
  | .params => decide (ps.length < minParams c) || (c == .auth && decide (ps.length ≠ 1))
  | .topicName =>
    takesTopic c && (match param ps 1 with
      | some t => !isValidName t
      | none => false)
  | .channelName =>
    c == .sub && (match param ps 2 with
      | some ch => !isValidName ch
      | none => false)
  | .number =>
    (c == .rdy && (match param ps 1 with
      | some n => (byteToBase10 n).isNone
      | none => false)) ||
    ((c == .dpub || c == .req) && (match param ps 2 with
      | some n => (byteToBase10 n).isNone
      | none => false))
  | .range =>
    (c == .rdy && (match param ps 1 with
      | some n =>
        (match byteToBase10 n with
         | some v => decide (toInt64 v < 0 ∨ toInt64 v > conf.maxRdy)
         | none => false)
      | none => decide (1 > conf.maxRdy))) ||
    (c == .dpub && (match param ps 2 with
      | some n =>
        (match byteToBase10 n with
         | some v => decide (msToDuration v < 0 ∨ msToDuration v > conf.maxReqTimeoutNs)
         | none => false)
      | none => false))
  | .messageId =>
    takesId c && (match param ps 1 with
      | some id => decide (id.length ≠ 16)
      | none => false)
  | .bodySize =>
    ((c == .identify || c == .auth) && !bodyOk conf.maxBodySize rest) ||
    ((c == .pub || c == .dpub) && !bodyOk conf.maxMsgSize rest) ||
    (c == .mpub && !mpubSizeOk conf rest)
  | .bodyContent =>
    c == .identify && bodyOk conf.maxBodySize rest &&
      (match conf.decode (bodyOf rest) with
       | none => true
       | some d => (applyIdentify conf s d).isNone)
  | .batch code =>
    c == .mpub && mpubSizeOk conf rest && (mpubBatch conf rest == .err code)
  | .compression =>
    c == .identify && bodyOk conf.maxBodySize rest &&
      (match conf.decode (bodyOf rest) with
       | none => false
       | some d => d.featureNegotiation && (conf.deflateEnabled && d.deflate) && (conf.snappyEnabled && d.snappy))
  | .auth code =>
    ((takesTopic c) && (conf.authGate == some code)) ||
    (c == .auth && (match conf.authCmd with
      | .alreadySet => code == .E_INVALID
      | .disabled => code == .E_AUTH_DISABLED
      | .failed => code == .E_AUTH_FAILED
      | .noAuthz => code == .E_UNAUTHORIZED
      | .ok => false))
  | .notInFlight =>
    takesId c && (match param ps 1 with
      | some id => !(s.inflight.contains id)
      | none => false)

/-- Every defect of a command instance. -/
def defects (conf : Conf) (s : ConnState) (ps : List Bytes) (rest : Bytes) : List Defect :=
  allDefects.filter (hasDefect conf s ps rest (classify (ps.headD [])))

/-- The (reply, closes?) pairs the protocol definition allows for a command instance. RDY in state
`closing` is ignored whatever its argument ("ignoring RDY after CLS"). -/
def allowed (conf : Conf) (s : ConnState) (ps : List Bytes) (rest : Bytes) : List (Option Reply × Bool) :=
  if classify (ps.headD []) = .rdy ∧ s.st = .closing ∧ conf.tlsGate = true then [(none, false)]
  else if defects conf s ps rest = [] then
    [(successReply conf (classify (ps.headD [])) (conf.decode (bodyOf rest)), false)]
  else
    (defects conf s ps rest).map
      (fun d => (some (.err (codeOf (classify (ps.headD [])) d).1), (codeOf (classify (ps.headD [])) d).2))

/-- `answer`: the reply and the closing of the connection are among the allowed ones. -/
def answer (conf : Conf) (s : ConnState) (ps : List Bytes) (rest : Bytes)
    (reply : Option Reply) (closes : Bool) : Prop :=
  (reply, closes) ∈ allowed conf s ps rest

end Nsq.Spec.ProtoSpec
