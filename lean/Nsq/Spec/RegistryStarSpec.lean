import Nsq.Spec.RegistrySpec
import Nsq.Model.RegistryStar
/-!
# RegistrySpec, wild-card part: the operations whose result is a SET

`FindProducers("topic","*","")` represents every nsqd that has registered at least one topic by
ONE of its topic registrations (`pick p`, chosen by Go's map iteration). The plain registry
therefore predicts a set of results — one per admissible pick — for

* `POST /topic/tombstone?topic=*&node=N`: each nsqd at address `N` is tombstoned for exactly one
  of the topics it registered (`Spec.tombstoneStar`);
* `GET /lookup?topic=*`: an nsqd is listed iff it is connected, pinged recently, and not
  tombstoned for the topic that represents it (`Spec.lookupStarProducers`); hence it MUST be
  listed when none of its topics is tombstoned and MUST NOT be listed when all of them are.
-/
namespace Nsq.Spec.RegistrySpec
open Nsq.Model.Registry Nsq.Model.Registry.AMap

/-- the pick is admissible: an nsqd that registered some topic is represented by one it registered -/
def Spec.PickValid (s : Spec) (pick : Pick) : Prop := ∀ p, (∃ t, s.topicReg p t) → s.topicReg p (pick p)

/-- `POST /topic/tombstone?topic=*&node=node` under `pick` -/
def Spec.tombstoneStar (s : Spec) (pick : Pick) (node : Name) (now : Int) : Spec :=
  { s with tomb := fun q t τ =>
      (t = pick q ∧ s.topicReg q t ∧ s.nodeIs q node ∧ τ = now) ∨
      (s.tomb q t τ ∧ ¬ (t = pick q ∧ s.nodeIs q node)) }

/-- one step of the plain registry as a relation -/
def Spec.StepSet (s : Spec) (op : Op) (s' : Spec) : Prop :=
  match op.starNode with
  | some (node, now) => ∃ pick, s.PickValid pick ∧ s' = s.tombstoneStar pick node now
  | none => s' = s.step op

inductive Spec.RunSet : Spec → List Op → Spec → Prop
  | nil (s : Spec) : Spec.RunSet s [] s
  | cons {s s1 s' : Spec} {op : Op} {ops : List Op} :
      s.StepSet op s1 → Spec.RunSet s1 ops s' → Spec.RunSet s (op :: ops) s'

/-- `/lookup?topic=*` is 404 unless some topic is known -/
def Spec.lookupStarFound (s : Spec) : Prop := ∃ t, s.knownTopic t
/-- `/channels?topic=*` and the channel list of `/lookup?topic=*`: the channels of all topics -/
def Spec.channelsStar (s : Spec) (ch : Name) : Prop := ∃ t, s.knownChan t ch
/-- `/lookup?topic=*` under `pick`: `p` is listed iff it would be listed for the topic representing it -/
def Spec.lookupStarProducers (s : Spec) (c : Conf) (pick : Pick) (now : Int) (p : Nat) : Prop :=
  s.producers c (pick p) now p

end Nsq.Spec.RegistrySpec
