import Nsq.Model.Registry
/-!
# RegistrySpec — the plain registry the property C14 speaks of

Sets (as predicates) and one-line answer definitions; no lists, no map shapes, no pointers.

* `knownTopic t`, `knownChan t c` — the topic / channel exists in the registry (created by an
  admin call or by a registration);
* `topicReg p t`, `chanReg p t c` — connection `p` has registered the topic / the channel;
* `tomb p t τ` — `p` was tombstoned for topic `t` at time `τ`;
* `live p` — `p` is a connected, identified nsqd; `peer p` — its last ping time and identity.

`abs : Registry → Spec` (appendix A.2 of DESIGN.md) reads these sets off the implementation-
shaped state. `Nsq.Proofs.RegistryRefine` proves that every operation commutes with `abs` and
that every query answer of the model is the spec answer.
-/
namespace Nsq.Spec.RegistrySpec
open Nsq.Model.Registry Nsq.Model.Registry.AMap

structure Spec where
  knownTopic : Name → Prop
  knownChan : Name → Name → Prop
  topicReg : Nat → Name → Prop
  chanReg : Nat → Name → Name → Prop
  tomb : Nat → Name → Int → Prop
  live : Nat → Prop
  peer : Nat → Option PeerRec

theorem Spec.ext' {a b : Spec} (h1 : a.knownTopic = b.knownTopic) (h2 : a.knownChan = b.knownChan)
    (h3 : a.topicReg = b.topicReg) (h4 : a.chanReg = b.chanReg) (h5 : a.tomb = b.tomb)
    (h6 : a.live = b.live) (h7 : a.peer = b.peer) : a = b := by
  cases a; cases b; simp_all

def Spec.init : Spec :=
  ⟨fun _ => False, fun _ _ => False, fun _ _ => False, fun _ _ _ => False, fun _ _ _ => False,
   fun _ => False, fun _ => none⟩

/-! ## Answers -/

/-- `p` pinged recently enough at `now` -/
def Spec.recent (s : Spec) (c : Conf) (now : Int) (p : Nat) : Prop :=
  ∃ pr, s.peer p = some pr ∧ now - pr.lastUpdate ≤ c.inactive

/-- the tombstone of `p` for `t` is still in force at `now` -/
def Spec.tombActive (s : Spec) (c : Conf) (now : Int) (p : Nat) (t : Name) : Prop :=
  ∃ τ, s.tomb p t τ ∧ now - τ < c.tombLife

/-- `/topics` -/
def Spec.topics (s : Spec) : Name → Prop := s.knownTopic
/-- `/channels?topic=t` -/
def Spec.channels (s : Spec) (t : Name) : Name → Prop := s.knownChan t
/-- `/lookup?topic=t` is 404 unless the topic is known -/
def Spec.lookupFound (s : Spec) (t : Name) : Prop := s.knownTopic t
/-- `/lookup?topic=t`: a topic's producers are the connected, recently-pinged nsqds that
registered it and are not tombstoned for it. -/
def Spec.producers (s : Spec) (c : Conf) (t : Name) (now : Int) (p : Nat) : Prop :=
  s.topicReg p t ∧ s.live p ∧ s.recent c now p ∧ ¬ s.tombActive c now p t
/-- `/nodes`: the connected, recently-pinged nsqds (tombstones do not hide a node) … -/
def Spec.nodes (s : Spec) (c : Conf) (now : Int) (p : Nat) : Prop := s.live p ∧ s.recent c now p
/-- … each with the topics it registered and, per topic, whether its tombstone is in force -/
def Spec.nodeTopic (s : Spec) (p : Nat) (t : Name) : Prop := s.topicReg p t

/-! ## Steps -/

def Spec.identified (s : Spec) (p : Nat) : Bool := (s.peer p).isSome

/-- the connection ends: at once gone from every set -/
def Spec.disconnect (s : Spec) (p : Nat) : Spec :=
  if s.identified p then
    { knownTopic := s.knownTopic
      knownChan := s.knownChan
      topicReg := fun q t => s.topicReg q t ∧ q ≠ p
      chanReg := fun q t c => s.chanReg q t c ∧ q ≠ p
      tomb := fun q t τ => s.tomb q t τ ∧ q ≠ p
      live := fun q => s.live q ∧ q ≠ p
      peer := fun q => if q = p then none else s.peer q }
  else s

def Spec.identify (s : Spec) (p : Nat) (info : Info) (now : Int) : Spec :=
  if s.identified p then s.disconnect p
  else if missingFields info then s
  else { s with live := fun q => q = p ∨ s.live q
                peer := fun q => if q = p then some ⟨now, info⟩ else s.peer q }

def Spec.registerTC (s : Spec) (p : Nat) (tc : TopicChan) : Spec :=
  { s with knownTopic := fun t => t = tc.topic ∨ s.knownTopic t
           knownChan := fun t c => (tc.chan ≠ [] ∧ t = tc.topic ∧ c = tc.chan) ∨ s.knownChan t c
           topicReg := fun q t => (q = p ∧ t = tc.topic) ∨ s.topicReg q t
           chanReg := fun q t c => (tc.chan ≠ [] ∧ q = p ∧ t = tc.topic ∧ c = tc.chan) ∨ s.chanReg q t c }

def Spec.register (s : Spec) (p : Nat) (params : List Name) : Spec :=
  if !s.identified p then s
  else
    match getTopicChan "REGISTER" params with
    | .error _ => s.disconnect p
    | .ok tc => s.registerTC p tc

/-- UNREGISTER topic channel: `p` leaves the channel; an `#ephemeral` channel nobody is
registered for any more disappears. -/
def Spec.unregisterChan (s : Spec) (p : Nat) (t c : Name) : Spec :=
  { s with chanReg := fun q t' c' => s.chanReg q t' c' ∧ ¬ (q = p ∧ t' = t ∧ c' = c)
           knownChan := fun t' c' => s.knownChan t' c' ∧
             ¬ (t' = t ∧ c' = c ∧ isEphemeral c = true ∧ ∀ q, s.chanReg q t c → q = p) }

/-- UNREGISTER topic: `p` leaves the topic and all its channels; the tombstone goes with the
registration; an `#ephemeral` topic nobody is registered for any more disappears. -/
def Spec.unregisterTopic (s : Spec) (p : Nat) (t : Name) : Spec :=
  { s with chanReg := fun q t' c' => s.chanReg q t' c' ∧ ¬ (q = p ∧ t' = t)
           topicReg := fun q t' => s.topicReg q t' ∧ ¬ (q = p ∧ t' = t)
           tomb := fun q t' τ => s.tomb q t' τ ∧ ¬ (q = p ∧ t' = t)
           knownTopic := fun t' => s.knownTopic t' ∧
             ¬ (t' = t ∧ isEphemeral t = true ∧ ∀ q, s.topicReg q t → q = p) }

def Spec.unregister (s : Spec) (p : Nat) (params : List Name) : Spec :=
  if !s.identified p then s
  else
    match getTopicChan "UNREGISTER" params with
    | .error _ => s.disconnect p
    | .ok tc => if tc.chan ≠ [] then s.unregisterChan p tc.topic tc.chan else s.unregisterTopic p tc.topic

def Spec.ping (s : Spec) (p : Nat) (now : Int) : Spec :=
  { s with peer := fun q => if q = p then (s.peer p).map (fun pr => { pr with lastUpdate := now })
                            else s.peer q }

def Spec.createTopic (s : Spec) (a : HttpArgs) : Spec :=
  if a.badQuery then s
  else
    match a.topic with
    | none => s
    | some t => if !validName t then s else { s with knownTopic := fun t' => t' = t ∨ s.knownTopic t' }

/-- the topic argument of `/topic/delete` is not validated: `*` names every topic -/
def tmatch (pat t : Name) : Prop := pat = star ∨ t = pat

def Spec.deleteTopic (s : Spec) (a : HttpArgs) : Spec :=
  if a.badQuery then s
  else
    match a.topic with
    | none => s
    | some t =>
      { s with knownTopic := fun t' => s.knownTopic t' ∧ ¬ tmatch t t'
               knownChan := fun t' c => s.knownChan t' c ∧ ¬ tmatch t t'
               topicReg := fun q t' => s.topicReg q t' ∧ ¬ tmatch t t'
               chanReg := fun q t' c => s.chanReg q t' c ∧ ¬ tmatch t t'
               tomb := fun q t' τ => s.tomb q t' τ ∧ ¬ tmatch t t' }

def Spec.createChannel (s : Spec) (a : HttpArgs) : Spec :=
  if a.badQuery then s
  else
    match getTopicChannelArgs a with
    | .error _ => s
    | .ok tc =>
      { s with knownTopic := fun t => t = tc.topic ∨ s.knownTopic t
               knownChan := fun t c => (t = tc.topic ∧ c = tc.chan) ∨ s.knownChan t c }

def Spec.deleteChannel (s : Spec) (a : HttpArgs) : Spec :=
  if a.badQuery then s
  else
    match getTopicChannelArgs a with
    | .error _ => s
    | .ok tc =>
      { s with knownChan := fun t c => s.knownChan t c ∧ ¬ (t = tc.topic ∧ c = tc.chan)
               chanReg := fun q t c => s.chanReg q t c ∧ ¬ (t = tc.topic ∧ c = tc.chan) }

/-- `p`'s node address (`broadcast_address:http_port`) is `node` -/
def Spec.nodeIs (s : Spec) (p : Nat) (node : Name) : Prop :=
  ∃ pr, s.peer p = some pr ∧ nodeOf pr.info = node

/-- a tombstone marks exactly the producers of the named topic whose node address matches -/
def Spec.tombstone (s : Spec) (a : HttpArgs) (now : Int) : Spec :=
  if a.badQuery then s
  else
    match a.topic with
    | none => s
    | some t =>
      match a.node with
      | none => s
      | some node =>
        { s with tomb := fun q t' τ =>
            (t' = t ∧ s.topicReg q t ∧ s.nodeIs q node ∧ τ = now) ∨
            (s.tomb q t' τ ∧ ¬ (t' = t ∧ s.nodeIs q node)) }

def Spec.step (s : Spec) : Op → Spec
  | .identify p info now => s.identify p info now
  | .register p params => s.register p params
  | .unregister p params => s.unregister p params
  | .ping p now => s.ping p now
  | .disconnect p => s.disconnect p
  | .createTopic a => s.createTopic a
  | .deleteTopic a => s.deleteTopic a
  | .createChannel a => s.createChannel a
  | .deleteChannel a => s.deleteChannel a
  | .tombstone a now => s.tombstone a now

def Spec.run (s : Spec) : List Op → Spec
  | [] => s
  | op :: ops => Spec.run (s.step op) ops

/-! ## Abstraction -/

/-- the registration key exists -/
def has (db : DB) (k : Key) : Bool := (mget db k).isSome

/-- the producer entry of peer `id` under key `k` -/
def getP (db : DB) (k : Key) (id : Nat) : Option Tomb := (mget db k).bind (fun pm => mget pm id)

def abs (r : Registry) : Spec :=
  { knownTopic := fun t => has r.db (topicKey t) = true
    knownChan := fun t c => has r.db (chanKey t c) = true
    topicReg := fun p t => (getP r.db (topicKey t) p).isSome = true
    chanReg := fun p t c => (getP r.db (chanKey t c) p).isSome = true
    tomb := fun p t τ => getP r.db (topicKey t) p = some ⟨true, τ⟩
    live := fun p => (getP r.db clientKey p).isSome = true
    peer := fun p => mget r.peers p }

end Nsq.Spec.RegistrySpec
