import Nsq.Model.ProtoV2
/-
Audit round 7 (B4, B7, B8, B21): the part of the nsqd TCP protocol where the answer to a command
depends on something OUTSIDE the connection's own bytes and state.

`Nsq.Model.ProtoV2.exec` takes the authorization gate and the AUTH outcome as constants of a
configuration and its broker operations never fail. Here they become what they are in the code:

* the authorization gate is STATE of the connection (`XState.auth` = `client.AuthState`, written by a
  successful AUTH) read by `CheckAuth` with the topic / channel of the command at hand, and the auth
  server is a parameter (`XConf.authd`, like `Conf.decode` for encoding/json);
* `--max-channel-consumers` is an option (`XConf.maxChanConsumers`) and SUB reads the number of
  clients of the channel in the BROKER (`Channel.AddClient`): E_SUB_FAILED, fatal;
* a backend write may fail (`XState.putsOk` = how many further `Topic.put` calls succeed; an input of
  the environment): `PutMessage` → E_PUB_FAILED / E_DPUB_FAILED with nothing enqueued,
  `PutMessages` → E_MPUB_FAILED after the PREFIX written so far (nsqd/topic.go `PutMessages` returns
  from inside its loop; `messageCount` is advanced by the prefix);
* the two option values every `messagePump` hands to `time.NewTicker` (`Opts`, `pumpStart`).

Every step is the base model's `exec` under the configuration `stepConf` computed from that state,
followed by the two checks that read the broker / the environment — so every theorem about `exec`
applies to each step. Core Lean only.
-/
namespace Nsq.Model.ProtoEnv
open Nsq.Model.ProtoV2 Nsq.Model.Names

/-- What the auth server answers for a secret (`clientV2.QueryAuthd`): an error / invalid document,
or an authorization state with `n` entries and its `IsAllowed topic channel` relation
(channel `[]` = publish). -/
inductive AuthdRes
  | failed
  | state (n : Nat) (allow : Bytes → Bytes → Bool)

structure AuthState where
  n : Nat
  allow : Bytes → Bytes → Bool

structure XConf where
  base : Conf                    -- `base.authGate` / `base.authCmd` are NOT read
  maxChanConsumers : Int         -- --max-channel-consumers (0 = no limit)
  authEnabled : Bool             -- len(--auth-http-address) != 0
  authd : Bytes → AuthdRes

structure XState where
  conn : ConnState
  auth : Option AuthState        -- client.AuthState
  putsOk : Option Nat            -- environment: number of further backend writes that succeed (none: all)

def hasAuthz (x : XState) : Bool :=
  match x.auth with
  | some a => a.n != 0
  | none => false

/-- `CheckAuth(client, cmd, topic, channel)` on a state whose TTL has not expired. -/
def gate (xc : XConf) (x : XState) (t c : Bytes) : Option Code :=
  if !xc.authEnabled then none
  else
    match x.auth with
    | none => some .E_AUTH_FIRST
    | some a =>
      if a.n = 0 then some .E_AUTH_FIRST
      else if a.allow t c then none
      else some .E_UNAUTHORIZED

/-- The (topic, channel) a command hands to `CheckAuth`: SUB its two names, a publish its topic and "". -/
def gateArgs (ps : List Bytes) : Bytes × Bytes :=
  match ps with
  | cmd :: t :: c :: _ => if cmd = cSUB then (t, c) else (t, [])
  | _ :: t :: _ => (t, [])
  | _ => ([], [])

/-- What AUTH does after its body was read. -/
def authOutcome (xc : XConf) (x : XState) (secret : Bytes) : AuthCmd :=
  if hasAuthz x then .alreadySet
  else if !xc.authEnabled then .disabled
  else
    match xc.authd secret with
    | .failed => .failed
    | .state n _ => if n = 0 then .noAuthz else .ok

def authSecret (xc : XConf) (rest : Bytes) : Bytes :=
  match readBody xc.base.maxBodySize rest with
  | .ok body _ => body
  | _ => []

/-- The configuration of the base model for THIS command of THIS connection. -/
def stepConf (xc : XConf) (x : XState) (ps : List Bytes) (rest : Bytes) : Conf :=
  { xc.base with
    authGate := gate xc x (gateArgs ps).1 (gateArgs ps).2
    authCmd := authOutcome xc x (authSecret xc rest) }

/-- `len(c.clients)` of a channel (0 when it does not exist yet). -/
def clientCount (b : Broker) (t c : Bytes) : Nat :=
  match findTopic b t with
  | none => 0
  | some tp =>
    match findChan tp c with
    | none => 0
    | some ch => ch.clients

/-- `Channel.AddClient`: `maxChannelConsumers != 0 && numClients >= maxChannelConsumers`. -/
def limitHit (xc : XConf) (b : Broker) (t c : Bytes) : Bool :=
  decide (xc.maxChanConsumers ≠ 0) && decide ((clientCount b t c : Int) ≥ xc.maxChanConsumers)

def pubFailCode (ps : List Bytes) : Code :=
  match ps with
  | cmd :: _ => if cmd = cMPUB then .E_MPUB_FAILED else if cmd = cDPUB then .E_DPUB_FAILED else .E_PUB_FAILED
  | [] => .E_PUB_FAILED

/-- The state after a step of the base model that went through. -/
def advance (xc : XConf) (x : XState) (ps : List Bytes) (rest : Bytes) (stp : Step) : XState :=
  { x with
    conn := stp.st
    auth :=
      if ps.head? = some cAUTH ∧ stp.ctl = .cont then
        (match xc.authd (authSecret xc rest) with
         | .state n allow => some ⟨n, allow⟩
         | .failed => x.auth)
      else x.auth }

/-- SUB refused by the consumer limit: the topic and the channel were created on the way
(`GetTopic`, `GetChannel`), no client is added, the state of the connection is unchanged. -/
def subRefused (x : XState) (b : Broker) (t c : Bytes) : Step :=
  ⟨.close, some (.err .E_SUB_FAILED), x.conn, getChannel (getTopic b t) t c, [], []⟩

/-- A publish whose `k`-th backend write fails: the first `k` messages are in the topic. -/
def pubFailed (x : XState) (b : Broker) (ps : List Bytes) (t : Bytes) (ms : List Msg) (k : Nat) : Step :=
  ⟨.close, some (.err (pubFailCode ps)), x.conn, publish b t (ms.take k), [],
    if k = 0 then [] else [.enq t (ms.take k)]⟩

/-- One command: `protocolV2.Exec` including the broker-dependent and environment-dependent outcomes. -/
def execX (xc : XConf) (x : XState) (b : Broker) (ps : List Bytes) (rest : Bytes) : Step × XState :=
  match (exec (stepConf xc x ps rest) x.conn b ps rest).eff with
  | [.sub t c] =>
    if limitHit xc b t c then (subRefused x b t c, x)
    else (exec (stepConf xc x ps rest) x.conn b ps rest,
          advance xc x ps rest (exec (stepConf xc x ps rest) x.conn b ps rest))
  | [.enq t ms] =>
    match x.putsOk with
    | none => (exec (stepConf xc x ps rest) x.conn b ps rest,
               advance xc x ps rest (exec (stepConf xc x ps rest) x.conn b ps rest))
    | some k =>
      if k < ms.length then (pubFailed x b ps t ms k, { x with putsOk := some 0 })
      else (exec (stepConf xc x ps rest) x.conn b ps rest,
            { advance xc x ps rest (exec (stepConf xc x ps rest) x.conn b ps rest) with
              putsOk := some (k - ms.length) })
  | _ => (exec (stepConf xc x ps rest) x.conn b ps rest,
          advance xc x ps rest (exec (stepConf xc x ps rest) x.conn b ps rest))

/-- `IOLoop` after the magic. -/
def loopX (xc : XConf) : Nat → XState → Broker → Bytes → Run
  | 0, x, b, _ => ⟨[], .outOfFuel, x.conn, b, []⟩
  | fuel + 1, x, b, bs =>
    match readLine bs with
    | .eof => ⟨[], .eof, x.conn, b, []⟩
    | .tooLong => ⟨[], .closed, x.conn, b, []⟩
    | .line l rest =>
      match (execX xc x b (splitSp l) rest).1.ctl with
      | .cont =>
        Run.cons (execX xc x b (splitSp l) rest).1
          (loopX xc fuel (execX xc x b (splitSp l) rest).2 (execX xc x b (splitSp l) rest).1.broker
            (execX xc x b (splitSp l) rest).1.rest)
      | .close => Run.stop (execX xc x b (splitSp l) rest).1 .closed
      | .upgraded => Run.stop (execX xc x b (splitSp l) rest).1 .upgraded
      | .panic => Run.stop (execX xc x b (splitSp l) rest).1 .panic

/-- Magic + `IOLoop`, the connection still open when the bytes are used up (`fin = .eof` then means:
the server is waiting for more; the client is still counted in its channel). -/
def connectX (xc : XConf) (x : XState) (b : Broker) (bs : Bytes) : Run :=
  match bs with
  | m0 :: m1 :: m2 :: m3 :: rest =>
    if [m0, m1, m2, m3] = magicV2 then loopX xc (rest.length + 1) x b rest
    else ⟨[.err .E_BAD_PROTOCOL], .closed, x.conn, b, []⟩
  | _ => ⟨[], .eof, x.conn, b, []⟩

/-- One whole connection: magic + `IOLoop` + teardown (`RemoveClient`). A failed SUB never became a
client of its channel (`client.Channel` stays nil): a step that closes the connection keeps the state
of before that step, so `disconnect` reads the right `sub`. -/
def serveX (xc : XConf) (x : XState) (b : Broker) (bs : Bytes) : Run :=
  match bs with
  | m0 :: m1 :: m2 :: m3 :: rest =>
    if [m0, m1, m2, m3] = magicV2 then disconnect (loopX xc (rest.length + 1) x b rest)
    else ⟨[.err .E_BAD_PROTOCOL], .closed, x.conn, b, []⟩
  | _ => ⟨[], .eof, x.conn, b, []⟩

def freshX (s : ConnState) : XState := { conn := s, auth := none, putsOk := none }

/-! ## Option values handed to `time.NewTicker` (B8) -/

structure Opts where
  clientTimeoutNs : Int           -- --client-timeout
  outputBufferTimeoutNs : Int     -- --output-buffer-timeout

/-- `newClientV2`: `HeartbeatInterval: ClientTimeout / 2` (Go integer division truncates). -/
def heartbeatOf (o : Opts) : Int := Int.tdiv o.clientTimeoutNs 2

/-- The option checks of `nsqd.New` that concern the protocol (`checked = false`: the tree before
fixes/F31_validate_ticker_options.patch, which checks neither). -/
def newAccepts (checked : Bool) (o : Opts) : Bool :=
  !checked || (decide (o.outputBufferTimeoutNs > 0) && decide (heartbeatOf o > 0))

inductive PumpStart
  | running
  | panic            -- time.NewTicker: "non-positive interval", in a goroutine nothing recovers
deriving DecidableEq, Repr

/-- The first two tickers of `protocolV2.messagePump`. -/
def pumpStart (hbNs obtNs : Int) : PumpStart :=
  if obtNs ≤ 0 then .panic else if hbNs ≤ 0 then .panic else .running

/-- The first connection to a daemon started with options `o`: `none` = `New` refused to start. -/
def firstConnection (checked : Bool) (o : Opts) : Option PumpStart :=
  if newAccepts checked o then some (pumpStart (heartbeatOf o) o.outputBufferTimeoutNs) else none

end Nsq.Model.ProtoEnv
