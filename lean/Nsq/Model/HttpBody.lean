import Nsq.Model.HttpFull
/-
How much of the request body each nsqd HTTP handler reads (audit round 7, item B16).

`/pub` and `PUT /config/:opt` read through `io.LimitReader(req.Body, max-msg-size+1)`, `/mpub` through
`io.LimitReader(req.Body, max-body-size)` (binary) or `max-body-size+1` (text). Every other handler takes
its arguments from the query string. Before fix F33 the handlers built on `http_api.NewReqParams`
(`/stats`, `/topic/empty|delete|pause|unpause`, the five `/channel/*` endpoints) nevertheless read the
*whole* body with an unbounded `io.ReadAll` into a field nobody uses (`bodyReadOld`); with F33
`NewReqParams` parses the query only (`bodyRead`). Core Lean only.
-/
namespace Nsq.Model.HttpBody
open Nsq.Model.HttpApi Nsq.Model.HttpFull Nsq.Model.ProtoV2 Nsq.Model.Names

inductive Read
  | exact (n : Nat)        -- exactly n bytes are consumed from the body
  | atMost (n : Nat)       -- a prefix of at most n bytes (the reader stops at the first error)
  | unknown                -- net/http/pprof handlers (standard library)
deriving DecidableEq, Repr

/-- The handlers that call `http_api.NewReqParams` (directly or through `getExistingTopicFromQuery`). -/
def usesReqParams (name : String) : Bool :=
  name = "doStats" || name = "doEmptyTopic" || name = "doDeleteTopic" || name = "doPauseTopic" ||
  name = "doCreateChannel" || name = "doDeleteChannel" || name = "doEmptyChannel" || name = "doPauseChannel"

/-- Bytes of the body handler `name` consumes; `old`: the tree before F33. -/
def handlerRead (old : Bool) (hc : HConf) (rq : Request) (name : String) : Read :=
  if name = "doPUB" then
    (if rq.contentLength > hc.maxMsgSize then .exact 0
     else .exact (min rq.body.length (hc.maxMsgSize + 1).toNat))
  else if name = "doMPUB" then
    (if rq.contentLength > hc.maxBodySize then .exact 0
     else
       match topicFromQuery rq.rawQuery with
       | .error _ => .exact 0
       | .ok _ =>
         if binaryMode ((parseQuery rq.rawQuery).getD []) then .atMost (min rq.body.length hc.maxBodySize.toNat)
         else .atMost (min rq.body.length (hc.maxBodySize + 1).toNat))
  else if name = "doConfig" then
    (if rq.method = ascii "PUT" then .exact (min rq.body.length (hc.maxMsgSize + 1).toNat) else .exact 0)
  else if usesReqParams name then
    -- NewReqParams: url.ParseQuery first; before F33 then io.ReadAll(req.Body)
    (if old && (parseQuery rq.rawQuery).isSome then .exact rq.body.length else .exact 0)
  else .exact 0

def readOf (old : Bool) (hc : HConf) (rq : Request) : Read :=
  if hc.tlsRefuse then .exact 0
  else
    match routeFull rq.method rq.path with
    | .handler name d => if d = .raw then .unknown else handlerRead old hc rq name
    | _ => .exact 0

/-- The current tree (F33 applied). -/
def bodyRead (hc : HConf) (rq : Request) : Read := readOf false hc rq

/-- The tree before F33. -/
def bodyReadOld (hc : HConf) (rq : Request) : Read := readOf true hc rq

/-- The largest number of body bytes nsqd's own handlers may buffer under configuration `hc`. -/
def readLimit (hc : HConf) : Nat := (max hc.maxMsgSize hc.maxBodySize + 1).toNat

def Read.within (lim : Nat) : Read → Prop
  | .exact n => n ≤ lim
  | .atMost n => n ≤ lim
  | .unknown => True

instance (lim : Nat) (r : Read) : Decidable (r.within lim) := by
  cases r <;> unfold Read.within <;> infer_instance

def showRead : Read → String
  | .exact n => s!"={n}"
  | .atMost n => s!"<={n}"
  | .unknown => "?"

end Nsq.Model.HttpBody
