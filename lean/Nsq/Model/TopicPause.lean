/-
E2 / C03 — the topic pump's CACHED enable bit and the pause / channel-update hand-shakes at micro-step
granularity (round 9, audit A10).

`Nsq.Model.ChanNsqd` re-reads the pause flag before every `pumpTopic` step (`pumpEnabled`), so
`Props.C03.topic_pause_handshake` holds there by definition. The real `Topic.messagePump` (nsqd/topic.go) does
NOT read the flag per message: it caches the decision in its local `memoryMsgChan` / `backendChan` (nil = the
queue cases of its `select` are off) and re-evaluates `len(chans) == 0 || t.IsPaused()` only when it receives
from `t.pauseChan` or `t.channelUpdateChan` (and once when it leaves its pre-`Start()` loop). What makes the
flag effective is the hand-shake: `Topic.doPause` stores the flag and then SENDS on the unbuffered `pauseChan`,
i.e. `Pause()` returns only after the pump has taken the notification and re-evaluated.

One step = one of these atomic actions; a schedule is any list of them:
  `storeFlag b`  first half of `doPause`: `atomic.StoreInt32(&t.paused, b)`            (the call is now pending)
  `pauseAck`     the pump's `case <-t.pauseChan` — re-evaluation; ONE pending call returns
  `mapChange n`  `GetChannel` (new channel) / `DeleteExistingChannel`: `channelMap` has `n` entries now
  `updAck`       the pump's `case <-t.channelUpdateChan`: `chans` rebuilt from the map, re-evaluation
  `start`        the pump leaves its pre-start loop (`<-t.startChan`): snapshot + first evaluation
  `pub id`       a publish (never refused because of pause)
  `fan id`       `case msg = <-memoryMsgChan | buf = <-backendChan` and the loop over `chans`
                 (atomic here: a pump that is mid hand-over cannot take `pauseAck` — the caller waits)
`handshake = false` models seeded defect C03-m7 (non-blocking send with a `default:` arm): the call returns at
once, the pump takes the notification whenever (or never).
Core Lean only.
-/
namespace Nsq.Model.TopicPause

inductive Ev where
  | store (b : Bool)
  | ret
  | fan (id : Nat)
deriving DecidableEq, Repr

structure St where
  started : Bool := false
  /-- `t.paused` -/
  paused  : Bool := false
  /-- `len(t.channelMap)` -/
  nchan   : Nat := 0
  /-- `len(chans)`: the pump's snapshot -/
  snap    : Nat := 0
  /-- the pump's cached enable bit: `memoryMsgChan != nil` -/
  armed   : Bool := false
  /-- `Pause()` / `UnPause()` calls that stored the flag and have not returned -/
  pendP   : Nat := 0
  /-- channel-map changes whose `channelUpdateChan` hand-shake is outstanding -/
  pendU   : Nat := 0
  queue   : List Nat := []
  hist    : List Ev := []
deriving DecidableEq, Repr

inductive Op where
  | storeFlag (b : Bool)
  | pauseAck
  | mapChange (n : Nat)
  | updAck
  | start
  | pub (id : Nat)
  | fan (id : Nat)
deriving DecidableEq, Repr

/-- the pump's re-evaluation: `if len(chans) == 0 || t.IsPaused() { nil } else { armed }` -/
def evalArm (snap : Nat) (paused : Bool) : Bool := decide (0 < snap) && !paused

def step (handshake : Bool) (s : St) : Op → St × Bool
  | .storeFlag b =>
    ({ s with paused := b, pendP := if handshake then s.pendP + 1 else s.pendP, hist := .store b :: s.hist }, true)
  | .pauseAck =>
    if handshake && s.pendP == 0 then (s, false)          -- nobody is sending on pauseChan
    else
      -- before Start() the notification is consumed without evaluation (`continue` in the pre-start loop)
      ({ s with pendP := s.pendP - 1,
                armed := if s.started then evalArm s.snap s.paused else false,
                hist := .ret :: s.hist }, true)
  | .mapChange n => ({ s with nchan := n, pendU := s.pendU + 1 }, true)
  | .updAck =>
    if s.pendU == 0 then (s, false)
    else if s.started then
      ({ s with pendU := s.pendU - 1, snap := s.nchan, armed := evalArm s.nchan s.paused }, true)
    else ({ s with pendU := s.pendU - 1 }, true)
  | .start =>
    if s.started then (s, false)
    else ({ s with started := true, snap := s.nchan, armed := evalArm s.nchan s.paused }, true)
  | .pub id => ({ s with queue := id :: s.queue }, true)
  | .fan id =>
    if s.armed && s.queue.contains id then
      ({ s with queue := s.queue.erase id, hist := .fan id :: s.hist }, true)
    else (s, false)

def run (handshake : Bool) (s : St) : List Op → St
  | [] => s
  | op :: ops => run handshake (step handshake s op).1 ops

end Nsq.Model.TopicPause
