import Nsq.Model.LookupSync
/-!
# lookupPeer — `Command`'s reconnect logic, interaction by interaction (C16)

`Nsq.Model.LookupSync.command` summarises one `lookupPeer.Command` by a single `Outcome`. Here the
same function is modelled at the granularity of the code (`nsqd/lookup_peer.go`, `nsqd/lookup.go`
`connectCallback`): `lp.state` is `stateDisconnected | stateConnected`; the lookupd side either
still has our connection (`some regs` = what it holds for it) or not (`none`: it closed it, was
restarted, or we closed it — nsqlookupd drops a closed connection's registrations). One `Command`
consumes network interactions in this order (tie `command_shape`, `connectCallback_shape`):

  not connected:  dial · write magic · IDENTIFY round trip (reply must parse, not `E_INVALID`) ·
                  one REGISTER round trip per live topic/channel (`callbackCmds`) · [the command itself]
  connected:      the command itself (write + bounded read)

`net : List Bool` gives the outcome of each interaction in order (missing = failure). The first
failure calls `lp.Close()` (state := disconnected) and ends the `Command`. `cmd = none` is
`Command(nil)` ("start the connection").

`fineCommand_refines` proves that this is exactly `command` with `Outcome.ok` iff every consumed
interaction succeeded, under the abstraction `absConn`.
-/
namespace Nsq.Model.LookupSync

inductive PState
  | disconnected | connected
deriving DecidableEq, Repr

/-- the lookupd's view: `some regs` = our connection is alive there and holds `regs` -/
abbrev Session := Option (List Key)

def absConn : PState → Session → Conn
  | .disconnected, _ => .down
  | .connected, some _ => .up
  | .connected, none => .stale

/-- number of interactions a `Command` consumes when all succeed -/
def needed (st : PState) (ncb : Nat) (hasCmd : Bool) : Nat :=
  match st with
  | .connected => if hasCmd then 1 else 0
  | .disconnected => 3 + ncb + (if hasCmd then 1 else 0)

def allOk (net : List Bool) (n : Nat) : Bool := (List.range n).all (fun i => net.getD i false)

/-- `lookupPeer.Command(cmd)` with `cbCmds` = the REGISTERs `connectCallback` would send now -/
def fineCommand (cbCmds : List Key) (cmd : Option (List Key → List Key)) (st : PState) (sess : Session)
    (net : List Bool) : PState × Session :=
  match st with
  | .connected =>
    match cmd with
    | none => (.connected, sess)                       -- `if cmd == nil { return nil, nil }`
    | some apply =>
      match sess with
      | none => (.disconnected, none)                  -- the lookupd is gone: the read fails, `lp.Close()`
      | some regs => if net.getD 0 false then (.connected, some (apply regs)) else (.disconnected, none)
  | .disconnected =>
    if allOk net (3 + cbCmds.length) then
      match cmd with
      | none => (.connected, some (applyRegisters cbCmds []))
      | some apply =>
        if net.getD (3 + cbCmds.length) false then (.connected, some (apply (applyRegisters cbCmds [])))
        else (.disconnected, none)
    else (.disconnected, none)

def outcomeOf (b : Bool) : Outcome := if b then .ok else .fail

end Nsq.Model.LookupSync
