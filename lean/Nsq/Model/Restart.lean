import Nsq.Model.Life
/-
C05 — graceful shutdown and restart, on top of the atomic life-cycle state (Model/Life.lean).

`closeAll` = `NSQD.Exit`: persist the metadata, then per topic: stop the pump, close every channel
(disconnect consumers; write the memory queue, then every in-flight, then every deferred message
to the channel's disk queue; close it), flush the topic's memory queue to its disk queue, close.
`reload` = `New` + `LoadMetadata` (+ `Start`): recreate topics / channels / paused flags from the
metadata file, reopen each disk queue by its name.
The disk queue persists exactly its content across close / reopen (assumption, DESIGN 4.6); what
the dummy backend of an ephemeral topic/channel is given is dropped.
-/
namespace Nsq.Model.Restart
open Nsq.Model.Life

/-- what survives the process: the metadata file and the named disk queues -/
structure Persist where
  metadata : List (String × Bool × List (String × Bool))
  dq : List (BName × List Msg)
  /-- consumers disconnected by the shutdown -/
  closed : List Nat
deriving Repr, DecidableEq

/-- `Channel.flush` after the existing disk content: memory queue, in flight, deferred.
(`queue` already holds disk + memory as a bag.) -/
def Chan.flushed (C : Chan) : List Msg := C.located

def topicQueues (T : Topic) : List (BName × List Msg) :=
  (if T.eph then [] else [((T.name, none), T.queue)]) ++
  (T.chans.filter (fun C => !C.eph)).map (fun C => ((T.name, some C.name), Chan.flushed C))

def closeAll (s : St) : Persist :=
  { metadata := persisted s,
    dq := (s.topics.map topicQueues).flatten ++ s.orphans,
    closed := ((s.topics.map (fun T => T.chans.map (fun C => C.clients.map (·.id)))).flatten).flatten }

def lookupDQ (dq : List (BName × List Msg)) (b : BName) : List Msg :=
  match dq.find? (fun e => e.1 == b) with
  | some e => e.2
  | none => []

def reloadChan (dq : List (BName × List Msg)) (t : String) (c : String × Bool) : Chan :=
  { name := c.1, eph := false, paused := c.2, queue := lookupDQ dq (t, some c.1), memLen := 0 }

def reloadTopic (dq : List (BName × List Msg)) (e : String × Bool × List (String × Bool)) : Topic :=
  { name := e.1, eph := false, paused := e.2.1, queue := lookupDQ dq (e.1, none), memLen := 0,
    chans := e.2.2.map (reloadChan dq e.1) }

def ownedBy (md : List (String × Bool × List (String × Bool))) (b : BName) : Bool :=
  md.any (fun e => e.1 == b.1 && (match b.2 with
    | none => true
    | some c => e.2.2.any (fun x => x.1 == c)))

/-- `New` + `LoadMetadata`: every channel of a topic exists before its pump is started -/
def reload (memCap : Nat) (p : Persist) : St :=
  { memCap := memCap,
    topics := p.metadata.map (reloadTopic p.dq),
    -- every closed disk queue left its files; those of a durable channel under an ephemeral topic
    -- are not in the metadata and stay behind as orphans
    files := p.dq.map (·.1),
    orphans := p.dq.filter (fun e => !(ownedBy p.metadata e.1)) }

def cycle (s : St) : St := reload s.memCap (closeAll s)

/-- names are unique (an invariant of every reachable state: creation looks the name up first) -/
def WF (s : St) : Prop :=
  (s.topics.map (·.name)).Nodup ∧ ∀ T ∈ s.topics, (T.chans.map (·.name)).Nodup

/-! ### shutdown racing in-progress operations (micro-steps; DESIGN F9)

One durable topic with one durable channel.  `acked` = publishes that returned success.
Every step is one critical section / channel operation of the real code.  Three model parameters
say which windows the tree protects by a lock (each is tied to the tree by a regenerated fact and a
hook replay): `scanLock` (the timeout scans hold `exitMutex.RLock`; true on the tree), `ansLock`
(REQ / TOUCH hold `exitMutex.RLock` from the in-flight pop to the re-insertion; fixes/F18), and
`topicBarrier` (`Topic.exit` sets `exitFlag` under the topic write lock, `PutMessage` tests it and
writes under the read lock; fixes/F17). -/

structure RaceSt where
  topicExiting : Bool := false
  topicMem : List Nat := []
  topicDisk : List Nat := []
  topicClosed : Bool := false
  chanMem : List Nat := []
  chanDisk : List Nat := []
  chanClosed : Bool := false
  inflight : List Nat := []
  deferred : List Nat := []
  acked : List Nat := []
  /-- FINished by a consumer (the channel is no longer responsible for them) -/
  finished : List Nat := []
  /-- publisher goroutines between the exitFlag test and the queue write (`topic.put.afterExitCheck`);
  they hold the topic read lock -/
  putPending : List Nat := []
  /-- consumer pumps between the queue receive and StartInFlightTimeout (`proto.pump.afterRecv`) -/
  pumpHolds : List Nat := []
  /-- the timeout scans between `popInFlightMessage`/`popDeferredMessage` and `put` (message in no container) -/
  scanHolds : List Nat := []
  /-- REQ / TOUCH between `popInFlightMessage` and the re-insertion (`chan.req.afterPop`, `chan.touch.afterPop`) -/
  ansHolds : List Nat := []
  /-- ghost: messages a consumer pump registered in flight after the channel had been flushed and closed -/
  lateReg : List Nat := []
  /-- ghost: messages the topic pump has handed to the channel -/
  fanned : List Nat := []
  /-- model parameter: the scan holds `exitMutex.RLock` across that window (true on the tree: tie
  `scan_holds_exit_lock`); `Channel.exit` then cannot run inside it -/
  scanLock : Bool := true
  /-- model parameter: REQ and TOUCH hold `exitMutex.RLock` across their window (tie `answers_exit_lock_shape`) -/
  ansLock : Bool := false
  /-- model parameter: `Topic.exit` sets the flag under the topic write lock (tie `topic_exit_flag_shape`) -/
  topicBarrier : Bool := false
  /-- model parameter: `NSQD.Exit` waits for every connection handler and the messagePump it joins
  (`tcpServer.Close` … `handlers.Wait`, `IOLoop` … `<-messagePumpDoneChan`) *before* it closes the topics
  (tie `exit_joins_pumps_shape`; fixes/F23) -/
  pumpJoin : Bool := false
  /-- messages acknowledged into a *second* topic that a publisher created after `Exit` had closed the topics it
  found (`GetTopic` waits for the NSQD lock that `Exit` holds while it closes them): nobody closes or flushes it -/
  lateTopic : List Nat := []
  /-- model parameter: `GetTopic` hands out a closed topic once `isExiting` is set (tie `get_topic_exit_shape`; fixes/F26) -/
  newTopicGuard : Bool := false
  memCap : Nat := 4
deriving Repr, DecidableEq

inductive RaceStep where
  | pubCheck (m : Nat)      -- Topic.PutMessage: RLock, exitFlag test
  | pubSend (m : Nat)       -- … the queue write, RUnlock; returns nil → acknowledged
  | pubNewTopic (m : Nat)   -- a publish to a topic that does not exist yet, its GetTopic coming after Exit's critical section
  | fanout                  -- topic pump moves the head of the topic queue to the channel
  | pumpRecv                -- consumer pump receives the head of the channel's memory queue
  | pumpRecvDisk            -- … or the head of the channel's disk queue (ReadChan)
  | pumpRegister (m : Nat)  -- … StartInFlightTimeout (then the send on the closed connection fails)
  | fin (m : Nat)           -- FIN: out of the in-flight map for good
  | ansTake (m : Nat)       -- REQ / TOUCH: popInFlightMessage
  | reqPut (m : Nat)        -- … REQ 0: `Exiting()` ⇒ error (dropped), else back on the queue
  | reqDefer (m : Nat)      -- … REQ > 0: into the deferred map
  | touchPut (m : Nat)      -- … TOUCH: back into the in-flight map
  | scanTake (m : Nat)      -- processInFlightQueue: a timed-out message leaves the in-flight map
  | scanTakeD (m : Nat)     -- processDeferredQueue: a due message leaves the deferred map
  | scanPut (m : Nat)       -- … and is put back on the queue ("exiting": dropped, when the channel has closed)
  | exitFlag                -- Topic.exit: exitFlag := 1, pump stopped
  | exitChan                -- Channel.exit(false): flush memory + in-flight + deferred to disk, close backend
  | exitTopicFlush          -- Topic.flush + backend.Close
deriving Repr, DecidableEq

def raceStep (s : RaceSt) : RaceStep → Option RaceSt
  | .pubCheck m =>
    if s.topicExiting then some s                      -- "exiting": not acknowledged
    else some { s with putPending := m :: s.putPending }
  | .pubSend m =>
    if m ∈ s.putPending then
      if s.topicMem.length < s.memCap then
        some { s with topicMem := s.topicMem ++ [m], acked := m :: s.acked, putPending := s.putPending.erase m }
      else if s.topicClosed then some { s with putPending := s.putPending.erase m }   -- backend.Put: "exiting"
      else some { s with topicDisk := s.topicDisk ++ [m], acked := m :: s.acked, putPending := s.putPending.erase m }
    else none
  | .pubNewTopic m =>
    if !s.topicExiting then none                        -- earlier, Exit closes the new topic like any other (this model, another instance)
    else if s.newTopicGuard then some s                 -- a closed topic is handed out: "exiting", not acknowledged
    else some { s with acked := m :: s.acked, lateTopic := m :: s.lateTopic }
  | .fanout =>
    if s.topicExiting then none
    else
      match s.topicMem with
      | [] => none
      | m :: rest =>
        if s.chanMem.length < s.memCap then
          some { s with topicMem := rest, chanMem := s.chanMem ++ [m], fanned := m :: s.fanned }
        else some { s with topicMem := rest, chanDisk := s.chanDisk ++ [m], fanned := m :: s.fanned }
  | .pumpRecv =>
    if s.pumpJoin && s.topicExiting then none           -- every pump has ended before the topics are closed
    else
    match s.chanMem with
    | [] => none
    | m :: rest => some { s with chanMem := rest, pumpHolds := m :: s.pumpHolds }
  | .pumpRecvDisk =>
    if s.pumpJoin && s.topicExiting then none
    else if s.chanClosed then none                      -- the closed disk queue hands nothing out
    else
      match s.chanDisk with
      | [] => none
      | m :: rest => some { s with chanDisk := rest, pumpHolds := m :: s.pumpHolds }
  | .pumpRegister m =>
    if m ∈ s.pumpHolds then
      some { s with inflight := m :: s.inflight, pumpHolds := s.pumpHolds.erase m,
                    lateReg := if s.chanClosed then m :: s.lateReg else s.lateReg }
    else none
  | .fin m =>
    if m ∈ s.inflight then some { s with inflight := s.inflight.erase m, finished := m :: s.finished }
    else none
  | .ansTake m =>
    if m ∈ s.inflight then some { s with inflight := s.inflight.erase m, ansHolds := m :: s.ansHolds }
    else none
  | .reqPut m =>
    if m ∈ s.ansHolds then
      if s.chanClosed then some { s with ansHolds := s.ansHolds.erase m }         -- "exiting"
      else if s.chanMem.length < s.memCap then
        some { s with chanMem := s.chanMem ++ [m], ansHolds := s.ansHolds.erase m }
      else some { s with chanDisk := s.chanDisk ++ [m], ansHolds := s.ansHolds.erase m }
    else none
  | .reqDefer m =>
    if m ∈ s.ansHolds then some { s with deferred := m :: s.deferred, ansHolds := s.ansHolds.erase m }
    else none
  | .touchPut m =>
    if m ∈ s.ansHolds then some { s with inflight := m :: s.inflight, ansHolds := s.ansHolds.erase m }
    else none
  | .scanTake m =>
    if s.chanClosed then none                           -- `Exiting()` is tested first
    else if m ∈ s.inflight then some { s with inflight := s.inflight.erase m, scanHolds := m :: s.scanHolds }
    else none
  | .scanTakeD m =>
    if s.chanClosed then none
    else if m ∈ s.deferred then some { s with deferred := s.deferred.erase m, scanHolds := m :: s.scanHolds }
    else none
  | .scanPut m =>
    if m ∈ s.scanHolds then
      if s.chanClosed then some { s with scanHolds := s.scanHolds.erase m }      -- lost
      else if s.chanMem.length < s.memCap then
        some { s with chanMem := s.chanMem ++ [m], scanHolds := s.scanHolds.erase m }
      else some { s with chanDisk := s.chanDisk ++ [m], scanHolds := s.scanHolds.erase m }
    else none
  | .exitFlag =>
    if s.topicExiting then none
    else if s.topicBarrier && !s.putPending.isEmpty then none   -- t.Lock() waits for the publishers' read locks
    else if s.pumpJoin && !s.pumpHolds.isEmpty then none        -- tcpServer.Close() waits for the pumps (a parked pump registers first)
    else some { s with topicExiting := true }
  | .exitChan =>
    if s.scanLock && !s.scanHolds.isEmpty then none     -- exitMutex: exit waits for the scan
    else if s.ansLock && !s.ansHolds.isEmpty then none  -- … and for REQ / TOUCH
    else if s.topicExiting && !s.chanClosed then
      some { s with chanDisk := s.chanDisk ++ s.chanMem ++ s.inflight ++ s.deferred, chanMem := [], chanClosed := true }
    else none
  | .exitTopicFlush =>
    if s.chanClosed && !s.topicClosed then
      some { s with topicDisk := s.topicDisk ++ s.topicMem, topicMem := [], topicClosed := true }
    else none

def raceRun : RaceSt → List RaceStep → Option RaceSt
  | s, [] => some s
  | s, a :: as =>
    match raceStep s a with
    | none => none
    | some s' => raceRun s' as

/-- after the shutdown has completed and every goroutine has run to its end: every acknowledged
message that was not FINished is on one of the two disk queues -/
def allAckedOnDisk (s : RaceSt) : Bool :=
  s.acked.all (fun m => s.topicDisk.contains m || s.chanDisk.contains m || s.finished.contains m)

def raceDone (s : RaceSt) : Bool :=
  s.topicClosed && s.putPending.isEmpty && s.pumpHolds.isEmpty && s.scanHolds.isEmpty && s.ansHolds.isEmpty

/-- the tree with fixes/F17 (topic exit barrier) and fixes/F18 (answers hold the exit lock) -/
def fixedTree : RaceSt := { ansLock := true, topicBarrier := true }

/-- … and with fixes/F23 (Exit joins the connection handlers and their pumps before closing the topics) and
fixes/F26 (GetTopic hands out a closed topic during Exit) -/
def joinedTree : RaceSt := { ansLock := true, topicBarrier := true, pumpJoin := true, newTopicGuard := true }

end Nsq.Model.Restart
