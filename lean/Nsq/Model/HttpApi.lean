import Nsq.Model.ProtoV2
/-
Model of the nsqd HTTP API: nsqd/http.go (`ServeHTTP`, the route table, every handler except the
pprof/debug ones), internal/http_api (`V1`/`PlainText` decorators, `NewReqParams`,
`GetTopicChannelArgs`) and the part of `net/url.ParseQuery` the handlers depend on.

`Request` is what a handler sees after `net/http` parsed the request. Trusted, not modelled:
`net/http`, `httprouter`'s tree matching (the model decides by exact path; any other path is
answered `notFoundOrRedirect` = 404 or a 301/307/308 to a registered path), response rendering.
Core Lean only.
-/
namespace Nsq.Model.HttpApi
open Nsq.Model.ProtoV2 Nsq.Model.Names Nsq.Model.Base10

structure HConf where
  maxMsgSize : Int
  maxBodySize : Int
  maxReqTimeoutMs : Int         -- int64(MaxReqTimeout / time.Millisecond)
  tlsRefuse : Bool              -- !tlsEnabled && tlsRequired
  cfgNames : List Bytes         -- option names `getOptByCfgName` finds (reflection over Options)
  cfgStrNames : List Bytes := []  -- those of them whose Go type is `string` (answered as raw text, `HttpFull`)

structure Request where
  method : Bytes
  path : Bytes
  rawQuery : Bytes
  contentLength : Int           -- -1 = not declared (chunked)
  body : Bytes

inductive Status
  | s200 | s400 | s403 | s404 | s405 | s413 | s500
  | notFoundOrRedirect          -- path not registered: httprouter answers 404 or redirects
  | external                    -- handler outside this model (pprof/debug, PUT nsqlookupd_tcp_addresses)
deriving DecidableEq, Repr

def showStatus : Status → String
  | .s200 => "200" | .s400 => "400" | .s403 => "403" | .s404 => "404" | .s405 => "405"
  | .s413 => "413" | .s500 => "500" | .notFoundOrRedirect => "404/3xx" | .external => "external"

/-- `msg` is the `message` of an error body, the text of a 200 body where it is fixed (`OK`, empty)
and `*` where the body is data this model does not describe (stats, info, config values). -/
structure Response where
  status : Status
  msg : String
deriving DecidableEq, Repr

/-! ## `url.ParseQuery` -/

def hexVal (c : UInt8) : Option Nat :=
  if 48 ≤ c ∧ c ≤ 57 then some (c.toNat - 48)
  else if 97 ≤ c ∧ c ≤ 102 then some (c.toNat - 87)
  else if 65 ≤ c ∧ c ≤ 70 then some (c.toNat - 55)
  else none

/-- Scanner state of `url.QueryUnescape`: plain text, just after `%`, after `%` and one hex digit. -/
inductive USt
  | normal | pct | pct1 (a : Nat)

/-- `url.QueryUnescape`: `%XX` → byte, `+` → space; a malformed or truncated escape is an error. -/
def unescapeGo : USt → Bytes → Option Bytes
  | .normal, [] => some []
  | .pct, [] => none
  | .pct1 _, [] => none
  | .normal, c :: cs =>
    if c = 37 then unescapeGo .pct cs
    else
      match unescapeGo .normal cs with
      | none => none
      | some u => some ((if c = 43 then 32 else c) :: u)
  | .pct, c :: cs =>
    match hexVal c with
    | some a => unescapeGo (.pct1 a) cs
    | none => none
  | .pct1 a, c :: cs =>
    match hexVal c with
    | some b =>
      (match unescapeGo .normal cs with
       | none => none
       | some u => some ((a * 16 + b).toUInt8 :: u))
    | none => none

def unescape (s : Bytes) : Option Bytes := unescapeGo .normal s

/-- Split at every occurrence of `sep`. -/
def splitOn (sep : UInt8) : Bytes → List Bytes
  | [] => [[]]
  | c :: cs =>
    if c = sep then [] :: splitOn sep cs
    else match splitOn sep cs with
      | [] => [[c]]
      | p :: ps => (c :: p) :: ps

/-- `strings.Cut(s, "=")` -/
def cutEq : Bytes → Bytes × Bytes
  | [] => ([], [])
  | c :: cs => if c = 61 then ([], cs) else ((c :: (cutEq cs).1), (cutEq cs).2)

def parsePairs : List Bytes → Option (List (Bytes × Bytes))
  | [] => some []
  | seg :: segs =>
    if seg.contains 59 then none                    -- invalid semicolon separator
    else if seg.isEmpty then parsePairs segs
    else
      match unescape (cutEq seg).1, unescape (cutEq seg).2, parsePairs segs with
      | some k, some v, some r => some ((k, v) :: r)
      | _, _, _ => none

/-- `url.ParseQuery`: `none` when it returns an error (the handlers answer 400 then). -/
def parseQuery (q : Bytes) : Option (List (Bytes × Bytes)) := parsePairs (splitOn 38 q)

/-- `values[key][0]` -/
def qget (kv : List (Bytes × Bytes)) (key : Bytes) : Option Bytes :=
  (kv.find? (fun p => p.1 == key)).map (·.2)

/-! ## Routes -/

inductive Handler
  | ping | info | pub | mpub | stats
  | createTopic | deleteTopic | emptyTopic | pauseTopic
  | createChannel | deleteChannel | emptyChannel | pauseChannel
  | config | external
deriving DecidableEq, Repr

/-- (method, path, handler); `/config/:opt` is the only parametrised path. Tied to the
`router.Handle`/`HandlerFunc` calls of `newHTTPServer` by `Nsq.Tie.ProtoHttp.routes_model` (the four
`router.Handler(pprof.Handler(..))` registrations are not extracted and not modelled). -/
def routeTable : List (String × String × Handler) := [
  ("GET", "/ping", .ping),
  ("GET", "/info", .info),
  ("POST", "/pub", .pub),
  ("POST", "/mpub", .mpub),
  ("GET", "/stats", .stats),
  ("POST", "/topic/create", .createTopic),
  ("POST", "/topic/delete", .deleteTopic),
  ("POST", "/topic/empty", .emptyTopic),
  ("POST", "/topic/pause", .pauseTopic),
  ("POST", "/topic/unpause", .pauseTopic),
  ("POST", "/channel/create", .createChannel),
  ("POST", "/channel/delete", .deleteChannel),
  ("POST", "/channel/empty", .emptyChannel),
  ("POST", "/channel/pause", .pauseChannel),
  ("POST", "/channel/unpause", .pauseChannel),
  ("GET", "/config/:opt", .config),
  ("PUT", "/config/:opt", .config),
  ("GET", "/debug/pprof/", .external),
  ("GET", "/debug/pprof/cmdline", .external),
  ("GET", "/debug/pprof/symbol", .external),
  ("POST", "/debug/pprof/symbol", .external),
  ("GET", "/debug/pprof/profile", .external),
  ("PUT", "/debug/setblockrate", .external),
  ("POST", "/debug/freememory", .external)]

def configPrefix : Bytes := ascii "/config/"

/-- `:opt` of `/config/:opt`: a non-empty segment without `/`. -/
def configOpt (path : Bytes) : Option Bytes :=
  if configPrefix.isPrefixOf path then
    (if (path.drop configPrefix.length).isEmpty || (path.drop configPrefix.length).contains 47 then none
     else some (path.drop configPrefix.length))
  else none

/-- Does the request path match the route pattern exactly? -/
def pathMatches (pat : String) (path : Bytes) : Bool :=
  if pat = "/config/:opt" then (configOpt path).isSome else ascii pat == path

inductive Routed
  | handler (h : Handler)
  | options                     -- automatic OPTIONS answer of httprouter (200, `Allow` header)
  | methodNotAllowed
  | notFound
deriving DecidableEq, Repr

def route (method path : Bytes) : Routed :=
  match routeTable.find? (fun r => ascii r.1 == method && pathMatches r.2.1 path) with
  | some r => .handler r.2.2
  | none =>
    if routeTable.any (fun r => pathMatches r.2.1 path) then
      (if method = ascii "OPTIONS" then .options else .methodNotAllowed)
    else .notFound

/-! ## Handlers -/

abbrev Out := Response × Broker

def resp (s : Status) (m : String) (b : Broker) : Out := (⟨s, m⟩, b)

def kTopic : Bytes := ascii "topic"
def kChannel : Bytes := ascii "channel"
def kDefer : Bytes := ascii "defer"
def kBinary : Bytes := ascii "binary"

/-- `getTopicFromQuery`: the error, or the topic name (the caller then `GetTopic`s it). -/
def topicFromQuery (q : Bytes) : Except String Bytes :=
  match parseQuery q with
  | none => .error "INVALID_REQUEST"
  | some kv =>
    match qget kv kTopic with
    | none => .error "MISSING_ARG_TOPIC"
    | some t => if isValidName t then .ok t else .error "INVALID_TOPIC"

/-- The `defer` argument of `/pub`: absent → 0; otherwise `ParseInt` and the range check in ms. -/
def deferArg (hc : HConf) (kv : List (Bytes × Bytes)) : Option Int :=
  match qget kv kDefer with
  | none => some 0
  | some d =>
    match parseInt64 d with
    | none => none
    | some di => if di < 0 ∨ di > hc.maxReqTimeoutMs then none else some (di * 1000000)

def doPUB (hc : HConf) (b : Broker) (rq : Request) : Out :=
  if rq.contentLength > hc.maxMsgSize then resp .s413 "MSG_TOO_BIG" b
  else if ((rq.body.take (hc.maxMsgSize + 1).toNat).length : Int) = hc.maxMsgSize + 1 then
    resp .s413 "MSG_TOO_BIG" b
  else if (rq.body.take (hc.maxMsgSize + 1).toNat).isEmpty then resp .s400 "MSG_EMPTY" b
  else
    match topicFromQuery rq.rawQuery with
    | .error e => resp .s400 e b
    | .ok t =>
      match deferArg hc ((parseQuery rq.rawQuery).getD []) with
      | none => resp .s400 "INVALID_DEFER" (getTopic b t)
      | some d =>
        resp .s200 "OK" (publish b t [⟨rq.body.take (hc.maxMsgSize + 1).toNat, d⟩])

/-- `boolParams` lookup with the "unrecognised value means true" rule of `/mpub?binary=`. -/
def binaryMode (kv : List (Bytes × Bytes)) : Bool :=
  match qget kv kBinary with
  | none => false
  | some v => !(v = ascii "false" || v = ascii "0")

/-- The text loop of `doMPUB` over the blocks of the (limited) body. `total` reaches the length of
the data at the block that holds its last byte: the last block, or the one before it when the data
ends with `\n`; when the data fills the limited reader (`over`) that block answers BODY_TOO_BIG
before its own size is looked at. Returns the bodies or the 413 message. -/
def textLoop (maxMsg : Int) (over : Bool) : List Bytes → Except String (List Bytes)
  | [] => .ok []
  | blk :: rest =>
    if over && (rest.isEmpty || rest == [[]]) then .error "BODY_TOO_BIG"
    else if blk.isEmpty then textLoop maxMsg over rest
    else if (blk.length : Int) > maxMsg then .error "MSG_TOO_BIG"
    else
      match textLoop maxMsg over rest with
      | .error e => .error e
      | .ok ms => .ok (blk :: ms)

def mpubText (hc : HConf) (body : Bytes) : Except String (List Bytes) :=
  textLoop hc.maxMsgSize (((body.take (hc.maxBodySize + 1).toNat).length : Int) = hc.maxBodySize + 1)
    (Mpub.splitNl (body.take (hc.maxBodySize + 1).toNat))

/-- `err.(*protocol.FatalClientErr).Code[2:]` -/
def codeTail (c : Code) : String := (c.toString.drop 2).toString

def doMPUB (hc : HConf) (b : Broker) (rq : Request) : Out :=
  if rq.contentLength > hc.maxBodySize then resp .s413 "BODY_TOO_BIG" b
  else
    match topicFromQuery rq.rawQuery with
    | .error e => resp .s400 e b
    | .ok t =>
      if binaryMode ((parseQuery rq.rawQuery).getD []) then
        -- io.LimitReader(req.Body, max-body-size)
        match Mpub.readMPUB hc.maxMsgSize hc.maxBodySize (rq.body.take hc.maxBodySize.toNat) with
        | .err c => resp .s413 (codeTail c) (getTopic b t)
        | .panic => resp .s500 "INTERNAL_ERROR" (getTopic b t)     -- recovered by LogPanicHandler
        | .ok bodies _ => resp .s200 "OK" (publish b t (toMsgs bodies))
      else
        match mpubText hc rq.body with
        | .error e => resp .s413 e (getTopic b t)
        | .ok bodies => resp .s200 "OK" (publish b t (toMsgs bodies))

def doCreateTopic (b : Broker) (rq : Request) : Out :=
  match topicFromQuery rq.rawQuery with
  | .error e => resp .s400 e b
  | .ok t => resp .s200 "" (getTopic b t)

def doEmptyTopic (b : Broker) (rq : Request) : Out :=
  match parseQuery rq.rawQuery with
  | none => resp .s400 "INVALID_REQUEST" b
  | some kv =>
    match qget kv kTopic with
    | none => resp .s400 "MISSING_ARG_TOPIC" b
    | some t =>
      if !isValidName t then resp .s400 "INVALID_TOPIC" b
      else if !hasTopic b t then resp .s404 "TOPIC_NOT_FOUND" b
      else resp .s200 "" (modifyTopic b t (fun x => { x with msgs := [] }))

def doDeleteTopic (b : Broker) (rq : Request) : Out :=
  match parseQuery rq.rawQuery with
  | none => resp .s400 "INVALID_REQUEST" b
  | some kv =>
    match qget kv kTopic with
    | none => resp .s400 "MISSING_ARG_TOPIC" b
    | some t =>
      if !hasTopic b t then resp .s404 "TOPIC_NOT_FOUND" b
      else resp .s200 "" (deleteTopic b t)

def isUnpause (path : Bytes) : Bool := path = ascii "/topic/unpause" || path = ascii "/channel/unpause"

def doPauseTopic (b : Broker) (rq : Request) : Out :=
  match parseQuery rq.rawQuery with
  | none => resp .s400 "INVALID_REQUEST" b
  | some kv =>
    match qget kv kTopic with
    | none => resp .s400 "MISSING_ARG_TOPIC" b
    | some t =>
      if !hasTopic b t then resp .s404 "TOPIC_NOT_FOUND" b
      else resp .s200 "" (modifyTopic b t (fun x => settle { x with paused := !isUnpause rq.path }))

/-- `getExistingTopicFromQuery` + `GetTopicChannelArgs`: the error response or (topic, channel). -/
def topicChannelArgs (b : Broker) (rq : Request) : Except (Status × String) (Bytes × Bytes) :=
  match parseQuery rq.rawQuery with
  | none => .error (.s400, "INVALID_REQUEST")
  | some kv =>
    match qget kv kTopic with
    | none => .error (.s400, "MISSING_ARG_TOPIC")
    | some t =>
      if !isValidName t then .error (.s400, "INVALID_ARG_TOPIC")
      else
        match qget kv kChannel with
        | none => .error (.s400, "MISSING_ARG_CHANNEL")
        | some c =>
          if !isValidName c then .error (.s400, "INVALID_ARG_CHANNEL")
          else if !hasTopic b t then .error (.s404, "TOPIC_NOT_FOUND")
          else .ok (t, c)

def chanExists (b : Broker) (t c : Bytes) : Bool :=
  match findTopic b t with
  | some x => hasChan x c
  | none => false

def doCreateChannel (b : Broker) (rq : Request) : Out :=
  match topicChannelArgs b rq with
  | .error e => resp e.1 e.2 b
  | .ok tc => resp .s200 "" (getChannel b tc.1 tc.2)

def doEmptyChannel (b : Broker) (rq : Request) : Out :=
  match topicChannelArgs b rq with
  | .error e => resp e.1 e.2 b
  | .ok tc =>
    if !chanExists b tc.1 tc.2 then resp .s404 "CHANNEL_NOT_FOUND" b
    else resp .s200 "" (modifyChan b tc.1 tc.2 (fun c => { c with msgs := [] }))

def doDeleteChannel (b : Broker) (rq : Request) : Out :=
  match topicChannelArgs b rq with
  | .error e => resp e.1 e.2 b
  | .ok tc =>
    if !chanExists b tc.1 tc.2 then resp .s404 "CHANNEL_NOT_FOUND" b
    else resp .s200 "" (deleteChannel b tc.1 tc.2)

def doPauseChannel (b : Broker) (rq : Request) : Out :=
  match topicChannelArgs b rq with
  | .error e => resp e.1 e.2 b
  | .ok tc =>
    if !chanExists b tc.1 tc.2 then resp .s404 "CHANNEL_NOT_FOUND" b
    else resp .s200 "" (modifyChan b tc.1 tc.2 (fun c => { c with paused := !isUnpause rq.path }))

def doStats (b : Broker) (rq : Request) : Out :=
  match parseQuery rq.rawQuery with
  | none => resp .s400 "INVALID_REQUEST" b
  | some _ => resp .s200 "*" b

def asciiLower (s : Bytes) : Bytes := s.map (fun c => if 65 ≤ c ∧ c ≤ 90 then c + 32 else c)

/-- `strings.ToLower` as far as a comparison with an ASCII word can tell: ASCII letters, `İ`
(U+0130 = C4 B0 → `i`) and the Kelvin sign (U+212A = E2 84 AA → `k`); every other non-ASCII
sequence stays non-ASCII. -/
def goLower : Bytes → Bytes
  | [] => []
  | 0xC4 :: 0xB0 :: r => 105 :: goLower r
  | 0xE2 :: 0x84 :: 0xAA :: r => 107 :: goLower r
  | c :: r => (if 65 ≤ c ∧ c ≤ 90 then c + 32 else c) :: goLower r

def logLevels : List Bytes := [ascii "debug", ascii "info", ascii "warn", ascii "error", ascii "fatal"]

def doConfig (hc : HConf) (b : Broker) (rq : Request) : Out :=
  match configOpt rq.path with
  | none => resp .notFoundOrRedirect "NOT_FOUND" b
  | some opt =>
    if rq.method = ascii "PUT" then
      (if ((rq.body.take (hc.maxMsgSize + 1).toNat).length : Int) = hc.maxMsgSize + 1
          || (rq.body.take (hc.maxMsgSize + 1).toNat).isEmpty then resp .s413 "INVALID_VALUE" b
       else if opt = ascii "nsqlookupd_tcp_addresses" then resp .external "*" b
       else if opt = ascii "log_level" then
         (if logLevels.contains (goLower (rq.body.take (hc.maxMsgSize + 1).toNat)) then resp .s200 "*" b
          else resp .s400 "INVALID_VALUE" b)
       else resp .s400 "INVALID_OPTION" b)
    else if hc.cfgNames.contains opt then resp .s200 "*" b
    else resp .s400 "INVALID_OPTION" b

def runHandler (hc : HConf) (healthy : Bool) (b : Broker) (rq : Request) : Handler → Out
  | .ping => if healthy then resp .s200 "OK" b else resp .s500 "*" b
  | .info => resp .s200 "*" b
  | .pub => doPUB hc b rq
  | .mpub => doMPUB hc b rq
  | .stats => doStats b rq
  | .createTopic => doCreateTopic b rq
  | .deleteTopic => doDeleteTopic b rq
  | .emptyTopic => doEmptyTopic b rq
  | .pauseTopic => doPauseTopic b rq
  | .createChannel => doCreateChannel b rq
  | .deleteChannel => doDeleteChannel b rq
  | .emptyChannel => doEmptyChannel b rq
  | .pauseChannel => doPauseChannel b rq
  | .config => doConfig hc b rq
  | .external => resp .external "*" b

/-- `httpServer.ServeHTTP`. `healthy` is `nsqd.IsHealthy()` (false only after a backend write
error — the I/O-fault input of `/ping`). -/
def handle (hc : HConf) (healthy : Bool) (b : Broker) (rq : Request) : Out :=
  if hc.tlsRefuse then resp .s403 "TLS_REQUIRED" b
  else
    match route rq.method rq.path with
    | .handler h => runHandler hc healthy b rq h
    | .options => resp .s200 "" b
    | .methodNotAllowed => resp .s405 "METHOD_NOT_ALLOWED" b
    | .notFound => resp .notFoundOrRedirect "NOT_FOUND" b

end Nsq.Model.HttpApi
