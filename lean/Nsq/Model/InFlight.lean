/-
C08 micro-step model of the in-flight bookkeeping of one `Channel`
(nsqd/channel.go + nsqd/in_flight_pqueue.go).

* `*Message` pointers are object ids (`Nat`); the object store maps an id to the mutable
  fields the heap code touches (`pri`, `index`, `clientID`).  A never-pushed object has
  `index = 0`, the Go zero value.
* `inFlightPqueue` is a `List Nat` of object ids; `swap/up/down/push/pop/remove/peekAndShift`
  follow in_flight_pqueue.go statement by statement, *including the index writes*.  Every Go
  slice access is bounds-checked here: an out-of-range access is `none` (= Go panic
  `index out of range`).  Loops carry fuel; running out of fuel is also `none`, so a theorem
  "never `none`" also shows the fuel is sufficient.
* one `Step` = one critical section (the windows between the `verifPoint` hooks).
* `fixed = false` is `removeFromInFlightPQ` as on the unchanged tree (`if msg.index == -1`),
  `fixed = true` is fixes/F7_stale_index.patch (`index` in range and `pq[index] == msg`).
* three more shape parameters are carried in the state (never changed by a step; each chosen per tree by a tie):
  `scanAtomic` (F16), `pushAtomic` (F48: `pushInFlightMessage` inserts into the map AND pushes the heap entry in
  one critical section; the goroutine still passes the hook `chan.*.afterMapPush`, where nothing is left to do),
  `ansLock` (fixes/F27: REQ and TOUCH hold the channel's read lock from before `popInFlightMessage` until they
  return, `Channel.Empty` holds the write lock over its three sections).
* one live `*Message` per message id: `put o` (a NEW message object with id `o`) is disabled while any container
  or any parked operation still refers to `o` (ids are unique, C12; the harness's `free(o)` is the same test).
-/
namespace Nsq.Model.InFlight

structure Obj where
  pri : Int
  index : Int
  client : Int
deriving Repr, DecidableEq, Inhabited

/-- object store + heap array -/
structure HS where
  objs : Nat → Obj
  pq : List Nat

def setIndex (f : Nat → Obj) (o : Nat) (i : Int) : Nat → Obj :=
  fun k => if k = o then { f k with index := i } else f k

def setDeliver (f : Nat → Obj) (o : Nat) (c p : Int) : Nat → Obj :=
  fun k => if k = o then { f k with client := c, pri := p } else f k

/-- a brand-new `*Message` for id `o`: every in-flight field is the Go zero value -/
def freshObj (f : Nat → Obj) (o : Nat) : Nat → Obj :=
  fun k => if k = o then { pri := 0, index := 0, client := 0 } else f k

def setPri (f : Nat → Obj) (o : Nat) (p : Int) : Nat → Obj :=
  fun k => if k = o then { f k with pri := p } else f k

/-- `pq.Swap(i, j)`: `pq[i], pq[j] = pq[j], pq[i]; pq[i].index = i; pq[j].index = j` -/
def swap (s : HS) (i j : Nat) : Option HS :=
  if h : i < s.pq.length ∧ j < s.pq.length then
    let a := s.pq[i]'h.1
    let b := s.pq[j]'h.2
    some { objs := setIndex (setIndex s.objs b i) a j, pq := (s.pq.set i b).set j a }
  else none

def priAt (s : HS) (i : Nat) : Option Int :=
  if h : i < s.pq.length then some (s.objs (s.pq[i]'h)).pri else none

/-- `pq.up(j)` -/
def up : Nat → HS → Nat → Option HS
  | 0, _, _ => none
  | fuel + 1, s, j =>
    if (j - 1) / 2 = j then some s
    else if h : j < s.pq.length ∧ (j - 1) / 2 < s.pq.length then
      if (s.objs (s.pq[j]'h.1)).pri ≥ (s.objs (s.pq[(j - 1) / 2]'h.2)).pri then some s
      else
        match swap s ((j - 1) / 2) j with
        | none => none
        | some s' => up fuel s' ((j - 1) / 2)
    else none

/-- the child `down` compares with: `j1`, or `j1+1` when that is inside and not larger -/
def pickChild (s : HS) (j1 n : Nat) : Option Nat :=
  if h1 : j1 < s.pq.length then
    if j1 + 1 < n then
      if h2 : j1 + 1 < s.pq.length then
        if (s.objs (s.pq[j1]'h1)).pri ≥ (s.objs (s.pq[j1 + 1]'h2)).pri then some (j1 + 1) else some j1
      else none
    else some j1
  else none

/-- `pq.down(i, n)` -/
def down : Nat → HS → Nat → Nat → Option HS
  | 0, _, _, _ => none
  | fuel + 1, s, i, n =>
    if 2 * i + 1 ≥ n then some s
    else
      match pickChild s (2 * i + 1) n with
      | none => none
      | some j =>
        if h : j < s.pq.length ∧ i < s.pq.length then
          if (s.objs (s.pq[j]'h.1)).pri ≥ (s.objs (s.pq[i]'h.2)).pri then some s
          else
            match swap s i j with
            | none => none
            | some s' => down fuel s' j n
        else none

/-- `pq.Push(x)` (capacity growth has no observable effect) -/
def push (s : HS) (x : Nat) : Option HS :=
  up (s.pq.length + 1) { objs := setIndex s.objs x s.pq.length, pq := s.pq ++ [x] } s.pq.length

/-- last part of Pop/Remove: `x := pq[n-1]; x.index = -1; pq = pq[0:n-1]` -/
def dropLast (s : HS) : Option (HS × Nat) :=
  if h : 0 < s.pq.length then
    let x := s.pq[s.pq.length - 1]'(by omega)
    some ({ objs := setIndex s.objs x (-1), pq := s.pq.take (s.pq.length - 1) }, x)
  else none

/-- `pq.Pop()`: `Swap(0, n-1)` panics on an empty heap (`n-1 = -1`) -/
def pop (s : HS) : Option (HS × Nat) :=
  if s.pq.length = 0 then none
  else
    match swap s 0 (s.pq.length - 1) with
    | none => none
    | some s1 =>
      match down (s.pq.length + 1) s1 0 (s.pq.length - 1) with
      | none => none
      | some s2 => dropLast s2

/-- `pq.Remove(i)` for a Go `int` i.  `i < 0` or `i ≥ n`: every path indexes `pq[i]`
(or `pq[n-1]` with `n = 0`) → panic. -/
def remove (s : HS) (i : Int) : Option (HS × Nat) :=
  if i < 0 ∨ (s.pq.length : Int) ≤ i then none
  else if i.toNat = s.pq.length - 1 then dropLast s
  else
    match swap s i.toNat (s.pq.length - 1) with
    | none => none
    | some s1 =>
      match down (s.pq.length + 1) s1 i.toNat (s.pq.length - 1) with
      | none => none
      | some s2 =>
        match up (s.pq.length + 1) s2 i.toNat with
        | none => none
        | some s3 => dropLast s3

/-- `pq.PeekAndShift(max)`: `some (s', some x)` popped x; `some (s, none)` nothing due -/
def peekAndShift (s : HS) (max : Int) : Option (HS × Option Nat) :=
  if h : 0 < s.pq.length then
    if (s.objs (s.pq[0]'h)).pri > max then some (s, none)
    else
      match pop s with
      | none => none
      | some r => some (r.1, some (s.pq[0]'h))
  else some (s, none)

/-- the guard of `removeFromInFlightPQ`: `true` = return without touching the heap -/
def removeSkips (fixed : Bool) (s : HS) (o : Nat) : Bool :=
  if fixed then
    decide ((s.objs o).index < 0) || decide ((s.pq.length : Int) ≤ (s.objs o).index) ||
      (s.pq[(s.objs o).index.toNat]? != some o)
  else decide ((s.objs o).index = -1)

/-- `Channel.removeFromInFlightPQ(msg)` -/
def removeFromPQ (fixed : Bool) (s : HS) (o : Nat) : Option HS :=
  if removeSkips fixed s o then some s
  else
    match remove s (s.objs o).index with
    | none => none
    | some r => some r.1

/-! ### channel level -/

inductive Cont where
  | finAfterPop (o : Nat)
  | reqAfterPop (o : Nat) (delay : Int)
  | reqAfterRemove (o : Nat) (delay : Int)
  | touchAfterPop (o : Nat)
  | touchAfterRemove (o : Nat)
  | touchAfterMapPush (o : Nat)
  | inflightAfterMapPush (o : Nat)
  | scanAfterPQPop (o : Nat)
  | emptyAfterInflightReset
  | emptyAfterInitPQ
  | deferAfterMapPush (o : Nat)
  | dscanAfterPQPop (o : Nat)
  /-- `StartDeferredTimeout` called by `RequeueMessage` (still inside REQ: with `ansLock` the read lock is held) -/
  | reqDeferAfterMapPush (o : Nat)
deriving Repr, DecidableEq

structure St where
  h : HS
  /-- keys of `inFlightMessages` (object id = message id: one live object per message) -/
  map : List Nat
  /-- keys of `deferredMessages` -/
  dmap : List Nat
  /-- `deferredPQ` as a bag of (priority, object); container/heap is trusted (DESIGN 4.6) -/
  dpq : List (Int × Nat)
  /-- objects sitting in the channel's memory queue -/
  queued : List Nat
  conts : List Cont
  /-- model parameter (never changed by a step; chosen from the tie `scan_shape_known`): the timeout scan
  takes the message off the heap AND out of the in-flight map in one critical section
  (fixes/scan_pop_atomic.patch); `false` = the older shape with a separate `popInFlightMessage` -/
  scanAtomic : Bool := false
  /-- model parameter (tie `push_shape_known`): `pushInFlightMessage` inserts into the in-flight map and pushes the
  heap entry in ONE critical section (fix F48); `false` = the older shape with a separate `addToInFlightPQ` -/
  pushAtomic : Bool := false
  /-- model parameter (tie `answers_channel_lock_shape`): REQ / TOUCH hold `c.RLock` while the message is in their
  hands, so `Channel.Empty` (`c.Lock`) and an answer in progress exclude each other (fixes/F27) -/
  ansLock : Bool := false

/-- the object a parked continuation refers to -/
def contObj : Cont → List Nat
  | .finAfterPop o | .reqAfterPop o _ | .reqAfterRemove o _ | .touchAfterPop o | .touchAfterRemove o
  | .touchAfterMapPush o | .inflightAfterMapPush o | .scanAfterPQPop o | .deferAfterMapPush o | .dscanAfterPQPop o
  | .reqDeferAfterMapPush o => [o]
  | .emptyAfterInflightReset | .emptyAfterInitPQ => []

/-- every object some parked operation refers to -/
def contObjs (cs : List Cont) : List Nat := (cs.map contObj).flatten

/-- a REQ / TOUCH in progress (between its first and its last critical section): with `ansLock` it holds `c.RLock` -/
def Cont.isAnswer : Cont → Bool
  | .reqAfterPop _ _ | .reqAfterRemove _ _ | .reqDeferAfterMapPush _
  | .touchAfterPop _ | .touchAfterRemove _ | .touchAfterMapPush _ => true
  | _ => false

/-- `Channel.Empty` in progress: it holds `c.Lock` -/
def emptyRunning (cs : List Cont) : Bool :=
  decide (Cont.emptyAfterInflightReset ∈ cs) || decide (Cont.emptyAfterInitPQ ∈ cs)

inductive Step where
  | finPop (c : Int) (o : Nat)            -- popInFlightMessage in FinishMessage
  | finRemove (o : Nat)                   -- removeFromInFlightPQ in FinishMessage
  | reqPop (c : Int) (o : Nat) (d : Int)
  | reqRemove (o : Nat)
  | reqPut (o : Nat)                      -- put(msg) (d = 0) or pushDeferredMessage (d > 0)
  | touchPop (c : Int) (o : Nat)
  | touchRemove (o : Nat)
  | touchMapPush (o : Nat) (p : Int)     -- p = the new deadline computed from time.Now()
  | touchPQPush (o : Nat)
  | startMapPush (c : Int) (o : Nat) (p : Int)  -- pump took o off the queue; StartInFlightTimeout
  | startPQPush (o : Nat)
  | scanPeek (t : Int)
  | scanPop (o : Nat)
  | emptyResetInflight
  | emptyResetDeferred
  | emptyRest
  | deferMapPush (o : Nat)                -- StartDeferredTimeout from PutMessageDeferred
  | deferPQPush (o : Nat) (p : Int)       -- p = absolute due time computed from time.Now()
  | dscanPeek (t : Int)
  | dscanPop (o : Nat)
  | reload (o : Nat)                      -- a queued message read back from disk: a fresh *Message
  | put (o : Nat)                         -- Channel.PutMessage of a new message object
deriving Repr, DecidableEq

inductive Res where
  | ok (s : St)
  | panic
  | disabled

def dropCont (cs : List Cont) (c : Cont) : List Cont := cs.erase c

/-- smallest-priority entry of the deferred bag (first one among equals) -/
def dmin : List (Int × Nat) → Option (Int × Nat)
  | [] => none
  | x :: xs =>
    match dmin xs with
    | none => some x
    | some y => if x.1 ≤ y.1 then some x else some y

def okH (s : St) (r : Option HS) (f : HS → St) : Res :=
  match r with
  | none => Res.panic
  | some h => Res.ok (f h)

def step (fixed : Bool) (s : St) : Step → Res
  | .finPop c o =>
    if o ∈ s.map ∧ (s.h.objs o).client = c then
      Res.ok { s with map := s.map.erase o, conts := Cont.finAfterPop o :: s.conts }
    else Res.ok s                                   -- E_FIN_FAILED, nothing changed
  | .finRemove o =>
    if Cont.finAfterPop o ∈ s.conts then
      okH s (removeFromPQ fixed s.h o) (fun h => { s with h := h, conts := dropCont s.conts (Cont.finAfterPop o) })
    else Res.disabled
  | .reqPop c o d =>
    if s.ansLock && emptyRunning s.conts then Res.disabled      -- c.RLock() waits for Empty's write lock
    else if o ∈ s.map ∧ (s.h.objs o).client = c then
      Res.ok { s with map := s.map.erase o, conts := Cont.reqAfterPop o d :: s.conts }
    else Res.ok s
  | .reqRemove o =>
    match s.conts.find? (fun k => match k with | Cont.reqAfterPop o' _ => o' = o | _ => false) with
    | some (Cont.reqAfterPop _ d) =>
      okH s (removeFromPQ fixed s.h o) (fun h =>
        { s with h := h, conts := Cont.reqAfterRemove o d :: dropCont s.conts (Cont.reqAfterPop o d) })
    | _ => Res.disabled
  | .reqPut o =>
    match s.conts.find? (fun k => match k with | Cont.reqAfterRemove o' _ => o' = o | _ => false) with
    | some (Cont.reqAfterRemove _ d) =>
      if d = 0 then
        Res.ok { s with queued := o :: s.queued, conts := dropCont s.conts (Cont.reqAfterRemove o d) }
      else if o ∈ s.dmap then
        Res.ok { s with conts := dropCont s.conts (Cont.reqAfterRemove o d) }  -- "ID already deferred"
      else
        Res.ok { s with dmap := o :: s.dmap,
                        conts := Cont.reqDeferAfterMapPush o :: dropCont s.conts (Cont.reqAfterRemove o d) }
    | _ => Res.disabled
  | .touchPop c o =>
    if s.ansLock && emptyRunning s.conts then Res.disabled
    else if o ∈ s.map ∧ (s.h.objs o).client = c then
      Res.ok { s with map := s.map.erase o, conts := Cont.touchAfterPop o :: s.conts }
    else Res.ok s
  | .touchRemove o =>
    if Cont.touchAfterPop o ∈ s.conts then
      okH s (removeFromPQ fixed s.h o) (fun h =>
        { s with h := h, conts := Cont.touchAfterRemove o :: dropCont s.conts (Cont.touchAfterPop o) })
    else Res.disabled
  | .touchMapPush o p =>
    if Cont.touchAfterRemove o ∈ s.conts then
      if o ∈ s.map then        -- "ID already in flight": TouchMessage returns the error (pri already written)
        Res.ok { s with h := { s.h with objs := setPri s.h.objs o p },
                        conts := dropCont s.conts (Cont.touchAfterRemove o) }
      else if s.pushAtomic then    -- F48: map insert and heap push in the same critical section
        okH s (push { s.h with objs := setPri s.h.objs o p } o) (fun h =>
          { s with h := h, map := o :: s.map,
                   conts := Cont.touchAfterMapPush o :: dropCont s.conts (Cont.touchAfterRemove o) })
      else
        Res.ok { s with h := { s.h with objs := setPri s.h.objs o p }, map := o :: s.map,
                        conts := Cont.touchAfterMapPush o :: dropCont s.conts (Cont.touchAfterRemove o) }
    else Res.disabled
  | .touchPQPush o =>
    if Cont.touchAfterMapPush o ∈ s.conts then
      if s.pushAtomic then Res.ok { s with conts := dropCont s.conts (Cont.touchAfterMapPush o) }   -- nothing left to do
      else okH s (push s.h o) (fun h => { s with h := h, conts := dropCont s.conts (Cont.touchAfterMapPush o) })
    else Res.disabled
  | .startMapPush c o p =>
    if o ∈ s.queued then
      if o ∈ s.map then        -- "ID already in flight" (fields are written before the check)
        Res.ok { s with h := { s.h with objs := setDeliver s.h.objs o c p }, queued := s.queued.erase o }
      else if s.pushAtomic then
        okH s (push { s.h with objs := setDeliver s.h.objs o c p } o) (fun h =>
          { s with h := h, queued := s.queued.erase o, map := o :: s.map,
                   conts := Cont.inflightAfterMapPush o :: s.conts })
      else
        Res.ok { s with h := { s.h with objs := setDeliver s.h.objs o c p }, queued := s.queued.erase o,
                        map := o :: s.map, conts := Cont.inflightAfterMapPush o :: s.conts }
    else Res.disabled
  | .startPQPush o =>
    if Cont.inflightAfterMapPush o ∈ s.conts then
      if s.pushAtomic then Res.ok { s with conts := dropCont s.conts (Cont.inflightAfterMapPush o) }
      else okH s (push s.h o) (fun h => { s with h := h, conts := dropCont s.conts (Cont.inflightAfterMapPush o) })
    else Res.disabled
  | .scanPeek t =>
    match peekAndShift s.h t with
    | none => Res.panic
    | some (h, none) => Res.ok { s with h := h }
    | some (h, some o) =>
      if s.scanAtomic then
        -- same critical section: only if the map still holds that very object, else the stale heap
        -- entry is dropped and the scan exits
        if o ∈ s.map then
          Res.ok { s with h := h, map := s.map.erase o, conts := Cont.scanAfterPQPop o :: s.conts }
        else Res.ok { s with h := h }
      else Res.ok { s with h := h, conts := Cont.scanAfterPQPop o :: s.conts }
  | .scanPop o =>
    if Cont.scanAfterPQPop o ∈ s.conts ∧ Cont.emptyAfterInitPQ ∉ s.conts then
      if s.scanAtomic then       -- already out of the map: TimedOutMessage, put(msg)
        Res.ok { s with queued := o :: s.queued, conts := dropCont s.conts (Cont.scanAfterPQPop o) }
      else if o ∈ s.map then     -- popInFlightMessage(msg.clientID, msg.ID) always owns; then put(msg)
        Res.ok { s with map := s.map.erase o, queued := o :: s.queued,
                        conts := dropCont s.conts (Cont.scanAfterPQPop o) }
      else Res.ok { s with conts := dropCont s.conts (Cont.scanAfterPQPop o) }
    else Res.disabled
  | .emptyResetInflight =>
    if Cont.emptyAfterInflightReset ∈ s.conts ∨ Cont.emptyAfterInitPQ ∈ s.conts then Res.disabled  -- c.Lock()
    else if s.ansLock && s.conts.any Cont.isAnswer then Res.disabled   -- c.Lock() waits for the answers' read locks
    else Res.ok { s with h := { s.h with pq := [] }, map := [], conts := Cont.emptyAfterInflightReset :: s.conts }
  | .emptyResetDeferred =>
    if Cont.emptyAfterInflightReset ∈ s.conts then
      Res.ok { s with dmap := [], dpq := [],
                      conts := Cont.emptyAfterInitPQ :: dropCont s.conts Cont.emptyAfterInflightReset }
    else Res.disabled
  | .emptyRest =>
    if Cont.emptyAfterInitPQ ∈ s.conts then
      Res.ok { s with queued := [], conts := dropCont s.conts Cont.emptyAfterInitPQ }
    else Res.disabled
  | .deferMapPush o =>
    if o ∈ s.queued then
      if o ∈ s.dmap then Res.ok { s with queued := s.queued.erase o }
      else Res.ok { s with queued := s.queued.erase o, dmap := o :: s.dmap,
                           conts := Cont.deferAfterMapPush o :: s.conts }
    else Res.disabled
  | .deferPQPush o p =>
    if Cont.deferAfterMapPush o ∈ s.conts then
      Res.ok { s with dpq := (p, o) :: s.dpq, conts := dropCont s.conts (Cont.deferAfterMapPush o) }
    else if Cont.reqDeferAfterMapPush o ∈ s.conts then
      Res.ok { s with dpq := (p, o) :: s.dpq, conts := dropCont s.conts (Cont.reqDeferAfterMapPush o) }
    else Res.disabled
  | .dscanPeek t =>
    match dmin s.dpq with
    | none => Res.ok s
    | some e =>
      if e.1 > t then Res.ok s
      else Res.ok { s with dpq := s.dpq.erase e, conts := Cont.dscanAfterPQPop e.2 :: s.conts }
  | .dscanPop o =>
    if Cont.dscanAfterPQPop o ∈ s.conts then
      if o ∈ s.dmap then
        Res.ok { s with dmap := s.dmap.erase o, queued := o :: s.queued,
                        conts := dropCont s.conts (Cont.dscanAfterPQPop o) }
      else Res.ok { s with conts := dropCont s.conts (Cont.dscanAfterPQPop o) }
    else Res.disabled
  | .reload o =>
    if o ∈ s.queued ∧ o ∉ s.h.pq then Res.ok { s with h := { s.h with objs := freshObj s.h.objs o } }
    else Res.disabled
  | .put o =>
    if o ∈ s.queued ∨ o ∈ s.map ∨ o ∈ s.dmap ∨ o ∈ s.h.pq ∨ o ∈ s.dpq.map (·.2) ∨ o ∈ contObjs s.conts then
      Res.disabled   -- ids are unique (C12): no new message carries an id something still refers to
    else Res.ok { s with h := { s.h with objs := freshObj s.h.objs o }, queued := o :: s.queued }

/-- run a schedule; stops at the first panic or disabled step -/
def run (fixed : Bool) : St → List Step → Res
  | s, [] => Res.ok s
  | s, a :: as =>
    match step fixed s a with
    | Res.ok s' => run fixed s' as
    | Res.panic => Res.panic
    | Res.disabled => Res.disabled

def Res.isPanic : Res → Bool
  | Res.panic => true
  | _ => false

/-- an idle channel whose queue holds the objects `q` (all never pushed: `index = 0`) -/
def initSt (q : List Nat) : St :=
  { h := { objs := fun _ => { pri := 0, index := 0, client := 0 }, pq := [] },
    map := [], dmap := [], dpq := [], queued := q, conts := [] }

/-! ### invariants (decidable twins are evaluated on dumped real states) -/

/-- `IndexOK`: every heap slot holds an object whose `index` field is that slot -/
def IndexOK (h : HS) : Prop :=
  ∀ i (hi : i < h.pq.length), (h.objs (h.pq[i]'hi)).index = (i : Int)

def indexOkB (h : HS) : Bool :=
  (List.range h.pq.length).all (fun i => match h.pq[i]? with
    | some o => (h.objs o).index == (i : Int)
    | none => false)

/-- `MapHeapAgree`: the heap array is a permutation of the in-flight map's values -/
def MapHeapAgree (s : St) : Prop := s.h.pq.Perm s.map

def mapHeapAgreeB (s : St) : Bool := s.h.pq.isPerm s.map

end Nsq.Model.InFlight
