import Nsq.Model.AdminFanout
/-
Program-level model of the state-changing `ClusterInfo` methods (internal/clusterinfo/data.go):
every method is a short straight-line *program* over three operations

  lookupdPost uri qs     `c.nsqlookupdPOST(lookupdHTTPAddrs, uri, qs)`     – POST to every configured nsqlookupd
  lookup l               `c.GetTopicProducers / GetLookupdTopicProducers / GetNSQDProducers([]string{node})`
  producersPost uri qs   `c.producersPOST(producers, uri, qs)`             – POST to every producer found

each followed by an error policy (`aggregate` = the `if err != nil { pe, ok := err.(PartialErr); if !ok
{ return err }; errs = append(errs, pe.Errors()...) }` block; `abort` = `return err`; `ignore` = the error
is not looked at) and possibly guarded by `if len(channelName) > 0`. The programs themselves are
regenerated from the Go source on every run (go2lean kind `ciprog` → `Nsq.Gen.AdminProg`) and proved
equal to `progOf` below (`Nsq.Tie.AdminProg`). Core Lean only (linked into `drv_e7`).

The interpreter keeps the requests *phase by phase in program order* (the POST loops are sequential;
only the GETs of one lookup run concurrently), counts the errors that end up in the returned `ErrList`,
and tracks the producer list between steps.
-/
namespace Nsq.Model.AdminProg
open Nsq.Model.AdminFanout

inductive QS
  | topic          -- "topic=%s"
  | topicChannel   -- "topic=%s&channel=%s"
  | topicNode      -- "topic=%s&node=%s"
deriving DecidableEq, Repr

inductive Lookup
  | topicProducers         -- GetTopicProducers(topic, lookupds, nsqds): nsqlookupds if any is configured, else the nsqds
  | lookupdTopicProducers  -- GetLookupdTopicProducers(topic, lookupds)
  | nsqdProducersOfNode    -- GetNSQDProducers([]string{node})
deriving DecidableEq, Repr

inductive OnErr
  | aggregate   -- non-partial error: return it; partial error: append all its errors to `errs`
  | abort       -- `if err != nil { return err }`
  | ignore      -- the error is dropped
deriving DecidableEq, Repr

inductive Guard
  | always
  | channelGiven   -- inside `if len(channelName) > 0 { … }`
deriving DecidableEq, Repr

inductive Op
  | lookupdPost (uri : String) (qs : QS)
  | lookup (l : Lookup)
  | producersPost (uri : String) (qs : QS)
deriving DecidableEq, Repr

structure Step where
  guard : Guard
  op : Op
  onErr : OnErr
deriving DecidableEq, Repr

inductive Ending
  | errList    -- `if len(errs) > 0 { return ErrList(errs) }; return nil`
  | dropErrs   -- `return nil`
deriving DecidableEq, Repr

structure Prog where
  steps : List Step
  ending : Ending
deriving DecidableEq, Repr

/-- The two POST helpers (`nsqlookupdPOST`, `producersPOST`) as the extractor sees them: a `for … range`
over the addresses with exactly one `POSTV1` per pass, no way out of the loop (`break`, `return`, `goto`),
every error appended, and the `ErrList` returned when there is one; the loop ranges over the *whole* list it was
given, each pass addresses the element of that pass and hands on the `uri` / `qs` it was given. These facts
are the static tie of `opReqs` ("one POST per address of the list"); the dynamic one is the `fan` stream. -/
structure PostLoop where
  perPass : Nat          -- POSTV1 calls per pass
  exits : Nat            -- break / return / goto / continue statements inside the loop
  appendsErr : Bool      -- `if err != nil { errs = append(errs, err) }`
  returnsErrList : Bool  -- `if len(errs) > 0 { return ErrList(errs) }`
  endpoint : String      -- format of the endpoint
  ranges : String        -- what the loop ranges over: "param0" = the whole address list it was given
                         -- (`addrs[:1]`, another variable, an index loop show up as their text)
  target : String        -- first argument of the endpoint format: "elem" = the loop variable,
                         -- "elem.HTTPAddress()" = its address
  passesUriQs : Bool     -- the other two arguments are the `uri` and `qs` parameters, in this order
deriving DecidableEq, Repr

def PostLoop.good (l : PostLoop) : Bool :=
  l.perPass == 1 && l.exits == 0 && l.appendsErr && l.returnsErrList && l.endpoint == "http://%s/%s?%s" &&
  l.ranges == "param0" && (l.target == "elem" || l.target == "elem.HTTPAddress()") && l.passesUriQs

/-! ### Requests -/

inductive Target
  | lookupd | nsqd
deriving DecidableEq, Repr

structure PReq where
  post : Bool
  target : Target
  addr : String
  path : String      -- "/topic/delete"
  qs : String        -- "" = no query string
deriving DecidableEq, Repr

/-- `fmt.Sprintf("http://%s/%s?%s", addr, uri, qs)`: the path of the request. -/
def pathOf (uri : String) : String := "/" ++ uri

def qsOf (a : Action) : QS → String
  | .topic => "topic=" ++ esc a.topic
  | .topicChannel => "topic=" ++ esc a.topic ++ "&channel=" ++ esc a.channel
  | .topicNode => "topic=" ++ esc a.topic ++ "&node=" ++ esc a.node

/-- Does anybody answer a GET / a POST on this address? (Same reading of `World` as `AdminFanout.reqFails`.) -/
def getOk (w : World) (addr : String) : Bool :=
  w.lookupds.any (fun l => l.addr == addr && l.up) || nodeUp w addr

def postOk (w : World) (addr : String) : Bool :=
  w.lookupds.any (fun l => l.addr == addr && l.postUp) || w.nsqds.any (fun n => n.addr == addr && n.postUp)

def fails (w : World) (r : PReq) : Bool :=
  if r.post then !postOk w r.addr else !getOk w r.addr

def failCount (w : World) (rs : List PReq) : Nat := (rs.filter (fails w)).length

/-! ### The lookups -/

structure LookupRes where
  reqs : List PReq
  allFailed : Bool            -- "failed to query any …": a non-partial error
  producers : List String     -- HTTP addresses

def lookupdTopicProducers (w : World) (a : Action) : LookupRes :=
  let reqs := w.lookupds.map (fun l => (⟨false, .lookupd, l.addr, "/lookup", qsOf a .topic⟩ : PReq))
  { reqs := reqs,
    allFailed := failCount w reqs == w.lookupds.length,
    producers := dedup ((w.lookupds.filter (fun l => getOk w l.addr)).flatMap (·.producers)) }

def nsqdTopicProducers (w : World) (a : Action) : LookupRes :=
  let reqs := w.nsqdAddrs.flatMap (fun n =>
    (⟨false, .nsqd, n, "/stats", "format=json&" ++ qsOf a .topic ++ "&include_clients=false"⟩ : PReq) ::
      (if nodeHasTopic w n then [(⟨false, .nsqd, n, "/info", ""⟩ : PReq)] else []))
  { reqs := reqs,
    allFailed := failCount w reqs == w.nsqdAddrs.length,
    producers := (w.nsqdAddrs.filter (nodeHasTopic w)).map (reportOf w) }

def nsqdProducersOfNode (w : World) (a : Action) : LookupRes :=
  let reqs := (⟨false, .nsqd, a.node, "/info", ""⟩ : PReq) ::
    (if nodeUp w a.node then [(⟨false, .nsqd, a.node, "/stats", "format=json&include_clients=false"⟩ : PReq)] else [])
  { reqs := reqs,
    allFailed := failCount w reqs == 1,
    producers := if nodeUp w a.node then [reportOf w a.node] else [] }

def doLookup (w : World) (a : Action) : Lookup → LookupRes
  | .topicProducers => if !w.lookupds.isEmpty then lookupdTopicProducers w a else nsqdTopicProducers w a
  | .lookupdTopicProducers => lookupdTopicProducers w a
  | .nsqdProducersOfNode => nsqdProducersOfNode w a

/-! ### The interpreter -/

structure St where
  phases : List (Op × List PReq) := []   -- program order (latest last)
  errs : Nat := 0                        -- length of `errs`
  producers : List String := []
  aborted : Bool := false                -- a non-partial error was returned
deriving Repr

def guardHolds (a : Action) : Guard → Bool
  | .always => true
  | .channelGiven => a.channel != ""

/-- What one operation sends, whether its error is non-partial, and the producers afterwards. -/
def opReqs (w : World) (a : Action) (producers : List String) : Op → LookupRes
  | .lookupdPost uri qs =>
    { reqs := w.lookupds.map (fun l => (⟨true, .lookupd, l.addr, pathOf uri, qsOf a qs⟩ : PReq)),
      allFailed := false, producers := producers }
  | .producersPost uri qs =>
    { reqs := producers.map (fun p => (⟨true, .nsqd, p, pathOf uri, qsOf a qs⟩ : PReq)),
      allFailed := false, producers := producers }
  | .lookup l => doLookup w a l

def execStep (w : World) (a : Action) (st : St) (s : Step) : St :=
  if st.aborted then st
  else if !guardHolds a s.guard then st
  else
    let r := opReqs w a st.producers s.op
    let n := failCount w r.reqs
    let ph := st.phases ++ [(s.op, r.reqs)]
    if s.onErr == .aggregate then
      (if r.allFailed then { st with phases := ph, aborted := true }
       else { st with phases := ph, errs := st.errs + n, producers := r.producers })
    else if s.onErr == .abort then
      (if r.allFailed || n > 0 then { st with phases := ph, aborted := true }
       else { st with phases := ph, producers := r.producers })
    else { st with phases := ph, producers := if r.allFailed then [] else r.producers }

def runSteps (w : World) (a : Action) : List Step → St → St
  | [], st => st
  | s :: rest, st => runSteps w a rest (execStep w a st s)

def run (w : World) (a : Action) (p : Prog) : St := runSteps w a p.steps {}

def St.reqs (st : St) : List PReq := st.phases.flatMap (·.2)

/-- What the method returns, and the number of errors in the `ErrList`. -/
def resultOf (p : Prog) (st : St) : Err × Nat :=
  if st.aborted then (.full, 0)
  else if p.ending == .errList && st.errs > 0 then (.partialErr, st.errs)
  else (.none, 0)

/-! ### The programs the model was written from (the regenerated ones must equal them) -/

def agg (op : Op) : Step := ⟨.always, op, .aggregate⟩
def aggCh (op : Op) : Step := ⟨.channelGiven, op, .aggregate⟩

def createProg : Prog :=
  ⟨[agg (.lookupdPost "topic/create" .topic),
    aggCh (.lookupdPost "channel/create" .topicChannel),
    aggCh (.lookup .lookupdTopicProducers),
    aggCh (.producersPost "channel/create" .topicChannel)], .errList⟩

def deleteProg (uri : String) (qs : QS) : Prog :=
  ⟨[agg (.lookup .topicProducers), agg (.lookupdPost uri qs), agg (.producersPost uri qs)], .errList⟩

def helperProg (uri : String) (qs : QS) : Prog :=
  ⟨[agg (.lookup .topicProducers), agg (.producersPost uri qs)], .errList⟩

def tombstoneProg : Prog :=
  ⟨[agg (.lookupdPost "topic/tombstone" .topicNode), agg (.lookup .nsqdProducersOfNode),
    agg (.producersPost "topic/delete" .topic)], .errList⟩

def progOf : Kind → Prog
  | .createTopic => createProg
  | .createChannel => createProg
  | .deleteTopic => deleteProg "topic/delete" .topic
  | .deleteChannel => deleteProg "channel/delete" .topicChannel
  | .pauseTopic => helperProg "topic/pause" .topic
  | .unpauseTopic => helperProg "topic/unpause" .topic
  | .emptyTopic => helperProg "topic/empty" .topic
  | .pauseChannel => helperProg "channel/pause" .topicChannel
  | .unpauseChannel => helperProg "channel/unpause" .topicChannel
  | .emptyChannel => helperProg "channel/empty" .topicChannel
  | .tombstone => tombstoneProg

/-- The model of `ClusterInfo.<method>` for an action. -/
def runAction (w : World) (a : Action) : St := run w a (progOf a.kind)

def allAggregate (p : Prog) : Bool :=
  p.steps.all (fun s => s.onErr == .aggregate) && p.ending == .errList

/-! ### Rendering (driver) -/

def renderReq (r : PReq) : String :=
  (if r.post then "P:" else "G:") ++ r.addr ++ r.path ++ (if r.qs == "" then "" else "?" ++ r.qs)

def kindOfString (s : String) : Option Kind :=
  if s == "createTopic" then some .createTopic
  else if s == "createChannel" then some .createChannel
  else if s == "deleteTopic" then some .deleteTopic
  else if s == "deleteChannel" then some .deleteChannel
  else if s == "pauseTopic" then some .pauseTopic
  else if s == "unpauseTopic" then some .unpauseTopic
  else if s == "emptyTopic" then some .emptyTopic
  else if s == "pauseChannel" then some .pauseChannel
  else if s == "unpauseChannel" then some .unpauseChannel
  else if s == "emptyChannel" then some .emptyChannel
  else if s == "tombstone" then some .tombstone
  else none

end Nsq.Model.AdminProg
