import Nsq.Model.Registry
/-
Byte-level model of one nsqlookupd TCP connection (nsqlookupd/tcp.go `Handle`,
lookup_protocol_v1.go `IOLoop`/`Exec`/`IDENTIFY`) and of the HTTP route table (http.go).
Core Lean only.

The client's whole input is a byte list. Panics are explicit outcomes (`End.panic`): the
connection goroutines have no `recover`, a panic kills the process.

External function (trusted, DESIGN §4.6): `encoding/json.Unmarshal` into `PeerInfo` is the
parameter `decode : List UInt8 → Option Info` (`none` = error); every theorem quantifies over
all `decode`.
-/
namespace Nsq.Model.RegistryProto
open Nsq.Model.Registry Nsq.Model.Registry.AMap

/-- `reader.ReadString('\n')`: the line including the newline, and what follows;
`none` when the stream ends before a newline (→ `io.EOF`, the loop exits). -/
def readLine : List UInt8 → Option (List UInt8 × List UInt8)
  | [] => none
  | c :: rest =>
    if c = 10 then some ([c], rest)
    else
      match readLine rest with
      | some lr => some (c :: lr.1, lr.2)
      | none => none

/-- UTF-8 encodings of the code points `unicode.IsSpace` accepts (the ASCII ones first):
U+0009–000D, 0020, 0085, 00A0, 1680, 2000–200A, 2028, 2029, 202F, 205F, 3000. -/
def spaceSeqs : List (List UInt8) :=
  [[9], [10], [11], [12], [13], [32], [0xC2, 0x85], [0xC2, 0xA0], [0xE1, 0x9A, 0x80],
   [0xE2, 0x80, 0x80], [0xE2, 0x80, 0x81], [0xE2, 0x80, 0x82], [0xE2, 0x80, 0x83],
   [0xE2, 0x80, 0x84], [0xE2, 0x80, 0x85], [0xE2, 0x80, 0x86], [0xE2, 0x80, 0x87],
   [0xE2, 0x80, 0x88], [0xE2, 0x80, 0x89], [0xE2, 0x80, 0x8A], [0xE2, 0x80, 0xA8],
   [0xE2, 0x80, 0xA9], [0xE2, 0x80, 0xAF], [0xE2, 0x81, 0x9F], [0xE3, 0x80, 0x80]]

/-- length of the white-space rune the list starts with (0 if it starts with none) -/
def spacePrefixLen (l : List UInt8) : Nat :=
  match spaceSeqs.find? (fun s => s.isPrefixOf l) with
  | some s => s.length
  | none => 0

def trimLeft : Nat → List UInt8 → List UInt8
  | 0, l => l
  | fuel + 1, l => if spacePrefixLen l = 0 then l else trimLeft fuel (l.drop (spacePrefixLen l))

def spaceSuffixLen (l : List UInt8) : Nat :=
  match spaceSeqs.find? (fun s => s.isSuffixOf l) with
  | some s => s.length
  | none => 0

def trimRight : Nat → List UInt8 → List UInt8
  | 0, l => l
  | fuel + 1, l =>
    if spaceSuffixLen l = 0 then l else trimRight fuel (l.take (l.length - spaceSuffixLen l))

/-- `strings.TrimSpace` -/
def trimSpace (l : List UInt8) : List UInt8 := trimRight l.length (trimLeft l.length l)

/-- `strings.Split(line, " ")` (never empty) -/
def splitSp : List UInt8 → List Name
  | [] => [[]]
  | c :: rest =>
    if c = 32 then [] :: splitSp rest
    else
      match splitSp rest with
      | w :: ws => (c :: w) :: ws
      | [] => [[c]]

def cmdPING : Name := [80, 73, 78, 71]
def cmdIDENTIFY : Name := [73, 68, 69, 78, 84, 73, 70, 89]
def cmdREGISTER : Name := [82, 69, 71, 73, 83, 84, 69, 82]
def cmdUNREGISTER : Name := [85, 78, 82, 69, 71, 73, 83, 84, 69, 82]
/-- `"  V1"` -/
def magicV1 : List UInt8 := [32, 32, 86, 49]

/-- big-endian `int32` -/
def be32 (a b c d : UInt8) : Int :=
  if a.toNat ≥ 128 then
    ((a.toNat * 16777216 + b.toNat * 65536 + c.toNat * 256 + d.toNat : Nat) : Int) - 4294967296
  else ((a.toNat * 16777216 + b.toNat * 65536 + c.toNat * 256 + d.toNat : Nat) : Int)

/-- JSON insignificant white space -/
def jsonWS (c : UInt8) : Bool := c = 32 || c = 9 || c = 10 || c = 13

/-- `encoding/json.Unmarshal(body, &peerInfo)` in terms of the one thing that stays abstract: the
parser of the FIRST JSON value, `value body = some (info, used)` (the value occupies the first
`used` bytes) or `none` (syntax / type error). `Unmarshal` is handed exactly the declared
`bodyLen` bytes and rejects anything but white space after the value ("invalid character … after
top-level value"); a streaming decoder would accept the value and leave the rest behind. -/
def unmarshal (value : List UInt8 → Option (Info × Nat)) (body : List UInt8) : Option Info :=
  match value body with
  | some iu => if (body.drop iu.2).all jsonWS then some iu.1 else none
  | none => none

/-- Which shape of `IDENTIFY` is modelled: `sizeCheck = false` is the code before fix F2
(no check between reading the size and `make([]byte, bodyLen)`); `true` is the fixed code
(`bodyLen > maxIdentifyBodySize` and `bodyLen <= 0` are refused with `E_BAD_BODY`). -/
structure Variant where
  sizeCheck : Bool
deriving DecidableEq, Repr

def fixedV : Variant := ⟨true⟩
def unfixedV : Variant := ⟨false⟩

/-- `maxIdentifyBodySize` (1 MiB) -/
def maxIdentifyBody : Int := 1048576

inductive ExecRes
  | reply (r : Registry) (out : TcpOut) (rest : List UInt8)
  | panic (what : String)
deriving Repr

/-- the identify reply is built from listener ports / hostname: canonical placeholder -/
def identifyReply : List UInt8 := ascii "IDENTIFY-RESPONSE"

/-- `IDENTIFY`: `rest` is what follows the command line in the stream. -/
def execIdentify (v : Variant) (decode : List UInt8 → Option Info) (r : Registry) (p : Nat)
    (now : Int) (rest : List UInt8) : ExecRes :=
  if identifiedB r p then
    .reply (disconnect r p) (.err .invalid (ascii "cannot IDENTIFY again")) rest
  else
    match rest with
    | a :: b :: c :: d :: body =>
      if v.sizeCheck && decide (be32 a b c d > maxIdentifyBody) then
        .reply r (.err .badBody (ascii "IDENTIFY body too big " ++ intDec (be32 a b c d) ++ ascii " > "
          ++ intDec maxIdentifyBody)) body
      else if v.sizeCheck && decide (be32 a b c d ≤ 0) then
        .reply r (.err .badBody (ascii "IDENTIFY invalid body size " ++ intDec (be32 a b c d))) body
      else if be32 a b c d < 0 then .panic "makeslice: len out of range"
      else if body.length < (be32 a b c d).toNat then
        .reply r (.err .badBody (ascii "IDENTIFY failed to read body")) []
      else
        match decode (body.take (be32 a b c d).toNat) with
        | none =>
          .reply r (.err .badBody (ascii "IDENTIFY failed to decode JSON body"))
            (body.drop (be32 a b c d).toNat)
        | some info =>
          .reply (identify r p info now).1 (identify r p info now).2 (body.drop (be32 a b c d).toNat)
    | _ => .reply r (.err .badBody (ascii "IDENTIFY failed to read body size")) []

/-- `Exec`: dispatch on `params[0]` -/
def exec (v : Variant) (decode : List UInt8 → Option Info) (r : Registry) (p : Nat) (now : Int)
    (params : List Name) (rest : List UInt8) : ExecRes :=
  match params with
  | [] => .panic "index out of range (params[0])"
  | cmd :: args =>
    if cmd = cmdPING then .reply (ping r p now) .ok rest
    else if cmd = cmdIDENTIFY then execIdentify v decode r p now rest
    else if cmd = cmdREGISTER then .reply (register r p args).1 (register r p args).2 rest
    else if cmd = cmdUNREGISTER then .reply (unregister r p args).1 (unregister r p args).2 rest
    else .reply (disconnect r p) (.err .invalid (ascii "invalid command " ++ cmd)) rest

/-! ### The documented error table (specification of `Exec`) -/

def errCodeOf : TcpOut → Option Code
  | .err c _ => some c
  | _ => none

/-- Which error, if any, one command line gets (`params` = the words of the line, `rest` = the bytes after it):
written from the protocol description, condition by condition — not by running the handlers.
* `E_INVALID`: unknown command word; `IDENTIFY` on an identified connection; `REGISTER`/`UNREGISTER` before
  `IDENTIFY` or without a topic;
* `E_BAD_TOPIC`: `REGISTER`/`UNREGISTER` (identified) whose first argument is not a valid name;
* `E_BAD_CHANNEL`: … whose topic is valid and whose second argument is non-empty and not a valid name;
* `E_BAD_BODY`: first `IDENTIFY` with fewer than 4 size bytes, a size ≤ 0 or > 1 MiB, fewer body bytes than
  declared, an undecodable body, or a document with a missing field;
* nothing (the command succeeds) otherwise. -/
def expectedErr (decode : List UInt8 → Option Info) (r : Registry) (p : Nat) (params : List Name)
    (rest : List UInt8) : Option Code :=
  match params with
  | [] => none
  | cmd :: args =>
    if cmd = cmdPING then none
    else if cmd = cmdIDENTIFY then
      if identifiedB r p then some .invalid
      else
        match rest with
        | a :: b :: c :: d :: body =>
          if be32 a b c d > maxIdentifyBody ∨ be32 a b c d ≤ 0 then some .badBody
          else if body.length < (be32 a b c d).toNat then some .badBody
          else
            match decode (body.take (be32 a b c d).toNat) with
            | none => some .badBody
            | some info => if missingFields info then some .badBody else none
        | _ => some .badBody
    else if cmd = cmdREGISTER ∨ cmd = cmdUNREGISTER then
      if !identifiedB r p then some .invalid
      else
        match args with
        | [] => some .invalid
        | t :: _ =>
          if !validName t then some .badTopic
          else if chanParam args ≠ [] && !validName (chanParam args) then some .badChannel
          else none
    else some .invalid

inductive End
  | eof          -- the client's stream ended (read error): loop exits, cleanup runs
  | fatal        -- a FatalClientErr was answered: loop exits, cleanup runs
  | writeFail    -- writing the answer of a successful command failed (peer gone): loop exits, cleanup runs
  | badMagic     -- E_BAD_PROTOCOL answered, connection closed
  | shortMagic   -- fewer than 4 bytes: closed without answer
  | panic        -- the process dies
deriving DecidableEq, Repr

structure Res where
  reg : Registry
  replies : List (List UInt8)
  fin : End
deriving Repr

def codeName : Code → String
  | .invalid => "E_INVALID"
  | .badTopic => "E_BAD_TOPIC"
  | .badChannel => "E_BAD_CHANNEL"
  | .badBody => "E_BAD_BODY"
  | .badProtocol => "E_BAD_PROTOCOL"

/-- which Go function creates which error (all through `protocol.NewFatalClientErr`);
compared with the regenerated error-site list in `Nsq.Tie.Registry`. -/
def errSites : List (String × Code) :=
  [("Exec", .invalid), ("getTopicChan", .invalid), ("getTopicChan", .badTopic),
   ("getTopicChan", .badChannel), ("REGISTER", .invalid), ("UNREGISTER", .invalid),
   ("IDENTIFY", .invalid), ("IDENTIFY", .badBody), ("IDENTIFY", .badBody), ("IDENTIFY", .badBody),
   ("IDENTIFY", .badBody), ("IDENTIFY", .badBody), ("IDENTIFY", .badBody)]

/-- bytes sent for a handler result: `err.Error()` = code, space, description -/
def replyBytes : TcpOut → List UInt8
  | .ok => ascii "OK"
  | .identified => identifyReply
  | .err c msg => ascii (codeName c) ++ [32] ++ msg

/-- `IOLoop` (fuel = an upper bound on the number of lines; each iteration consumes ≥ 1 byte).
`wf n` = the write of reply number `n` of this connection succeeds (the peer may stop reading
and close at any moment). EVERY way out of the loop — read error, fatal error (whether or not
its answer could be written), failed write of a success answer — runs the clean-up
(`disconnect`); `acc` collects the replies that were delivered. -/
def ioLoop (v : Variant) (decode : List UInt8 → Option Info) (wf : Nat → Bool) (p : Nat) (now : Int) :
    Nat → Registry → List UInt8 → List (List UInt8) → Res
  | 0, r, _, acc => ⟨disconnect r p, acc, .eof⟩
  | fuel + 1, r, inp, acc =>
    match readLine inp with
    | none => ⟨disconnect r p, acc, .eof⟩
    | some lr =>
      match exec v decode r p now (splitSp (trimSpace lr.1)) lr.2 with
      | .panic _ => ⟨r, acc, .panic⟩
      | .reply r' out rest =>
        if out.isErr then
          ⟨disconnect r' p, if wf acc.length then acc ++ [replyBytes out] else acc, .fatal⟩
        else if !wf acc.length then ⟨disconnect r' p, acc, .writeFail⟩
        else ioLoop v decode wf p now fuel r' rest (acc ++ [replyBytes out])

/-- `tcpServer.Handle`: everything one connection `p` does with input `inp`. -/
def handleW (v : Variant) (decode : List UInt8 → Option Info) (wf : Nat → Bool) (r : Registry) (p : Nat)
    (now : Int) (inp : List UInt8) : Res :=
  match inp with
  | a :: b :: c :: d :: rest =>
    if [a, b, c, d] = magicV1 then ioLoop v decode wf p now (rest.length + 1) r rest []
    else ⟨r, [ascii "E_BAD_PROTOCOL"], .badMagic⟩
  | _ => ⟨r, [], .shortMagic⟩

/-- `reader.ReadString('\n')` keeps every byte of the current line in memory until the newline arrives (there is no
maximum line length, lookup_protocol_v1.go:41): the number of bytes buffered before the first command of the
stream can even be refused. `none`-case of `readLine`: all of them. -/
def lineBuffered (inp : List UInt8) : Nat :=
  match readLine inp with
  | some lr => lr.1.length
  | none => inp.length

/-- a peer that reads every answer -/
def handle (v : Variant) (decode : List UInt8 → Option Info) (r : Registry) (p : Nat) (now : Int)
    (inp : List UInt8) : Res := handleW v decode (fun _ => true) r p now inp

/-! ## HTTP route table (http.go `newHTTPServer`) -/

inductive Handler
  | ping | info | debug | lookup | topics | channels | nodes
  | createTopic | deleteTopic | createChannel | deleteChannel | tombstone
  | pprof
deriving DecidableEq, Repr

def Handler.goName : Handler → String
  | .ping => "pingHandler" | .info => "doInfo" | .debug => "doDebug" | .lookup => "doLookup"
  | .topics => "doTopics" | .channels => "doChannels" | .nodes => "doNodes"
  | .createTopic => "doCreateTopic" | .deleteTopic => "doDeleteTopic"
  | .createChannel => "doCreateChannel" | .deleteChannel => "doDeleteChannel"
  | .tombstone => "doTombstoneTopicProducer" | .pprof => "pprof"

def routes : List (String × String × Handler) :=
  [("GET", "/ping", .ping), ("GET", "/info", .info), ("GET", "/debug", .debug),
   ("GET", "/lookup", .lookup), ("GET", "/topics", .topics), ("GET", "/channels", .channels),
   ("GET", "/nodes", .nodes),
   ("POST", "/topic/create", .createTopic), ("POST", "/topic/delete", .deleteTopic),
   ("POST", "/channel/create", .createChannel), ("POST", "/channel/delete", .deleteChannel),
   ("POST", "/topic/tombstone", .tombstone),
   ("GET", "/debug/pprof", .pprof), ("GET", "/debug/pprof/cmdline", .pprof),
   ("GET", "/debug/pprof/symbol", .pprof), ("POST", "/debug/pprof/symbol", .pprof),
   ("GET", "/debug/pprof/profile", .pprof), ("GET", "/debug/pprof/heap", .pprof),
   ("GET", "/debug/pprof/goroutine", .pprof), ("GET", "/debug/pprof/block", .pprof),
   ("GET", "/debug/pprof/threadcreate", .pprof)]

/-! ### httprouter v1.3.0 `ServeHTTP` on this table

Defaults of `httprouter.New()` (`RedirectTrailingSlash`, `RedirectFixedPath`, `HandleOPTIONS` all true) plus
`HandleMethodNotAllowed = true`. A request whose method has a tree (`GET`, `POST` here) and whose path is not a
registered path, but becomes one after `CleanPath` (`//`, `/./`, `/../`), ASCII case folding and adding / removing a
trailing slash, is REDIRECTED (301 for GET, 307 for every other method), not answered 404. -/

/-- ASCII lower-casing (every registered path is lower-case ASCII) -/
def lowerC (c : Char) : Char := if 'A' ≤ c ∧ c ≤ 'Z' then Char.ofNat (c.toNat + 32) else c

/-- `strings.Split(p, "/")` -/
def splitSlash : List Char → List (List Char)
  | [] => [[]]
  | c :: rest =>
    if c = '/' then [] :: splitSlash rest
    else
      match splitSlash rest with
      | w :: ws => (c :: w) :: ws
      | [] => [[c]]

/-- the elements `CleanPath` keeps (`st` = the kept ones so far, last first): empty and `.` elements are dropped,
`..` removes the element before it (if any) -/
def cleanSegs : List (List Char) → List (List Char) → List (List Char)
  | [], st => st.reverse
  | s :: ss, st =>
    if s = [] ∨ s = ['.'] then cleanSegs ss st
    else if s = ['.', '.'] then cleanSegs ss st.tail
    else cleanSegs ss (s :: st)

def joinSlash : List (List Char) → List Char
  | [] => []
  | s :: ss => '/' :: s ++ joinSlash ss

/-- `httprouter.CleanPath` (path.go): rooted, no empty / `.` / inner `..` elements; a trailing slash survives
(also one that comes from a final `.` element) unless the result is `/` -/
def cleanPath (p : List Char) : List Char :=
  if cleanSegs (splitSlash p) [] = [] then ['/']
  else joinSlash (cleanSegs (splitSlash p) []) ++
    (if (decide (p.length > 1) && p.getLast? == some '/') || (splitSlash p).getLast? == some ['.'] then ['/'] else [])

/-- `findCaseInsensitivePath(CleanPath(path), fixTrailingSlash = true)` on the tree of `method`, for ASCII paths:
some registered path of that method equals the cleaned, lower-cased path, with or without one trailing slash.
(httprouter folds case with `strings.EqualFold`, i.e. also the non-ASCII runes U+212A / U+017F; paths with
non-ASCII bytes are outside the class the correspondence ties — named in the manifest.) -/
def fixMatches (tbl : List (String × String × α)) (method : String) (path : String) : Bool :=
  tbl.any (fun e => e.1 = method &&
    ((cleanPath path.toList).map lowerC = e.2.1.toList || (cleanPath path.toList).map lowerC = e.2.1.toList ++ ['/']))

inductive Route
  | found (h : Handler)
  | options              -- OPTIONS on an existing path (or `OPTIONS *`): 200 + Allow, no handler runs
  | methodNotAllowed     -- 405: the path exists for another method
  | notFound             -- 404
  | redirect (code : Nat) -- 301 (GET) / 307 (other methods): RedirectTrailingSlash / RedirectFixedPath
deriving DecidableEq, Repr

/-- httprouter `ServeHTTP` with `HandleMethodNotAllowed = true` on a table of static paths -/
def route (method path : String) : Route :=
  match routes.find? (fun e => e.1 = method && e.2.1 = path) with
  | some e => .found e.2.2
  | none =>
    if routes.any (fun e => e.1 = method) && method ≠ "CONNECT" && path ≠ "/" && fixMatches routes method path then
      .redirect (if method = "GET" then 301 else 307)
    else if method = "OPTIONS" then
      (if path = "*" || routes.any (fun e => e.2.1 = path) then .options else .notFound)
    else if routes.any (fun e => e.2.1 = path) then .methodNotAllowed
    else .notFound

/-- status and effect of one HTTP request on the registry (pprof/ping/info and the four
queries do not touch it). For a pprof row this is the answer of an undisturbed call with good arguments
(`httpOutcomes` is the whole set). -/
def httpStep (c : Conf) (r : Registry) (method path : String) (a : HttpArgs) (now : Int) :
    Registry × Nat :=
  match route method path with
  | .notFound => (r, 404)
  | .methodNotAllowed => (r, 405)
  | .options => (r, 200)
  | .redirect code => (r, code)
  | .found .createTopic => ((createTopic r a).1, (createTopic r a).2.status)
  | .found .deleteTopic => ((deleteTopic r a).1, (deleteTopic r a).2.status)
  | .found .createChannel => ((createChannel r a).1, (createChannel r a).2.status)
  | .found .deleteChannel => ((deleteChannel r a).1, (deleteChannel r a).2.status)
  | .found .tombstone => ((tombstone r a now).1, (tombstone r a now).2.status)
  | .found .lookup =>
    if a.badQuery then (r, 400)
    else
      match a.topic with
      | none => (r, 400)
      | some t =>
        if t = star then (r, if (findRegistrations r.db .topic t []).isEmpty then 404 else 200)
        else (r, if (qLookup c r t now).isNone then 404 else 200)
  | .found .channels =>
    if a.badQuery then (r, 400)
    else
      match a.topic with
      | none => (r, 400)
      | some _ => (r, 200)
  | .found _ => (r, 200)

/-- Statuses the `net/http/pprof` handler (Go 1.23) mounted at a pprof row may answer; which one depends on
arguments the model does not interpret (`seconds`, `debug`, `gc`) and on process-wide state (a CPU profile already
running): `Profile` answers 500 "Could not enable CPU profiling" while another CPU profile is running;
`Handler(name)` answers 400 for a `seconds` argument that is not a positive integer or that comes with `debug`.
(Not listed: 408/500 written after the client of a delta profile has gone away.) -/
def pprofStatuses (path : String) : List Nat :=
  if path = "/debug/pprof/profile" then [200, 500]
  else if path = "/debug/pprof/heap" ∨ path = "/debug/pprof/goroutine" ∨ path = "/debug/pprof/block" ∨
      path = "/debug/pprof/threadcreate" then [200, 400]
  else [200]

/-- every allowed (registry, status) result of one request: a SET for the pprof rows, one element otherwise -/
def httpOutcomes (c : Conf) (r : Registry) (method path : String) (a : HttpArgs) (now : Int) :
    List (Registry × Nat) :=
  match route method path with
  | .found .pprof => (pprofStatuses path).map (fun st => (r, st))
  | _ => [httpStep c r method path a now]

/-! ### What an accepted admin call may touch (specification, `Nsq.Props.C15.admin_call_touches_only`) -/

/-- what `/topic/delete?topic=t` removes: every channel key and the topic key whose `Key` is `t` — or, for
`t = "*"` (the wild card of `FindRegistrations`), of every topic -/
def delTouched (t : Name) (k : Key) : Bool :=
  (k.cat = .channel || (k.cat = .topic && k.sub = [])) && (t = star || k.key = t)

/-- what `/topic/tombstone?topic=t&node=n` may mark: the entry of a producer whose `broadcast_address:http_port`
is `n`, under the topic key of `t` (`t = "*"`: under a topic key) -/
def tombTouched (r : Registry) (t node : Name) (k : Key) (q : Nat) : Bool :=
  k.cat = .topic && k.sub = [] && (t = star || k.key = t) && nodeMatches r q node

/-- body of `GET /ping` (`pingHandler` returns "OK", `http_api.PlainText` writes it as is) -/
def pingBody : List UInt8 := [79, 75]

/-- members of the `GET /info` document (`doInfo`: `struct{ Version string \`json:"version"\` }`) -/
def infoKeys : List String := ["version"]

end Nsq.Model.RegistryProto
