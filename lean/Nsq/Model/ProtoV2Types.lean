import Nsq.Model.Names
/-
Types shared by the TCP protocol model (`ProtoV2`), the MPUB reader (`Mpub`) and the HTTP API
model (`HttpApi`): error codes, the 4-byte length reader and the abstract broker.
Core Lean only.
-/
namespace Nsq.Model.ProtoV2

export Nsq.Model.Names (Bytes)

/-- Every `E_*` code that appears in nsqd/protocol_v2.go and nsqd/tcp.go. -/
inductive Code
  | E_INVALID | E_BAD_BODY | E_BAD_TOPIC | E_BAD_CHANNEL | E_BAD_MESSAGE
  | E_PUB_FAILED | E_MPUB_FAILED | E_DPUB_FAILED | E_FIN_FAILED | E_REQ_FAILED | E_TOUCH_FAILED
  | E_SUB_FAILED | E_IDENTIFY_FAILED | E_AUTH_DISABLED | E_AUTH_FAILED | E_UNAUTHORIZED
  | E_AUTH_FIRST | E_AUTH_ERROR | E_BAD_PROTOCOL
deriving DecidableEq, Repr

def Code.toString : Code → String
  | .E_INVALID => "E_INVALID" | .E_BAD_BODY => "E_BAD_BODY" | .E_BAD_TOPIC => "E_BAD_TOPIC"
  | .E_BAD_CHANNEL => "E_BAD_CHANNEL" | .E_BAD_MESSAGE => "E_BAD_MESSAGE"
  | .E_PUB_FAILED => "E_PUB_FAILED" | .E_MPUB_FAILED => "E_MPUB_FAILED"
  | .E_DPUB_FAILED => "E_DPUB_FAILED" | .E_FIN_FAILED => "E_FIN_FAILED"
  | .E_REQ_FAILED => "E_REQ_FAILED" | .E_TOUCH_FAILED => "E_TOUCH_FAILED"
  | .E_SUB_FAILED => "E_SUB_FAILED" | .E_IDENTIFY_FAILED => "E_IDENTIFY_FAILED"
  | .E_AUTH_DISABLED => "E_AUTH_DISABLED" | .E_AUTH_FAILED => "E_AUTH_FAILED"
  | .E_UNAUTHORIZED => "E_UNAUTHORIZED" | .E_AUTH_FIRST => "E_AUTH_FIRST"
  | .E_AUTH_ERROR => "E_AUTH_ERROR" | .E_BAD_PROTOCOL => "E_BAD_PROTOCOL"

/-- `int32(binary.BigEndian.Uint32(b))` for exactly four bytes. -/
def int32OfBE (b0 b1 b2 b3 : UInt8) : Int :=
  let v : Nat := b0.toNat * 16777216 + b1.toNat * 65536 + b2.toNat * 256 + b3.toNat
  if v ≥ 2147483648 then (v : Int) - 4294967296 else (v : Int)

/-- `readLen`: `io.ReadFull` of 4 bytes (`none` = EOF / unexpected EOF), then the signed value. -/
def readLen : Bytes → Option (Int × Bytes)
  | b0 :: b1 :: b2 :: b3 :: rest => some (int32OfBE b0 b1 b2 b3, rest)
  | _ => none

/-! ## The abstract broker -/

/-- A queued message: body and `deferred` (nanoseconds; 0 = not deferred). Ids and timestamps
are outside the model. -/
structure Msg where
  body : Bytes
  deferNs : Int
deriving DecidableEq, Repr

structure Chan where
  name : Bytes
  paused : Bool
  clients : Nat
  msgs : List Msg        -- memory queue + backend + deferred + in flight, as a bag
deriving DecidableEq, Repr

structure Topic where
  name : Bytes
  paused : Bool
  count : Nat            -- message_count
  msgs : List Msg        -- messages still at the topic (not yet copied to its channels)
  chans : List Chan
deriving DecidableEq, Repr

abbrev Broker := List Topic

open Nsq.Model.Names (isEphemeral)

def findTopic (b : Broker) (n : Bytes) : Option Topic := b.find? (·.name == n)

def hasTopic (b : Broker) (n : Bytes) : Bool := b.any (·.name == n)

def findChan (t : Topic) (n : Bytes) : Option Chan := t.chans.find? (·.name == n)

def hasChan (t : Topic) (n : Bytes) : Bool := t.chans.any (·.name == n)

/-- The quiescent effect of `Topic.messagePump`: an unpaused topic with at least one channel
hands every pending message to every channel. -/
def settle (t : Topic) : Topic :=
  if t.chans.isEmpty || t.paused then t
  else { t with msgs := [], chans := t.chans.map (fun c => { c with msgs := c.msgs ++ t.msgs }) }

def modifyTopic (b : Broker) (n : Bytes) (f : Topic → Topic) : Broker :=
  b.map (fun t => if t.name == n then f t else t)

/-- `NSQD.GetTopic`: create the topic when missing. -/
def getTopic (b : Broker) (n : Bytes) : Broker :=
  if hasTopic b n then b else b ++ [{ name := n, paused := false, count := 0, msgs := [], chans := [] }]

/-- `Topic.PutMessage(s)` on an existing topic (all messages, in order), then the pump. -/
def putMsgs (b : Broker) (n : Bytes) (ms : List Msg) : Broker :=
  modifyTopic b n (fun t => settle { t with msgs := t.msgs ++ ms, count := t.count + ms.length })

/-- `GetTopic(n)` followed by `PutMessage(s)`. -/
def publish (b : Broker) (n : Bytes) (ms : List Msg) : Broker := putMsgs (getTopic b n) n ms

/-- `Topic.GetChannel` on an existing topic: create the channel when missing, then the pump. -/
def getChannel (b : Broker) (tn cn : Bytes) : Broker :=
  modifyTopic b tn (fun t =>
    if hasChan t cn then t
    else settle { t with chans := t.chans ++ [{ name := cn, paused := false, clients := 0, msgs := [] }] })

def modifyChan (b : Broker) (tn cn : Bytes) (f : Chan → Chan) : Broker :=
  modifyTopic b tn (fun t => { t with chans := t.chans.map (fun c => if c.name == cn then f c else c) })

def deleteTopic (b : Broker) (n : Bytes) : Broker := b.filter (fun t => !(t.name == n))

/-- `Topic.DeleteExistingChannel`: remove the channel; an ephemeral topic left without channels
deletes itself. -/
def deleteChannel (b : Broker) (tn cn : Bytes) : Broker :=
  let b1 := modifyTopic b tn (fun t => { t with chans := t.chans.filter (fun c => !(c.name == cn)) })
  match findTopic b1 tn with
  | some t => if t.chans.isEmpty && isEphemeral tn then deleteTopic b1 tn else b1
  | none => b1

/-- `Channel.AddClient` (SUB). -/
def addClient (b : Broker) (tn cn : Bytes) : Broker :=
  modifyChan b tn cn (fun c => { c with clients := c.clients + 1 })

/-- `Channel.RemoveClient` at the end of `IOLoop`: an ephemeral channel that lost its last client
deletes itself. -/
def removeClient (b : Broker) (tn cn : Bytes) : Broker :=
  match findTopic b tn with
  | none => b
  | some t =>
    match findChan t cn with
    | none => b
    | some c =>
      if c.clients ≤ 1 && isEphemeral cn then deleteChannel b tn cn
      else modifyChan b tn cn (fun c => { c with clients := c.clients - 1 })

end Nsq.Model.ProtoV2
