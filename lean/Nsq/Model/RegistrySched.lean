import Nsq.Model.Registry
/-!
Readers as lists of critical sections (audit round 7, B5).

`Nsq.Model.Registry` lists the critical sections of the WRITING handlers (`registerSecs`, …:
`Section = DB → DB`). The reading handlers `GET /lookup` and `GET /nodes` are several critical
sections as well (each `RegistrationDB` method takes the read lock by itself): what they have read
so far is carried next to the registry — a section of a schedule with a reader is a function
`DB × Obs → DB × Obs` (`SectionO`); a writer's section is lifted by `wsec` (it does not touch the
observation), a reader's section does not touch the registry.

`atomic = false`: the sections of the tree before fixes/F37 (`doLookup`: `FindRegistrations` topic,
`FindRegistrations` channels, `FindProducers`; `doNodes`: `FindProducers` client, then per node
`LookupRegistrations` and the tombstone flags); `atomic = true`: with F37 (one `RLock` around the
whole handler). Which of the two the tree has is computed from the regenerated facts
(`Nsq.Tie.Registry.readersAtomic`).

The observation is the RAW result of the reads (keys, `PMap`s); the answer (`qLookup`, `qNodes`) is a
function of it and of the peers table (`lookup_answer_of_obs`, `nodes_answer_of_obs` in
`Nsq.Proofs.RegistrySched`).
-/
namespace Nsq.Model.Registry
open AMap

abbrev SectionO (α : Type) := DB × α → DB × α

/-- a writer's critical section inside a schedule that also carries a reader's observation -/
def wsec {α : Type} (s : Section) : SectionO α := fun x => (s x.1, x.2)

/-- a reader that is ONE critical section: it replaces the observation by `rd db` -/
def rsec {α : Type} (rd : DB → α) : SectionO α := fun x => (x.1, rd x.1)

def runSecsO {α : Type} (x : DB × α) (l : List (SectionO α)) : DB × α := l.foldl (fun d s => s d) x

/-! ## `GET /lookup?topic=t` -/

/-- what `doLookup` has read: does the topic key exist; the channel sub-keys; the `*Producer`s of the topic key -/
structure LookupObs where
  found : Bool
  channels : List Name
  prods : PMap
deriving DecidableEq, Repr

def LookupObs.init : LookupObs := ⟨false, [], []⟩

/-- the three reads of `doLookup` on ONE registry state -/
def lookupDB (db : DB) (t : Name) : LookupObs :=
  if (findRegistrations db .topic t []).isEmpty then ⟨false, [], []⟩
  else ⟨true, (findRegistrations db .channel t star).map (·.sub), producersOf db (topicKey t)⟩

/-- `registration := FindRegistrations("topic", t, "")`; `len(registration) == 0` ⇒ 404 -/
def lookupRead1 (t : Name) : SectionO LookupObs :=
  fun x => (x.1, ⟨!(findRegistrations x.1 .topic t []).isEmpty, [], []⟩)

/-- `channels := FindRegistrations("channel", t, "*").SubKeys()` (not reached after a 404) -/
def lookupRead2 (t : Name) : SectionO LookupObs :=
  fun x => (x.1, if x.2.found then { x.2 with channels := (findRegistrations x.1 .channel t star).map (·.sub) } else x.2)

/-- `producers := FindProducers("topic", t, "")` -/
def lookupRead3 (t : Name) : SectionO LookupObs :=
  fun x => (x.1, if x.2.found then { x.2 with prods := producersOf x.1 (topicKey t) } else x.2)

def lookupSecs (atomic : Bool) (t : Name) : List (SectionO LookupObs) :=
  if atomic then [rsec (fun db => lookupDB db t)]
  else [lookupRead1 t, lookupRead2 t, lookupRead3 t]

/-! ## `GET /nodes` -/

/-- per node: the topics it is registered for and, per topic, the `*Producer` entry found for it -/
structure NodeObs where
  id : Nat
  topics : List Name
  flags : List (Name × Option Tomb)
deriving DecidableEq, Repr

/-- what `doNodes` has read: the producers of the `client` key, then one `NodeObs` per node -/
structure NodesObs where
  clients : PMap
  nodes : List NodeObs
deriving DecidableEq, Repr

def NodesObs.init : NodesObs := ⟨[], []⟩

/-- `LookupRegistrations(id).Filter("topic","*","").Keys()` + the entry of `id` under each of these topics, on ONE state -/
def nodeDB (db : DB) (id : Nat) : NodeObs :=
  ⟨id, topicsOf db id, (topicsOf db id).map (fun t => (t, mget (producersOf db (topicKey t)) id))⟩

/-- all reads of `doNodes` on ONE registry state -/
def nodesDB (db : DB) : NodesObs :=
  ⟨producersOf db clientKey, (producersOf db clientKey).map (fun e => nodeDB db e.1)⟩

/-- `producers := FindProducers("client", "", "")` -/
def nodesRead1 : SectionO NodesObs := fun x => (x.1, ⟨producersOf x.1 clientKey, []⟩)

/-- `topics := LookupRegistrations(id).Filter("topic", "*", "").Keys()` -/
def nodesReadTopics (id : Nat) : SectionO NodesObs :=
  fun x => (x.1, { x.2 with nodes := x.2.nodes ++ [⟨id, topicsOf x.1 id, []⟩] })

/-- the tombstone flags of node `id`: `FindProducers("topic", t, "")` for the topics read before. (In the code one
critical section per topic not yet cached in `topicProducersMap`; they are fused here — every schedule of this
coarser list is a schedule of the code, which is what a `…_false` witness needs.) -/
def nodesReadFlags (id : Nat) : SectionO NodesObs :=
  fun x => (x.1, { x.2 with nodes := x.2.nodes.map (fun n =>
    if n.id = id then { n with flags := n.topics.map (fun t => (t, mget (producersOf x.1 (topicKey t)) id)) } else n) })

/-- the tombstone flag `/nodes` prints for an entry read by `nodeDB` -/
def flagOf (lifetime now : Int) : Option Tomb → Bool
  | some tb => isTombstoned tb lifetime now
  | none => false

/-- the sections of `doNodes` when section 1 returned the nodes `ids` (the loop bounds are data) -/
def nodesSecs (atomic : Bool) (ids : List Nat) : List (SectionO NodesObs) :=
  if atomic then [rsec nodesDB]
  else nodesRead1 :: ids.flatMap (fun id => [nodesReadTopics id, nodesReadFlags id])

end Nsq.Model.Registry
