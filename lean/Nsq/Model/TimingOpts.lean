import Nsq.Model.Timing
/-!
C04, audit item A12: the option pair (--msg-timeout, --max-msg-timeout) as `nsqd.New` validates it, and
what a consumer that keeps the daemon default sees. `fixed` = the tree has fix F40
(`if opts.MsgTimeout > opts.MaxMsgTimeout { …; opts.MsgTimeout = opts.MaxMsgTimeout }` in `New`). Core Lean only (driver op `optcheck`).
-/
namespace Nsq.Model.TimingOpts
open Nsq.Model.Timing

/-- the `MsgTimeout` a daemon started with the pair hands to connections that negotiate nothing:
with fix F40 `New` lowers it to `MaxMsgTimeout` when it is above -/
def effectiveMsgTimeout (fixed : Bool) (msgTimeout maxMsgTimeout : Int) : Int :=
  if fixed && decide (msgTimeout > maxMsgTimeout) then maxMsgTimeout else msgTimeout

/-- one delivery at `dts` to a consumer with the default timeout, then its TOUCH at `now` -/
def deliverThenTouch (msgTimeout maxMsgTimeout dts now : Int) : Chan :=
  (touch (startInFlight {} dts 1 1 msgTimeout).1 now 1 1 msgTimeout maxMsgTimeout).1

/-- answer line of the driver op `optcheck <fixed> <msgTimeout> <maxMsgTimeout>` (the TOUCH is looked at
the delivery instant; `Props.C04Opts.touch_answer_any_time` shows the two flags do not depend on when
the TOUCH arrives) -/
def optcheckAnswer (fixed : Bool) (msgTimeout maxMsgTimeout : Int) : String :=
  let mt := effectiveMsgTimeout fixed msgTimeout maxMsgTimeout
  let c1 := (startInFlight {} 0 1 1 mt).1
  let c2 := deliverThenTouch mt maxMsgTimeout 0 0
  match deadlineOf c1 1, deadlineOf c2 1 with
  | some first, some touched =>
    s!"accepted first={first} touch_le_cap={decide (touched ≤ maxMsgTimeout)} touch_moved_back={decide (touched < first)}"
  | _, _ => "model-error"

end Nsq.Model.TimingOpts
