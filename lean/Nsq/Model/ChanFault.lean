/-
E2 / C13 — storage faults of the CHANNEL's disk backend (round 9, audit B3; open finding `chan-backend-write-fails`).

`Nsq.Model.Chan.enqueue` never fails on a durable channel ("channel backend writes succeed" is a named assumption of
C01/C13). The real `Channel.put` (nsqd/channel.go) falls back to `writeMessageToBackend` when the memory queue is
full, and that write can fail. Its three callers have ALREADY taken the message out of the in-flight / deferred
structures when they call it:
  * `RequeueMessage(…, 0)`: `popInFlightMessage`, `removeFromInFlightPQ`, `requeueCount++`, then `put` — on error the
    REQ is answered `E_REQ_FAILED` and `client.RequeuedMessage()` is skipped (protocol_v2.go);
  * `processInFlightQueue`: pop, `timeoutCount++`, `client.TimedOutMessage()`, then `put` (error ignored);
  * `processDeferredQueue`: pop, then `put` (error ignored).
`stepF` adds these three outcomes to `Chan.step`; they are enabled only where the real `put` reaches the backend
(durable channel, memory queue full). The message leaves `msgs` and NO removal event exists for it.
Core Lean only.
-/
import Nsq.Model.Chan
namespace Nsq.Model.ChanFault
open Nsq.Model.Chan

inductive FOp where
  | ok (op : Op)
  /-- `REQ id 0` by `k` whose `c.put` fails -/
  | putFailReq (k id : Nat)
  /-- the timeout scan's `c.put` fails for `id` -/
  | putFailTimeout (id : Nat)
  /-- the deferred scan's `c.put` fails for `id` -/
  | putFailDefer (id : Nat)
deriving DecidableEq, Repr

/-- `Channel.put` reaches the disk backend: durable channel whose memory queue is full -/
def putHitsBackend (c : Chan) : Bool := !c.ephemeral && decide (c.memCap ≤ c.memLen)

def stepF (conf : Conf) (c : Chan) : FOp → Chan × Out
  | .ok op => step conf c op
  | .putFailReq k id =>
    if !hasC c.clients k || !putHitsBackend c then (c, .reject "not-enabled") else
    match findE c.msgs id with
    | none => (c, .reject "not-enabled")
    | some e =>
      match e.loc with
      | .inflight k' _ _ =>
        if k' ≠ k then (c, .reject "not-enabled") else
        -- popped, requeueCount++, put fails: E_REQ_FAILED (non-fatal), RequeuedMessage() skipped
        ({ c with msgs := removeE c.msgs id, requeueCount := c.requeueCount + 1 }, .err "E_REQ_FAILED" false)
      | _ => (c, .reject "not-enabled")
  | .putFailTimeout id =>
    if !putHitsBackend c then (c, .reject "not-enabled") else
    match findE c.msgs id with
    | none => (c, .reject "not-enabled")
    | some e =>
      match e.loc with
      | .inflight k _ _ =>
        ({ c with msgs := removeE c.msgs id, timeoutCount := c.timeoutCount + 1,
                  clients := updC c.clients k decIn, hist := Ev.timeout id k :: c.hist }, .ids [id])
      | _ => (c, .reject "not-enabled")
  | .putFailDefer id =>
    if !putHitsBackend c then (c, .reject "not-enabled") else
    match findE c.msgs id with
    | none => (c, .reject "not-enabled")
    | some e =>
      match e.loc with
      | .deferred _ => ({ c with msgs := removeE c.msgs id, hist := Ev.deferDue id :: c.hist }, .ids [id])
      | _ => (c, .reject "not-enabled")

def runF (conf : Conf) (c : Chan) : List FOp → Chan
  | [] => c
  | op :: ops => runF conf (stepF conf c op).1 ops

end Nsq.Model.ChanFault
