import Nsq.Model.Str
import Nsq.Model.Line
/-
The start-up checks of apps/nsq_to_file/nsq_to_file.go `main()`: the conditions under which it refuses to
start (`log.Fatal`). Each condition is translated from the source by go2lean (kind `fatalcond`) and proved equal
to the component below (`Nsq.Tie.ToolsToFileFn.main_refusals_eq`). Core Lean only (linked into drv_e8).
-/
namespace Nsq.Model.ToFileMain
open Nsq.Model.Str

structure MainOpts where
  channel        : Str
  connectTimeout : Int     -- ns
  requestTimeout : Int     -- ns
  nNsqd          : Nat     -- number of --nsqd-tcp-address
  nLookupd       : Nat     -- number of --lookupd-http-address
  nTopics        : Nat     -- number of --topic
  pattern        : Str     -- --topic-pattern
  gzipLevel      : Int
deriving DecidableEq, Repr

/-- `main()` refuses to start (one of its `log.Fatal` checks fires) -/
def refuses (o : MainOpts) : Bool :=
  decide (o.channel = []) || decide (o.connectTimeout ≤ 0) || decide (o.requestTimeout ≤ 0)
  || (decide (o.nNsqd = 0) && decide (o.nLookupd = 0)) || (decide (o.nNsqd ≠ 0) && decide (o.nLookupd ≠ 0))
  || (decide (o.gzipLevel < 1) || decide (o.gzipLevel > 9))
  || (decide (o.nTopics = 0) && decide (o.pattern = []))
  || (decide (o.nTopics = 0) && decide (o.nLookupd = 0))

open Nsq.Line in
/-- `main <channel> <connectTimeoutNs> <requestTimeoutNs> <nNsqd> <nLookupd> <nTopics> <pattern> <gzipLevel>` -/
def driverLine (ws : List String) : String :=
  match ws with
  | [ch, ct, rt, nn, nl, nt, pat, gl] =>
    match unhex ch, ct.toInt?, rt.toInt?, nn.toNat?, nl.toNat?, nt.toNat?, unhex pat, gl.toInt? with
    | some ch, some ct, some rt, some nn, some nl, some nt, some pat, some gl =>
      if refuses ⟨ch, ct, rt, nn, nl, nt, pat, gl⟩ then "refused" else "started"
    | _, _, _, _, _, _, _, _ => "bad-op"
  | _ => "bad-op"

end Nsq.Model.ToFileMain
