/-!
The order abstraction of the metadata write protocol (C06): only "snapshot taken" and "snapshot renamed", with
several persists possibly in flight (`shared = true`: as under a read lock) or at most one (`shared = false`: the
nsqd write lock). Used by `Props.C06.shared_lock_breaks_file_order` / `exclusive_lock_keeps_file_order`.
-/
namespace Nsq.Model.Meta

/-- `snap d`: a persist takes its document `d`; `rename i`: the `i`-th persist in flight renames its document. -/
inductive OStep | snap (d : Nat) | rename (i : Nat)

structure OSt where
  taken : List Nat := []
  renamed : List Nat := []
  inflight : List Nat := []

def ostep (shared : Bool) (s : OSt) : OStep → Option OSt
  | .snap d =>
    if !shared && !s.inflight.isEmpty then none          -- exclusive lock: the previous persist must have finished
    else some { s with taken := s.taken ++ [d], inflight := s.inflight ++ [d] }
  | .rename i =>
    match s.inflight[i]? with
    | none => none
    | some d => some { s with renamed := s.renamed ++ [d], inflight := s.inflight.eraseIdx i }

def orun (shared : Bool) (s : OSt) : List OStep → Option OSt
  | [] => some s
  | st :: rest => match ostep shared s st with | none => none | some s' => orun shared s' rest

end Nsq.Model.Meta
