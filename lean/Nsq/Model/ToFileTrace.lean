/-
Syscall-trace checker for nsq_to_file (syscall leg of C19): the trace of the real process (strace)
is reduced to `write f` / `fsync f` on output files and `fin id` markers; `checkTrace` accepts iff
at every FIN no written file is dirty. Soundness (`Nsq.Proofs.ToFileTrace.checkTrace_sound`):
an accepted trace has, for every write before a FIN, an fsync of that file in between.
Core Lean only (linked into drv_e8).
-/
namespace Nsq.Model.ToFileTrace

inductive Sys
  | write (f : Nat)
  | fsync (f : Nat)
  | fin (id : Nat)
deriving DecidableEq, Repr

/-- `dirty` = files written since their last fsync -/
def checkFrom (dirty : List Nat) : List Sys → Bool
  | [] => true
  | .write f :: r => checkFrom (f :: dirty) r
  | .fsync f :: r => checkFrom (dirty.filter (fun g => g ≠ f)) r
  | .fin _ :: r => dirty.isEmpty && checkFrom dirty r

def checkTrace (tr : List Sys) : Bool := checkFrom [] tr

def parseTok (s : String) : Option Sys :=
  match s.splitOn ":" with
  | ["w", n] => n.toNat?.map Sys.write
  | ["s", n] => n.toNat?.map Sys.fsync
  | ["f", n] => n.toNat?.map Sys.fin
  | _ => none

def driverLine (ws : List String) : String :=
  match ws.mapM parseTok with
  | none => "bad-op"
  | some tr => if checkTrace tr then "ok" else "dirty-at-fin"

end Nsq.Model.ToFileTrace
