/-
Syscall-trace checker for nsq_to_file (syscall leg of C19): the trace of the real process (strace)
is reduced to `write f` / `fsync f` on output files and `fin id` markers; `checkTrace` accepts iff
at every FIN no written file is dirty. Soundness (`Nsq.Proofs.ToFileTrace.checkTrace_sound`):
an accepted trace has, for every write before a FIN, an fsync of that file in between.
Core Lean only (linked into drv_e8).
-/
namespace Nsq.Model.ToFileTrace

inductive Sys
  | write (f : Nat)
  | fsync (f : Nat)
  | fin (id : Nat)
deriving DecidableEq, Repr

/-- `dirty` = files written since their last fsync -/
def checkFrom (dirty : List Nat) : List Sys → Bool
  | [] => true
  | .write f :: r => checkFrom (f :: dirty) r
  | .fsync f :: r => checkFrom (dirty.filter (fun g => g ≠ f)) r
  | .fin _ :: r => dirty.isEmpty && checkFrom dirty r

def checkTrace (tr : List Sys) : Bool := checkFrom [] tr

def parseTok (s : String) : Option Sys :=
  match s.splitOn ":" with
  | ["w", n] => n.toNat?.map Sys.write
  | ["s", n] => n.toNat?.map Sys.fsync
  | ["f", n] => n.toNat?.map Sys.fin
  | _ => none

def driverLine (ws : List String) : String :=
  match ws.mapM parseTok with
  | none => "bad-op"
  | some tr => if checkTrace tr then "ok" else "dirty-at-fin"

/-! ### per-message checker (end-to-end leg: FIN commands are written by another goroutine, later) -/

inductive MSys
  | wmsg (f id : Nat)      -- the record of message `id` was written to file `f`
  | fsync (f : Nat)
  | fin (id : Nat)         -- `FIN id` was written to the nsqd socket
deriving DecidableEq, Repr

/-- `dirty` = (file, message) pairs written and not yet fsynced; `clean` = messages with a durable copy -/
def checkMsgFrom (dirty : List (Nat × Nat)) (clean : List Nat) : List MSys → Bool
  | [] => true
  | .wmsg f id :: r => checkMsgFrom ((f, id) :: dirty) clean r
  | .fsync f :: r =>
    checkMsgFrom (dirty.filter (fun p => p.1 ≠ f)) (((dirty.filter (fun p => p.1 = f)).map (·.2)) ++ clean) r
  | .fin id :: r => clean.contains id && checkMsgFrom dirty clean r

def checkMsgTrace (tr : List MSys) : Bool := checkMsgFrom [] [] tr

def parseMTok (s : String) : Option MSys :=
  match s.splitOn ":" with
  | ["m", f, n] => match f.toNat?, n.toNat? with
    | some f, some n => some (MSys.wmsg f n)
    | _, _ => none
  | ["s", n] => n.toNat?.map MSys.fsync
  | ["f", n] => n.toNat?.map MSys.fin
  | _ => none

def driverLineM (ws : List String) : String :=
  match ws.mapM parseMTok with
  | none => "bad-op"
  | some tr => if checkMsgTrace tr then "ok" else "fin-before-fsync"

end Nsq.Model.ToFileTrace
