import Nsq.Model.Names
/-!
# LookupSync — nsqd keeps its nsqlookupds in sync (C16, DESIGN §5)

Modelled code: `nsqd/lookup.go` (`lookupLoop`: ticker / notifyChan / optsNotificationChan branches,
`connectCallback`), `nsqd/lookup_peer.go` (`Command`, `Connect`, `Close`, `readResponseBounded`),
`nsqd/nsqd.go` (`Notify`, `GetTopic` pre-creation of channels), the registration part of
`nsqlookupd/lookup_protocol_v1.go` (`REGISTER`, `UNREGISTER`, removal of a closed connection's
registrations). `lookupLoop` is one goroutine: every step below is one iteration of its `select`
(or one local map operation of nsqd, or one fault of a lookupd). The `Notify` goroutines are unordered:
`bag` is a multiset and `notify` may pick any element. Core Lean only.
-/
namespace Nsq.Model.LookupSync

/-! ## `readResponseBounded` -/

inductive ReadOutcome
  | ok (body : List UInt8)        -- a complete frame
  | err                           -- short read / EOF / timeout / size over the limit (/ negative size, with the fix)
  | panic                         -- `make([]byte, n)` with n < 0: "makeslice: len out of range", nsqd dies
deriving DecidableEq, Repr

/-- big-endian int32 from four bytes -/
def beInt32 (a b c d : UInt8) : Int :=
  let u : Nat := a.toNat * 16777216 + b.toNat * 65536 + c.toNat * 256 + d.toNat
  if u < 2147483648 then (u : Int) else (u : Int) - 4294967296

/-- `readResponseBounded(r, limit)` on the bytes the peer will deliver before it stops sending
(`fix = true`: with `fixes/F3_lookup_peer_negative_size.patch`, a negative size is an error). -/
def readResponse (fix : Bool) (limit : Int) (input : List UInt8) : ReadOutcome :=
  match input with
  | a :: b :: c :: d :: rest =>
    let n := beInt32 a b c d
    if n > limit then .err
    else if n < 0 then (if fix then .err else .panic)
    else if rest.length < n.toNat then .err
    else .ok (rest.take n.toNat)
  | _ => .err

/-! ## Registrations held by one lookupd for one connection of this nsqd -/

/-- `(topic, "")` = the producer is registered for the topic; `(topic, chan)` = for the channel -/
abbrev Key := String × String

def ins (k : Key) (l : List Key) : List Key := if l.contains k then l else k :: l

/-- `REGISTER topic [chan]` (lookup_protocol_v1.go): the channel (if given) and always the topic -/
def register (t c : String) (regs : List Key) : List Key :=
  if c = "" then ins (t, "") regs else ins (t, c) (ins (t, "") regs)

/-- `UNREGISTER topic [chan]`: with a channel only that channel; without, the topic and all its channels -/
def unregister (t c : String) (regs : List Key) : List Key :=
  if c = "" then regs.filter (fun k => k.1 ≠ t) else regs.filter (fun k => k ≠ (t, c))

/-! ## nsqd side -/

/-- an object (a topic when `chan = ""`, else a channel); `gen` distinguishes re-creations of a name -/
structure Ref where
  topic : String
  chan : String
  gen : Nat
deriving DecidableEq, Repr

def Ref.key (r : Ref) : Key := (r.topic, r.chan)

inductive Conn
  | down          -- stateDisconnected: the next Command dials and runs connectCallback
  | up            -- stateConnected and the lookupd side of the connection is alive
  | stale         -- stateConnected but the lookupd closed / restarted: the next Command fails
deriving DecidableEq, Repr

structure Peer where
  addr : Nat
  conn : Conn
  regs : List Key          -- what that lookupd holds for this nsqd's current connection
deriving Repr

structure State where
  objs : List Ref          -- objects currently in `n.topicMap` / `t.channelMap` (exiting ones included until unlinked)
  dead : List Ref          -- objects whose exitFlag is set
  bag : List Ref           -- `Notify` goroutines that have not yet been received by lookupLoop
  peers : List Peer
  nextGen : Nat
deriving Repr

def State.init : State := { objs := [], dead := [], bag := [], peers := [], nextGen := 0 }

def isTopic (r : Ref) : Bool := r.chan == ""

/-- the REGISTER commands of `connectCallback` (tree with fixes/F14_connect_callback_skips_exiting.patch): for every
topic in the map that is not exiting, `REGISTER t c` for each of its channels that is not exiting, or `REGISTER t`
if there is none. `dead` = the objects whose exit flag is set. -/
def callbackCmds (objs dead : List Ref) : List Key :=
  (objs.filter (fun T => isTopic T && !dead.contains T)).flatMap (fun T =>
    let cs := objs.filter (fun r => !isTopic r && r.topic == T.topic && !dead.contains r)
    if cs.isEmpty then [(T.topic, "")] else cs.map (fun r => (T.topic, r.chan)))

def applyRegisters (cmds : List Key) (regs : List Key) : List Key :=
  cmds.foldl (fun acc k => register k.1 k.2 acc) regs

/-- what a lookupd holds after a successful `connectCallback` on a fresh connection -/
def callbackRegs (objs dead : List Ref) : List Key := applyRegisters (callbackCmds objs dead) []

/-- `lookupHasTopic` / `lookupHasChannel` (fixes/F15_lookup_notify_current_state.patch): an object of that *name* is
currently in the maps and not exiting — for a channel, in a topic that is in the map and not exiting. -/
def nameLive (objs dead : List Ref) (t c : String) : Bool :=
  objs.any (fun T => isTopic T && T.topic == t && !dead.contains T) &&
  (c == "" || objs.any (fun r => r.topic == t && r.chan == c && !dead.contains r))

/-- outcome of one `lookupPeer.Command` as decided by the lookupd / the network -/
inductive Outcome
  | ok              -- every round trip of this Command succeeded
  | fail            -- dial refused, accept-then-close, stall (deadline), garbage, bad length prefix, …
deriving DecidableEq, Repr

/-- `lookupPeer.Command(cmd)`: (re)connect + connectCallback when needed, then the command itself.
Any failure closes the connection (`lp.Close()`), and the lookupd drops that connection's registrations. -/
def command (objs dead : List Ref) (apply : List Key → List Key) (p : Peer) (o : Outcome) : Peer :=
  match p.conn, o with
  | .up, .ok => { p with regs := apply p.regs }
  | .down, .ok => { p with conn := .up, regs := apply (callbackRegs objs dead) }
  | _, _ => { p with conn := .down, regs := [] }

def mapOutcomes (f : Peer → Outcome → Peer) : List Peer → List Outcome → List Peer
  | [], _ => []
  | p :: ps, [] => f p .fail :: mapOutcomes f ps []
  | p :: ps, o :: os => f p o :: mapOutcomes f ps os

inductive Step
  | createTopic (t : String)
  | createChan (t c : String)
  | delBegin (r : Ref)               -- exit(true): exitFlag := 1, Notify
  | delUnlink (r : Ref)              -- delete(map, name)
  | notify (r : Ref) (outs : List Outcome)   -- lookupLoop receives one notification; REGISTER/UNREGISTER from the CURRENT state of its name
  | tick (outs : List Outcome)       -- heartbeat: PING to all peers
  | lookupdDrop (addr : Nat)         -- that lookupd closes the connection / restarts (its registry for us is gone)
  | addPeer (addr : Nat) (o : Outcome)   -- reconfigure: new address, `Command(nil)` starts the connection
  | removePeer (addr : Nat)          -- reconfigure: address removed, `lp.Close()`
deriving Repr

def hasKey (objs : List Ref) (t c : String) : Bool := objs.any (fun r => r.topic == t && r.chan == c)

def step (s : State) : Step → Option State
  | .createTopic t =>
    if hasKey s.objs t "" then none
    else some { s with objs := s.objs ++ [⟨t, "", s.nextGen⟩], bag := ⟨t, "", s.nextGen⟩ :: s.bag, nextGen := s.nextGen + 1 }
  | .createChan t c =>
    if c = "" then none
    else if !hasKey s.objs t "" then none
    else if hasKey s.objs t c then none
    else some { s with objs := s.objs ++ [⟨t, c, s.nextGen⟩], bag := ⟨t, c, s.nextGen⟩ :: s.bag, nextGen := s.nextGen + 1 }
  | .delBegin r =>
    if !s.objs.contains r then none
    else if s.dead.contains r then none
    else some { s with dead := r :: s.dead, bag := r :: s.bag }
  | .delUnlink r =>
    if !s.objs.contains r then none
    else if !s.dead.contains r then none
    else if isTopic r && s.objs.any (fun x => !isTopic x && x.topic == r.topic) then none   -- channels are unlinked first
    else some { s with objs := s.objs.erase r }
  | .notify r outs =>
    if !s.bag.contains r then none
    else
      let apply : List Key → List Key :=
        if nameLive s.objs s.dead r.topic r.chan then register r.topic r.chan else unregister r.topic r.chan
      some { s with bag := s.bag.erase r, peers := mapOutcomes (command s.objs s.dead apply) s.peers outs }
  | .tick outs => some { s with peers := mapOutcomes (command s.objs s.dead id) s.peers outs }
  | .lookupdDrop a =>
    some { s with peers := s.peers.map (fun p =>
      if p.addr == a then { p with conn := (if p.conn == .down then .down else .stale), regs := [] } else p) }
  | .addPeer a o =>
    if s.peers.any (fun p => p.addr == a) then none
    else some { s with peers := s.peers ++ [command s.objs s.dead id ⟨a, .down, []⟩ o] }
  | .removePeer a => some { s with peers := s.peers.filter (fun p => p.addr != a) }

def run (s : State) : List Step → Option State
  | [] => some s
  | st :: rest =>
    match step s st with
    | none => none
    | some s' => run s' rest

/-! ## the trees without the two lookup fixes (for the counter-examples only)

`f14 = false`: `connectCallback` registers every object in the maps, exiting or not (tree without
fixes/F14_connect_callback_skips_exiting.patch). `f15 = false`: `lookupLoop` chooses REGISTER / UNREGISTER from the exit
flag of the *notified object* (tree without fixes/F15_lookup_notify_current_state.patch). -/

def stepG (f14 f15 : Bool) (s : State) : Step → Option State
  | .notify r outs =>
    if !s.bag.contains r then none
    else
      let live := if f15 then nameLive s.objs s.dead r.topic r.chan else !s.dead.contains r
      let apply : List Key → List Key := if live then register r.topic r.chan else unregister r.topic r.chan
      some { s with bag := s.bag.erase r,
                    peers := mapOutcomes (command s.objs (if f14 then s.dead else []) apply) s.peers outs }
  | .tick outs => some { s with peers := mapOutcomes (command s.objs (if f14 then s.dead else []) id) s.peers outs }
  | .addPeer a o =>
    if s.peers.any (fun p => p.addr == a) then none
    else some { s with peers := s.peers ++ [command s.objs (if f14 then s.dead else []) id ⟨a, .down, []⟩ o] }
  | st => step s st

def runG (f14 f15 : Bool) (s : State) : List Step → Option State
  | [] => some s
  | st :: rest =>
    match stepG f14 f15 s st with
    | none => none
    | some s' => runG f14 f15 s' rest

/-! ## `GetTopic` pre-creation of channels -/

/-- `protocol.IsValidChannelName` on a Go string written as a Lean `String`. When every character is ASCII,
`Names.ascii s` is exactly the string's bytes; a character ≥ 0x80 is encoded with bytes ≥ 0x80, which are outside the
name class and outside `#ephemeral`, so the name is invalid (`Names.isValidName` on the UTF-8 bytes is `false`). -/
def validName (s : String) : Bool :=
  s.toList.all (fun c => c.toNat < 128) && Names.isValidName (Names.ascii s)

/-- `strings.HasSuffix(name, "#ephemeral")` (character-wise; the suffix is ASCII, so this is the byte-wise test) -/
def ephName (c : String) : Bool := "#ephemeral".toList.isSuffixOf c.toList

/-- one configured lookupd as `GetTopic` sees it. `identified`: `lp.Info.BroadcastAddress` is non-empty, i.e. SOME
IDENTIFY round trip to it has succeeded since the peer was added (the address is cached and survives later
disconnects; `lookupdHTTPAddrs()` skips a peer without it, whatever its HTTP side could answer). `answer`: `some l` =
that lookupd answered `/channels?topic=` with `l`, `none` = the query failed (down, refused, timeout, garbage). -/
structure Lookupd where
  identified : Bool
  answer : Option (List String)
deriving Repr

/-- channels created on a brand-new topic before `t.Start()`. `GetLookupdTopicChannels` returns the union of the
lists that did arrive *together with* an error when only some queries failed; `GetTopic` logs the error and still
uses the list. `#ephemeral` names are skipped. `f35 = true` is the tree with
fixes/F35_precreate_validates_channel_names.patch: a name that is not a valid channel name is skipped (it came from
the network); `f35 = false`: every other name is created verbatim. -/
def precreateG (f35 : Bool) (ls : List Lookupd) : List String :=
  ((((ls.filter (·.identified)).filterMap (·.answer)).flatten).eraseDups).filter
    (fun c => !ephName c && (!f35 || validName c))

/-- the tree with F35 -/
def precreate (ls : List Lookupd) : List String := precreateG true ls

/-- the bytes of the command line nsqd writes for a channel notification (`nsq.Register(topic, channel)` =
`REGISTER topic channel\n`; go-nsq joins the parameters with single blanks and does not check them) -/
def registerLine (t c : String) : List Char :=
  ['R', 'E', 'G', 'I', 'S', 'T', 'E', 'R', ' '] ++ t.toList ++ [' '] ++ c.toList ++ ['\n']

end Nsq.Model.LookupSync
