import Nsq.Model.Line
import Nsq.Model.Split
/-
Model of `main()` of apps/to_nsq/to_nsq.go after flag parsing: three goroutines sharing `balance`,
`stopChan`, the producers and the process.

* ticker goroutine (only when `throttleEnabled` and `time.Tick(interval)` is not nil, i.e. interval > 0):
  `n := atomic.AddInt64(&balance, 1)` (`tickAdd`) and then `if n > rate { atomic.StoreInt64(&balance, rate) }`
  (`tickStore`) — two separate atomic actions; anything may run in between.
* reader goroutine: `load` (`atomic.LoadInt64`, `time.Sleep(interval)` when the value is ≤ 0), `read`
  (`r.ReadBytes(delim)`, trim, skip empty), one `pub i` per producer (`producer.Publish` is synchronous:
  it returns after the destination answered; the map iteration order is an input), `dec`
  (`atomic.AddInt64(&balance, -1)`), and on `io.EOF` `close(stopChan); break`.
  A publish error is `log.Fatal` (exit 1); the only error modelled is publishing on a producer that
  main already stopped (SIGTERM path).
* main goroutine: `select { case <-termChan: case <-stopChan: }`, then `producer.Stop()` for every
  producer (map order = input), then return (exit 0).

The schedule (which goroutine moves next, which producer the map iteration yields) is the input: the
model is an acceptor; events that are not enabled are ignored. Core Lean only (linked into drv_e8).
-/
namespace Nsq.Model.ToNsqLoop
open Nsq.Model.Split

structure Cfg where
  d : UInt8
  n : Nat              -- number of producers (distinct --nsqd-tcp-address values)
  throttle : Bool      -- `*rate >= 1`
  rate : Int
  ticker : Bool        -- `time.Tick(interval) != nil`, i.e. `interval > 0`, i.e. rate ≤ 1e9
deriving DecidableEq, Repr

/-- what `main` computes from `--rate`: `throttleEnabled := *rate >= 1`,
`interval = time.Second / time.Duration(*rate)` (Go integer division, 1 s = 10^9 ns);
`time.Tick(d)` returns nil for `d <= 0` -/
def intervalNs (rate : Int) : Int := if rate ≥ 1 then (1000000000 : Int) / rate else 0

def cfgOf (d : UInt8) (n : Nat) (rate : Int) : Cfg :=
  ⟨d, n, decide (rate ≥ 1), rate, decide (intervalNs rate > 0)⟩

inductive Out
  | pub (i : Nat) (body : Bytes)     -- `producers[i].Publish(topic, body)` returned nil (destination answered OK)
  | stop (i : Nat)                    -- `producers[i].Stop()`
  | exit (code : Nat)
deriving DecidableEq, Repr

inductive Phase
  | idle                                              -- top of `for {`
  | loaded                                            -- balance loaded (and slept); about to call readAndPublish
  | publishing (r : Bytes) (todo : List Nat) (eof : Bool)   -- inside `for _, producer := range producers`
  | toDec (eof : Bool)                                -- readAndPublish returned; `atomic.AddInt64(&balance, -1)` next
  | closed                                            -- `close(stopChan); break`
deriving DecidableEq, Repr

inductive Main
  | waiting                          -- in the select
  | stopping (todo : List Nat)       -- `for _, producer := range producers { producer.Stop() }`
  | exited (code : Nat)
deriving DecidableEq, Repr

/-- reader / main / signal events -/
inductive REv
  | load | read | pub (i : Nat) | dec
  | sigterm | wake | stop (i : Nat)
deriving DecidableEq, Repr

inductive Ev
  | tickAdd | tickStore
  | r (e : REv)
deriving DecidableEq, Repr

structure St where
  unread : Bytes
  bal : Int := 1
  pending : Option Int := none     -- ticker between its Add (value returned) and its Store
  phase : Phase := .idle
  main : Main := .waiting
  stopped : List Nat := []
  termed : Bool := false           -- a signal was taken by main
  trace : List Out := []           -- newest first
  done : List Bytes := []          -- ghost: records published to every producer
  ticks : Nat := 0
  loads : Nat := 0
  sleeps : Nat := 0
  decs : Nat := 0
deriving DecidableEq, Repr

def init (input : Bytes) : St := { unread := input }

/-- the history, oldest event first -/
def St.hist (st : St) : List Out := st.trace.reverse

def St.running (st : St) : Bool := match st.main with | .exited _ => false | _ => true

/-- state of the reader after `readAndPublish` returned `readErr` (`eof` = `readErr == io.EOF`) -/
def afterPublish (c : Cfg) (eof : Bool) : Phase :=
  if c.throttle then .toDec eof else if eof then .closed else .idle

def stepR (c : Cfg) (st : St) : REv → St
  | .load =>
    if c.throttle ∧ st.phase = .idle then
      { st with phase := .loaded, loads := st.loads + 1, sleeps := if st.bal ≤ 0 then st.sleeps + 1 else st.sleeps }
    else st
  | .read =>
    if (c.throttle ∧ st.phase = .loaded) ∨ (c.throttle = false ∧ st.phase = .idle) then
      if (trimFixed c.d (readBytes c.d st.unread).1).length = 0 then
        { st with unread := (readBytes c.d st.unread).2.1, phase := afterPublish c (readBytes c.d st.unread).2.2 }
      else if c.n = 0 then   -- unreachable: main refuses to start without a producer
        { st with unread := (readBytes c.d st.unread).2.1, phase := afterPublish c (readBytes c.d st.unread).2.2,
                  done := st.done ++ [trimFixed c.d (readBytes c.d st.unread).1] }
      else
        { st with unread := (readBytes c.d st.unread).2.1,
                  phase := .publishing (trimFixed c.d (readBytes c.d st.unread).1) (List.range c.n)
                             (readBytes c.d st.unread).2.2 }
    else st
  | .pub i =>
    match st.phase with
    | .publishing r todo eof =>
      if i ∈ todo then
        if i ∈ st.stopped then      -- Publish on a stopped producer: ErrStopped → log.Fatal
          { st with main := .exited 1, trace := Out.exit 1 :: st.trace }
        else if todo.erase i = [] then
          { st with trace := Out.pub i r :: st.trace, phase := afterPublish c eof, done := st.done ++ [r] }
        else
          { st with trace := Out.pub i r :: st.trace, phase := .publishing r (todo.erase i) eof }
      else st
    | _ => st
  | .dec =>
    match st.phase with
    | .toDec eof => { st with bal := st.bal - 1, decs := st.decs + 1, phase := if eof then .closed else .idle }
    | _ => st
  | .sigterm =>
    if st.main = .waiting then
      if c.n = 0 then { st with main := .exited 0, termed := true, trace := Out.exit 0 :: st.trace }
      else { st with main := .stopping (List.range c.n), termed := true }
    else st
  | .wake =>
    if st.main = .waiting ∧ st.phase = .closed then
      if c.n = 0 then { st with main := .exited 0, trace := Out.exit 0 :: st.trace }
      else { st with main := .stopping (List.range c.n) }
    else st
  | .stop i =>
    match st.main with
    | .stopping todo =>
      if i ∈ todo then
        if todo.erase i = [] then
          { st with main := .exited 0, stopped := i :: st.stopped, trace := Out.exit 0 :: Out.stop i :: st.trace }
        else { st with main := .stopping (todo.erase i), stopped := i :: st.stopped, trace := Out.stop i :: st.trace }
      else st
    | _ => st

def step (c : Cfg) (st : St) (e : Ev) : St :=
  if st.running = false then st else
  match e with
  | .tickAdd =>
    if c.throttle ∧ c.ticker ∧ st.pending = none then
      { st with bal := st.bal + 1, pending := some (st.bal + 1), ticks := st.ticks + 1 }
    else st
  | .tickStore =>
    match st.pending with
    | some n => if n > c.rate then { st with bal := c.rate, pending := none } else { st with pending := none }
    | none => st
  | .r e => stepR c st e

def run (c : Cfg) (st : St) : List Ev → St
  | [] => st
  | e :: es => run c (step c st e) es

/-- schedules in which the ticker's Add and Store are not separated by another goroutine -/
inductive MEv
  | tick
  | r (e : REv)
deriving DecidableEq, Repr

def expand : List MEv → List Ev
  | [] => []
  | .tick :: ms => .tickAdd :: .tickStore :: expand ms
  | .r e :: ms => .r e :: expand ms

/-- what producer `i` acknowledged, in order (trace newest first) -/
def acked (i : Nat) : List Out → List Bytes
  | [] => []
  | .pub j b :: tr => if j = i then acked i tr ++ [b] else acked i tr
  | _ :: tr => acked i tr

/-! ### driver: run a schedule, then let every goroutine finish in a fixed fair order -/

/-- the canonical continuation: reader runs to completion (producers in index order), then main -/
def drainSched (c : Cfg) (input : Bytes) : List Ev :=
  let perIter : List Ev := [.r .load, .r .read] ++ (List.range c.n).map (fun i => Ev.r (.pub i)) ++ [.r .dec]
  (List.replicate (input.length + 2) perIter).flatten ++ [.r .wake] ++ (List.range c.n).map (fun i => Ev.r (.stop i))

open Nsq.Line in
def evOf (w : String) : Option (List Ev) :=
  if w = "t" then some [.tickAdd, .tickStore]
  else if w = "ta" then some [.tickAdd] else if w = "ts" then some [.tickStore]
  else if w = "l" then some [.r .load] else if w = "r" then some [.r .read] else if w = "d" then some [.r .dec]
  else if w = "T" then some [.r .sigterm] else if w = "w" then some [.r .wake]
  else if w.startsWith "p" then ((w.drop 1).toString.toNat?).map fun i => [Ev.r (.pub i)]
  else if w.startsWith "s" then ((w.drop 1).toString.toNat?).map fun i => [Ev.r (.stop i)]
  else none

def schedOf (s : String) : Option (List Ev) :=
  if s = "-" then some [] else
  (s.splitOn ",").foldr (fun w acc => match evOf w, acc with
    | some es, some rest => some (es ++ rest) | _, _ => none) (some [])

open Nsq.Line in
/-- `lp <rate> <n> <delimhex> <inputhex> <sched> <drain 0|1>` →
`exit=<code|-> same=<0|1> n=<k> [<records of producer 0>] iters=<loads>` -/
def driverLine (ws : List String) : String :=
  match ws with
  | [rate, n, d, input, sched, drain] =>
    match rate.toInt?, n.toNat?, unhex d, unhex input, schedOf sched with
    | some rate, some n, some [d], some input, some sched =>
      let c := cfgOf d n rate
      let st := run c (init input) (sched ++ (if drain = "1" then drainSched c input else []))
      let code := match st.main with | .exited k => toString k | _ => "-"
      let r0 := acked 0 st.trace
      let same := (List.range n).all fun i => acked i st.trace == r0
      s!"exit={code} same={if same then 1 else 0} n={r0.length} [{",".intercalate (r0.map hex)}] iters={if c.throttle then st.loads else 0}"
    | _, _, _, _, _ => "bad-op"
  | _ => "bad-op"

end Nsq.Model.ToNsqLoop
