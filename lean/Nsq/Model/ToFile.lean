/-
Model of apps/nsq_to_file/file_logger.go: `FileLogger.router` with its helpers `needsRotation`,
`updateFile`, `Write`, `Sync`, `Close`, `exclusiveRename`, on top of a small file-system model
(DESIGN.md §5 C19, appendix A.3). Core Lean only (linked into drv_e8).

File system.  A `File` has the bytes a reader can decode (`data`; for gzip output: the payload of
the *closed* gzip members), the payload handed to a still-open gzip member (`tail`; always empty
for plain files) and the length of the prefix of `data` that an `fsync` made durable.  Directory
operations (exclusive create, link, unlink) are atomic.  Names are structured (`Path`): directory,
file-name template (the `<REV>` placeholder still in it) and revision number; the driver renders
them exactly like `strings.Replace(name, "<REV>", fmt.Sprintf("-%06d", rev), -1)`.

Process stops.  Every system call and every `Finish` is a *primitive* that first consults the
fault schedule `io : Nat → Fault` at the primitive counter `tick`: `.err` = the call fails, the
tool takes its `os.Exit(1)` path (`Status.fatalExit`); `.kill` = SIGKILL arrives before the call
(`Status.killed`).  Theorems quantify over all schedules, so a stop can be at any instant.
System calls on a closed descriptor fail by themselves (`fatalExit`): that is what happens after
`Close()` returned early from the work-dir → output-dir move without clearing `f.out` (the tree before
fix F44, `Cfg.closeClears = false`; with the fix `f.out` is cleared on that path too).

Time is an input: each `msg`/`tick` event carries the reading `now` (ns) and the value of
`f.currentFilename()` at that instant (`fn`); `starved` is the value of `consumer.IsStarved()`.
-/
namespace Nsq.Model.ToFile

abbrev Bytes := List UInt8

structure Path where
  out  : Bool      -- true: output dir (= work dir when no separate --work-dir), false: work dir
  tmpl : String    -- file name, `<REV>` not yet replaced
  rev  : Nat
deriving DecidableEq, Repr

structure File where
  data    : Bytes
  tail    : Bytes
  durable : Nat
deriving DecidableEq, Repr

structure FS where
  get : Path → Option File
  dom : List Path           -- every name that ever existed (superset of the live names)

def FS.set (fs : FS) (p : Path) (f : File) : FS :=
  { get := fun q => if q = p then some f else fs.get q, dom := p :: fs.dom }

def FS.del (fs : FS) (p : Path) : FS :=
  { get := fun q => if q = p then none else fs.get q, dom := fs.dom }

def FS.empty : FS := { get := fun _ => none, dom := [] }

structure Cfg where
  gzip           : Bool
  rotateSize     : Nat     -- 0 = off
  rotateInterval : Int     -- ns, ≤ 0 = off
  workDir        : Bool    -- WorkDir ≠ OutputDir
  skipEmpty      : Bool
  maxInFlight    : Nat     -- cap(output)
  hasRev         : Bool    -- the filename format contains <REV>
  /-- `Close()` clears `f.out` after a successful work-dir → output-dir move (fix F44). `false` = the tree
  before the fix: `Close()` returns early with the closed descriptor still in `f.out`. Determined on every
  run from the real `Close()` (harness probe) and from its regenerated skeleton (`Nsq.Tie.ToolsToFile.close_eq`). -/
  closeClears    : Bool := false
  /-- the router writes body and "\n" with ONE `Write` (fix F46; `false` = two writes: a stop, or another writer's
  O_APPEND write, can land between them). Probed on the real router by the harness (`vfE8ProbeOneWrite`) and read off
  the regenerated skeleton (`Nsq.Tie.ToolsToFile.router_known_shapes`). -/
  oneWrite       : Bool := false
  /-- `updateFile` seals a torn tail (fix F47): when it opens an existing non-empty file in append mode (no O_EXCL)
  whose last byte is not "\n" it first writes "\n". Probed on the real `updateFile` (`vfE8ProbeSealsTail`) and read
  off the regenerated skeleton (`Nsq.Tie.ToolsToFile.updateFile_known_shapes`). -/
  sealsTail      : Bool := false
  /-- follow-up F47b (/repo 73f7348, committed): when `sealTornTail` cannot READ the last byte of the
  existing file (`os.Open` for reading or `ReadAt` fails: a write-only file, drop-box permissions) it logs a warning and
  appends UNSEALED, as before F47. `false` = F47 alone (/repo efaf20c): that read error is returned and
  `updateFile` takes `os.Exit(1)`. Only meaningful with `sealsTail`. Probed on the real `updateFile`
  (`vfE8ProbeSealReadWarns`) and read off the regenerated skeleton (`Nsq.Tie.ToolsToFile.tree_seal_read_warns`: `true`). -/
  sealReadWarns  : Bool := false
deriving DecidableEq, Repr

/-- what `computeFilenameFormat` enforces -/
def Cfg.WF (c : Cfg) : Prop :=
  c.hasRev = true ∨ (c.gzip = false ∧ c.rotateSize = 0 ∧ c.rotateInterval ≤ 0 ∧ c.workDir = false)

/-- `O_EXCL` is used iff gzip or rotate-interval -/
def Cfg.excl (c : Cfg) : Bool := c.gzip || decide (c.rotateInterval > 0)

structure Msg where
  id   : Nat
  body : Bytes
deriving DecidableEq, Repr

def line (m : Msg) : Bytes := m.body ++ [10]

/-- outcome of one primitive. `rdErr` (round 11, F47b) is a fault of the READ side only: every primitive proceeds as with
`ok`, except that when the primitive is the open of an existing non-empty file in append mode under `Cfg.sealsTail` — the
one place where the tool reads (`sealTornTail`: `os.Open(name)`, `ReadAt(last, size-1)`) — the read of the last byte fails.
So "the file is unreadable" consumes no slot of its own: the numbering of the schedule is the one of the committed shape. -/
inductive Fault | ok | err | kill | rdErr
deriving DecidableEq, Repr

inductive Status | running | done | fatalExit | killed | panicked | diverged
deriving DecidableEq, Repr

inductive Ev
  | msg (m : Msg) (now : Int) (fn : String)
  | tick (now : Int) (fn : String)
  | hup
  | term
  | stopped
  /-- environment: another process creates a new file under a name that is free (e.g. a second
  nsq_to_file instance putting a finished file into the shared output dir) -/
  | ext (p : Path) (data : Bytes)
  /-- environment: another writer that has the *existing* plain file `p` open with O_APPEND (a second router of the
  same tool whose `--filename-format` lacks `<TOPIC>`, audit C4) appends `data` with one write(2). Files opened with
  O_EXCL (gzip / rotate-interval) are never shared: no effect there. -/
  | extAppend (p : Path) (data : Bytes)
deriving Repr

/-- an event of the environment (not of the tool) -/
def Ev.isExt : Ev → Bool
  | .ext _ _ => true
  | .extAppend _ _ => true
  | _ => false

structure St where
  fs       : FS
  hasOut   : Bool          -- f.out != nil
  outOpen  : Bool          -- the descriptor behind f.out is still open
  outPath  : Path          -- f.out.Name()
  filename : String
  rev      : Nat
  filesize : Nat
  openTime : Int
  pending  : List Msg      -- output[0..pos), newest first (the FIN loop runs from pos-1 down)
  finished : List Msg      -- FIN log, newest first
  status   : Status
  tick     : Nat

def init (fs : FS) : St :=
  { fs := fs, hasOut := false, outOpen := false, outPath := ⟨true, "", 0⟩, filename := "", rev := 0,
    filesize := 0, openTime := 0, pending := [], finished := [], status := .running, tick := 0 }

/-! ### file operations -/

def fileWrite (gz : Bool) (p : Bytes) (f : File) : File :=
  if gz then { f with tail := f.tail ++ p } else { f with data := f.data ++ f.tail ++ p, tail := [] }

/-- `gzip.Writer.Close`: the member becomes complete (decodable) -/
def fileGzClose (f : File) : File := { f with data := f.data ++ f.tail, tail := [] }

def fileFsync (f : File) : File := { f with durable := max f.durable f.data.length }

/-- everything handed to `write` so far (plain files: `tail = []`) -/
def File.content (f : File) : Bytes := f.data ++ f.tail

/-- the bytes are empty or end in "\n": the next record appended behind them starts a line -/
def nlEndedB (b : Bytes) : Bool := b.isEmpty || b.getLast? == some 10

/-! ### primitives -/

def fatal (st : St) : St := { st with status := .fatalExit }

/-- one primitive: not running → nothing; fault schedule says stop → stop; otherwise `k` -/
def guard (io : Nat → Fault) (st : St) (k : St → St) : St :=
  if st.status ≠ .running then st
  else if io st.tick = .kill then { st with status := .killed }
  else if io st.tick = .err then { st with status := .fatalExit }
  else k { st with tick := st.tick + 1 }

/-- a system call on the descriptor `f.out` (write / fsync); fails on a nil or closed descriptor -/
def onOut (io : Nat → Fault) (st : St) (g : File → File) : St :=
  guard io st fun s =>
    if s.hasOut = false ∨ s.outOpen = false then fatal s
    else match s.fs.get s.outPath with
      | none => fatal s
      | some f => { s with fs := s.fs.set s.outPath (g f) }

def closeFd (io : Nat → Fault) (st : St) : St :=
  guard io st fun s => if s.hasOut = false ∨ s.outOpen = false then fatal s else { s with outOpen := false }

/-- `f.out = nil` -/
def clearOut (st : St) : St := if st.status ≠ .running then st else { st with hasOut := false }

/-- `exclusiveRename(src, dst)` once the caller knows `dst` is free: link, then remove -/
def renameP (io : Nat → Fault) (st : St) (src dst : Path) : St :=
  let st1 := guard io st fun s =>
    match s.fs.get src with
    | none => fatal s
    | some f => { s with fs := s.fs.set dst f }
  guard io st1 fun s => { s with fs := s.fs.del src }

/-! ### revision search -/

def mkPath (c : Cfg) (out : Bool) (tmpl : String) (r : Nat) : Path :=
  ⟨out, tmpl, if c.hasRev then r else 0⟩

def maxRev : List Path → Nat
  | [] => 0
  | p :: ps => max p.rev (maxRev ps)

def fuel (fs : FS) : Nat := maxRev fs.dom + 2

/-- `for ; ; rev++ { if taken rev { continue }; break }` -/
def search (taken : Nat → Bool) : Nat → Nat → Option Nat
  | 0, _ => none
  | n + 1, r => if taken r then search taken n (r + 1) else some r

/-- the `continue` conditions of the loop in `updateFile` for revision `r` -/
def taken (c : Cfg) (fs : FS) (tmpl : String) (r : Nat) : Bool :=
  (c.workDir && (fs.get (mkPath c true tmpl r)).isSome) ||
  (match fs.get (mkPath c (!c.workDir) tmpl r) with
   | none => false
   | some f => c.excl || (decide (c.rotateSize > 0) && decide (f.data.length > c.rotateSize)))

/-- the `continue` condition of the revision-bump loop in `Close` -/
def takenDst (c : Cfg) (fs : FS) (tmpl : String) (r : Nat) : Bool :=
  (fs.get (mkPath c true tmpl r)).isSome

/-! ### the helpers of the router -/

def needsRotation (c : Cfg) (st : St) (now : Int) (fn : String) : Bool :=
  if st.hasOut = false then true
  else if fn ≠ st.filename then true
  else if c.rotateInterval > 0 ∧ now - st.openTime > c.rotateInterval then true
  else if c.rotateSize > 0 ∧ st.filesize > c.rotateSize then true
  else false

/-- `Sync()`: gzip member close, then fsync -/
def syncOut (c : Cfg) (io : Nat → Fault) (st : St) : St :=
  let st1 := if c.gzip then onOut io st fileGzClose else st
  onOut io st1 fileFsync

/-- the FIN loop: `for pos > 0 { pos--; output[pos].Finish() }` -/
def finList (io : Nat → Fault) (st : St) : List Msg → St
  | [] => st
  | m :: rest => finList io (guard io st fun s => { s with finished := m :: s.finished, pending := rest }) rest

/-- `if sync || IsStarved() { if pos > 0 { Sync(); FIN all } }` -/
def syncBlock (c : Cfg) (io : Nat → Fault) (st : St) : St :=
  if st.pending = [] then st
  else
    let st1 := syncOut c io st
    finList io st1 st1.pending

/-- the move from the work dir to the output dir at the end of `Close()` -/
def moveOut (c : Cfg) (io : Nat → Fault) (st : St) : St :=
  let src := st.outPath
  let dst : Path := { src with out := true }
  if (st.fs.get dst).isNone then
    -- `if err == nil { [f.out = nil;] return }`: before fix F44 the descriptor stays in `f.out`
    if c.closeClears then clearOut (renameP io st src dst) else renameP io st src dst
  else
    match search (takenDst c st.fs st.filename) (fuel st.fs) (st.rev + 1) with
    | none => { st with status := .diverged }
    | some i => clearOut (renameP io st src (mkPath c true st.filename i))

/-- `Close()` -/
def closeOut (c : Cfg) (io : Nat → Fault) (st : St) : St :=
  if st.hasOut = false then st
  else
    let st3 := closeFd io (syncOut c io st)     -- gzip member close, fsync, close
    if st3.status ≠ .running then st3
    else if c.workDir = false then clearOut st3
    else moveOut c io st3

/-- fix F47: an existing file `f` just opened for appending (no O_EXCL) whose last byte is not "\n" (a writer died
inside a record) is sealed with "\n" first. The read of the last byte is part of the open primitive; `rd` is that
primitive's slot of the fault schedule: `rd = .rdErr` = the file cannot be read (only asked when the tool reads at all: F47
present, append mode, file not empty). Committed F47: the error is returned, `updateFile` exits (fatal, before anything is
written or FINished). F47b (`Cfg.sealReadWarns`): warning, the file is appended to unsealed. A failure of the WRITE of the
"\n" is fatal in both shapes (`onOut`). -/
def sealTail (c : Cfg) (io : Nat → Fault) (rd : Fault) (s1 : St) (f : File) : St :=
  if c.sealsTail && !c.excl && !f.content.isEmpty && rd == .rdErr then
    if c.sealReadWarns then s1 else fatal s1
  else if c.sealsTail && !c.excl && !nlEndedB f.content then
    let s2 := onOut io s1 (fileWrite c.gzip [10])
    if s2.status ≠ .running then s2 else { s2 with filesize := s2.filesize + 1 }
  else s1

/-- the loop of `updateFile` that finds a free revision and opens the file -/
def openNew (c : Cfg) (io : Nat → Fault) (st : St) (fn : String) : St :=
  guard io st fun s =>
    match search (taken c s.fs fn) (fuel s.fs) s.rev with
    | none => { s with status := .diverged }
    | some r =>
      match s.fs.get (mkPath c (!c.workDir) fn r) with
      | none => { s with fs := s.fs.set (mkPath c (!c.workDir) fn r) ⟨[], [], 0⟩, hasOut := true, outOpen := true,
                         outPath := mkPath c (!c.workDir) fn r, rev := r, filesize := 0 }
      | some f =>
        sealTail c io (io st.tick)
          { s with hasOut := true, outOpen := true, outPath := mkPath c (!c.workDir) fn r, rev := r,
                   filesize := f.data.length }
          f

/-- `updateFile()` -/
def updateFile (c : Cfg) (io : Nat → Fault) (st : St) (now : Int) (fn : String) : St :=
  let st1 := closeOut c io st
  let st2 := { st1 with rev := if fn ≠ st1.filename then 0 else st1.rev + 1, filename := fn, openTime := now }
  openNew c io st2 fn

/-- the record of one message: body and "\n" as two writes (a stop can land between them), or — fix F46 — one -/
def writeLine (c : Cfg) (io : Nat → Fault) (st : St) (m : Msg) : St :=
  if c.oneWrite then onOut io st (fileWrite c.gzip (m.body ++ [10]))
  else onOut io (onOut io st (fileWrite c.gzip m.body)) (fileWrite c.gzip [10])

/-- the `case m := <-f.logChan` body after rotation: the record, then `output[pos] = m; pos++` -/
def writeMsg (c : Cfg) (io : Nat → Fault) (st : St) (m : Msg) : St :=
  let st2 := writeLine c io st m
  if st2.status ≠ .running then st2
  else if st2.pending.length ≥ c.maxInFlight then { st2 with status := .panicked }
  else { st2 with filesize := st2.filesize + (m.body.length + 1), pending := m :: st2.pending }

def finishRun (st : St) : St := if st.status ≠ .running then st else { st with status := .done }

/-- one iteration of the `for { select { … } … }` loop of `router()` -/
def step (c : Cfg) (io : Nat → Fault) (st : St) (ev : Ev) (starved : Bool) : St :=
  if st.status ≠ .running then st
  else match ev with
  | .msg m now fn =>
    let rot := needsRotation c st now fn
    let st1 := if rot then updateFile c io st now fn else st
    let st2 := writeMsg c io st1 m
    if rot || decide (st2.pending.length = c.maxInFlight) || starved then syncBlock c io st2 else st2
  | .tick now fn =>
    let rot := needsRotation c st now fn
    let st1 := if rot && !c.skipEmpty then updateFile c io st now fn else st
    let st2 := syncBlock c io st1
    if rot && c.skipEmpty then closeOut c io st2 else st2
  | .hup => closeOut c io (syncBlock c io st)
  | .term => syncBlock c io st
  | .stopped => finishRun (closeOut c io (syncBlock c io st))
  | .ext p data => if (st.fs.get p).isSome then st else { st with fs := st.fs.set p ⟨data, [], data.length⟩ }
  | .extAppend p data =>
    match st.fs.get p with
    | none => st
    | some f => if c.excl then st else { st with fs := st.fs.set p (fileWrite false data f) }

def run (c : Cfg) (io : Nat → Fault) (st : St) : List (Ev × Bool) → St
  | [] => st
  | e :: es => run c io (step c io st e.1 e.2) es

/-! ### the tool as shipped: go-nsq's consumer in front of the router -/

/-- go-nsq `Consumer.shouldFailMessage`: `config.MaxAttempts > 0 && message.Attempts > config.MaxAttempts`
— then `handlerLoop` calls `message.Finish()` itself and the handler never sees the message
(main() uses `nsq.NewConfig()`: max_attempts = 5 unless `--consumer-opt max_attempts,N`) -/
def shouldFail (maxAttempts attempts : Nat) : Bool := decide (maxAttempts > 0) && decide (attempts > maxAttempts)

/-- one delivered message: given up on by the consumer library, or handed to the router -/
def toolStep (c : Cfg) (io : Nat → Fault) (maxAttempts : Nat) (st : St) (m : Msg) (attempts : Nat)
    (now : Int) (fn : String) (starved : Bool) : St :=
  if st.status ≠ .running then st
  else if shouldFail maxAttempts attempts then { st with finished := m :: st.finished }
  else step c io st (.msg m now fn) starved

end Nsq.Model.ToFile
