/-
Model `Gate` (property C11): the TLS-required gate and the AUTH gate of nsqd.

Go code modelled (nsqd/protocol_v2.go, nsqd/client_v2.go, nsqd/nsqd.go, nsqd/http.go,
internal/auth/authorizations.go):

* `New` normalisation of the TLS options (`mkConfig`), `buildTLSConfig` client-cert policy;
* `protocolV2.Exec` (IDENTIFY first, then `enforceTLSPolicy`, then the dispatch switch);
* `IDENTIFY` (state guard, feature negotiation, TLS upgrade), `AUTH`, `CheckAuth`,
  `clientV2.{Auth,QueryAuthd,IsAuthorized,HasAuthorizations}`, `auth.QueryAuthd`'s response
  validation, `auth.State.{IsAllowed,IsExpired}`, `Authorization.{IsAllowed,HasPermission}`;
* `PUB`, `MPUB`, `DPUB`, `SUB` (order of argument checks, body checks, `CheckAuth`, and the
  effect on the broker), the state guards of the remaining commands;
* the exit path of `IOLoop` (`cleanup`), `httpServer.ServeHTTP`'s TLS check and `Main`'s wiring.

Parameters (everything the model does not look into):
* `Matcher`   — `regexp`: which patterns compile and what they match (arbitrary);
* `ans`       — the auth server at the instant of a query: an arbitrary function from the request
                to an optional raw response (`none` = transport / HTTP / JSON failure);
* `Ext`       — what FIN / REQ / TOUCH do to the channel once they passed their guards (arbitrary);
* `now`       — the clock reading used by `IsExpired` and to stamp `Expires` (an input);
* the TLS handshake itself: its outcome is determined by `handshake policy clientCert`.

Core Lean only (this file is linked into the driver).
-/
namespace Nsq.Model.Gate

/-! ## configuration -/

inductive TlsReq where
  | no | exceptHTTP | yes
  deriving DecidableEq, Repr, Inhabited

inductive CertPolicy where
  | none | require | requireVerify
  deriving DecidableEq, Repr, Inhabited

/-- `nsqd.Options`, the fields that matter here. -/
structure Options where
  tlsRequired : TlsReq
  clientAuthPolicy : String        -- `--tls-client-auth-policy` as given
  hasCert : Bool                   -- `--tls-cert` / `--tls-key` given
  authAddrs : Nat                  -- number of `--auth-http-address` entries
  maxBodySize : Int
  maxMsgSize : Int
  maxReqTimeoutNs : Int
  deriving Repr

/-- The effective configuration `New` leaves behind. -/
structure Config where
  tlsRequired : TlsReq
  certPolicy : CertPolicy
  hasTls : Bool                    -- `n.tlsConfig != nil`
  authEnabled : Bool               -- `IsAuthEnabled()`
  maxBodySize : Int
  maxMsgSize : Int
  maxReqTimeoutNs : Int
  deriving Repr, DecidableEq

/-- `New`: a client-cert policy forces TLS-required. -/
def effTlsRequired (o : Options) : TlsReq :=
  if o.clientAuthPolicy ≠ "" ∧ o.tlsRequired = .no then .yes else o.tlsRequired

/-- `buildTLSConfig`: the `switch opts.TLSClientAuthPolicy`. -/
def policyOf (s : String) : CertPolicy :=
  if s = "require" then .require
  else if s = "require-verify" then .requireVerify
  else .none

/-- `New`: `none` = "cannot require TLS client connections without TLS key and cert". -/
def mkConfig (o : Options) : Option Config :=
  if o.hasCert = false ∧ effTlsRequired o ≠ .no then none
  else some
    { tlsRequired := effTlsRequired o
      certPolicy := policyOf o.clientAuthPolicy
      hasTls := o.hasCert
      authEnabled := o.authAddrs ≠ 0
      maxBodySize := o.maxBodySize
      maxMsgSize := o.maxMsgSize
      maxReqTimeoutNs := o.maxReqTimeoutNs }

/-! ## TLS handshake outcome (crypto/tls is trusted; this is its decision table) -/

/-- What the client brings to the handshake started by `UpgradeTLS`. -/
inductive ClientCert where
  | noHandshake                    -- the client does not complete a handshake
  | noCert
  | untrusted (cn : String)        -- a certificate the configured root CA does not vouch for
  | trusted (cn : String)
  deriving DecidableEq, Repr, Inhabited

/-- `some cn` = the server side of the handshake completed; `cn` is what `QueryAuthd` will
read from `PeerCertificates[0].Subject.CommonName` ("" when no certificate was requested). -/
def handshake (pol : CertPolicy) (c : ClientCert) : Option String :=
  match c with
  | .noHandshake => none
  | .noCert => if pol = .none then some "" else none
  | .untrusted cn =>
    if pol = .none then some "" else if pol = .require then some cn else none
  | .trusted cn => if pol = .none then some "" else some cn

/-! ## authorizations (internal/auth/authorizations.go) -/

/-- `regexp` as a parameter. -/
structure Matcher where
  compiles : String → Bool
  isMatch : String → String → Bool      -- pattern, text

structure Grant where
  topic : String
  channels : List String
  perms : List String
  deriving Repr, DecidableEq

/-- `Authorization.HasPermission` (the loop). -/
def hasPermission (perm : String) : List String → Bool
  | [] => false
  | p :: ps => if perm = p then true else hasPermission perm ps

/-- the loop over `a.Channels` in `Authorization.IsAllowed`. -/
def anyChannelMatches (M : Matcher) (channel : String) : List String → Bool
  | [] => false
  | c :: cs => if M.isMatch c channel then true else anyChannelMatches M channel cs

/-- `Authorization.IsAllowed`. -/
def grantAllowed (M : Matcher) (g : Grant) (topic channel : String) : Bool :=
  if channel ≠ "" ∧ hasPermission "subscribe" g.perms = false then false
  else if channel = "" ∧ hasPermission "publish" g.perms = false then false
  else if M.isMatch g.topic topic = false then false
  else anyChannelMatches M channel g.channels

/-- `State.IsAllowed` (the loop). -/
def isAllowed (M : Matcher) (topic channel : String) : List Grant → Bool
  | [] => false
  | g :: gs => if grantAllowed M g topic channel then true else isAllowed M topic channel gs

/-- The decoded body of a 200 answer of the auth server. -/
structure Resp where
  ttl : Int
  grants : List Grant
  identity : String
  url : String
  deriving Repr

/-- The query string nsqd sends (remote_ip omitted: not a decision input of the model). -/
structure Request where
  tls : Bool
  cn : String
  secret : String
  deriving Repr, DecidableEq

structure AuthState where
  grants : List Grant
  expires : Int
  identity : String
  url : String
  deriving Repr, DecidableEq

/-- `auth.QueryAuthd`, "validation on response": permission names. -/
def permsKnown : List String → Bool
  | [] => true
  | p :: ps => if p = "subscribe" ∨ p = "publish" then permsKnown ps else false

def patsCompile (M : Matcher) : List String → Bool
  | [] => true
  | p :: ps => if M.compiles p then patsCompile M ps else false

def grantsValid (M : Matcher) : List Grant → Bool
  | [] => true
  | g :: gs =>
    if permsKnown g.perms = false then false
    else if M.compiles g.topic = false then false
    else if patsCompile M g.channels = false then false
    else grantsValid M gs

/-- `auth.QueryAuthd` after the HTTP exchange: `none` = error return. -/
def validate (M : Matcher) (now : Int) (r : Option Resp) : Option AuthState :=
  match r with
  | none => none
  | some r =>
    if grantsValid M r.grants = false then none
    else if r.ttl ≤ 0 then none
    else some { grants := r.grants, expires := now + r.ttl, identity := r.identity, url := r.url }

/-- `State.IsExpired`: `a.Expires.Before(time.Now())`. -/
def isExpired (a : AuthState) (now : Int) : Bool := a.expires < now

/-! ## connection, broker -/

inductive CState where
  | init | subscribed | closing
  deriving DecidableEq, Repr, Inhabited

structure Conn where
  id : Nat
  tls : Bool
  cn : String
  state : CState
  hbOff : Bool                         -- `HeartbeatInterval <= 0`
  secret : String                      -- `AuthSecret`
  auth : Option AuthState              -- `AuthState`
  sub : Option (String × String)       -- `client.Channel`
  closed : Bool                        -- IOLoop has exited
  rd : Nat                             -- generation of `client.Reader`: 0 = the bufio reader over the raw
                                       -- (plaintext) socket created at connect; a completed `UpgradeTLS`
                                       -- replaces it by a fresh reader over the `tls.Conn` (generation + 1),
                                       -- and whatever the old reader still had buffered is gone with it
  deriving Repr

def Conn.fresh (id : Nat) : Conn :=
  { id := id, tls := false, cn := "", state := .init, hbOff := false, secret := "",
    auth := none, sub := none, closed := false, rd := 0 }

/-- `clientV2.HasAuthorizations`. -/
def hasAuthorizations (c : Conn) : Bool :=
  match c.auth with
  | none => false
  | some a => a.grants.length ≠ 0

structure Msg where
  size : Int
  deferNs : Int
  deriving Repr, DecidableEq

structure Chan where
  name : String
  clients : List Nat
  deriving Repr, DecidableEq

structure Topic where
  name : String
  msgs : List Msg
  chans : List Chan
  deriving Repr, DecidableEq

abbrev Broker := List Topic

def hasTopic (t : String) : Broker → Bool
  | [] => false
  | x :: xs => if x.name = t then true else hasTopic t xs

/-- `NSQD.GetTopic`: create on first use. -/
def getTopic (b : Broker) (t : String) : Broker :=
  if hasTopic t b then b else b ++ [{ name := t, msgs := [], chans := [] }]

def hasChan (c : String) : List Chan → Bool
  | [] => false
  | x :: xs => if x.name = c then true else hasChan c xs

def addClientChans (c : String) (id : Nat) : List Chan → List Chan
  | [] => []
  | x :: xs =>
    if x.name = c then { x with clients := x.clients ++ [id] } :: xs
    else x :: addClientChans c id xs

def removeClientChans (c : String) (id : Nat) : List Chan → List Chan
  | [] => []
  | x :: xs =>
    if x.name = c then { x with clients := x.clients.filter (· ≠ id) } :: xs
    else x :: removeClientChans c id xs

/-- `Topic.PutMessage(s)`: the accepted messages of a topic, in order. -/
def putMsgs (t : String) (ms : List Msg) : Broker → Broker
  | [] => []
  | x :: xs => if x.name = t then { x with msgs := x.msgs ++ ms } :: xs else x :: putMsgs t ms xs

def ensureChan (c : String) (cs : List Chan) : List Chan :=
  if hasChan c cs then cs else cs ++ [{ name := c, clients := [] }]

/-- `topic.GetChannel(c)` (create on first use) then `channel.AddClient(id)`. -/
def subscribeTopic (t c : String) (id : Nat) : Broker → Broker
  | [] => []
  | x :: xs =>
    if x.name = t then { x with chans := addClientChans c id (ensureChan c x.chans) } :: xs
    else x :: subscribeTopic t c id xs

def unsubscribeTopic (t c : String) (id : Nat) : Broker → Broker
  | [] => []
  | x :: xs =>
    if x.name = t then { x with chans := removeClientChans c id x.chans } :: xs
    else x :: unsubscribeTopic t c id xs

/-- What `/stats` shows of a channel / topic apart from the clients: names and messages. -/
def Topic.content (t : Topic) : String × List Msg × List String :=
  (t.name, t.msgs, t.chans.map (·.name))

def content (b : Broker) : List (String × List Msg × List String) := b.map Topic.content

/-! ## commands -/

structure IdentifyData where
  bodyOk : Bool                    -- the body is readable JSON of an acceptable size and ranges
  featureNegotiation : Bool
  tlsv1 : Bool
  hbOff : Bool                     -- `heartbeat_interval: -1` (false: the field is absent / 0 = "leave as is")
  hbOn : Bool := false             -- a positive, permitted `heartbeat_interval`: heartbeats are (re-)enabled (audit B24)
  cert : ClientCert                -- what the client does if the server starts a handshake
  deriving Repr

/-- One protocol line after `bytes.Split(line, " ")`: `args` are `params[1:]`. `size` is the
declared (int32) length of the body that follows; the body bytes themselves are present
whenever the size passes the command's checks. -/
inductive Cmd where
  | identify (d : IdentifyData)
  | auth (args : List String) (size : Int) (secret : String)
  | pub (args : List String) (size : Int)
  | mpub (args : List String) (size : Int) (count : Int) (sizes : List Int)
  | dpub (args : List String) (size : Int)
  | sub (args : List String)
  | rdy (args : List String)
  | fin (args : List String)
  | req (args : List String)
  | touch (args : List String)
  | cls
  | nop
  | unknown (name : String)
  deriving Repr

def Cmd.isIdentify : Cmd → Bool
  | .identify _ => true
  | _ => false

/-- the commands behind `CheckAuth` -/
def Cmd.isGated : Cmd → Bool
  | .pub _ _ => true
  | .mpub _ _ _ _ => true
  | .dpub _ _ => true
  | .sub _ => true
  | _ => false

inductive Reply where
  | ok
  | closeWait
  | identify (tlsv1 authRequired : Bool)         -- the negotiation JSON (the two fields that matter)
  | auth (identity url : String) (count : Nat)   -- the AUTH response JSON
  | err (code : String) (fatal : Bool)
  deriving Repr, DecidableEq

/-- What FIN / REQ / TOUCH do once past their guards (arbitrary). -/
structure Ext where
  chanCmd : String → Conn → List String → Broker → Broker × List Reply

structure Res where
  conn : Conn
  broker : Broker
  replies : List Reply
  close : Bool                     -- the IOLoop leaves (fatal error)
  query : Option Request           -- the request the auth server received during this command
  deriving Repr

def fatalRes (c : Conn) (b : Broker) (code : String) : Res :=
  { conn := c, broker := b, replies := [.err code true], close := true, query := none }

def okRes (c : Conn) (b : Broker) (rs : List Reply) : Res :=
  { conn := c, broker := b, replies := rs, close := false, query := none }

/-! ## names and numbers (internal/protocol) -/

def nameChar (c : Char) : Bool :=
  c = '.' ∨ c = '_' ∨ c = '-' ∨ ('a' ≤ c ∧ c ≤ 'z') ∨ ('A' ≤ c ∧ c ≤ 'Z') ∨ ('0' ≤ c ∧ c ≤ '9')

def ephemeralSuffix : List Char := "#ephemeral".toList

def stripEphemeral (cs : List Char) : List Char :=
  if ephemeralSuffix.isSuffixOf cs then cs.take (cs.length - ephemeralSuffix.length) else cs

/-- `protocol.IsValidTopicName` / `IsValidChannelName`. -/
def validName (s : String) : Bool :=
  if s.utf8ByteSize > 64 ∨ s.utf8ByteSize < 1 then false
  else if (stripEphemeral s.toList).isEmpty then false
  else (stripEphemeral s.toList).all nameChar

def digitsVal : List Char → Nat → Option Nat
  | [], acc => some acc
  | c :: cs, acc =>
    if '0' ≤ c ∧ c ≤ '9' then
      (if acc * 10 + (c.toNat - 48) > 18446744073709551615 then none
       else digitsVal cs (acc * 10 + (c.toNat - 48)))
    else none

/-- `protocol.ByteToBase10` (after fix F1: values beyond 64 bits are an error). -/
def base10 (s : String) : Option Nat := digitsVal s.toList 0

/-- `msToDuration`: saturating at the largest int64. -/
def msToNs (ms : Nat) : Int :=
  if ms > 9223372036854 then 9223372036854775807 else (ms : Int) * 1000000

/-! ## the auth gate -/

def requestOf (c : Conn) : Request := { tls := c.tls, cn := if c.tls then c.cn else "", secret := c.secret }

/-- Result of `CheckAuth`: the connection afterwards (`AuthState` may have been refreshed), the
query issued if any, and the error code if denied. -/
structure AuthCheck where
  conn : Conn
  query : Option Request
  deny : Option String
  deriving Repr

/-- `protocolV2.CheckAuth` + `clientV2.IsAuthorized`. -/
def checkAuth (cfg : Config) (M : Matcher) (ans : Request → Option Resp) (now : Int)
    (c : Conn) (topic channel : String) : AuthCheck :=
  if cfg.authEnabled = false then { conn := c, query := none, deny := none }
  else match c.auth with
  | none => { conn := c, query := none, deny := some "E_AUTH_FIRST" }
  | some a =>
    if a.grants.length = 0 then { conn := c, query := none, deny := some "E_AUTH_FIRST" }
    else if isExpired a now then
      match validate M now (ans (requestOf c)) with
      | none => { conn := c, query := some (requestOf c), deny := some "E_AUTH_FAILED" }
      | some a' =>
        if isAllowed M topic channel a'.grants then
          { conn := { c with auth := some a' }, query := some (requestOf c), deny := none }
        else
          { conn := { c with auth := some a' }, query := some (requestOf c), deny := some "E_UNAUTHORIZED" }
    else if isAllowed M topic channel a.grants then { conn := c, query := none, deny := none }
    else { conn := c, query := none, deny := some "E_UNAUTHORIZED" }

def deniedRes (k : AuthCheck) (b : Broker) (code : String) : Res :=
  { conn := k.conn, broker := b, replies := [.err code true], close := true, query := k.query }

/-! ## the command handlers -/

/-- `clientV2.SetHeartbeatInterval` as far as SUB's guard `HeartbeatInterval <= 0` cares: `-1` disables, a
permitted positive value (re-)enables, absent / 0 leaves the setting as it is. -/
def hbAfter (c : Conn) (d : IdentifyData) : Bool := if d.hbOn then false else (c.hbOff || d.hbOff)

/-- `protocolV2.IDENTIFY` (no TLS gate in front of it). -/
def execIdentify (cfg : Config) (c : Conn) (b : Broker) (d : IdentifyData) : Res :=
  if c.state ≠ .init then fatalRes c b "E_INVALID"
  else if d.bodyOk = false then fatalRes c b "E_BAD_BODY"
  else if d.featureNegotiation = false then okRes { c with hbOff := hbAfter c d } b [.ok]
  else if (cfg.hasTls && d.tlsv1) = false then
    okRes { c with hbOff := hbAfter c d } b [.identify false cfg.authEnabled]
  else match handshake cfg.certPolicy d.cert with
  | none =>
    { conn := { c with hbOff := hbAfter c d }, broker := b,
      replies := [.identify true cfg.authEnabled, .err "E_IDENTIFY_FAILED" true],
      close := true, query := none }
  | some cn =>
    okRes { c with hbOff := hbAfter c d, tls := true, cn := cn, rd := c.rd + 1 } b
      [.identify true cfg.authEnabled, .ok]

/-- `protocolV2.AUTH`. -/
def execAuth (cfg : Config) (M : Matcher) (ans : Request → Option Resp) (now : Int)
    (c : Conn) (b : Broker) (args : List String) (size : Int) (secret : String) : Res :=
  if c.state ≠ .init then fatalRes c b "E_INVALID"
  else if args.length ≠ 0 then fatalRes c b "E_INVALID"
  else if size > cfg.maxBodySize then fatalRes c b "E_BAD_BODY"
  else if size ≤ 0 then fatalRes c b "E_BAD_BODY"
  else if hasAuthorizations c then fatalRes c b "E_INVALID"
  else if cfg.authEnabled = false then fatalRes c b "E_AUTH_DISABLED"
  else match validate M now (ans (requestOf { c with secret := secret })) with
  | none =>
    { conn := { c with secret := secret }, broker := b, replies := [.err "E_AUTH_FAILED" true],
      close := true, query := some (requestOf { c with secret := secret }) }
  | some a =>
    if a.grants.length = 0 then
      { conn := { c with secret := secret, auth := some a }, broker := b,
        replies := [.err "E_UNAUTHORIZED" true], close := true,
        query := some (requestOf { c with secret := secret }) }
    else
      { conn := { c with secret := secret, auth := some a }, broker := b,
        replies := [.auth a.identity a.url a.grants.length], close := false,
        query := some (requestOf { c with secret := secret }) }

def argAt (args : List String) (i : Nat) : String :=
  match args[i]? with
  | some s => s
  | none => ""

/-- `protocolV2.PUB`. -/
def execPub (cfg : Config) (M : Matcher) (ans : Request → Option Resp) (now : Int)
    (c : Conn) (b : Broker) (args : List String) (size : Int) : Res :=
  if args.length < 1 then fatalRes c b "E_INVALID"
  else if validName (argAt args 0) = false then fatalRes c b "E_BAD_TOPIC"
  else if size ≤ 0 then fatalRes c b "E_BAD_MESSAGE"
  else if size > cfg.maxMsgSize then fatalRes c b "E_BAD_MESSAGE"
  else match (checkAuth cfg M ans now c (argAt args 0) "").deny with
  | some code => deniedRes (checkAuth cfg M ans now c (argAt args 0) "") b code
  | none =>
    { conn := (checkAuth cfg M ans now c (argAt args 0) "").conn,
      broker := putMsgs (argAt args 0) [{ size := size, deferNs := 0 }] (getTopic b (argAt args 0)),
      replies := [.ok], close := false,
      query := (checkAuth cfg M ans now c (argAt args 0) "").query }

/-- `protocolV2.DPUB`. -/
def execDpub (cfg : Config) (M : Matcher) (ans : Request → Option Resp) (now : Int)
    (c : Conn) (b : Broker) (args : List String) (size : Int) : Res :=
  if args.length < 2 then fatalRes c b "E_INVALID"
  else if validName (argAt args 0) = false then fatalRes c b "E_BAD_TOPIC"
  else match base10 (argAt args 1) with
  | none => fatalRes c b "E_INVALID"
  | some ms =>
    if msToNs ms < 0 ∨ msToNs ms > cfg.maxReqTimeoutNs then fatalRes c b "E_INVALID"
    else if size ≤ 0 then fatalRes c b "E_BAD_MESSAGE"
    else if size > cfg.maxMsgSize then fatalRes c b "E_BAD_MESSAGE"
    else match (checkAuth cfg M ans now c (argAt args 0) "").deny with
    | some code => deniedRes (checkAuth cfg M ans now c (argAt args 0) "") b code
    | none =>
      { conn := (checkAuth cfg M ans now c (argAt args 0) "").conn,
        broker := putMsgs (argAt args 0) [{ size := size, deferNs := msToNs ms }] (getTopic b (argAt args 0)),
        replies := [.ok], close := false,
        query := (checkAuth cfg M ans now c (argAt args 0) "").query }

/-- `readMPUB`'s per-message size checks: `none` = all fine. -/
def mpubSizesErr (maxMsg : Int) : List Int → Option String
  | [] => none
  | s :: ss =>
    if s ≤ 0 then some "E_BAD_MESSAGE"
    else if s > maxMsg then some "E_BAD_MESSAGE"
    else mpubSizesErr maxMsg ss

/-- `protocolV2.MPUB`: the auth check comes right after the topic-name check; the topic is
created (`GetTopic`) before the body is looked at. -/
def execMpub (cfg : Config) (M : Matcher) (ans : Request → Option Resp) (now : Int)
    (c : Conn) (b : Broker) (args : List String) (size : Int) (count : Int) (sizes : List Int) : Res :=
  if args.length < 1 then fatalRes c b "E_INVALID"
  else if validName (argAt args 0) = false then fatalRes c b "E_BAD_TOPIC"
  else match (checkAuth cfg M ans now c (argAt args 0) "").deny with
  | some code => deniedRes (checkAuth cfg M ans now c (argAt args 0) "") b code
  | none =>
    if size ≤ 0 ∨ size > cfg.maxBodySize ∨ count ≤ 0 ∨ count > (cfg.maxBodySize - 4) / 5 then
      { conn := (checkAuth cfg M ans now c (argAt args 0) "").conn,
        broker := getTopic b (argAt args 0), replies := [.err "E_BAD_BODY" true], close := true,
        query := (checkAuth cfg M ans now c (argAt args 0) "").query }
    else if (sizes.length : Int) ≠ count then      -- the stream ends inside the body
      { conn := (checkAuth cfg M ans now c (argAt args 0) "").conn,
        broker := getTopic b (argAt args 0), replies := [.err "E_BAD_MESSAGE" true], close := true,
        query := (checkAuth cfg M ans now c (argAt args 0) "").query }
    else match mpubSizesErr cfg.maxMsgSize sizes with
    | some code =>
      { conn := (checkAuth cfg M ans now c (argAt args 0) "").conn,
        broker := getTopic b (argAt args 0), replies := [.err code true], close := true,
        query := (checkAuth cfg M ans now c (argAt args 0) "").query }
    | none =>
      { conn := (checkAuth cfg M ans now c (argAt args 0) "").conn,
        broker := putMsgs (argAt args 0) (sizes.map (fun s => { size := s, deferNs := 0 }))
                    (getTopic b (argAt args 0)),
        replies := [.ok], close := false,
        query := (checkAuth cfg M ans now c (argAt args 0) "").query }

/-- `protocolV2.SUB`. -/
def execSub (cfg : Config) (M : Matcher) (ans : Request → Option Resp) (now : Int)
    (c : Conn) (b : Broker) (args : List String) : Res :=
  if c.state ≠ .init then fatalRes c b "E_INVALID"
  else if c.hbOff then fatalRes c b "E_INVALID"
  else if args.length < 2 then fatalRes c b "E_INVALID"
  else if validName (argAt args 0) = false then fatalRes c b "E_BAD_TOPIC"
  else if validName (argAt args 1) = false then fatalRes c b "E_BAD_CHANNEL"
  else match (checkAuth cfg M ans now c (argAt args 0) (argAt args 1)).deny with
  | some code => deniedRes (checkAuth cfg M ans now c (argAt args 0) (argAt args 1)) b code
  | none =>
    { conn := { (checkAuth cfg M ans now c (argAt args 0) (argAt args 1)).conn with
                state := .subscribed, sub := some (argAt args 0, argAt args 1) },
      broker := subscribeTopic (argAt args 0) (argAt args 1) c.id (getTopic b (argAt args 0)),
      replies := [.ok], close := false,
      query := (checkAuth cfg M ans now c (argAt args 0) (argAt args 1)).query }

/-- FIN / REQ / TOUCH: state guard, arity, message-id length, then the channel operation. -/
def execChanCmd (E : Ext) (name : String) (minArgs : Nat) (c : Conn) (b : Broker)
    (args : List String) : Res :=
  if c.state ≠ .subscribed ∧ c.state ≠ .closing then fatalRes c b "E_INVALID"
  else if args.length < minArgs then fatalRes c b "E_INVALID"
  else if (argAt args 0).utf8ByteSize ≠ 16 then fatalRes c b "E_INVALID"
  else if name = "REQ" ∧ base10 (argAt args 1) = none then fatalRes c b "E_INVALID"
  else okRes c (E.chanCmd name c args b).1 (E.chanCmd name c args b).2

/-- `protocolV2.RDY` (the count range check against `max-rdy-count` is C03's; here any
parseable count is accepted up to `maxRdy`). -/
def execRdy (maxRdy : Nat) (c : Conn) (b : Broker) (args : List String) : Res :=
  if c.state = .closing then okRes c b []
  else if c.state ≠ .subscribed then fatalRes c b "E_INVALID"
  else if args.length = 0 then okRes c b []
  else match base10 (argAt args 0) with
  | none => fatalRes c b "E_INVALID"
  | some n => if n > maxRdy then fatalRes c b "E_INVALID" else okRes c b []

def execCls (c : Conn) (b : Broker) : Res :=
  if c.state ≠ .subscribed then fatalRes c b "E_INVALID"
  else okRes { c with state := .closing } b [.closeWait]

/-- The `switch` of `protocolV2.Exec` (no case for IDENTIFY: it was handled before). -/
def dispatch (E : Ext) (cfg : Config) (M : Matcher) (ans : Request → Option Resp) (now : Int)
    (c : Conn) (b : Broker) (cmd : Cmd) : Res :=
  match cmd with
  | .identify _ => fatalRes c b "E_INVALID"
  | .auth args size secret => execAuth cfg M ans now c b args size secret
  | .pub args size => execPub cfg M ans now c b args size
  | .mpub args size count sizes => execMpub cfg M ans now c b args size count sizes
  | .dpub args size => execDpub cfg M ans now c b args size
  | .sub args => execSub cfg M ans now c b args
  | .rdy args => execRdy 2500 c b args
  | .fin args => execChanCmd E "FIN" 1 c b args
  | .req args => execChanCmd E "REQ" 2 c b args
  | .touch args => execChanCmd E "TOUCH" 1 c b args
  | .cls => execCls c b
  | .nop => okRes c b []
  | .unknown _ => fatalRes c b "E_INVALID"

/-- `enforceTLSPolicy`'s condition. -/
def tlsBlocked (cfg : Config) (c : Conn) : Bool :=
  cfg.tlsRequired ≠ .no ∧ c.tls = false

/-- `protocolV2.Exec` on a live connection. -/
def exec (E : Ext) (cfg : Config) (M : Matcher) (ans : Request → Option Resp) (now : Int)
    (c : Conn) (b : Broker) (cmd : Cmd) : Res :=
  match cmd with
  | .identify d => execIdentify cfg c b d
  | cmd =>
    if tlsBlocked cfg c then fatalRes c b "E_INVALID"
    else dispatch E cfg M ans now c b cmd

/-- The exit path of `IOLoop`: `client.Channel.RemoveClient(client.ID)`. -/
def cleanup (c : Conn) (b : Broker) : Broker :=
  match c.sub with
  | none => b
  | some tc => unsubscribeTopic tc.1 tc.2 c.id b

structure St where
  conn : Conn
  broker : Broker

/-- One iteration of `IOLoop`: the command's own result. A connection whose loop has exited
executes nothing any more. -/
def step (E : Ext) (cfg : Config) (M : Matcher) (ans : Request → Option Resp) (now : Int)
    (c : Conn) (b : Broker) (cmd : Cmd) : Res :=
  if c.closed then { conn := c, broker := b, replies := [], close := false, query := none }
  else exec E cfg M ans now c b cmd

/-- What the connection and the broker look like once `IOLoop` is ready for the next line: after a
fatal error the loop leaves through its exit path (`cleanup`). -/
def after (r : Res) : St :=
  if r.close then { conn := { r.conn with closed := true }, broker := cleanup r.conn r.broker }
  else { conn := r.conn, broker := r.broker }

/-- The client goes away (EOF on the socket): `IOLoop` leaves through the same exit path. -/
def disconnect (c : Conn) (b : Broker) : Conn × Broker :=
  if c.closed then (c, b) else ({ c with closed := true }, cleanup c b)

/-! ## histories -/

/-- An event on the timeline of one connection: a command line (with the clock reading and the
auth server's behaviour at that instant), or anything else happening to the broker meanwhile (other
connections, the HTTP API, the queue scan …): the environment may replace it arbitrarily.

Byte provenance: `rd` is the generation of the `Reader` into whose buffer the bytes of this command
line were received — 0: they crossed the wire in the clear, before any handshake (a client may
well send them in the same segment as its `IDENTIFY`, so that they already sit in the plaintext
reader's buffer when the handshake starts); k > 0: they arrived inside the TLS stream set up by
the k-th completed handshake. `IOLoop` only ever reads from the *current* reader: a line buffered
in a reader that has been replaced since is never seen (`stepEv` drops it). -/
inductive Ev where
  | cmd (rd : Nat) (now : Int) (ans : Request → Option Resp) (c : Cmd)
  | env (b : Broker)

/-- One recorded step of a history: the state before, the event, the command's own result and
the state afterwards (which includes the exit path when the command was fatal). -/
structure Rec where
  pre : St
  ev : Ev
  res : Res            -- for `env` events: no replies, broker replaced
  post : St

def stepEv (E : Ext) (cfg : Config) (M : Matcher) (s : St) (e : Ev) : Res :=
  match e with
  | .cmd rd now ans c =>
    if rd = s.conn.rd then step E cfg M ans now s.conn s.broker c
    else { conn := s.conn, broker := s.broker, replies := [], close := false, query := none }
  | .env b' => { conn := s.conn, broker := b', replies := [], close := false, query := none }

def trace (E : Ext) (cfg : Config) (M : Matcher) (s : St) : List Ev → List Rec
  | [] => []
  | e :: es =>
    { pre := s, ev := e, res := stepEv E cfg M s e, post := after (stepEv E cfg M s e) } ::
      trace E cfg M (after (stepEv E cfg M s e)) es

/-! ## HTTP (nsqd/http.go ServeHTTP, nsqd/nsqd.go Main) -/

/-- `Main`: `newHTTPServer(n, false, TLSRequired == TLSRequired)` for the plaintext listener,
`newHTTPServer(n, true, true)` for the TLS one. -/
def httpTlsRequired (cfg : Config) (tlsListener : Bool) : Bool :=
  if tlsListener then true else cfg.tlsRequired = .yes

inductive HttpOut where
  | forbidden403 | routed
  deriving DecidableEq, Repr

/-- `httpServer.ServeHTTP`. -/
def serveHTTP (tlsEnabled tlsRequired : Bool) : HttpOut :=
  if tlsEnabled = false ∧ tlsRequired then .forbidden403 else .routed

def httpGate (cfg : Config) (tlsListener : Bool) : HttpOut :=
  serveHTTP tlsListener (httpTlsRequired cfg tlsListener)

end Nsq.Model.Gate
