import Nsq.Model.Meta
import Nsq.Model.Names
/-!
# MetaLoad — `LoadMetadata` on *every* file content, `PersistMetadata` with failing system calls,
the temporary file name, and `dirlock` (C06, round 6)

Modelled code: `nsqd/nsqd.go` `readOrEmpty`, `LoadMetadata` (the loop over the decoded document with the two
`IsValid…Name` guards, `GetTopic`/`GetChannel` returning the existing object for a repeated name, `Pause` only
when `paused` is true), `writeSyncFile`/`PersistMetadata` error returns, `New` (`dirlock.Lock`),
`internal/dirlock/dirlock.go`, `internal/protocol/names.go` (through `Nsq.Model.Names`).

`encoding/json` itself stays abstract (`Codec.parse`): a file content either decodes to a document
(`Doc` = topics with a name, a pause flag and channels with a name and a pause flag — what `json.Unmarshal`
leaves in `Metadata` whatever else the file holds: unknown fields are dropped, missing ones are zero) or it
does not (`none`: syntax error, wrong type, empty or truncated file). The names in a decoded document are
ARBITRARY strings. This tree has no legacy (pre-JSON, line based `topic:channel`) loader and no
`nsqd.<id>.dat` file name: such content is a JSON syntax error, i.e. `parse = none`.  Core Lean only.
-/
namespace Nsq.Model.MetaLoad
open Nsq.Model.FS Nsq.Model.Meta Nsq.Model.Names

/-! ## names -/

/-- a Go string decoded by `encoding/json` is valid UTF-8; every rune ≥ 0x80 is outside the class
`[.a-zA-Z0-9_-]` and outside `#ephemeral`, so it is mapped to one byte (255) outside both: if such a rune
occurs the regular expression fails whatever the byte length is, and otherwise bytes = runes. -/
def charByte (c : Char) : UInt8 := if c.toNat < 128 then c.toNat.toUInt8 else 255
def nameBytes (s : String) : Bytes := s.toList.map charByte

/-- `protocol.IsValidTopicName` = `protocol.IsValidChannelName` = `isValidName` -/
def validName (s : String) : Bool := isValidName (nameBytes s)
/-- `strings.HasSuffix(name, "#ephemeral")` in `NewTopic` / `NewChannel` -/
def ephName (s : String) : Bool := isEphemeral (nameBytes s)

/-! ## LoadMetadata on a decoded document -/

/-- `topic.GetChannel(name)`: the existing channel, or a new one (ephemeral iff the name says so) -/
def ensureChan (cs : List Chan) (c : String) : List Chan :=
  if cs.any (fun x => x.name == c) then cs else cs ++ [⟨c, false, ephName c, false⟩]

def pauseChanNamed (cs : List Chan) (c : String) : List Chan :=
  modFirst (fun x => x.name == c) (fun x => { x with paused := true }) cs

/-- one iteration of the inner loop: invalid name ⇒ `continue`; `GetChannel`; `if c.Paused { channel.Pause() }`
(a later `paused:false` for the same name does NOT unpause) -/
def loadChanEntry (cs : List Chan) (c : ChanM) : List Chan :=
  if validName c.name then
    (if c.paused then pauseChanNamed (ensureChan cs c.name) c.name else ensureChan cs c.name)
  else cs

/-- `n.GetTopic(name)` while `isLoading`: the existing topic, or a new one -/
def ensureTopic (m : Mem) (t : String) : Mem :=
  if hasTopic m t then m else m ++ [⟨t, false, ephName t, false, []⟩]

/-- one iteration of the outer loop: invalid topic name ⇒ `continue` (its channels are skipped with it);
`GetTopic`; `if t.Paused { topic.Pause() }`; the channel loop; `topic.Start()` (no effect on the maps) -/
def loadTopicEntry (m : Mem) (t : TopicM) : Mem :=
  if validName t.name then
    modTopic
      (if t.paused then modTopic (ensureTopic m t.name) t.name (fun x => { x with paused := true })
       else ensureTopic m t.name)
      t.name (fun x => { x with chans := t.chans.foldl loadChanEntry x.chans })
  else m

/-- the loop of `LoadMetadata` over an arbitrary decoded document, from empty maps -/
def loadRaw (d : Doc) : Mem := d.foldl loadTopicEntry []

/-- the idealised loader of `Model.Meta` with the ephemeral flag read off the name -/
def loadChanE (c : ChanM) : Chan := ⟨c.name, c.paused, ephName c.name, false⟩
def loadTopicE (t : TopicM) : Topic := ⟨t.name, t.paused, ephName t.name, false, t.chans.map loadChanE⟩

/-! ## the file and the three outcomes -/

/-- what `os.ReadFile(nsqd.dat)` can give: not-exist, bytes (possibly zero bytes: `ReadFile` of an empty file
returns a non-nil empty slice, so `data == nil` is false), or another error (EISDIR, ENOTDIR, EACCES, EIO …) -/
inductive FileContent (β : Type)
  | absent
  | present (b : β)
  | unreadable

inductive LoadRes
  | refuse                 -- LoadMetadata returns an error: apps/nsqd `logFatal`, exit 1, nothing written
  | fresh                  -- `data == nil`: return nil before anything is created
  | loaded (m : Mem)
deriving DecidableEq, Repr

/-- `LoadMetadata`, total on every file content -/
def load {β : Type} (cd : Codec β) : FileContent β → LoadRes
  | .absent => .fresh
  | .unreadable => .refuse
  | .present b =>
    match cd.parse b with
    | none => .refuse
    | some d => .loaded (loadRaw d)

def LoadRes.mem : LoadRes → Option Mem
  | .refuse => none
  | .fresh => some []
  | .loaded m => some m

/-- the content of `nsqd.dat` in the `FS` of `Model.Meta` (the daemon only ever renames a regular file onto it) -/
def fileOf {β : Type} (fs : FS β) : FileContent β :=
  match fs.dat with
  | none => .absent
  | some b => .present b

/-! ## well-formed live maps and documents -/

def chanOK (c : Chan) : Bool := validName c.name && (c.eph == ephName c.name) && !c.exiting
def chansWF (cs : List Chan) : Prop := (cs.map (·.name)).Nodup ∧ ∀ c ∈ cs, chanOK c = true
def topicOK (t : Topic) : Prop :=
  validName t.name = true ∧ t.eph = ephName t.name ∧ t.exiting = false ∧ chansWF t.chans
/-- unique valid names everywhere, ephemeral flag as the name says, nothing exiting -/
def WF (m : Mem) : Prop := (m.map (·.name)).Nodup ∧ ∀ t ∈ m, topicOK t

/-- a document with unique valid names (what `GetMetadata` of a `WF` state produces, ephemerals included) -/
def chansGood (cs : List ChanM) : Prop := (cs.map (·.name)).Nodup ∧ ∀ c ∈ cs, validName c.name = true
def DocGood (d : Doc) : Prop :=
  (d.map (·.name)).Nodup ∧ ∀ t ∈ d, validName t.name = true ∧ chansGood t.chans
/-- … and no `#ephemeral` name (what `GetMetadata(false)` of a `WF` state produces) -/
def DocPersist (d : Doc) : Prop :=
  DocGood d ∧ ∀ t ∈ d, ephName t.name = false ∧ ∀ c ∈ t.chans, ephName c.name = false

/-- the persisted part of a state: ephemeral topics / channels dropped -/
def stripEph (m : Mem) : Mem :=
  (m.filter (fun t => !t.eph)).map (fun t => { t with chans := t.chans.filter (fun c => !c.eph) })

/-! ## PersistMetadata with failing system calls and an arbitrary temporary name -/

/-- how one `PersistMetadata` call ends (no kill: kills are `Model.Meta`'s) -/
inductive POutcome
  | openFails                 -- OpenFile(tmp) fails: nothing changed
  | writeFails (k : Nat)      -- Write returns an error after k bytes: Sync skipped, Close, error returned
  | syncFails                 -- Sync fails: Close, error returned
  | renameFails               -- Rename fails: the complete temporary file stays
  | ok
deriving DecidableEq, Repr

/-- one `PersistMetadata(d)` with temporary name `r` (= `rand.Int()`); `.2` = "returned nil" -/
def persistOnce {β : Type} (cd : Codec β) (fs : FS β) (r : Nat) (d : Doc) : POutcome → FS β × Bool
  | .openFails => (fs, false)
  | .writeFails k => (fs.setTmp r (cd.cut k (cd.marshal d)), false)
  | .syncFails => (fs.setTmp r (cd.marshal d), false)
  | .renameFails => (fs.setTmp r (cd.marshal d), false)
  | .ok => ((fs.setTmp r (cd.marshal d)).renameTmp r, true)

structure PCall where
  r : Nat
  d : Doc
  out : POutcome

def persistMany {β : Type} (cd : Codec β) (fs : FS β) : List PCall → FS β
  | [] => fs
  | c :: rest => persistMany cd (persistOnce cd fs c.r c.d c.out).1 rest

/-- `fmt.Sprintf("%s.%d.tmp", fileName, rand.Int())` with `fileName = <data-path>/nsqd.dat` -/
def tmpName (r : Nat) : String := "nsqd.dat." ++ toString r ++ ".tmp"

/-- `doPauseTopic` / `doPauseChannel`: the status after `s.nsqd.PersistMetadata()` — its error is dropped -/
def pauseAnswer (_persistReturnedNil : Bool) : Nat := 200

/-! ## dirlock -/

/-- what the `--data-path` is when `New` runs -/
inductive PathKind
  | missing         -- `os.Open(dir)` fails (ENOENT)
  | regularFile     -- `os.Open` and `flock` succeed on a file; `ReadFile(<file>/nsqd.dat)` is ENOTDIR later
  | dir
deriving DecidableEq, Repr

inductive NewRes
  | lockError       -- `New` returns "failed to lock data-path": apps/nsqd exits before LoadMetadata
  | locked
deriving DecidableEq, Repr

/-- `dirlock.Lock` inside `New`: `held` = another live process holds the flock on that directory -/
def dirlockNew (k : PathKind) (held : Bool) : NewRes :=
  match k with
  | .missing => .lockError
  | .regularFile => if held then .lockError else .locked
  | .dir => if held then .lockError else .locked

/-- the whole start (`New`, then `LoadMetadata`): `none` = `New` failed, nothing read, nothing written -/
def startOn {β : Type} (cd : Codec β) (k : PathKind) (held : Bool) (fc : FileContent β) : Option LoadRes :=
  match dirlockNew k held with
  | .lockError => none
  | .locked =>
    match k with
    | .regularFile => some (load cd (.unreadable : FileContent β))     -- ENOTDIR is not IsNotExist
    | _ => some (load cd fc)

end Nsq.Model.MetaLoad
