import Nsq.Model.FS
/-!
# Meta — the metadata write protocol of nsqd as a micro-step machine (C06, DESIGN §5)

Modelled code: `nsqd/nsqd.go` `PersistMetadata`, `writeSyncFile`, `GetMetadata`, `LoadMetadata`,
`Notify`, `New` (dirlock), `GetTopic`, `DeleteExistingTopic`; `nsqd/topic.go` `getOrCreateChannel`,
`DeleteExistingChannel`, `exit(true)`; `nsqd/channel.go` `exit(true)`; `nsqd/http.go` `doPauseTopic`,
`doPauseChannel`; `apps/nsqd/main.go` `Start` (load, then persist).

One `Step` = one critical section / one system call. `fix = true` is the tree with
`fixes/F6_persist_after_delete.patch` (a synchronous persist after the map unlink of a deletion);
`fix = false` is the tree without it.  Core Lean only (the driver links this file).
-/
namespace Nsq.Model.Meta
open Nsq.Model.FS

/-! ## The persisted document and the live maps -/

structure ChanM where
  name : String
  paused : Bool
deriving DecidableEq, Repr

structure TopicM where
  name : String
  paused : Bool
  chans : List ChanM
deriving DecidableEq, Repr

/-- what `json.Marshal(n.GetMetadata(false))` serialises (the version string is constant) -/
abbrev Doc := List TopicM

structure Chan where
  name : String
  paused : Bool
  eph : Bool
  exiting : Bool
deriving DecidableEq, Repr

structure Topic where
  name : String
  paused : Bool
  eph : Bool
  exiting : Bool
  chans : List Chan
deriving DecidableEq, Repr

/-- `n.topicMap` with each topic's `channelMap` (iteration order is irrelevant: everything
observable is compared after sorting by name) -/
abbrev Mem := List Topic

def snapChan (c : Chan) : ChanM := ⟨c.name, c.paused⟩
def snapTopic (t : Topic) : TopicM :=
  ⟨t.name, t.paused, (t.chans.filter (fun c => !c.eph)).map snapChan⟩
/-- `GetMetadata(false)` evaluated atomically on a state -/
def snap (m : Mem) : Doc := (m.filter (fun t => !t.eph)).map snapTopic

def loadChan (c : ChanM) : Chan := ⟨c.name, c.paused, false, false⟩
def loadTopic (t : TopicM) : Topic := ⟨t.name, t.paused, false, false, t.chans.map loadChan⟩
/-- `LoadMetadata` on a parsed document (names in a persisted document are valid and unique) -/
def loadDoc (d : Doc) : Mem := d.map loadTopic

/-- `json.Marshal` / `json.Unmarshal` / a short `write(2)`, over an abstract byte-string type. -/
structure Codec (β : Type) where
  marshal : Doc → β
  parse : β → Option Doc
  /-- the first `k` bytes -/
  cut : Nat → β → β

def Codec.RoundTrip {β : Type} (cd : Codec β) : Prop := ∀ d, cd.parse (cd.marshal d) = some d

/-! ## Map operations -/

/-- apply `f` to the first element satisfying `p` (a Go map holds one object per name) -/
def modFirst {α : Type} (p : α → Bool) (f : α → α) : List α → List α
  | [] => []
  | x :: xs => if p x then f x :: xs else x :: modFirst p f xs

def hasTopic (m : Mem) (t : String) : Bool := m.any (fun x => x.name == t)
def getTopic (m : Mem) (t : String) : Option Topic := m.find? (fun x => x.name == t)
def modTopic (m : Mem) (t : String) (f : Topic → Topic) : Mem := modFirst (fun x => x.name == t) f m
def dropTopic (m : Mem) (t : String) : Mem := m.eraseP (fun x => x.name == t)
def getChan (tp : Topic) (c : String) : Option Chan := tp.chans.find? (fun x => x.name == c)
def modChan (tp : Topic) (c : String) (f : Chan → Chan) : Topic :=
  { tp with chans := modFirst (fun x => x.name == c) f tp.chans }
def dropChan (tp : Topic) (c : String) : Topic :=
  { tp with chans := tp.chans.eraseP (fun x => x.name == c) }

/-! ## Continuations -/

inductive HKind
  | startup                                   -- apps/nsqd Start: PersistMetadata after LoadMetadata
  | del                                       -- (fix) persist after the map unlink of a deletion
  | exit                                      -- NSQD.Exit: PersistMetadata under n.Lock before the topics are closed
  | pause (t : String) (c : Option String) (flag : Bool)   -- doPauseTopic / doPauseChannel
deriving DecidableEq, Repr

/-- a caller that runs `PersistMetadata` synchronously before it returns / answers;
`stamp` = index in `hist` of the state produced by the caller's own change (ghost) -/
structure Handler where
  kind : HKind
  stamp : Nat
deriving DecidableEq, Repr

inductive Phase
  | reading | snapped | opened | partialW | written | synced | renamedP
deriving DecidableEq, Repr

/-- a `PersistMetadata` call in progress; it runs with `n.Lock()` held from start to end -/
structure Persist where
  owner : Option Handler      -- `none`: the continuation of a `Notify(v, true)` goroutine
  done : Doc                  -- entries read so far; the whole document once `phase ≠ reading`
  phase : Phase
  tmp : Nat                   -- `rand.Int()` of the temporary file name
  since : Nat                 -- ghost: index in `hist` of the live state when the lock was taken
deriving Repr

structure Ack where
  h : Handler
  doc : Doc
deriving Repr

inductive StartRes | never | ok | locked | badFile
deriving DecidableEq, Repr

structure Sys (β : Type) where
  alive : Bool                 -- a daemon process exists (and holds the flock on the data path)
  mem : Mem
  pending : Nat                -- `Notify(_, true)` goroutines that have not yet started their persist
  handlers : List Handler      -- synchronous persists requested, not yet started
  persist : Option Persist
  fs : FS β
  lastStart : StartRes
  exiting : Bool               -- NSQD.Exit has started (listeners closed); the flock is held until `exitEnd`
  -- ghost history
  taken : List Doc             -- every completed snapshot, in order
  renamed : List Doc           -- every snapshot renamed onto nsqd.dat, in order
  hist : List Mem              -- every state of the live maps, in order (all incarnations)
  acks : List Ack              -- answered synchronous persists

def Sys.init {β : Type} : Sys β :=
  { alive := false, mem := [], pending := 0, handlers := [], persist := none, fs := FS.empty,
    lastStart := .never, exiting := false, taken := [], renamed := [], hist := [], acks := [] }

/-! ## Steps -/

inductive MemStep
  | createTopic (t : String) (eph : Bool)      -- GetTopic on a new name (under n.Lock): NewTopic → Notify, map insert
  | createChan (t c : String) (eph : Bool)     -- getOrCreateChannel (under t.Lock): NewChannel → Notify, map insert
  | delTopicBegin (t : String)                 -- Topic.exit(true): exitFlag, Notify
  | delTopicChan (t c : String)                -- Topic.exit(true) loop: delete(t.channelMap, c); c.Delete() → Notify
  | delTopicUnlink (t : String)                -- DeleteExistingTopic: delete(n.topicMap, t) under n.Lock
  | delChanBegin (t c : String)                -- Channel.exit(true): exitFlag, Notify
  | delChanUnlink (t c : String)               -- DeleteExistingChannel: delete(t.channelMap, c) under t.Lock
  | pauseTopic (t : String) (flag : Bool)      -- doPauseTopic: atomic store, then a synchronous persist
  | pauseChan (t c : String) (flag : Bool)     -- doPauseChannel
deriving Repr

inductive PStep
  | beginNotify | beginHandler (i : Nat)       -- n.Lock() acquired by a Notify goroutine / a synchronous caller
  | read                                       -- GetMetadata: next topic (IsPaused + channel map under topic.Lock), or done
  | openTmp (r : Nat)                          -- OpenFile(tmp_r, O_WRONLY|O_CREATE|O_TRUNC)
  | writePart (k : Nat)                        -- a short write: the first k bytes are in the file
  | writeRest                                  -- Write returned
  | sync                                       -- f.Sync(); f.Close()
  | rename                                     -- os.Rename(tmp_r, nsqd.dat)
  | finish                                     -- return; n.Unlock(); (handler answers)
deriving Repr

inductive Step
  | start | kill
  | exitBegin          -- NSQD.Exit: listeners closed, then n.Lock(); PersistMetadata(); topics closed; …
  | exitEnd            -- … n.waitGroup.Wait(); n.dl.Unlock(): only now is the data path free (the process is gone)
  | mem (ms : MemStep)
  | persist (ps : PStep)
deriving Repr

def needsLock : MemStep → Bool
  | .createTopic _ _ => true
  | .delTopicUnlink _ => true
  | _ => false

def b2n (b : Bool) : Nat := if b then 1 else 0

/-- effect of a map operation: new maps, number of `Notify(_, true)` issued, synchronous persists requested -/
def memEffect (fix : Bool) (stamp : Nat) (m : Mem) : MemStep → Option (Mem × Nat × List Handler)
  | .createTopic t eph =>
    if hasTopic m t then none
    else some (m ++ [⟨t, false, eph, false, []⟩], b2n (!eph), [])
  | .createChan t c eph =>
    match getTopic m t with
    | none => none
    | some tp =>
      if (getChan tp c).isSome then none
      else some (modTopic m t (fun x => { x with chans := x.chans ++ [⟨c, false, eph, false⟩] }), b2n (!eph), [])
  | .delTopicBegin t =>
    match getTopic m t with
    | none => none
    | some tp =>
      if tp.exiting then none
      else some (modTopic m t (fun x => { x with exiting := true }), b2n (!tp.eph), [])
  | .delTopicChan t c =>
    match getTopic m t with
    | none => none
    | some tp =>
      if !tp.exiting then none else
      match getChan tp c with
      | none => none
      | some ch => some (modTopic m t (fun x => dropChan x c), b2n (!ch.eph && !ch.exiting), [])
  | .delTopicUnlink t =>
    match getTopic m t with
    | none => none
    | some tp =>
      if !tp.exiting then none
      else some (dropTopic m t, 0, if fix && !tp.eph then [⟨.del, stamp⟩] else [])
  | .delChanBegin t c =>
    match getTopic m t with
    | none => none
    | some tp =>
      match getChan tp c with
      | none => none
      | some ch =>
        if ch.exiting then none
        else some (modTopic m t (fun x => modChan x c (fun y => { y with exiting := true })), b2n (!ch.eph), [])
  | .delChanUnlink t c =>
    match getTopic m t with
    | none => none
    | some tp =>
      match getChan tp c with
      | none => none
      | some ch =>
        if !ch.exiting then none
        else some (modTopic m t (fun x => dropChan x c), 0, if fix && !ch.eph then [⟨.del, stamp⟩] else [])
  | .pauseTopic t flag =>
    match getTopic m t with
    | none => none
    | some _ => some (modTopic m t (fun x => { x with paused := flag }), 0, [⟨.pause t none flag, stamp⟩])
  | .pauseChan t c flag =>
    match getTopic m t with
    | none => none
    | some tp =>
      match getChan tp c with
      | none => none
      | some _ =>
        some (modTopic m t (fun x => modChan x c (fun y => { y with paused := flag })), 0,
              [⟨.pause t (some c) flag, stamp⟩])

/-- `New` took the flock; `LoadMetadata` produced `m`; `Start` will persist before `Main` -/
def boot {β : Type} (s : Sys β) (m : Mem) : Sys β :=
  { s with alive := true, mem := m, pending := 0, handlers := [⟨.startup, s.hist.length⟩],
           persist := none, lastStart := .ok, exiting := false, hist := s.hist ++ [m] }

def pstep {β : Type} (cd : Codec β) (s : Sys β) : PStep → Option (Sys β)
  | .beginNotify =>
    if s.persist.isSome then none
    else if s.pending = 0 then none
    else some { s with pending := s.pending - 1, persist := some ⟨none, [], .reading, 0, s.hist.length - 1⟩ }
  | .beginHandler i =>
    if s.persist.isSome then none else
    match s.handlers[i]? with
    | none => none
    | some h => some { s with handlers := s.handlers.eraseIdx i, persist := some ⟨some h, [], .reading, 0, s.hist.length - 1⟩ }
  | .read =>
    match s.persist with
    | none => none
    | some p =>
      if p.phase ≠ .reading then none else
      match (snap s.mem)[p.done.length]? with
      | some e => some { s with persist := some { p with done := p.done ++ [e] } }
      | none => some { s with persist := some { p with phase := .snapped },
                              taken := s.taken ++ [p.done] }
  | .openTmp r =>
    match s.persist with
    | none => none
    | some p =>
      if p.phase ≠ .snapped then none
      else some { s with persist := some { p with phase := .opened, tmp := r },
                         fs := s.fs.setTmp r (cd.cut 0 (cd.marshal p.done)) }
  | .writePart k =>
    match s.persist with
    | none => none
    | some p =>
      if p.phase ≠ .opened ∧ p.phase ≠ .partialW then none
      else some { s with persist := some { p with phase := .partialW },
                         fs := s.fs.setTmp p.tmp (cd.cut k (cd.marshal p.done)) }
  | .writeRest =>
    match s.persist with
    | none => none
    | some p =>
      if p.phase ≠ .opened ∧ p.phase ≠ .partialW then none
      else some { s with persist := some { p with phase := .written },
                         fs := s.fs.setTmp p.tmp (cd.marshal p.done) }
  | .sync =>
    match s.persist with
    | none => none
    | some p =>
      if p.phase ≠ .written then none
      else some { s with persist := some { p with phase := .synced } }
  | .rename =>
    match s.persist with
    | none => none
    | some p =>
      if p.phase ≠ .synced then none
      else some { s with persist := some { p with phase := .renamedP },
                         fs := s.fs.renameTmp p.tmp, renamed := s.renamed ++ [p.done] }
  | .finish =>
    match s.persist with
    | none => none
    | some p =>
      if p.phase ≠ .renamedP then none
      else some { s with persist := none,
                         acks := match p.owner with
                                 | some h => s.acks ++ [⟨h, p.done⟩]
                                 | none => s.acks }

/-- One step; `none` = not enabled in this state. -/
def step {β : Type} (cd : Codec β) (fix : Bool) (s : Sys β) : Step → Option (Sys β)
  | .start =>
    if s.alive then some { s with lastStart := .locked }          -- flock held by the live daemon
    else match s.fs.dat with
      | none => some (boot s [])                                   -- fresh start
      | some b =>
        match cd.parse b with
        | some d => some (boot s (loadDoc d))
        | none => some { s with lastStart := .badFile }            -- "failed to parse metadata": exit 1
  | .kill =>
    if s.alive then some { s with alive := false, mem := [], pending := 0, handlers := [], persist := none,
                                  exiting := false }
    else none
  | .exitBegin =>
    if !s.alive || s.exiting then none
    else some { s with exiting := true, handlers := s.handlers ++ [⟨.exit, s.hist.length - 1⟩] }
  | .exitEnd =>
    -- the flock is released at the very end of Exit: after its own persist has been renamed and returned
    if s.alive && s.exiting && s.persist.isNone && s.handlers.all (fun h => h.kind != .exit) then
      some { s with alive := false, mem := [], pending := 0, handlers := [], persist := none, exiting := false }
    else none
  | .mem ms =>
    if !s.alive then none
    else if needsLock ms && s.persist.isSome then none
    else match memEffect fix s.hist.length s.mem ms with
      | none => none
      | some r => some { s with mem := r.1, pending := s.pending + r.2.1, handlers := s.handlers ++ r.2.2,
                                hist := s.hist ++ [r.1] }
  | .persist ps => if !s.alive then none else pstep cd s ps

def run {β : Type} (cd : Codec β) (fix : Bool) (s : Sys β) : List Step → Option (Sys β)
  | [] => some s
  | st :: rest =>
    match step cd fix s st with
    | none => none
    | some s' => run cd fix s' rest

/-- every state of every schedule (any interleaving, kill point, number of restarts) -/
def Reach {β : Type} (cd : Codec β) (fix : Bool) (s : Sys β) : Prop :=
  ∃ steps, run cd fix Sys.init steps = some s

/-- nothing left to do: no queued or running persist -/
def Idle {β : Type} (s : Sys β) : Prop :=
  s.alive = true ∧ s.pending = 0 ∧ s.handlers = [] ∧ s.persist = none

end Nsq.Model.Meta
