import Nsq.Model.Wire
/-
C07 / C11 (audit round 7, item A2): WHICH transport the output writer of a connection hands its bytes to.

  nsqd/client_v2.go   SetOutputBuffer   `c.Writer = bufio.NewWriterSize(<dest>, c.OutputBufferSize)`
                      UpgradeTLS / UpgradeSnappy / UpgradeDeflate   a new writer on a NEW transport
  nsqd/protocol_v2.go IDENTIFY          accepted as long as `State == stateInit` — also a second time, after an upgrade

`Model.Wire.Conn` only records the plaintext per transport stack *in order*; it cannot say that a
writer was re-created on the wrong transport. Here every segment of output carries two tags:
`dest`, the transport the server's writer handed it to (0 = the raw TCP connection, k = the stack
installed by the k-th upgrade), and `want`, the stack the client decodes with at that moment (the
number of upgrades so far).

Two trees:
* `fixed = false` (before fix F30): `SetOutputBuffer` builds the new writer on `c.Conn`, the RAW
  connection, whatever has been negotiated;
* `fixed = true` (F30): on the transport the replaced writer was writing to.
Core Lean only (linked into drv_e1).
-/
namespace Nsq.Model.WireStack
open Nsq.Model.Wire

/-- a finished piece of output: the plaintext `data` was handed to transport `dest` while the
client was decoding with stack `want` -/
structure Seg where
  dest : Nat
  want : Nat
  data : Bytes
deriving DecidableEq, Repr

structure TConn where
  w : BufW                       -- current `bufio.Writer`; `w.sink` = plaintext handed to `dest` since the segment began
  dest : Nat := 0                -- transport under the current writer
  top : Nat := 0                 -- number of completed upgrades = the stack the client decodes with
  closed : List Seg := []        -- finished segments, oldest first
  subscribed : Bool := false
  sent : List Frame := []        -- every frame passed to `Send`, in order (ghost)
deriving Repr

def tconn0 (cap : Nat) : TConn := { w := { cap := cap } }

/-- One protocol action (same alphabet and guards as `Model.Wire.connStep`).
`setOutputBuffer`: `Flush`, then a new writer on `c.Conn` (unfixed) or on the current transport
(fixed). When the transport does not change the segment simply continues. -/
def tstep (fixed : Bool) (c : TConn) : ConnOp → TConn
  | .sendResponse f => { c with w := bufFlush (writeFrame c.w f), sent := c.sent ++ [f] }
  | .sendMessage f =>
    if c.subscribed then { c with w := writeFrame c.w f, sent := c.sent ++ [f] } else c
  | .flush => { c with w := bufFlush c.w }
  | .setOutputBuffer size =>
    if c.subscribed then c
    else if fixed || c.dest = 0 then
      { c with w := { cap := size, buf := [], sink := (bufFlush c.w).sink } }
    else
      { c with w := { cap := size, buf := [], sink := [] },
               closed := c.closed ++ [⟨c.dest, c.top, (bufFlush c.w).sink⟩],
               dest := 0 }
  | .upgrade size =>
    if c.subscribed then c
    else { c with w := { cap := size, buf := [], sink := [] },
                  closed := c.closed ++ [⟨c.dest, c.top, c.w.sink⟩],
                  dest := c.top + 1, top := c.top + 1 }
  | .subscribe => { c with subscribed := true }

def trun (fixed : Bool) (c : TConn) (ops : List ConnOp) : TConn := ops.foldl (tstep fixed) c

/-- all segments, the current one last -/
def TConn.segs (c : TConn) : List Seg := c.closed ++ [⟨c.dest, c.top, c.w.sink⟩]

/-- all plaintext handed to the transports, in order, plus what still sits in the buffer -/
def TConn.stream (c : TConn) : Bytes := (c.segs.map (·.data)).flatten ++ c.w.buf

/-- every byte went to the transport the client was decoding with -/
def TConn.OnNegotiated (c : TConn) : Prop := ∀ s ∈ c.segs, s.data ≠ [] → s.dest = s.want

instance (c : TConn) : Decidable c.OnNegotiated := by
  unfold TConn.OnNegotiated; infer_instance

/-- the bytes that reached the RAW connection after an upgrade had completed (cleartext leak) -/
def TConn.leaked (c : TConn) : Bytes :=
  ((c.segs.filter (fun s => s.dest = 0 && s.want != 0)).map (·.data)).flatten

/-- forgetting the tags: the round-6 connection model -/
def TConn.forget (c : TConn) : Conn :=
  { w := c.w, closedLayers := c.closed.map (·.data), subscribed := c.subscribed, sent := c.sent }

/-- what the client recovers when it decodes transport by transport: a segment written to the
transport the client reads (`dest = want`) is recovered; anything else is lost to it -/
def TConn.seen (c : TConn) : Bytes :=
  ((c.segs.filter (fun s => s.dest = s.want)).map (·.data)).flatten

/-- IDENTIFY at most re-buffers BEFORE the first upgrade (the shape every go-nsq client has) -/
def NoRebufferAfterUpgrade : List ConnOp → Bool
  | [] => true
  | .upgrade _ :: rest => rest.all (fun o => match o with | .setOutputBuffer _ => false | _ => true)
  | _ :: rest => NoRebufferAfterUpgrade rest


/-! ## Round 11 (builder `proto4`): the KIND of every upgrade and `c.flateWriter`

`clientV2.Flush` is `c.Writer.Flush()` followed by `c.flateWriter.Flush()` when `c.flateWriter != nil`, and a
`flate.Writer.Flush` ALWAYS emits a sync marker (an empty stored block, ≥ 5 bytes) to the writer it was created on.
`UpgradeDeflate` stores its writer there; which of the other upgrades drop it is the tree:

* before F30: none (`UpgradeSnappy` and `UpgradeTLS` leave it);
* F30 = /repo d6aa4e3: `UpgradeSnappy` sets `c.flateWriter = nil`, `UpgradeTLS` does not;
* F30b: `UpgradeTLS` does too.

A flate writer that belongs to a stack the client no longer decodes is *stale*: every `Flush` writes its marker to the
layer underneath that old stack — the raw connection, or the TLS session that was current when deflate was negotiated
(`tls.Server(c.Conn, …)` always wraps the RAW connection, so an older session's records land on the same socket). The
client, decoding the current stack, finds these bytes between its TLS records / snappy chunks: the session is broken. -/

inductive UKind
  | tls | snappy | deflate
deriving DecidableEq, Repr

/-- `ConnOp` with the kind of every upgrade -/
inductive KOp
  | sendResponse (f : Frame)
  | sendMessage (f : Frame)
  | flush
  | setOutputBuffer (size : Nat)
  | upgrade (k : UKind) (size : Nat)
  | subscribe
deriving Repr

def KOp.forget : KOp → ConnOp
  | .sendResponse f => .sendResponse f
  | .sendMessage f => .sendMessage f
  | .flush => .flush
  | .setOutputBuffer n => .setOutputBuffer n
  | .upgrade _ n => .upgrade n
  | .subscribe => .subscribe

/-- which tree: what `SetOutputBuffer` builds the writer on, and which upgrades drop `c.flateWriter` -/
structure Tree where
  rebufferKeeps : Bool      -- `SetOutputBuffer`: `c.outputDest` (F30) instead of `c.Conn`
  snappyClears : Bool       -- `UpgradeSnappy`: `c.flateWriter = nil` (F30)
  tlsClears : Bool          -- `UpgradeTLS`: `c.flateWriter = nil` (F30b)
deriving DecidableEq, Repr

def treePreF30 : Tree := ⟨false, false, false⟩
def treeF30 : Tree := ⟨true, true, false⟩
def treeF30b : Tree := ⟨true, true, true⟩

/-- `c.flateWriter`: installed by upgrade number `stack`, writing to `layer` (0 = the raw connection, j = the TLS
session installed by upgrade j) -/
structure FlateW where
  stack : Nat
  layer : Nat
deriving DecidableEq, Repr

/-- one sync marker written by a STALE flate writer: to `dest` (a layer), while the client decoded stack `want`,
after `pos` plaintext bytes had been handed to the transports -/
structure Stray where
  dest : Nat
  want : Nat
  pos : Nat
deriving DecidableEq, Repr

/-- plaintext bytes handed to the transports so far -/
def TConn.handed (c : TConn) : Nat := ((c.segs.map (·.data)).flatten).length

structure KConn where
  t : TConn
  layer : Nat := 0                 -- `c.tlsConn`: 0 = nil, j = the session of upgrade j
  fw : Option FlateW := none       -- `c.flateWriter`
  stray : List Stray := []         -- markers of a stale flate writer, oldest first
  kinds : List UKind := []         -- the upgrades performed, in order (ghost)
deriving Repr

def kconn0 (cap : Nat) : KConn := { t := tconn0 cap }

/-- what `c.flateWriter.Flush()` at the end of `client.Flush()` adds when the connection is `t'` afterwards:
nothing visible when the flate writer is the current stack's own (its marker is part of that stack's encoding) -/
def KConn.mark (c : KConn) (t' : TConn) : List Stray :=
  match c.fw with
  | none => []
  | some w => if w.stack = t'.top then [] else [⟨w.layer, t'.top, t'.handed⟩]

def kstep (tr : Tree) (c : KConn) : KOp → KConn
  | .sendResponse f =>
    { c with t := tstep tr.rebufferKeeps c.t (.sendResponse f),
             stray := c.stray ++ c.mark (tstep tr.rebufferKeeps c.t (.sendResponse f)) }
  | .sendMessage f => { c with t := tstep tr.rebufferKeeps c.t (.sendMessage f) }
  | .flush =>
    { c with t := tstep tr.rebufferKeeps c.t .flush,
             stray := c.stray ++ c.mark (tstep tr.rebufferKeeps c.t .flush) }
  | .setOutputBuffer n => { c with t := tstep tr.rebufferKeeps c.t (.setOutputBuffer n) }   -- `c.Writer.Flush()` only
  | .upgrade .tls n =>
    if c.t.subscribed then c
    else { c with t := tstep tr.rebufferKeeps c.t (.upgrade n), layer := c.t.top + 1,
                  fw := if tr.tlsClears then none else c.fw, kinds := c.kinds ++ [.tls] }
  | .upgrade .snappy n =>
    if c.t.subscribed then c
    else { c with t := tstep tr.rebufferKeeps c.t (.upgrade n),
                  fw := if tr.snappyClears then none else c.fw, kinds := c.kinds ++ [.snappy] }
  | .upgrade .deflate n =>
    if c.t.subscribed then c
    else { c with t := tstep tr.rebufferKeeps c.t (.upgrade n),
                  fw := some ⟨c.t.top + 1, c.layer⟩, kinds := c.kinds ++ [.deflate] }
  | .subscribe => { c with t := tstep tr.rebufferKeeps c.t .subscribe }

def krun (tr : Tree) (c : KConn) (ops : List KOp) : KConn := ops.foldl (kstep tr) c

/-- `c.flateWriter` belongs to a stack the client no longer decodes -/
def KConn.Stale (c : KConn) : Prop := ∃ w, c.fw = some w ∧ w.stack ≠ c.t.top

instance (c : KConn) : Decidable c.Stale :=
  match h : c.fw with
  | none => isFalse (by intro ⟨w, hw, _⟩; rw [h] at hw; cases hw)
  | some w =>
    if hs : w.stack = c.t.top then isFalse (by intro ⟨w', hw, hn⟩; rw [h] at hw; cases hw; exact hn hs)
    else isTrue ⟨w, h, hs⟩

/-- the literal clause with the markers: every frame byte AND every marker of a flate writer that is not part of
the client's stack went to the transport the client decodes with -/
def KConn.OnNegotiated (c : KConn) : Prop := c.t.OnNegotiated ∧ ∀ s ∈ c.stray, s.dest = s.want

instance (c : KConn) : Decidable c.OnNegotiated := by
  unfold KConn.OnNegotiated; infer_instance

/-- what the client recovers: its session breaks at the first stray marker -/
def KConn.seen (c : KConn) : Bytes :=
  match c.stray with
  | [] => c.t.seen
  | s :: _ => c.t.seen.take s.pos

/-- `c.flateWriter` (the upgrade that installed it) and the number of upgrades after the upgrades `ks` on the d6aa4e3
tree: deflate installs one, snappy drops it, TLS keeps it -/
def fwStep (acc : Option Nat × Nat) : UKind → Option Nat × Nat
  | .deflate => (some (acc.2 + 1), acc.2 + 1)
  | .snappy => (none, acc.2 + 1)
  | .tls => (acc.1, acc.2 + 1)

def fwAfter (ks : List UKind) : Option Nat × Nat := ks.foldl fwStep (none, 0)

/-- which upgrade orders leave a stale flate writer on the d6aa4e3 tree (`Proofs.WireStack.staleAfter_*`: exactly
`… deflate, tls, …, tls` with at least one TLS upgrade after the last deflate and no snappy in between) -/
def staleAfter (ks : List UKind) : Bool :=
  match fwAfter ks with
  | (some k, n) => k != n
  | (none, _) => false

def KOp.isTls : KOp → Bool
  | .upgrade .tls _ => true
  | _ => false

/-- no IDENTIFY negotiates TLS once an IDENTIFY has negotiated deflate (every go-nsq client: one IDENTIFY per
connection, in which the server performs TLS first) -/
def NoTlsAfterDeflate : List KOp → Bool
  | [] => true
  | .upgrade .deflate _ :: rest => rest.all (fun o => !o.isTls)
  | _ :: rest => NoTlsAfterDeflate rest

end Nsq.Model.WireStack
