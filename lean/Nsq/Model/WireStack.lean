import Nsq.Model.Wire
/-
C07 / C11 (audit round 7, item A2): WHICH transport the output writer of a connection hands its bytes to.

  nsqd/client_v2.go   SetOutputBuffer   `c.Writer = bufio.NewWriterSize(<dest>, c.OutputBufferSize)`
                      UpgradeTLS / UpgradeSnappy / UpgradeDeflate   a new writer on a NEW transport
  nsqd/protocol_v2.go IDENTIFY          accepted as long as `State == stateInit` — also a second time, after an upgrade

`Model.Wire.Conn` only records the plaintext per transport stack *in order*; it cannot say that a
writer was re-created on the wrong transport. Here every segment of output carries two tags:
`dest`, the transport the server's writer handed it to (0 = the raw TCP connection, k = the stack
installed by the k-th upgrade), and `want`, the stack the client decodes with at that moment (the
number of upgrades so far).

Two trees:
* `fixed = false` (before fix F30): `SetOutputBuffer` builds the new writer on `c.Conn`, the RAW
  connection, whatever has been negotiated;
* `fixed = true` (F30): on the transport the replaced writer was writing to.
Core Lean only (linked into drv_e1).
-/
namespace Nsq.Model.WireStack
open Nsq.Model.Wire

/-- a finished piece of output: the plaintext `data` was handed to transport `dest` while the
client was decoding with stack `want` -/
structure Seg where
  dest : Nat
  want : Nat
  data : Bytes
deriving DecidableEq, Repr

structure TConn where
  w : BufW                       -- current `bufio.Writer`; `w.sink` = plaintext handed to `dest` since the segment began
  dest : Nat := 0                -- transport under the current writer
  top : Nat := 0                 -- number of completed upgrades = the stack the client decodes with
  closed : List Seg := []        -- finished segments, oldest first
  subscribed : Bool := false
  sent : List Frame := []        -- every frame passed to `Send`, in order (ghost)
deriving Repr

def tconn0 (cap : Nat) : TConn := { w := { cap := cap } }

/-- One protocol action (same alphabet and guards as `Model.Wire.connStep`).
`setOutputBuffer`: `Flush`, then a new writer on `c.Conn` (unfixed) or on the current transport
(fixed). When the transport does not change the segment simply continues. -/
def tstep (fixed : Bool) (c : TConn) : ConnOp → TConn
  | .sendResponse f => { c with w := bufFlush (writeFrame c.w f), sent := c.sent ++ [f] }
  | .sendMessage f =>
    if c.subscribed then { c with w := writeFrame c.w f, sent := c.sent ++ [f] } else c
  | .flush => { c with w := bufFlush c.w }
  | .setOutputBuffer size =>
    if c.subscribed then c
    else if fixed || c.dest = 0 then
      { c with w := { cap := size, buf := [], sink := (bufFlush c.w).sink } }
    else
      { c with w := { cap := size, buf := [], sink := [] },
               closed := c.closed ++ [⟨c.dest, c.top, (bufFlush c.w).sink⟩],
               dest := 0 }
  | .upgrade size =>
    if c.subscribed then c
    else { c with w := { cap := size, buf := [], sink := [] },
                  closed := c.closed ++ [⟨c.dest, c.top, c.w.sink⟩],
                  dest := c.top + 1, top := c.top + 1 }
  | .subscribe => { c with subscribed := true }

def trun (fixed : Bool) (c : TConn) (ops : List ConnOp) : TConn := ops.foldl (tstep fixed) c

/-- all segments, the current one last -/
def TConn.segs (c : TConn) : List Seg := c.closed ++ [⟨c.dest, c.top, c.w.sink⟩]

/-- all plaintext handed to the transports, in order, plus what still sits in the buffer -/
def TConn.stream (c : TConn) : Bytes := (c.segs.map (·.data)).flatten ++ c.w.buf

/-- every byte went to the transport the client was decoding with -/
def TConn.OnNegotiated (c : TConn) : Prop := ∀ s ∈ c.segs, s.data ≠ [] → s.dest = s.want

instance (c : TConn) : Decidable c.OnNegotiated := by
  unfold TConn.OnNegotiated; infer_instance

/-- the bytes that reached the RAW connection after an upgrade had completed (cleartext leak) -/
def TConn.leaked (c : TConn) : Bytes :=
  ((c.segs.filter (fun s => s.dest = 0 && s.want != 0)).map (·.data)).flatten

/-- forgetting the tags: the round-6 connection model -/
def TConn.forget (c : TConn) : Conn :=
  { w := c.w, closedLayers := c.closed.map (·.data), subscribed := c.subscribed, sent := c.sent }

/-- what the client recovers when it decodes transport by transport: a segment written to the
transport the client reads (`dest = want`) is recovered; anything else is lost to it -/
def TConn.seen (c : TConn) : Bytes :=
  ((c.segs.filter (fun s => s.dest = s.want)).map (·.data)).flatten

/-- IDENTIFY at most re-buffers BEFORE the first upgrade (the shape every go-nsq client has) -/
def NoRebufferAfterUpgrade : List ConnOp → Bool
  | [] => true
  | .upgrade _ :: rest => rest.all (fun o => match o with | .setOutputBuffer _ => false | _ => true)
  | _ :: rest => NoRebufferAfterUpgrade rest

end Nsq.Model.WireStack
