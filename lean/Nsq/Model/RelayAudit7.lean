import Nsq.Model.RelayN2NTool
import Nsq.Model.ToNsqRefuse
import Nsq.Model.HttpGet
/-
Driver entry of the audit-round-7 models of C20 (sub-builder c20b): one prefix `a7` in DriverE8.
  `a7 n2n-hist …`   nsq_to_nsq whole histories / the tool behind handlerLoop (`Nsq.Model.Relay.N2N.consumeRun`)
  `a7 refuse …`     to_nsq with a destination that refuses records above a size limit (`Nsq.Model.ToNsqRefuse.run`)
  `a7 get …`        nsq_to_http GET request target (`Nsq.Model.HttpGet.endpoint`)
Core Lean only (linked into drv_e8).
-/
namespace Nsq.Model.RelayAudit7

def driverLine (ws : List String) : String :=
  match ws with
  | "n2n-hist" :: _ => Nsq.Model.Relay.N2N.driverLineTool ws
  | "refuse" :: _ => Nsq.Model.ToNsqRefuse.driverLine ws
  | "get" :: _ => Nsq.Model.HttpGet.driverLine ws
  | _ => "bad-op"

end Nsq.Model.RelayAudit7
