import Nsq.Model.Line
import Nsq.Model.WireStack
/-! Line protocol of the `stack` operation of `drv_e1` (harness/e1/reident_test.go, TestVerifStackCorr):
tokens `r<hex>` `m<hex>` `f` `b<n>` `us` `ud<level>` `ut` `s`; answer: for each client stack `k` either
`k:ok:<plaintext the client decodes on it>` or `k:garbled` (some non-empty output was written to another
transport while the client was reading stack `k`), then `buf=<bytes still buffered>`.
Round 11: the tree is a `Tree` (which upgrades drop `c.flateWriter`); as soon as a STALE flate writer has written
a marker the client's session is broken: the line stops there, the stack it happened on is answered
`k:cut:<plaintext decoded on it before the marker>` and the line ends with `dead` (no `buf=`). -/
namespace Nsq.Model.WireStack
open Nsq.Model.Wire Nsq.Line

/-- the state threaded through a line: the connection and the current `OutputBufferSize` -/
structure LineSt where
  c : KConn
  size : Nat := 16384

def lineTok (tr : Tree) (st : LineSt) (tok : String) : Option LineSt :=
  if !st.c.stray.isEmpty then some st      -- the client gave up
  else if tok = "f" then some { st with c := kstep tr st.c .flush }
  else if tok = "s" then some { st with c := kstep tr st.c .subscribe }
  else if tok = "us" then some { st with c := kstep tr st.c (.upgrade .snappy st.size) }
  else if tok = "ut" then some { st with c := kstep tr st.c (.upgrade .tls st.size) }
  else if tok.startsWith "ud" then some { st with c := kstep tr st.c (.upgrade .deflate st.size) }
  else if tok.startsWith "b" then
    match (String.ofList (tok.toList.drop 1)).toInt? with
    | some n =>
      if n = 0 then some st
      else
        let sz := if n = -1 then 1 else n.toNat
        some { c := kstep tr st.c (.setOutputBuffer sz), size := sz }
    | none => none
  else if tok.startsWith "r" then
    (unhex (String.ofList (tok.toList.drop 1))).map fun d => { st with c := kstep tr st.c (.sendResponse ⟨0#32, d⟩) }
  else if tok.startsWith "m" then
    (unhex (String.ofList (tok.toList.drop 1))).map fun d => { st with c := kstep tr st.c (.sendMessage ⟨2#32, d⟩) }
  else none

def showStack (c : TConn) (k : Nat) : String :=
  let mine := c.segs.filter (fun s => s.want = k)
  if mine.any (fun s => s.dest != k && !s.data.isEmpty) then s!"{k}:garbled"
  else s!"{k}:ok:{hex ((mine.map (·.data)).flatten)}"

/-- the stack a stray marker hit: what the client had decoded on it before -/
def showCut (c : TConn) (k : Nat) (pos : Nat) : String :=
  let before := ((c.segs.filter (fun s => s.want < k)).map (·.data)).flatten.length
  let mine := ((c.segs.filter (fun s => s.want = k)).map (·.data)).flatten
  s!"{k}:cut:{hex (mine.take (pos - before))}"

def stackLine (tr : Tree) (toks : List String) : String :=
  match toks.foldl (fun acc t => acc.bind (fun st => lineTok tr st t)) (some { c := kconn0 16384 }) with
  | none => "bad-op"
  | some st =>
    match st.c.stray with
    | [] =>
      " ".intercalate ((List.range (st.c.t.top + 1)).map (showStack st.c.t) ++ [s!"buf={st.c.t.w.buf.length}"])
    | s :: _ =>
      " ".intercalate ((List.range s.want).map (showStack st.c.t) ++ [showCut st.c.t s.want s.pos, "dead"])

end Nsq.Model.WireStack
