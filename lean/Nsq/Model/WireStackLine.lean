import Nsq.Model.Line
import Nsq.Model.WireStack
/-! Line protocol of the `stack` operation of `drv_e1` (harness/e1/reident_test.go, TestVerifStackCorr):
tokens `r<hex>` `m<hex>` `f` `b<n>` `us` `ud<level>` `s`; answer: for each client stack `k` either
`k:ok:<plaintext the client decodes on it>` or `k:garbled` (some non-empty output was written to another
transport while the client was reading stack `k`), then `buf=<bytes still buffered>`. -/
namespace Nsq.Model.WireStack
open Nsq.Model.Wire Nsq.Line

/-- the state threaded through a line: the connection and the current `OutputBufferSize` -/
structure LineSt where
  c : TConn
  size : Nat := 16384

def lineTok (fixed : Bool) (st : LineSt) (tok : String) : Option LineSt :=
  if tok = "f" then some { st with c := tstep fixed st.c .flush }
  else if tok = "s" then some { st with c := tstep fixed st.c .subscribe }
  else if tok = "us" || tok.startsWith "ud" then some { st with c := tstep fixed st.c (.upgrade st.size) }
  else if tok.startsWith "b" then
    match (String.ofList (tok.toList.drop 1)).toInt? with
    | some n =>
      if n = 0 then some st
      else
        let sz := if n = -1 then 1 else n.toNat
        some { c := tstep fixed st.c (.setOutputBuffer sz), size := sz }
    | none => none
  else if tok.startsWith "r" then
    (unhex (String.ofList (tok.toList.drop 1))).map fun d => { st with c := tstep fixed st.c (.sendResponse ⟨0#32, d⟩) }
  else if tok.startsWith "m" then
    (unhex (String.ofList (tok.toList.drop 1))).map fun d => { st with c := tstep fixed st.c (.sendMessage ⟨2#32, d⟩) }
  else none

def showStack (c : TConn) (k : Nat) : String :=
  let mine := c.segs.filter (fun s => s.want = k)
  if mine.any (fun s => s.dest != k && !s.data.isEmpty) then s!"{k}:garbled"
  else s!"{k}:ok:{hex ((mine.map (·.data)).flatten)}"

def stackLine (fixed : Bool) (toks : List String) : String :=
  match toks.foldl (fun acc t => acc.bind (fun st => lineTok fixed st t)) (some { c := tconn0 16384 }) with
  | none => "bad-op"
  | some st =>
    " ".intercalate ((List.range (st.c.top + 1)).map (showStack st.c) ++ [s!"buf={st.c.w.buf.length}"])

end Nsq.Model.WireStack
