/-
E2 — the micro-step model of a channel's in-flight structures WITH deadlines (round 7 / audit A3).

`Nsq.Model.ChanMicro` abstracts deadlines ("the scan may pop any heap member"). Here every message
object carries its `msg.pri` (written by `StartInFlightTimeout` and `TouchMessage` only), the deadline
heap holds entries `(id, key)` where `key` is the priority the entry was inserted (and sifted) with, and
`processInFlightQueue(t)` is `PeekAndShift(t)`: it looks at the ROOT entry only — the entry with the
smallest key — and compares the root OBJECT's CURRENT `pri` with `t` (the heap stores `*Message`).

Two shapes of the code are modelled by the flag `fixed`:
* `fixed = false` — `pushInFlightMessage` (map) and `addToInFlightPQ` (heap) are two critical sections
  (`delMapPush | heapPush`, `touchMapPush | heapPush`): an answer of the same connection for an EARLIER
  delivery can run in between and leaves a stale heap entry for an object that is then queued again; its
  next delivery rewrites `msg.pri` IN PLACE inside the heap: key ≠ pri, the heap order is broken and a
  due timeout of ANOTHER message is hidden behind it (audit A3; `Nsq.Props.C04Micro.scan_complete_micro_false`).
* `fixed = true` — fix F48: one critical section inserts into map and heap.

The untimed component `ms` is stepped by `Nsq.Model.ChanMicro.step` itself, so every schedule of this
model projects to a schedule of `ChanMicro` (`Nsq.Proofs.ChanMicroT.step_ms`) and the ownership
theorems of `Nsq.Props.C02Micro` apply unchanged.
Core Lean only.
-/
import Nsq.Model.ChanMicro
namespace Nsq.Model.ChanMicroT
open Nsq.Model.ChanMicro

/-- timed ghost log, newest first -/
inductive TEv where
  | stamp (id : Nat) (d : Int)       -- `msg.pri = d` (StartInFlightTimeout / TouchMessage)
  | timedOut (id : Nat) (t : Int)    -- `processInFlightQueue(t)` decided the timeout of `id`
deriving DecidableEq, Repr

structure TS where
  ms   : MS := {}
  /-- `msg.pri` of each message object (latest binding first) -/
  pri  : List (Nat × Int) := []
  /-- entries of `inFlightPQ` with the key they were inserted with (newest first) -/
  hk   : List (Nat × Int) := []
  tlog : List TEv := []
deriving DecidableEq, Repr

inductive TOp where
  /-- the micro-steps without timing content: `put`, `heapPush`, `ansMapPop`, `ansFinish`, `scanPut`, `deferDue` -/
  | plain (op : Op)
  | delMapPush (k id : Nat) (now timeout : Int)
  | touchMapPush (k id : Nat) (now timeout : Int)
  | scanPop (id : Nat) (t : Int)
  /-- `PeekAndShift(t)` returns nil: the heap is empty or the root object's `pri > t`; the scan returns -/
  | scanIdle (t : Int)
deriving DecidableEq, Repr

def priOf (s : TS) (id : Nat) : Option Int := s.pri.lookup id

/-- remove the newest heap entry of `id` (`removeFromInFlightPQ` removes `pq[msg.index]`) -/
def eraseK : List (Nat × Int) → Nat → List (Nat × Int)
  | [], _ => []
  | e :: l, id => if e.1 = id then l else e :: eraseK l id

/-- the smallest key in the heap -/
def minKey : List (Nat × Int) → Option Int
  | [] => none
  | e :: l => match minKey l with
    | none => some e.2
    | some m => some (if e.2 ≤ m then e.2 else m)

/-- `(id, m)` is a root candidate: an entry whose key is the smallest -/
def isRoot (hk : List (Nat × Int)) (id : Nat) (m : Int) : Bool := minKey hk == some m && hk.contains (id, m)

def lastStamp : List TEv → Nat → Option Int
  | [], _ => none
  | .stamp i d :: l, id => if i = id then some d else lastStamp l id
  | .timedOut _ _ :: l, id => lastStamp l id

def timed : Op → Bool
  | .delMapPush .. => true
  | .touchMapPush .. => true
  | .scanPop .. => true
  | _ => false

/-- map insert (+ heap insert in the same critical section when `fixed`) with the deadline `d` stamped before -/
def pushWith (fixed : Bool) (s : TS) (op : Op) (id : Nat) (d : Int) : TS × Res :=
  match step s.ms op with
  | (ms1, .ok) =>
    if fixed then
      ({ ms := (step ms1 (.heapPush id)).1, pri := (id, d) :: s.pri, hk := (id, d) :: s.hk,
         tlog := .stamp id d :: s.tlog }, .ok)
    else
      ({ s with ms := ms1, pri := (id, d) :: s.pri, tlog := .stamp id d :: s.tlog }, .ok)
  | (_, r) => (s, r)

def stepT (fixed : Bool) (s : TS) : TOp → TS × Res
  | .plain op =>
    if timed op then (s, .reject) else
    match op, step s.ms op with
    | .heapPush id, (ms1, .ok) =>
      match priOf s id with
      | some d => ({ s with ms := ms1, hk := (id, d) :: s.hk }, .ok)
      | none => (s, .reject)       -- an object is stamped before it is pushed
    | .ansFinish _ id _, (ms1, .ok) => ({ s with ms := ms1, hk := eraseK s.hk id }, .ok)
    | _, (ms1, r) => ({ s with ms := ms1 }, r)
  | .delMapPush k id now timeout => pushWith fixed s (.delMapPush k id) id (now + timeout)
  | .touchMapPush k id now timeout => pushWith fixed s (.touchMapPush k id) id (now + timeout)
  | .scanPop id t =>
    -- PeekAndShift(t): the root entry, its object's CURRENT pri against t
    match minKey s.hk, priOf s id with
    | some m, some d =>
      if isRoot s.hk id m && decide (d ≤ t) then
        match step s.ms (.scanPop id) with
        | (ms1, .ok) => ({ s with ms := ms1, hk := s.hk.erase (id, m), tlog := .timedOut id t :: s.tlog }, .ok)
        | (ms1, r) => ({ s with ms := ms1, hk := s.hk.erase (id, m) }, r)
      else (s, .reject)
    | _, _ => (s, .reject)
  | .scanIdle t =>
    match minKey s.hk with
    | none => (s, .ok)
    | some m =>
      if s.hk.any (fun e => e.2 == m && (match priOf s e.1 with | some d => decide (t < d) | none => false)) then (s, .ok)
      else (s, .reject)

def runT (fixed : Bool) (s : TS) : List TOp → TS
  | [] => s
  | op :: ops => runT fixed (stepT fixed s op).1 ops

end Nsq.Model.ChanMicroT
