/-
C07: the byte formats a message passes through.

  nsqd/message.go                    Message.WriteTo / decodeMessage  (8B BE timestamp, 2B BE attempts, 16B id, body)
  internal/protocol/protocol.go      SendFramedResponse               (4B BE size = len+4, 4B BE frame type, data)
  go-nsq protocol.go                 ReadResponse / UnpackResponse    (client-side frame reader)
  nsqd/protocol_v2.go                readMPUB / readLen               (4B count, then 4B length + body each)
  nsqd/http.go                       doMPUB text mode                 (split on '\n', drop empty blocks)
  go-diskqueue                       record = 4B BE length + data
  nsqd/client_v2.go, protocol_v2.go  bufio.Writer stack: Send / Flush / SetOutputBuffer / Upgrade*
  nsqd/buffer_pool.go, topic.go      pooled encode buffers, per-channel copies

Bytes are `List UInt8`. Core Lean only (linked into the driver).
-/
namespace Nsq.Model.Wire

abbrev Bytes := List UInt8

/-- big-endian rendering of `v` on `w` bytes (`binary.BigEndian.PutUintNN`; high bits dropped) -/
def beBytes : Nat → Nat → Bytes
  | 0, _ => []
  | w + 1, v => beBytes w (v / 256) ++ [(v % 256).toUInt8]

/-- big-endian value of a byte string (`binary.BigEndian.UintNN`) -/
def beVal (b : Bytes) : Nat := b.foldl (fun acc x => acc * 256 + x.toNat) 0

/-! ### message envelope -/

structure Msg where
  ts : BitVec 64        -- Timestamp int64
  attempts : BitVec 16  -- Attempts uint16
  id : Bytes            -- MessageID [16]byte
  body : Bytes
deriving DecidableEq, Repr

/-- `Message.WriteTo` -/
def encode (m : Msg) : Bytes :=
  beBytes 8 m.ts.toNat ++ beBytes 2 m.attempts.toNat ++ m.id ++ m.body

/-- `decodeMessage`: `none` = "invalid message buffer size" -/
def decode (b : Bytes) : Option Msg :=
  if b.length < 26 then none
  else some { ts := BitVec.ofNat 64 (beVal (b.take 8)),
              attempts := BitVec.ofNat 16 (beVal ((b.drop 8).take 2)),
              id := (b.drop 10).take 16,
              body := b.drop 26 }

/-! ### length-prefixed records (frames, MPUB bodies, diskqueue records) -/

/-- 4-byte big-endian length prefix + data -/
def lp (d : Bytes) : Bytes := beBytes 4 d.length ++ d

/-- the 4-byte prefix as Go reads it into an `int32` -/
def int32Of (n : Nat) : Int := if n < 2147483648 then (n : Int) else (n : Int) - 4294967296

structure Frame where
  ftype : BitVec 32
  data : Bytes
deriving DecidableEq, Repr

/-- `SendFramedResponse(w, frameType, data)`: `size := uint32(len(data)) + 4` -/
def encodeFrame (f : Frame) : Bytes :=
  beBytes 4 (f.data.length + 4) ++ beBytes 4 f.ftype.toNat ++ f.data

/-- client side: `ReadResponse` (int32 size, negative → error, `ReadFull`) then `UnpackResponse`
(fewer than 4 bytes → error). Returns the frame and the rest of the stream. -/
def readFrame (s : Bytes) : Option (Frame × Bytes) :=
  if s.length < 4 then none
  else if int32Of (beVal (s.take 4)) < 0 then none
  else if (s.drop 4).length < beVal (s.take 4) then none
  else if beVal (s.take 4) < 4 then none
  else some ({ ftype := BitVec.ofNat 32 (beVal ((s.drop 4).take 4)),
               data := (s.drop 8).take (beVal (s.take 4) - 4) },
             s.drop (4 + beVal (s.take 4)))

theorem readFrame_shorter {s r : Bytes} {f : Frame} (h : readFrame s = some (f, r)) :
    r.length < s.length := by
  unfold readFrame at h
  repeat' split at h
  all_goals first | contradiction | skip
  simp only [Option.some.injEq, Prod.mk.injEq] at h
  rw [← h.2]
  simp only [List.length_drop]
  omega

/-- the client's read loop over a whole stream: all frames, or `none` on a framing error /
truncated stream -/
def parseFrames (s : Bytes) : Option (List Frame) :=
  if s.isEmpty then some []
  else match h : readFrame s with
    | none => none
    | some (f, r) => (parseFrames r).map (f :: ·)
termination_by s.length
decreasing_by exact readFrame_shorter h

/-! ### MPUB -/

inductive MpubErr
  | badBody      -- E_BAD_BODY: count unreadable / out of range
  | badMessage   -- E_BAD_MESSAGE: a body size unreadable / ≤ 0 / too big, or body truncated
deriving DecidableEq, Repr

/-- `readLen`: 4 bytes → int32 -/
def readLen (s : Bytes) : Option (Int × Bytes) :=
  if s.length < 4 then none else some (int32Of (beVal (s.take 4)), s.drop 4)

/-- the loop of `readMPUB` with `k` messages still to read -/
def mpubLoop (maxMsg : Int) : Nat → Bytes → List Bytes → Except MpubErr (List Bytes × Bytes)
  | 0, s, acc => .ok (acc, s)
  | k + 1, s, acc =>
    match readLen s with
    | none => .error .badMessage
    | some (sz, r) =>
      if sz ≤ 0 then .error .badMessage
      else if sz > maxMsg then .error .badMessage
      else if r.length < sz.toNat then .error .badMessage
      else mpubLoop maxMsg k (r.drop sz.toNat) (acc ++ [r.take sz.toNat])

/-- `readMPUB(r, tmp, topic, maxMessageSize, maxBodySize)`: bodies (in order) and the unread rest -/
def readMPUB (s : Bytes) (maxMsg maxBody : Int) : Except MpubErr (List Bytes × Bytes) :=
  match readLen s with
  | none => .error .badBody
  | some (n, r) =>
    if n ≤ 0 || n > (maxBody - 4).tdiv 5 then .error .badBody
    else mpubLoop maxMsg n.toNat r []

/-- what a client sends as the MPUB body (after the 4-byte total size) -/
def mpubBody (bs : List Bytes) : Bytes := beBytes 4 bs.length ++ (bs.map lp).flatten

/-- MPUB as a whole on a topic queue: the batch is enqueued only after a complete parse -/
def mpubCmd (q : List Bytes) (s : Bytes) (maxMsg maxBody : Int) : List Bytes × Option MpubErr :=
  match readMPUB s maxMsg maxBody with
  | .ok (bs, _) => (q ++ bs, none)
  | .error e => (q, some e)

/-! ### text /mpub -/

/-- `bufio.Reader.ReadBytes('\n')`: the block up to and including the first newline (or all that
is left), the rest, and whether EOF was hit -/
def readBlock : Bytes → Bytes × Bytes × Bool
  | [] => ([], [], true)
  | c :: s =>
    if c = 10 then ([c], s, false)
    else ((c :: (readBlock s).1), (readBlock s).2.1, (readBlock s).2.2)

theorem readBlock_rest_le (s : Bytes) : (readBlock s).2.1.length ≤ s.length := by
  induction s with
  | nil => simp [readBlock]
  | cons c s ih => unfold readBlock; split <;> simp <;> omega

theorem readBlock_rest_lt (s : Bytes) (h : (readBlock s).2.2 = false) :
    (readBlock s).2.1.length < s.length := by
  induction s with
  | nil => simp [readBlock] at h
  | cons c s ih =>
    unfold readBlock at h ⊢
    split
    · simp
    · simp only [List.length_cons]
      have := readBlock_rest_le s
      omega

inductive TextErr
  | bodyTooBig | msgTooBig
deriving DecidableEq, Repr

/-- strip one trailing '\n' -/
def stripNL (b : Bytes) : Bytes :=
  if b.getLast? = some 10 then b.dropLast else b

/-- the text-mode loop of `doMPUB` over the bytes the limit reader yields -/
def textLoop (maxMsg readMax : Nat) (s : Bytes) (total : Nat) (acc : List Bytes) :
    Except TextErr (List Bytes) :=
  if total + (readBlock s).1.length = readMax then .error .bodyTooBig
  else if (stripNL (readBlock s).1).isEmpty then
    (if h : (readBlock s).2.2 = true then .ok acc
     else textLoop maxMsg readMax (readBlock s).2.1 (total + (readBlock s).1.length) acc)
  else if (stripNL (readBlock s).1).length > maxMsg then .error .msgTooBig
  else
    (if h : (readBlock s).2.2 = true then .ok (acc ++ [stripNL (readBlock s).1])
     else textLoop maxMsg readMax (readBlock s).2.1 (total + (readBlock s).1.length)
            (acc ++ [stripNL (readBlock s).1]))
termination_by s.length
decreasing_by
  all_goals exact readBlock_rest_lt s (by simpa using h)

/-- text `/mpub`: `io.LimitReader(body, MaxBodySize+1)` then the loop -/
def textMpub (body : Bytes) (maxMsg maxBody : Nat) : Except TextErr (List Bytes) :=
  textLoop maxMsg (maxBody + 1) (body.take (maxBody + 1)) 0 []

/-- `doMPUB` text mode as seen over HTTP: with a known `Content-Length` the header is checked
first (`req.ContentLength > MaxBodySize` → 413 BODY_TOO_BIG) -/
def textMpubHttp (contentLengthKnown : Bool) (body : Bytes) (maxMsg maxBody : Nat) :
    Except TextErr (List Bytes) :=
  if contentLengthKnown && body.length > maxBody then .error .bodyTooBig
  else textMpub body maxMsg maxBody

/-- reference splitter: the pieces between newlines (like `bytes.Split(body, "\n")`) -/
def splitNL : Bytes → List Bytes
  | [] => [[]]
  | c :: s =>
    if c = 10 then [] :: splitNL s
    else match splitNL s with
      | [] => [[c]]
      | hd :: tl => (c :: hd) :: tl

/-! ### HTTP /pub body -/

inductive PubErr
  | tooBig | empty
deriving DecidableEq, Repr

/-- `doPUB`: `req.ContentLength > MaxMsgSize` → 413; `io.ReadAll(io.LimitReader(req.Body, MaxMsgSize+1))`;
`len(body) == MaxMsgSize+1` → 413 MSG_TOO_BIG; `len(body) == 0` → 400 MSG_EMPTY; else the body published -/
def httpPub (contentLengthKnown : Bool) (body : Bytes) (maxMsg : Nat) : Except PubErr Bytes :=
  if contentLengthKnown && body.length > maxMsg then .error .tooBig
  else if (body.take (maxMsg + 1)).length = maxMsg + 1 then .error .tooBig
  else if (body.take (maxMsg + 1)).isEmpty then .error .empty
  else .ok (body.take (maxMsg + 1))

/-! ### diskqueue records -/

/-- go-diskqueue `writeOne`: 4-byte length + data (assumed behaviour of the library) -/
def dqRecord (d : Bytes) : Bytes := lp d

/-- go-diskqueue `readOne` over a file image: `none` on a short / corrupt record -/
def dqRead (minSz maxSz : Nat) (s : Bytes) : Option (Bytes × Bytes) :=
  if s.length < 4 then none
  else if int32Of (beVal (s.take 4)) < minSz ∨ int32Of (beVal (s.take 4)) > maxSz then none
  else if (s.drop 4).length < beVal (s.take 4) then none
  else some ((s.drop 4).take (beVal (s.take 4)), s.drop (4 + beVal (s.take 4)))

/-! ### output writer stack -/

/-- one `bufio.Writer` of capacity `cap` over an underlying writer; `sink` is everything handed to
the underlying writer so far -/
structure BufW where
  cap : Nat
  buf : Bytes := []
  sink : Bytes := []
deriving DecidableEq, Repr

/-- `bufio.Writer.Write(p)`:
`for len(p) > Available() { if Buffered() == 0 { wr.Write(p) /* all of it */ } else { fill; Flush() } }; copy the rest`.
`fuel` bounds the loop (two rounds always suffice; see `Proofs.Wire.bufWrite_stream`). -/
def bufWriteLoop : Nat → BufW → Bytes → BufW
  | 0, w, p => { w with buf := w.buf ++ p }
  | fuel + 1, w, p =>
    if p.length > w.cap - w.buf.length then
      if w.buf.isEmpty then { w with sink := w.sink ++ p }       -- large write, empty buffer: direct
      else bufWriteLoop fuel { w with sink := w.sink ++ w.buf ++ p.take (w.cap - w.buf.length), buf := [] }
                        (p.drop (w.cap - w.buf.length))
    else { w with buf := w.buf ++ p }

def bufWrite (w : BufW) (p : Bytes) : BufW := bufWriteLoop 2 w p

/-- `bufio.Writer.Flush()` -/
def bufFlush (w : BufW) : BufW := { w with sink := w.sink ++ w.buf, buf := [] }

/-- the server side of one connection. `layers` lists, oldest first, the plaintext handed to each
successive transport stack (plain TCP, then TLS, then TLS+compression, …): a new entry starts
whenever the writer is re-created on a new underlying transport. `w.sink` is the plaintext
handed to the current stack. -/
structure Conn where
  w : BufW
  closedLayers : List Bytes := []
  subscribed : Bool := false
  sent : List Frame := []          -- every frame passed to `Send`, in order (ghost)
deriving Repr

inductive ConnOp
  | sendResponse (f : Frame)        -- `Send` with a frame type ≠ message: write + `Flush`
  | sendMessage (f : Frame)         -- `Send` with frameTypeMessage: write only
  | flush                           -- `client.Flush()` (ticker / flusher)
  | setOutputBuffer (size : Nat)    -- IDENTIFY output_buffer_size ≠ 0: `Flush`, then a new writer on the same stack
  | upgrade (size : Nat)            -- UpgradeTLS / UpgradeSnappy / UpgradeDeflate: a new writer on a NEW stack (no flush)
  | subscribe                       -- SUB accepted: state leaves `init`
deriving Repr

def frameBytes (f : Frame) : Bytes := encodeFrame f

/-- `SendFramedResponse` = three `Write`s -/
def writeFrame (w : BufW) (f : Frame) : BufW :=
  bufWrite (bufWrite (bufWrite w (beBytes 4 (f.data.length + 4))) (beBytes 4 f.ftype.toNat)) f.data

/-- One protocol action. IDENTIFY (hence `setOutputBuffer`/`upgrade`) is only accepted in state
`init`, message frames are only sent to subscribed clients: outside these the op is refused
(no effect), exactly as `protocolV2.IDENTIFY` / `messagePump` do. -/
def connStep (c : Conn) : ConnOp → Conn
  | .sendResponse f => { c with w := bufFlush (writeFrame c.w f), sent := c.sent ++ [f] }
  | .sendMessage f =>
    if c.subscribed then { c with w := writeFrame c.w f, sent := c.sent ++ [f] } else c
  | .flush => { c with w := bufFlush c.w }
  | .setOutputBuffer size =>
    if c.subscribed then c
    else { c with w := { cap := size, buf := [], sink := (bufFlush c.w).sink } }
  | .upgrade size =>
    if c.subscribed then c
    else { c with w := { cap := size, buf := [], sink := [] },
                  closedLayers := c.closedLayers ++ [c.w.sink] }
  | .subscribe => { c with subscribed := true }

def connRun (c : Conn) (ops : List ConnOp) : Conn := ops.foldl connStep c

/-- all plaintext handed to the transports, in order, plus what still sits in the buffer -/
def Conn.stream (c : Conn) : Bytes := c.closedLayers.flatten ++ c.w.sink ++ c.w.buf

/-! ### pooled encode buffers and per-channel copies -/

/-- `SendMessage` / `writeMessageToBackend` with a pooled `bytes.Buffer` whose current content
is `buf`: what is handed on, and the content of the buffer when it is returned to the pool
(`bufferPoolPut` resets it). -/
def withPooledBuffer (buf : Bytes) (m : Msg) : Bytes × Bytes := (buf ++ encode m, [])

/-- a pool is a bag of buffers; `get` takes any of them or a fresh empty one -/
def poolRun : List Bytes → List (Nat × Msg) → List Bytes × List Bytes
  | pool, [] => (pool, [])
  | pool, (k, m) :: rest =>
    let buf := match pool[k]? with            -- a fresh `bytes.Buffer` is empty
      | some b => b
      | none => []
    let r := withPooledBuffer buf m
    let out := poolRun (r.2 :: pool.eraseIdx k) rest
    (out.1, r.1 :: out.2)

/-- `Topic.messagePump`: the message given to channel `i` (`i = 0`: the message itself;
`i > 0`: `NewMessage(msg.ID, msg.Body)` + `Timestamp`) -/
def fanout (m : Msg) (n : Nat) : List Msg :=
  (List.range n).map fun i => if i = 0 then m else { ts := m.ts, attempts := 0, id := m.id, body := m.body }

end Nsq.Model.Wire
