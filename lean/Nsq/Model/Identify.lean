import Nsq.Model.ProtoV2
/-
IDENTIFY, field by field (round 6): `identifyDataV2` → `clientV2.Identify` (metadata, then the four
setters *with their partial effect when a later one fails*) → feature negotiation in
`protocolV2.IDENTIFY` (`tls_v1`, `deflate` + level clamp, `snappy`, snappy/deflate exclusivity) →
the response document. `Nsq.Model.ProtoV2.identify` keeps the coarse view (reply class, final
connection state); `Proofs.Identify.identify_agrees` connects the two.

The JSON decoder itself (`encoding/json` on `identifyDataV2`) stays outside: the fields below are
its *result* (the harness decodes with the real package and hands the values over as the op).
Core Lean only.
-/
namespace Nsq.Model.Identify
open Nsq.Model.ProtoV2 Nsq.Model.Names

/-- `ClientID`, `Hostname`, `UserAgent`, `TopologyRegion`, `TopologyZone` (stored under `metaLock`). -/
structure Meta where
  clientID : Bytes
  hostname : Bytes
  userAgent : Bytes
  region : Bytes
  zone : Bytes
deriving DecidableEq, Repr

/-- Every field of `identifyDataV2`. -/
structure IdFull where
  d : IdentifyData
  deflateLevel : Int
  info : Meta
deriving DecidableEq, Repr

/-- The part of `clientV2` IDENTIFY writes. -/
structure Client where
  info : Meta
  conn : ConnState
deriving DecidableEq, Repr

/-- Options that only the negotiation reads. -/
structure NConf where
  maxDeflateLevel : Int         -- validated by `nsqd.New`: 1 … 9
  maxMsgTimeoutMs : Int         -- int64(MaxMsgTimeout / time.Millisecond)
  authRequired : Bool           -- IsAuthEnabled()
deriving DecidableEq, Repr

/-- `SetOutputBuffer(size, timeout)`: first the timeout switch, then the size switch; an invalid
size leaves the timeout already written. Returns (OutputBufferSize, OutputBufferTimeout, ok). -/
def setOutputBufferP (conf : Conf) (curSize curT dSize dT : Int) : Int × Int × Bool :=
  if dT = -1 then
    (if dSize = -1 then (1, 0, true)
     else if dSize = 0 then (curSize, 0, true)
     else if dSize ≥ 64 ∧ dSize ≤ conf.maxObSize then (dSize, 0, true)
     else (curSize, 0, false))
  else if dT = 0 then
    (if dSize = -1 then (1, 0, true)
     else if dSize = 0 then (curSize, curT, true)
     else if dSize ≥ 64 ∧ dSize ≤ conf.maxObSize then (dSize, curT, true)
     else (curSize, curT, false))
  else if dT ≥ conf.minObtMs ∧ dT ≤ conf.maxObtMs then
    (if dSize = -1 then (1, 0, true)
     else if dSize = 0 then (curSize, dT * 1000000, true)
     else if dSize ≥ 64 ∧ dSize ≤ conf.maxObSize then (dSize, dT * 1000000, true)
     else (curSize, dT * 1000000, false))
  else (curSize, curT, false)

def withOb (s : ConnState) (hb : Int) (r : Int × Int × Bool) : ConnState :=
  { s with hbNs := hb, obSize := r.1, obtNs := r.2.1 }

/-- `clientV2.Identify`: the metadata always, then heartbeat, output buffer, sample rate, msg
timeout; the first invalid value stops the sequence and what was written before it stays. The
Bool says whether all four succeeded. -/
def identifySeq (conf : Conf) (c : Client) (x : IdFull) : Client × Bool :=
  match setHeartbeat conf c.conn.hbNs x.d.heartbeat with
  | none => (⟨x.info, c.conn⟩, false)
  | some hb =>
    if (setOutputBufferP conf c.conn.obSize c.conn.obtNs x.d.outBufSize x.d.outBufTimeout).2.2 = false then
      (⟨x.info, withOb c.conn hb (setOutputBufferP conf c.conn.obSize c.conn.obtNs x.d.outBufSize x.d.outBufTimeout)⟩, false)
    else if x.d.sampleRate < 0 ∨ x.d.sampleRate > 99 then
      (⟨x.info, withOb c.conn hb (setOutputBufferP conf c.conn.obSize c.conn.obtNs x.d.outBufSize x.d.outBufTimeout)⟩, false)
    else
      match setMsgTimeout conf c.conn.msgTimeoutNs x.d.msgTimeout with
      | none =>
        (⟨x.info, { withOb c.conn hb (setOutputBufferP conf c.conn.obSize c.conn.obtNs x.d.outBufSize x.d.outBufTimeout)
                    with sampleRate := x.d.sampleRate }⟩, false)
      | some mt =>
        (⟨x.info, { withOb c.conn hb (setOutputBufferP conf c.conn.obSize c.conn.obtNs x.d.outBufSize x.d.outBufTimeout)
                    with sampleRate := x.d.sampleRate, msgTimeoutNs := mt }⟩, true)

/-- What was negotiated. -/
structure Negot where
  tlsv1 : Bool
  deflate : Bool
  deflateLevel : Int
  snappy : Bool
deriving DecidableEq, Repr

/-- `deflateLevel := 6; if deflate && want > 0 { = want }; if max < level { = max }`. -/
def clampLevel (max : Int) (deflate : Bool) (want : Int) : Int :=
  if max < (if deflate && want > 0 then want else 6) then max
  else (if deflate && want > 0 then want else 6)

def negotiate (conf : Conf) (nc : NConf) (x : IdFull) : Negot :=
  { tlsv1 := conf.tlsConfigured && x.d.tlsv1,
    deflate := conf.deflateEnabled && x.d.deflate,
    deflateLevel := clampLevel nc.maxDeflateLevel (conf.deflateEnabled && x.d.deflate) x.deflateLevel,
    snappy := conf.snappyEnabled && x.d.snappy }

/-- The response document of a feature-negotiating IDENTIFY (`version` and the two topology
strings are option echoes and left out). Durations in milliseconds, Go's truncating division. -/
structure Resp where
  maxRdyCount : Int
  maxMsgTimeout : Int
  msgTimeout : Int
  tlsv1 : Bool
  deflate : Bool
  deflateLevel : Int
  maxDeflateLevel : Int
  snappy : Bool
  sampleRate : Int
  authRequired : Bool
  outputBufferSize : Int
  outputBufferTimeout : Int
deriving DecidableEq, Repr

def respDoc (conf : Conf) (nc : NConf) (s : ConnState) (n : Negot) : Resp :=
  { maxRdyCount := conf.maxRdy, maxMsgTimeout := nc.maxMsgTimeoutMs,
    msgTimeout := Int.tdiv s.msgTimeoutNs 1000000,
    tlsv1 := n.tlsv1, deflate := n.deflate, deflateLevel := n.deflateLevel,
    maxDeflateLevel := nc.maxDeflateLevel, snappy := n.snappy, sampleRate := s.sampleRate,
    authRequired := nc.authRequired, outputBufferSize := s.obSize,
    outputBufferTimeout := Int.tdiv s.obtNs 1000000 }

inductive Outcome
  | badBody (c : Client)                     -- E_BAD_BODY (fatal); `c` = what had been written
  | ok (c : Client)                          -- plain `OK`, no negotiation
  | failed (c : Client)                      -- E_IDENTIFY_FAILED: snappy and deflate both negotiated
  | doc (c : Client) (r : Resp) (n : Negot)  -- the JSON document, then the upgrades in `n`
deriving DecidableEq, Repr

/-- `protocolV2.IDENTIFY` after the body was read and decoded (state `init`). -/
def identifyFull (conf : Conf) (nc : NConf) (c : Client) (x : IdFull) : Outcome :=
  if (identifySeq conf c x).2 = false then .badBody (identifySeq conf c x).1
  else if !x.d.featureNegotiation then .ok (identifySeq conf c x).1
  else if (negotiate conf nc x).deflate && (negotiate conf nc x).snappy then .failed (identifySeq conf c x).1
  else .doc (identifySeq conf c x).1 (respDoc conf nc (identifySeq conf c x).1.conn (negotiate conf nc x))
    (negotiate conf nc x)

end Nsq.Model.Identify
