/-
Model of the upstream HTTP helper internal/http_api/api_request.go (`Client.GETV1` / `POSTV1`): the request
loop with the "a 403 on plain HTTP may be retried on the announced HTTPS port" rule. Core Lean only.

  retry:
    resp := do(endpoint)
    if resp.StatusCode != 200 {
      if resp.StatusCode == 403 && !strings.HasPrefix(endpoint, "https") {
        endpoint, err = httpsEndpoint(endpoint, body); if err != nil { return err }; goto retry }
      return error }

The condition is evaluated on the *current* endpoint on every pass: after the switch to https it is false, so
the loop runs at most twice. Lean accepts the definition below only with that termination argument.
-/
namespace Nsq.Model.Fetch

structure Endpoint where
  https : Bool
  port : Nat
deriving DecidableEq, Repr

/-- What one request gets. `forbidden p`: a 403 whose body gives `https_port = p` (`none`: the body cannot be
used — not JSON, wrong type; an absent member reads as port 0). `error`: any other non-200 answer or a transport
error. -/
inductive Resp
  | ok
  | forbidden (httpsPort : Option Nat)
  | error
deriving DecidableEq, Repr

inductive Outcome
  | ok | failed
deriving DecidableEq, Repr

/-- `GETV1` / `POSTV1`: the outcome and the requests sent, in order. -/
def getV1 (srv : Endpoint → Resp) (e : Endpoint) : Outcome × List Endpoint :=
  match srv e with
  | .ok => (.ok, [e])
  | .error => (.failed, [e])
  | .forbidden p =>
    if h : e.https then (.failed, [e])
    else
      match p with
      | none => (.failed, [e])
      | some port =>
        let r := getV1 srv { https := true, port := port }
        (r.1, e :: r.2)
termination_by (if e.https then 0 else 1)
decreasing_by simp_all

/-- The same loop with the upgrade condition computed once, before the loop (`plain`), run for at most `fuel`
passes — the shape of a change that makes the loop endless. -/
def getV1Stale (srv : Endpoint → Resp) (plain : Bool) : Nat → Endpoint → Outcome × List Endpoint
  | 0, _ => (.failed, [])
  | fuel + 1, e =>
    match srv e with
    | .ok => (.ok, [e])
    | .error => (.failed, [e])
    | .forbidden p =>
      if !plain then (.failed, [e])
      else
        match p with
        | none => (.failed, [e])
        | some port =>
          let r := getV1Stale srv plain fuel { https := true, port := port }
          (r.1, e :: r.2)

/-- The behaviours of the harness' stub upstreams (`mode`, see harness/e7/view_test.go): what the plain port
(`port 1`) and the TLS twin (`port 2`) answer. -/
def stub (mode : Nat) (e : Endpoint) : Resp :=
  if e.port == 1 && !e.https then
    (if mode == 0 then .ok
     else if mode == 7 || mode == 8 then .forbidden (some 2)   -- 403, https_port = the TLS twin
     else if mode == 9 then .forbidden (some 3)                -- 403, https_port = a closed port
     else if mode == 10 then .forbidden (some 0)               -- 403 without https_port
     else if mode == 11 then .forbidden none                   -- 403 with an unusable https_port
     else .error)
  else if e.port == 2 && e.https then
    (if mode == 8 then .forbidden (some 2) else if 1 ≤ mode && mode ≤ 6 then .error else .ok)
  else .error

end Nsq.Model.Fetch
