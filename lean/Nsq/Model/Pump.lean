/-
E2 — `protocolV2.messagePump` of ONE connection at loop-iteration granularity, with the output
side of the connection: the `bufio.Writer` (`buf`: frames written, not yet flushed) and the socket
(`wire`: one inner list per `Write` call = per non-empty flush).

One iteration of the pump = `top` (the three-way `if` at the head of the loop: evaluate
`subChannel == nil || !client.IsReadyForMessages()`, arm / disarm the queue cases and
`flusherChan`, force a flush when not ready) followed by ONE `select` case:
`flushTick | readyState | subEvent | identify | heartbeat | recv | sampled | exit`.
Steps of other goroutines on the same connection interleave freely between them: `respond`
(`protocolV2.Send` of a response / error frame by the IOLoop: write + flush under `writeLock`),
`setRdy`, `setInFlight`, `setPaused` (the atomics the guard reads).

The model is an acceptor (docs/E2.md): the harness reports what the real pump did
(`proto.pump.afterGuard`, `proto.pump.afterRecv` hooks, every `Write` on the connection) and the
step function answers REJECT when that was not allowed in the model state.
Core Lean only (linked into drv_e2).
-/
namespace Nsq.Model.Pump

inductive Frame where
  | msg (n : Nat)       -- frameTypeMessage, numbered in the order the pump wrote them
  | resp                -- frameTypeResponse / frameTypeError written by the IOLoop
  | hb                  -- the heartbeat response written by the pump
deriving DecidableEq, Repr

def Frame.isMsg : Frame → Bool
  | .msg _ => true
  | _ => false

structure PState where
  /- locals of messagePump -/
  sub        : Bool := false      -- subChannel != nil
  subEvOpen  : Bool := true       -- subEventChan != nil (one-shot)
  idEvOpen   : Bool := true       -- identifyEventChan != nil (one-shot)
  flushed    : Bool := true
  tickOn     : Bool := true       -- outputBufferTicker is running (OutputBufferTimeout > 0)
  hbOn       : Bool := true       -- heartbeatChan != nil
  sample     : Nat  := 0          -- sampleRate
  qArmed     : Bool := false      -- memoryMsgChan / backendMsgChan != nil
  fArmed     : Bool := false      -- flusherChan != nil
  inSelect   : Bool := false      -- between `top` and the `select` case
  exited     : Bool := false
  /- what the guard reads -/
  rdy        : Int  := 0
  inFlight   : Int  := 0
  paused     : Bool := false
  /- output side -/
  buf        : List Frame := []
  wire       : List (List Frame) := []
  sent       : Nat := 0           -- number of message frames written so far
deriving DecidableEq, Repr

/-- `clientV2.IsReadyForMessages` -/
def ready (s : PState) : Bool := !s.paused && decide (0 < s.rdy) && decide (s.inFlight < s.rdy)

/-- `client.Flush()`: `bufio.Writer.Flush` issues one `Write` iff something is buffered -/
def flush (s : PState) : PState :=
  if s.buf.isEmpty then s else { s with wire := s.wire ++ [s.buf], buf := [] }

inductive Op where
  | top
  | flushTick
  | readyState
  | subEvent
  | identify (obPos hbPos : Bool) (sample : Nat)
  | heartbeat
  | recv
  | sampled
  | exit
  | respond
  | setRdy (n : Int)
  | setInFlight (n : Int)
  | setPaused (p : Bool)
deriving DecidableEq, Repr

inductive Out where
  | ok
  | reject (why : String)
deriving DecidableEq, Repr

def step (s : PState) : Op → PState × Out
  | .top =>
    if s.exited then (s, .reject "exited") else
    if s.inSelect then (s, .reject "in-select") else
    if !s.sub || !ready s then
      -- not ready: all queue cases and the flusher off, force flush
      ({ flush s with qArmed := false, fArmed := false, flushed := true, inSelect := true }, .ok)
    else if s.flushed then
      ({ s with qArmed := true, fArmed := false, inSelect := true }, .ok)
    else
      ({ s with qArmed := true, fArmed := true, inSelect := true }, .ok)
  | .flushTick =>
    if !s.inSelect then (s, .reject "not-in-select") else
    if !(s.fArmed && s.tickOn) then (s, .reject "flusher-off") else
    ({ flush s with flushed := true, inSelect := false }, .ok)
  | .readyState =>
    if !s.inSelect then (s, .reject "not-in-select") else ({ s with inSelect := false }, .ok)
  | .subEvent =>
    if !s.inSelect then (s, .reject "not-in-select") else
    if !s.subEvOpen then (s, .reject "sub-closed") else
    ({ s with sub := true, subEvOpen := false, inSelect := false }, .ok)
  | .identify obPos hbPos sample =>
    if !s.inSelect then (s, .reject "not-in-select") else
    if !s.idEvOpen then (s, .reject "identify-closed") else
    ({ s with idEvOpen := false, tickOn := obPos, hbOn := hbPos,
              sample := if sample > 0 then sample else s.sample, inSelect := false }, .ok)
  | .heartbeat =>
    if !s.inSelect then (s, .reject "not-in-select") else
    if !s.hbOn then (s, .reject "heartbeat-off") else
    -- p.Send(client, frameTypeResponse, heartbeatBytes): write, then Flush (not a message frame)
    ({ flush { s with buf := s.buf ++ [.hb] } with inSelect := false }, .ok)
  | .recv =>
    if !s.inSelect then (s, .reject "not-in-select") else
    if !s.qArmed then (s, .reject "queues-off") else
    -- SendingMessage, StartInFlightTimeout, SendMessage (buffered, no flush), flushed = false
    ({ s with buf := s.buf ++ [.msg s.sent], sent := s.sent + 1, inFlight := s.inFlight + 1,
              flushed := false, inSelect := false }, .ok)
  | .sampled =>
    if !s.inSelect then (s, .reject "not-in-select") else
    if !s.qArmed then (s, .reject "queues-off") else
    if s.sample == 0 then (s, .reject "no-sampling") else
    ({ s with inSelect := false }, .ok)
  | .exit =>
    if !s.inSelect then (s, .reject "not-in-select") else ({ s with exited := true, inSelect := false }, .ok)
  | .respond =>
    -- IOLoop: Send(frameTypeResponse | frameTypeError): write + Flush under writeLock
    (flush { s with buf := s.buf ++ [.resp] }, .ok)
  | .setRdy n => ({ s with rdy := n }, .ok)
  | .setInFlight n => ({ s with inFlight := n }, .ok)
  | .setPaused p => ({ s with paused := p }, .ok)

def run (s : PState) : List Op → PState
  | [] => s
  | op :: ops => run (step s op).1 ops

/-- everything written so far, in order: the socket, then the buffer -/
def written (s : PState) : List Frame := s.wire.flatten ++ s.buf

/-- the message frames that reached the socket -/
def wireMsgs (s : PState) : List Frame := s.wire.flatten.filter Frame.isMsg


/-! ### the observation acceptor (used by the driver; not part of the theorems)

The harness reports `top` / `recv` (hooks) and every `Write` on the connection in real order. The
select cases without a hook are inferred: a `top` while the model still sits in the select means the
pump took a case without output (`subEvent` / `identify` if one is pending, else `readyState` — the
flusher tick on an empty buffer is indistinguishable and has no visible effect); a `Write` is
explained by a response of the IOLoop, a heartbeat, the flusher tick, or the forced flush of the NEXT
guard evaluation (the real `Write` precedes the `afterGuard` hook). Anything else: REJECT. -/

structure Acc where
  s           : PState := {}
  pendingResp : Nat := 0
  subPend     : Bool := false
  idPend      : Option (Bool × Bool × Nat) := none
  preTop      : Bool := false
deriving Repr

def silent (a : Acc) : Acc :=
  if a.subPend then { a with s := (step a.s .subEvent).1, subPend := false }
  else match a.idPend with
    | some (ob, hb, sm) => { a with s := (step a.s (.identify ob hb sm)).1, idPend := none }
    | none => { a with s := (step a.s .readyState).1 }

def kindOf : Frame → String
  | .msg _ => "M"
  | .resp => "R"
  | .hb => "H"

def obsTop (a : Acc) : Acc × String :=
  if a.preTop then ({ a with preTop := false }, "ok") else
  let a1 := if a.s.inSelect then silent a else a
  match step a1.s .top with
  | (_, .reject w) => (a, "REJECT " ++ w)
  | (s', .ok) =>
    if s'.wire.length != a1.s.wire.length then (a, "REJECT missing-forced-flush-write")
    else ({ a1 with s := s' }, "ok")

def obsRecv (a : Acc) : Acc × String :=
  match step a.s .recv with
  | (s', .ok) => ({ a with s := s' }, "ok")
  | (_, .reject w) => (a, "REJECT " ++ w)

def obsWrite (a : Acc) (shape : List String) : Acc × String :=
  let bk := a.s.buf.map kindOf
  if shape == bk ++ ["R"] then
    if a.pendingResp == 0 then (a, "REJECT unexpected-response")
    else ({ a with s := (step a.s .respond).1, pendingResp := a.pendingResp - 1 }, "ok")
  else if shape == bk ++ ["H"] then
    match step a.s .heartbeat with
    | (s', .ok) => ({ a with s := s' }, "ok")
    | (_, .reject w) => (a, "REJECT " ++ w)
  else if shape == bk && !bk.isEmpty then
    match step a.s .flushTick with
    | (s', .ok) => ({ a with s := s' }, "ok")
    | _ =>
      let a1 := if a.s.inSelect then silent a else a
      if a1.preTop then (a, "REJECT unexplained-write") else
      match step a1.s .top with
      | (s', .ok) =>
        if s'.wire.length == a1.s.wire.length + 1 then ({ a1 with s := s', preTop := true }, "ok")
        else (a, "REJECT unexplained-write")
      | _ => (a, "REJECT unexplained-write")
  else (a, "REJECT write-is-not-the-buffer:" ++ ",".intercalate bk)

def obsSettle (a : Acc) : String :=
  if a.pendingResp != 0 then "PENDING response"
  else if a.preTop then "PENDING top"
  else s!"quiet buf={a.s.buf.length} insel={if a.s.inSelect then 1 else 0} sent={a.s.sent}"

end Nsq.Model.Pump
