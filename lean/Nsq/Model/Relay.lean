import Nsq.Model.Line
/-
Models of the two relay handlers (DESIGN.md §5 C20). Core Lean only (linked into drv_e8).

* `Http`  — apps/nsq_to_http: `PublishHandler.HandleMessage` with `PostPublisher` / `GetPublisher`,
  modes all / round-robin / hostpool, sampling; followed by go-nsq's `handlerLoop` rule
  (`err != nil → Requeue(-1)`, `nil → Finish()`; auto-response is never disabled by this tool).
* `N2N`   — apps/nsq_to_nsq: `PublishHandler.HandleMessage` (optional JSON filter, `PublishAsync`,
  `DisableAutoResponse`) and `responder` (transaction result → `Finish` / `Requeue(-1)`).

The destination is arbitrary: for HTTP each request gets `resp addr : Option Nat` (status code, or
`none` = transport error / timeout / stall); for nsq_to_nsq `PublishAsync` either fails at once
(`asyncErr`) or its transaction later completes with `ok : Bool`. Runtime choices (hostpool pick,
sampling draw, which outstanding transaction completes next) are inputs: the model is an acceptor.
-/
namespace Nsq.Model.Relay

abbrev Bytes := List UInt8

inductive Mode | all | roundRobin | hostPool
deriving DecidableEq, Repr

inductive Out
  | request (addr : Nat) (body : Bytes) (accepted : Bool)   -- HTTP request sent, destination's verdict
  | publish (addr : Nat) (id : Nat) (body : Bytes)          -- PublishAsync queued a PUB to destination addr
  | accepted (addr : Nat) (id : Nat)                         -- destination answered OK to that PUB
  | rejected (addr : Nat) (id : Nat)                         -- destination answered with an error / connection lost
  | fin (id : Nat)
  | req (id : Nat)
  | panic
deriving DecidableEq, Repr

structure Msg where
  id : Nat
  body : Bytes
deriving DecidableEq, Repr

namespace Http

structure Cfg where
  mode : Mode
  naddr : Nat
  post : Bool          -- PostPublisher (2xx accepted) / GetPublisher (200 accepted)
  sampling : Bool      -- *sample < 1.0
deriving DecidableEq, Repr

/-- `resp.StatusCode < 200 || resp.StatusCode >= 300` (POST), `resp.StatusCode != 200` (GET);
a transport error is an error -/
def accepts (post : Bool) (r : Option Nat) : Bool :=
  match r with
  | none => false
  | some c => if post then decide (200 ≤ c) && decide (c < 300) else decide (c = 200)

/-- `for _, addr := range ph.addresses { err := ph.Publish(addr, m.Body); if err != nil { return err } }` -/
def sendAll (post : Bool) (body : Bytes) (resp : Nat → Option Nat) : List Nat → List Out × Bool
  | [] => ([], true)
  | a :: as =>
    if accepts post (resp a) then
      (Out.request a body true :: (sendAll post body resp as).1, (sendAll post body resp as).2)
    else ([Out.request a body false], false)

/-- what one call of `HandleMessage` does: new round-robin counter, requests made, `err == nil` -/
def handle (c : Cfg) (counter : Nat) (m : Msg) (sampledOut : Bool) (pick : Nat) (resp : Nat → Option Nat) :
    Nat × List Out × Option Bool :=
  if c.sampling ∧ sampledOut then (counter, [], some true)
  else if c.mode = .all then
    (counter, (sendAll c.post m.body resp (List.range c.naddr)).1, some (sendAll c.post m.body resp (List.range c.naddr)).2)
  else if c.mode = .roundRobin then
    if c.naddr = 0 then (counter + 1, [Out.panic], none)     -- integer divide by zero
    else (counter + 1, [Out.request ((counter + 1) % c.naddr) m.body (accepts c.post (resp ((counter + 1) % c.naddr)))],
          some (accepts c.post (resp ((counter + 1) % c.naddr))))
  else
    (counter, [Out.request pick m.body (accepts c.post (resp pick))], some (accepts c.post (resp pick)))

/-- `HandleMessage` followed by go-nsq's response rule -/
def step (c : Cfg) (counter : Nat) (m : Msg) (sampledOut : Bool) (pick : Nat) (resp : Nat → Option Nat) :
    Nat × List Out :=
  match (handle c counter m sampledOut pick resp).2.2 with
  | none => ((handle c counter m sampledOut pick resp).1, (handle c counter m sampledOut pick resp).2.1)
  | some true => ((handle c counter m sampledOut pick resp).1, (handle c counter m sampledOut pick resp).2.1 ++ [Out.fin m.id])
  | some false => ((handle c counter m sampledOut pick resp).1, (handle c counter m sampledOut pick resp).2.1 ++ [Out.req m.id])

structure In where
  m : Msg
  sampledOut : Bool
  pick : Nat
  resp : Nat → Option Nat

def run (c : Cfg) (counter : Nat) : List In → List Out
  | [] => []
  | i :: is => (step c counter i.m i.sampledOut i.pick i.resp).2 ++ run c (step c counter i.m i.sampledOut i.pick i.resp).1 is

/-- the tool as shipped: go-nsq `handlerLoop` first applies `shouldFailMessage`
(`MaxAttempts > 0 && Attempts > MaxAttempts` → `Finish()` without calling the handler; main() uses the
default max_attempts = 5) -/
def shouldFail (maxAttempts attempts : Nat) : Bool := decide (maxAttempts > 0) && decide (attempts > maxAttempts)

def consume (c : Cfg) (maxAttempts attempts : Nat) (counter : Nat) (m : Msg) (sampledOut : Bool) (pick : Nat)
    (resp : Nat → Option Nat) : Nat × List Out :=
  if shouldFail maxAttempts attempts then (counter, [Out.fin m.id]) else step c counter m sampledOut pick resp

end Http

namespace N2N

/-- result of the optional JSON stage (`json.Unmarshal`, `shouldPassMessage`, `filterMessage`) -/
inductive Filter
  | drop               -- not JSON / required field absent or different: `return nil` (message finished, not forwarded)
  | backoff            -- required field missing while a value is required: `return errors.New("backoff")`
  | marshalErr         -- `filterMessage` failed: `return err`
  | pass (body : Bytes)
deriving DecidableEq, Repr

structure Cfg where
  roundRobin : Bool    -- ModeRoundRobin / ModeHostPool
  naddr : Nat
  filterOn : Bool      -- --require-json-field or --whitelist-json-field given
deriving DecidableEq, Repr

structure Tx where
  addr : Nat
  id : Nat
  body : Bytes
deriving DecidableEq, Repr

structure St where
  counter : Nat
  outstanding : List Tx
deriving DecidableEq, Repr

inductive Ev
  /-- `HandleMessage(m)`; `filter` is consulted only when a filter is configured; `pick` = hostpool choice;
  `asyncErr` = `PublishAsync` returned an error at once -/
  | msg (m : Msg) (filter : Filter) (pick : Nat) (asyncErr : Bool)
  /-- the `i`-th outstanding transaction arrives on `respChan` with `t.Error == nil` iff `ok` -/
  | result (i : Nat) (ok : Bool)

def publishTo (c : Cfg) (st : St) (m : Msg) (body : Bytes) (pick : Nat) (asyncErr : Bool) : St × List Out :=
  if c.roundRobin ∧ c.naddr = 0 then ({ st with counter := st.counter + 1 }, [Out.panic])
  else if asyncErr then
    ({ st with counter := if c.roundRobin then st.counter + 1 else st.counter }, [Out.req m.id])
  else
    ({ counter := if c.roundRobin then st.counter + 1 else st.counter,
       outstanding := st.outstanding ++ [⟨if c.roundRobin then (st.counter + 1) % c.naddr else pick, m.id, body⟩] },
     [Out.publish (if c.roundRobin then (st.counter + 1) % c.naddr else pick) m.id body])

def step (c : Cfg) (st : St) (ev : Ev) : St × List Out :=
  match ev with
  | .msg m filter pick asyncErr =>
    if c.filterOn = false then publishTo c st m m.body pick asyncErr
    else match filter with
      | .drop => (st, [Out.fin m.id])
      | .backoff => (st, [Out.req m.id])
      | .marshalErr => (st, [Out.req m.id])
      | .pass body => publishTo c st m body pick asyncErr
  | .result i ok =>
    match st.outstanding[i]? with
    | none => (st, [])
    | some tx =>
      ({ st with outstanding := st.outstanding.eraseIdx i },
       if ok then [Out.accepted tx.addr tx.id, Out.fin tx.id] else [Out.rejected tx.addr tx.id, Out.req tx.id])

def run (c : Cfg) (st : St) : List Ev → List Out
  | [] => []
  | e :: es => (step c st e).2 ++ run c (step c st e).1 es

def runSt (c : Cfg) (st : St) : List Ev → St
  | [] => st
  | e :: es => runSt c (step c st e).1 es

end N2N

/-! ### driver -/
open Nsq.Line

def outStr : Out → String
  | .request a b ok => s!"request:{a}:{hex b}:{if ok then 1 else 0}"
  | .publish a id b => s!"publish:{a}:{id}:{hex b}"
  | .accepted a id => s!"accepted:{a}:{id}"
  | .rejected a id => s!"rejected:{a}:{id}"
  | .fin id => s!"fin:{id}"
  | .req id => s!"req:{id}"
  | .panic => "panic"

def outsStr (os : List Out) : String := " ".intercalate (os.map outStr)

def modeOf (s : String) : Option Mode :=
  if s = "all" then some .all else if s = "rr" then some .roundRobin else if s = "hp" then some .hostPool else none

def b01 (s : String) : Option Bool := if s = "1" then some true else if s = "0" then some false else none

/-- comma separated status codes, `x` = transport error -/
def respOf (s : String) : Nat → Option Nat :=
  let xs := (s.splitOn ",").map (fun w => w.toNat?)
  fun i => match xs[i]? with | some r => r | none => none

def filterOf (s : String) : Option N2N.Filter :=
  if s = "drop" then some .drop else if s = "backoff" then some .backoff
  else if s = "marshalErr" then some .marshalErr
  else if s.startsWith "pass:" then (unhex (s.drop 5).toString).map N2N.Filter.pass else none

/-- stateless: the state is part of the op (read off the real handler by the harness) -/
def driverLine (ws : List String) : String :=
  match ws with
  | ["http", mode, naddr, post, sampling, counter, id, body, sampled, pick, resp] =>
    match modeOf mode, naddr.toNat?, b01 post, b01 sampling, counter.toNat?, id.toNat?, unhex body, b01 sampled, pick.toNat? with
    | some mode, some naddr, some post, some sampling, some counter, some id, some body, some sampled, some pick =>
      let r := Http.step ⟨mode, naddr, post, sampling⟩ counter ⟨id, body⟩ sampled pick (respOf resp)
      s!"counter={r.1} {outsStr r.2}"
    | _, _, _, _, _, _, _, _, _ => "bad-op"
  | ["n2n-msg", rr, naddr, filterOn, counter, id, body, filter, pick, asyncErr] =>
    match b01 rr, naddr.toNat?, b01 filterOn, counter.toNat?, id.toNat?, unhex body, filterOf filter, pick.toNat?, b01 asyncErr with
    | some rr, some naddr, some filterOn, some counter, some id, some body, some filter, some pick, some asyncErr =>
      let r := N2N.step ⟨rr, naddr, filterOn⟩ ⟨counter, []⟩ (.msg ⟨id, body⟩ filter pick asyncErr)
      s!"counter={r.1.counter} {outsStr r.2}"
    | _, _, _, _, _, _, _, _, _ => "bad-op"
  | ["n2n-result", addr, id, body, ok] =>
    match addr.toNat?, id.toNat?, unhex body, b01 ok with
    | some addr, some id, some body, some ok =>
      let r := N2N.step ⟨true, 1, false⟩ ⟨0, [⟨addr, id, body⟩]⟩ (.result 0 ok)
      s!"left={r.1.outstanding.length} {outsStr r.2}"
    | _, _, _, _ => "bad-op"
  | _ => "bad-op"

end Nsq.Model.Relay
