import Nsq.Model.Guid
/-!
`Topic.GenerateID` called repeatedly (one call per accepted message), each call meeting its own
list of clock readings while it retries. Core Lean only (linked into the driver: op `genids`).
-/
namespace Nsq.Model.GuidClock
open Nsq.Model.Guid

/-- the pseudo-millisecond of a `time.Now().UnixNano()` reading: `now >> 20` (arithmetic shift) -/
def tsOf (now : BitVec 64) : BitVec 64 := BitVec.sshiftRight now 20

/-- A sequence of `GenerateID` calls; call `j` sees the readings `clocks[j]` (all of them errors but,
if it returns, the last one looked at). Returns the ids handed out, in call order, and the final
state. A call whose readings run out without a success is still waiting: it contributes no id. -/
def genMany : St → List (List (BitVec 64)) → List (BitVec 64) × St
  | f, [] => ([], f)
  | f, c :: cs =>
    let r := generateID f c
    match r.2 with
    | some id => (id :: (genMany r.1 cs).1, (genMany r.1 cs).2)
    | none => ((genMany r.1 cs).1, (genMany r.1 cs).2)

/-- a factory as `NewGUIDFactory(node)` makes it (daemon start, topic creation) -/
def fresh (node : BitVec 64) : St := { nodeID := node, seq := 0#64, lastTs := 0#64, lastID := 0#64 }

/-- a clock reading (ns) inside pseudo-millisecond `ts` -/
def readingOf (ts : BitVec 64) : BitVec 64 := ts <<< 20

/-- Answer line of the driver op `genids <node> <seq> <lastTs> <lastID> <t0> <ts_1,…,ts_k>`: the factory
state `(node, seq, lastTs, lastID)`, then `k` `GenerateID` calls; call 1 first reads the clock at
`t0` (nanoseconds, before the call) and then in pseudo-millisecond `ts_1`, call `j > 1` reads it in
pseudo-millisecond `ts_j`. `blocked` when some call does not return on these readings. -/
def genidsAnswer (node seq lastTs lastID t0 : BitVec 64) (tss : List (BitVec 64)) : String :=
  let f : St := { nodeID := node, seq := seq, lastTs := lastTs, lastID := lastID }
  let clocks : List (List (BitVec 64)) :=
    match tss with
    | [] => []
    | t :: rest => [t0, readingOf t] :: rest.map (fun t => [readingOf t])
  let r := genMany f clocks
  let ids := ",".intercalate (r.1.map (fun x => toString x.toInt))
  if r.1.length ≠ tss.length then s!"blocked after ids={ids}"
  else s!"ids={ids} {r.2.seq.toInt} {r.2.lastTs.toInt} {r.2.lastID.toInt}"

end Nsq.Model.GuidClock
