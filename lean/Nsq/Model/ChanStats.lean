/-
E2 — the `/stats` snapshot and its renderings (C13.5). `snapshot` is what `NSQD.GetStats("", "", true)`
assembles; `filterSnap` is the topic / channel / include_clients selection of `GetStats`;
`rows` is what `doStats` prints per (topic, channel) key in JSON or text form (the text form shows
neither `message_bytes` nor `client_count`).
Core Lean only.
-/
import Nsq.Model.ChanNsqd
namespace Nsq.Model.ChanStats
open Nsq.Model.Chan Nsq.Model.ChanNsqd

inductive Fmt where
  | json | text
deriving DecidableEq, Repr

structure ClientRow where
  conn : Nat
  rdy : Int
  inFlight : Int
  msgs : Nat
  fin : Nat
  req : Nat
deriving DecidableEq, Repr

structure CStat where
  cid : Nat
  nums : List Int          -- depth, backend_depth, in_flight, deferred, message_count, requeue_count, timeout_count, paused
  nclients : Nat
  clients : List ClientRow
deriving DecidableEq, Repr

structure TStat where
  tid : Nat
  nums : List Int          -- depth, backend_depth, message_count, paused
  bytes : Nat
  chans : List CStat
deriving DecidableEq, Repr

structure Row where
  key : Nat × Option Nat
  nums : List Int
  jsonOnly : List Int
  clients : List ClientRow
deriving DecidableEq, Repr

def b2i (b : Bool) : Int := if b then 1 else 0

def chanStat (nc : NChan) : CStat :=
  let c := nc.ch
  { cid := nc.cid
    nums := [(c.memLen + c.dqLen : Nat), (c.dqLen : Nat), ((c.msgs.filter isInflight).length : Nat),
             ((c.msgs.filter isDeferred).length : Nat), (c.messageCount : Nat), (c.requeueCount : Nat),
             (c.timeoutCount : Nat), b2i c.paused]
    nclients := c.clients.length
    clients := c.clients.map (fun cl => ⟨cl.conn, cl.rdy, cl.inFlight, cl.msgCount, cl.finCount, cl.reqCount⟩) }

def topicStat (t : Topic) : TStat :=
  { tid := t.tid
    nums := [(t.queue.length : Nat), (dqLenT t : Nat), (t.msgCount : Nat), b2i t.paused]
    bytes := t.msgBytes
    chans := t.chans.map chanStat }

def snapshot (s : State) : List TStat := s.topics.map topicStat

def stripClients (t : TStat) : TStat :=
  { t with chans := t.chans.map (fun c => { c with clients := [] }) }

/-- `GetStats(topic, channel, includeClients)` -/
def filterSnap (ft fc : Option Nat) (incl : Bool) (snap : List TStat) : List TStat :=
  let ts := match ft with
    | none => snap
    | some t => snap.filter (fun x => x.tid == t)
  let ts := match fc with
    | none => ts
    | some c => ts.filterMap (fun t =>
        if t.chans.any (fun x => x.cid == c) then some { t with chans := t.chans.filter (fun x => x.cid == c) } else none)
  if incl then ts else ts.map stripClients

def topicRow (fmt : Fmt) (t : TStat) : Row :=
  ⟨(t.tid, none), t.nums, if fmt = .json then [(t.bytes : Nat)] else [], []⟩

def chanRow (fmt : Fmt) (tid : Nat) (c : CStat) : Row :=
  ⟨(tid, some c.cid), c.nums, if fmt = .json then [(c.nclients : Nat)] else [], c.clients⟩

def rows (fmt : Fmt) (snap : List TStat) : List Row :=
  snap.flatMap (fun t => topicRow fmt t :: t.chans.map (chanRow fmt t.tid))

/-- what a rendering in format `fmt` with `include_clients = incl` shows of a full JSON row -/
def project (fmt : Fmt) (incl : Bool) (r : Row) : Row :=
  { r with jsonOnly := if fmt = .json then r.jsonOnly else [], clients := if incl then r.clients else [] }

end Nsq.Model.ChanStats
