import Nsq.Model.Meta
/-!
Executable glue between the correspondence harness (harness/meta) and the micro-step machine
`Nsq.Model.Meta.step`: each client-level operation is expanded into `Step`s (one admissible
schedule; by `Props.C06.deletion_full` the file of a quiet daemon does not depend on the schedule),
and the state a daemon loads after a SIGKILL is *accepted* iff it is a cut (Props.C06.snapshot_cut)
of the live states since the last completed synchronous persist. Core Lean only.
-/
namespace Nsq.Model.Meta
open Nsq.Model.FS

/-- toy byte strings: a document and, for a short write, how many bytes are present -/
abbrev B := Doc × Option Nat
def toyCodec : Codec B :=
  { marshal := fun d => (d, none), parse := fun b => if b.2.isNone then some b.1 else none,
    cut := fun k b => (b.1, some k) }

def runSteps (fix : Bool) (s : Sys B) : List Step → Sys B
  | [] => s
  | st :: rest =>
    match step toyCodec fix s st with
    | some s' => runSteps fix s' rest
    | none => runSteps fix s rest      -- a step that is not enabled is skipped (never happens for the expansions below)

/-- read until the snapshot is complete (at most `fuel` topics), then the rest of the protocol -/
def persistRest (fix : Bool) (r : Nat) : Nat → Sys B → Sys B
  | 0, s => s
  | fuel + 1, s =>
    match s.persist with
    | none => s
    | some p =>
      if p.phase = .reading then persistRest fix r fuel (runSteps fix s [.persist .read])
      else runSteps fix s [.persist (.openTmp r), .persist .writeRest, .persist .sync, .persist .rename, .persist .finish]

def runPersist (fix : Bool) (s : Sys B) : Sys B := persistRest fix s.taken.length (s.mem.length + 2) s

/-- run every queued synchronous persist to completion -/
def drainHandlers (fix : Bool) : Nat → Sys B → Sys B
  | 0, s => s
  | fuel + 1, s =>
    if s.handlers.isEmpty then s
    else drainHandlers fix fuel (runPersist fix (runSteps fix s [.persist (.beginHandler 0)]))

def drainNotifies (fix : Bool) : Nat → Sys B → Sys B
  | 0, s => s
  | fuel + 1, s =>
    if s.pending = 0 then s
    else drainNotifies fix fuel (runPersist fix (runSteps fix s [.persist .beginNotify]))

def drain (fix : Bool) (s : Sys B) : Sys B :=
  let s1 := drainHandlers fix (s.handlers.length + 1) s
  drainNotifies fix (s1.pending + 1) s1

def isEph (name : String) : Bool := name.endsWith "#ephemeral"

/-- map steps of one client operation (no persist steps) and the HTTP status -/
def opSteps (m : Mem) : List String → Option (List Step × Nat)
  | ["createtopic", t] =>
    some (if hasTopic m t then [] else [.mem (.createTopic t (isEph t))], 200)
  | ["createchan", t, c] =>
    match getTopic m t with
    | none => some ([], 404)
    | some tp => some (if (getChan tp c).isSome then [] else [.mem (.createChan t c (isEph c))], 200)
  | ["deletetopic", t] =>
    match getTopic m t with
    | none => some ([], 404)
    | some tp => some ([.mem (.delTopicBegin t)] ++ tp.chans.map (fun c => .mem (.delTopicChan t c.name)) ++
                       [.mem (.delTopicUnlink t)], 200)
  | ["deletechan", t, c] =>
    match getTopic m t with
    | none => some ([], 404)
    | some tp =>
      match getChan tp c with
      | none => some ([], 404)
      | some _ => some ([.mem (.delChanBegin t c), .mem (.delChanUnlink t c)], 200)
  | ["pausetopic", t, f] =>
    match getTopic m t with
    | none => some ([], 404)
    | some _ => some ([.mem (.pauseTopic t (f == "1"))], 200)
  | ["pausechan", t, c, f] =>
    match getTopic m t with
    | none => some ([], 404)
    | some tp =>
      match getChan tp c with
      | none => some ([], 404)
      | some _ => some ([.mem (.pauseChan t c (f == "1"))], 200)
  | _ => none

/-! ### canonical text -/

def insertBy {α : Type} (lt : α → α → Bool) (x : α) : List α → List α
  | [] => [x]
  | y :: ys => if lt x y then x :: y :: ys else y :: insertBy lt x ys
def sortBy {α : Type} (lt : α → α → Bool) (l : List α) : List α := l.foldr (insertBy lt) []

def canonTopic (t : TopicM) : TopicM :=
  { t with chans := sortBy (fun a b => decide (a.name < b.name)) t.chans }
def canonDoc (d : Doc) : Doc := sortBy (fun a b => decide (a.name < b.name)) (d.map canonTopic)

def bit (b : Bool) : String := if b then "1" else "0"
def showTopic (t : TopicM) : String :=
  t.name ++ ":" ++ bit t.paused ++ "[" ++ ",".intercalate (t.chans.map (fun c => c.name ++ ":" ++ bit c.paused)) ++ "]"
def showDoc (d : Doc) : String :=
  let c := canonDoc d
  if c.isEmpty then "-" else ";".intercalate (c.map showTopic)

def parseFlag (s : String) : Option Bool := if s = "1" then some true else if s = "0" then some false else none

def parseChan (s : String) : Option ChanM :=
  match s.splitOn ":" with
  | [n, f] => (parseFlag f).map (fun b => ⟨n, b⟩)
  | _ => none

def parseTopic (s : String) : Option TopicM :=
  match s.splitOn "[" with
  | [hd, tl] =>
    match hd.splitOn ":" with
    | [n, f] =>
      let body := (tl.dropRightWhile (· == ']'))
      let cs := if body.isEmpty then some [] else (body.splitOn ",").mapM parseChan
      match parseFlag f, cs with
      | some b, some cs => some ⟨n, b, cs⟩
      | _, _ => none
    | _ => none
  | _ => none

def parseDoc (s : String) : Option Doc :=
  if s = "-" then some [] else (s.splitOn ";").mapM parseTopic

/-! ### acceptor for the state loaded after a kill -/

/-- `obs` is a cut of the window: its topic set is the persisted topic set of one state of the window
and every entry is the persisted entry of that topic in some state of the window. -/
def allowedIn (window : List Mem) (obs : Doc) : Bool :=
  let o := canonDoc obs
  let docs := window.map (fun m => canonDoc (snap m))
  docs.any (fun d => d.map (·.name) == o.map (·.name)) &&
  o.all (fun e => docs.any (fun d => d.contains e))

end Nsq.Model.Meta
