/-
C04 (numeric half): how nsqd reads a delay / timeout written as text and turns it into a
`time.Duration` (int64 nanoseconds).

  internal/protocol/byte_base10.go  ByteToBase10
  nsqd/protocol_v2.go               msToDuration, REQ (clamp), DPUB (range)
  nsqd/http.go                      doPUB `defer=` (strconv.ParseInt + range in milliseconds)
  nsqd/client_v2.go                 SetMsgTimeout

Bytes are `BitVec 8`, Go `uint64`/`int64`/`time.Duration` are `BitVec 64` with the exact
wrap-around operations. Core Lean only (linked into the driver).
-/
namespace Nsq.Model.Num

abbrev Bytes := List (BitVec 8)

/-- `'0' <= d && d <= '9'` -/
def isDigit (d : BitVec 8) : Bool := BitVec.ule 48#8 d && BitVec.ule d 57#8

def maxUint64 : BitVec 64 := 18446744073709551615#64
def maxInt64 : BitVec 64 := 9223372036854775807#64

/-- the `for` loop of `ByteToBase10`; `none` = `errBase10` (the function then returns `0, err`) -/
def b10loop : Bytes → BitVec 64 → Option (BitVec 64)
  | [], n => some n
  | d :: tl, n =>
    if isDigit d then
      if BitVec.ult ((maxUint64 - BitVec.setWidth 64 (d - 48#8)) / 10#64) n then none
      else b10loop tl (n * 10#64 + BitVec.setWidth 64 (d - 48#8))
    else none

/-- `ByteToBase10` -/
def byteToBase10 (b : Bytes) : Option (BitVec 64) := b10loop b 0#64

/-! ### what the text *means* (specification side) -/

def digitVal (d : BitVec 8) : Nat := d.toNat - 48

/-- decimal value of a digit string continuing from accumulator `acc` (unbounded) -/
def decVal : Bytes → Nat → Nat
  | [], acc => acc
  | d :: tl, acc => decVal tl (acc * 10 + digitVal d)

/-- the natural number a digit string denotes -/
def value (b : Bytes) : Nat := decVal b 0

def allDigits (b : Bytes) : Bool := b.all isDigit

/-! ### durations -/

/-- one millisecond in nanoseconds -/
def msNs : Nat := 1000000

/-- `msToDuration`: saturating conversion of a millisecond count to nanoseconds -/
def msToDuration (ms : BitVec 64) : BitVec 64 :=
  if BitVec.ult 9223372036854#64 ms then maxInt64 else ms * 1000000#64

/-- `REQ`: the duration handed to `Channel.RequeueMessage`; `none` = `E_INVALID` (unparsable) -/
def reqTimeout (maxReq : BitVec 64) (arg : Bytes) : Option (BitVec 64) :=
  match byteToBase10 arg with
  | none => none
  | some ms =>
    if BitVec.slt (msToDuration ms) 0#64 then some 0#64
    else if BitVec.slt maxReq (msToDuration ms) then some maxReq
    else some (msToDuration ms)

inductive DeferErr
  | parse   -- "could not parse timeout"
  | range   -- "timeout out of range"
deriving DecidableEq, Repr

/-- `DPUB`: the value stored in `msg.deferred`, or the `E_INVALID` reason -/
def dpubDefer (maxReq : BitVec 64) (arg : Bytes) : Except DeferErr (BitVec 64) :=
  match byteToBase10 arg with
  | none => .error .parse
  | some ms =>
    if BitVec.slt (msToDuration ms) 0#64 || BitVec.slt maxReq (msToDuration ms) then .error .range
    else .ok (msToDuration ms)

/-- `strconv.ParseInt(s, 10, 64)` (trusted stdlib behaviour): optional sign, at least one
digit, digits only, exact value, error when outside int64. `none` = any error. -/
def parseInt (s : Bytes) : Option Int :=
  match s with
  | [] => none
  | c :: tl =>
    if c = 45#8 then          -- '-'
      if tl.isEmpty || !allDigits tl then none
      else if value tl ≤ 9223372036854775808 then some (-(value tl : Int)) else none
    else if c = 43#8 then     -- '+'
      if tl.isEmpty || !allDigits tl then none
      else if value tl < 9223372036854775808 then some (value tl : Int) else none
    else
      if !allDigits s then none
      else if value s < 9223372036854775808 then some (value s : Int) else none

/-- `doPUB` `defer=<s>`: the value stored in `msg.deferred`; `none` = 400 `INVALID_DEFER`.
`di < 0 || di > int64(MaxReqTimeout/time.Millisecond)` then `time.Duration(di) * time.Millisecond`. -/
def httpDefer (maxReq : BitVec 64) (s : Bytes) : Option (BitVec 64) :=
  match parseInt s with
  | none => none
  | some di =>
    if BitVec.slt (BitVec.ofInt 64 di) 0#64 ||
       BitVec.slt (BitVec.sdiv maxReq 1000000#64) (BitVec.ofInt 64 di) then none
    else some (BitVec.ofInt 64 di * 1000000#64)

/-- `SetMsgTimeout(msgTimeout int)` (IDENTIFY `msg_timeout`, milliseconds): new `MsgTimeout`
given the current one; `none` = "msg timeout (%d) is invalid". -/
def setMsgTimeout (maxMsgTimeout cur : BitVec 64) (v : BitVec 64) : Option (BitVec 64) :=
  if v == 0#64 then some cur
  else if BitVec.sle 1000#64 v && BitVec.sle v (BitVec.sdiv maxMsgTimeout 1000000#64) then
    some (v * 1000000#64)
  else none

end Nsq.Model.Num
