/-
Byte-string operations of Go's `strings` package as used by apps/nsq_to_file (file names), over
`List UInt8` (Go strings are byte sequences; every pattern the translated code uses is a
non-empty ASCII constant, for which the byte-wise and the rune-wise reading coincide).
Core Lean only (linked into drv_e8). Target of go2lean kind `strfunc`.
-/
namespace Nsq.Model.Str

abbrev Str := List UInt8

/-- ASCII literal → bytes (used by the driver and by examples; generated code carries byte lists) -/
def ofString (s : String) : Str := s.toUTF8.toList

/-- the scanner of `strings.Replace(s, old, new, -1)` for a non-empty `old`: left to right,
non-overlapping; `skip` = bytes of an already replaced occurrence still to be dropped -/
def replGo (old new : Str) : Nat → Str → Str
  | _, [] => []
  | k + 1, _ :: cs => replGo old new k cs
  | 0, c :: cs =>
    if old.isPrefixOf (c :: cs) then new ++ replGo old new (old.length - 1) cs
    else c :: replGo old new 0 cs

/-- `strings.Replace(s, old, new, -1)` for `old ≠ ""` (the translator only accepts a non-empty
constant `old`; for `old = ""` Go inserts `new` around every rune, which is *not* modelled:
the definition then returns `s`) -/
def replaceAll (s old new : Str) : Str :=
  if old = [] then s else replGo old new 0 s

/-- `strings.Contains(s, p)` -/
def contains (s p : Str) : Bool :=
  match s with
  | [] => p.isPrefixOf []
  | c :: cs => p.isPrefixOf (c :: cs) || contains cs p

/-- `strings.HasSuffix(s, p)` -/
def hasSuffix (s p : Str) : Bool := p.isSuffixOf s

/-- `strings.Split(s, sep)[0]` for `sep ≠ ""`: the part before the first occurrence of `sep` -/
def beforeFirst (sep : Str) : Str → Str
  | [] => []
  | c :: cs => if sep.isPrefixOf (c :: cs) then [] else c :: beforeFirst sep cs

/-- `strings.Split(s, sep)[0]`; the translator only accepts a non-empty constant `sep` -/
def splitFirst (s sep : Str) : Str := beforeFirst sep s

end Nsq.Model.Str
