import Nsq.Model.Str
import Nsq.Model.ToFile
import Nsq.Model.Line
/-
File names of apps/nsq_to_file: `computeFilenameFormat` (run once per topic by `NewFileLogger`)
and `FileLogger.currentFilename` (run by `needsRotation`/`updateFile`), over byte strings.
The hand model below is proved equal to the definitions `tools/go2lean` (kind `strfunc`)
translates from file_logger.go (`Nsq.Tie.ToolsToFileFn`). Inputs read off the environment:
`hostname` = `os.Hostname()` (may fail), `pid` = `fmt.Sprintf("%d", os.Getpid())`,
`datetime` = `strftime(opts.DatetimeFormat, time.Now())`. Core Lean only (linked into drv_e8).
-/
namespace Nsq.Model.ToFileName
open Nsq.Model.Str

def tREV : Str := [60, 82, 69, 86, 62]                              -- "<REV>"
def tTOPIC : Str := [60, 84, 79, 80, 73, 67, 62]                    -- "<TOPIC>"
def tHOST : Str := [60, 72, 79, 83, 84, 62]                         -- "<HOST>"
def tPID : Str := [60, 80, 73, 68, 62]                              -- "<PID>"
def tDATETIME : Str := [60, 68, 65, 84, 69, 84, 73, 77, 69, 62]     -- "<DATETIME>"
def tSHORT_HOST : Str := [60, 83, 72, 79, 82, 84, 95, 72, 79, 83, 84, 62]  -- "<SHORT_HOST>"
def tHOSTNAME : Str := [60, 72, 79, 83, 84, 78, 65, 77, 69, 62]     -- "<HOSTNAME>"
def dot : Str := [46]
def gz : Str := [46, 103, 122]                                      -- ".gz"
/-- "missing <REV> in --filename-format when gzip, rotation, or work dir enabled" -/
def errMissingRev : Str :=
  [109, 105, 115, 115, 105, 110, 103, 32, 60, 82, 69, 86, 62, 32, 105, 110, 32, 45, 45, 102, 105, 108, 101, 110, 97, 109, 101, 45, 102, 111, 114, 109, 97, 116, 32, 119, 104, 101, 110, 32, 103, 122, 105, 112, 44, 32, 114, 111, 116, 97, 116, 105, 111, 110, 44, 32, 111, 114, 32, 119, 111, 114, 107, 32, 100, 105, 114, 32, 101, 110, 97, 98, 108, 101, 100]

/-- the options `computeFilenameFormat` reads -/
structure Opts where
  hostIdentifier : Str
  filenameFormat : Str
  gzip           : Bool
  rotateSize     : Int
  rotateInterval : Int
  workDir        : Str
  outputDir      : Str
deriving DecidableEq, Repr

/-- `opts.GZIP || opts.RotateSize > 0 || opts.RotateInterval > 0 || opts.WorkDir != opts.OutputDir` -/
def needsRev (o : Opts) : Bool :=
  o.gzip || decide (o.rotateSize > 0) || decide (o.rotateInterval > 0) || decide (o.workDir ≠ o.outputDir)

/-- what replaces `<HOST>` -/
def identifier (o : Opts) (hostname : Str) : Str :=
  if o.hostIdentifier.length ≠ 0 then
    replaceAll (replaceAll o.hostIdentifier tSHORT_HOST (splitFirst hostname dot)) tHOSTNAME hostname
  else splitFirst hostname dot

def substitute (cff topic ident pid : Str) : Str :=
  replaceAll (replaceAll (replaceAll cff tTOPIC topic) tHOST ident) tPID pid

def gzSuffix (gzip : Bool) (cff : Str) : Str :=
  if gzip && !hasSuffix cff gz then cff ++ gz else cff

def computeFilenameFormat (o : Opts) (topic : Str) (hostname : Except Str Str) (pid : Str) : Except Str Str :=
  match hostname with
  | .error e => .error e
  | .ok h =>
    if needsRev o then
      if contains o.filenameFormat tREV then
        .ok (gzSuffix o.gzip (substitute o.filenameFormat topic (identifier o h) pid))
      else .error errMissingRev
    else
      .ok (gzSuffix o.gzip (substitute (replaceAll o.filenameFormat tREV []) topic (identifier o h) pid))

/-- `strings.Replace(f.filenameFormat, "<DATETIME>", datetime, -1)` -/
def currentFilename (filenameFormat datetime : Str) : Str :=
  replaceAll filenameFormat tDATETIME datetime

/-- the configuration the router model (`Nsq.Model.ToFile`) runs with, for options `o` and the
computed format `cff` -/
def cfgOf (o : Opts) (cff : Str) (skipEmpty : Bool) (maxInFlight : Nat) (closeClears : Bool) : Nsq.Model.ToFile.Cfg :=
  { gzip := o.gzip, rotateSize := o.rotateSize.toNat, rotateInterval := o.rotateInterval,
    workDir := decide (o.workDir ≠ o.outputDir), skipEmpty := skipEmpty, maxInFlight := maxInFlight,
    hasRev := contains cff tREV, closeClears := closeClears }

/-! ### driver -/

open Nsq.Line in
/-- `cff <hostIdentifier> <format> <gzip 0/1> <rotateSize> <rotateIntervalNs> <workDir> <outputDir> <topic> <ok|err> <hostname or error text> <pid>`
and `cfn <format> <datetime>` (byte strings in hex, `-` = empty) -/
def driverLine (ws : List String) : String :=
  match ws with
  | ["cff", hi, ff, g, rs, ri, wd, od, tp, hk, hn, pid] =>
    match unhex hi, unhex ff, rs.toInt?, ri.toInt?, unhex wd, unhex od, unhex tp, unhex pid with
    | some hi, some ff, some rs, some ri, some wd, some od, some tp, some pid =>
      let o : Opts := ⟨hi, ff, g == "1", rs, ri, wd, od⟩
      let host : Option (Except Str Str) :=
        if hk = "err" then (unhex hn).map .error else (unhex hn).map .ok
      match host with
      | none => "bad-op"
      | some host =>
        match computeFilenameFormat o tp host pid with
        | .ok r => s!"ok {hex r} rev={if contains r tREV then 1 else 0}"
        | .error e => s!"err {hex e}"
    | _, _, _, _, _, _, _, _ => "bad-op"
  | ["cfn", ff, dt] =>
    match unhex ff, unhex dt with
    | some ff, some dt => hex (currentFilename ff dt)
    | _, _ => "bad-op"
  | _ => "bad-op"

end Nsq.Model.ToFileName
