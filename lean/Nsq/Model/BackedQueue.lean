import Nsq.Model.DiskQueue
/-
The queue of ONE channel (or topic) of nsqd = a bounded Go channel `memoryMsgChan`
(capacity `--mem-queue-size`, 0 allowed: everything goes to disk) + a go-diskqueue backend
(engine E9, `Nsq.Model.DiskQueue`).  Glue between the E2 channel model (which only counts:
`memLen` / `dqLen`) and E9 (which has the bytes and the files).

Messages are opaque byte strings here (what `Message.WriteTo` produced: C07's business).
Each function transcribes the Go lines named in its comment (nsqd/channel.go, nsqd/topic.go,
nsqd/protocol_v2.go, nsqd/message.go); the zone/region-local channels of
`topologyAwareConsumption` are not modelled (more bounded memory queues of the same kind).
Core Lean only.
-/
namespace Nsq.Model.BackedQueue
open Nsq.Model.Wire Nsq.Model.DiskQueue

structure BQ where
  /-- `cap(c.memoryMsgChan)` -/
  memCap : Nat
  /-- `c.memoryMsgChan`, oldest first -/
  mem : List Bytes := []
  /-- `c.backend` -/
  dq : St

/-- where a `put` went: the memory channel, or the backend with the result of its `Put` -/
inductive PutOut
  | mem
  | backend (r : PutRes)
deriving Repr, DecidableEq

/-- `Channel.put` / `Topic.put`:
`select { case c.memoryMsgChan <- m: return nil; default: }` then
`err := writeMessageToBackend(m, c.backend)` (`= bq.Put(buf.Bytes())`); the error is returned
(and logged) — the message is then in neither queue. -/
def put (q : BQ) (b : Bytes) : PutOut × BQ :=
  if q.mem.length < q.memCap then (.mem, { q with mem := q.mem ++ [b] })
  else (.backend (DiskQueue.put q.dq b).1, { q with dq := (DiskQueue.put q.dq b).2 })

/-- `case msg = <-memoryMsgChan` of `protocolV2.messagePump` / `Topic.messagePump` -/
def takeMem (q : BQ) : Option Bytes × BQ :=
  match q.mem with
  | [] => (none, q)
  | b :: rest => (some b, { q with mem := rest })

/-- `case b := <-backendMsgChan` (`backend.ReadChan()`) of the two pumps -/
def takeDisk (q : BQ) : Option Bytes × BQ :=
  ((DiskQueue.recv q.dq).1, { q with dq := (DiskQueue.recv q.dq).2 })

/-- `Channel.Empty` / `Topic.Empty` (queue part): drain `memoryMsgChan`, then `backend.Empty()`;
`false` = the backend answered "exiting" -/
def empty (q : BQ) : Bool × BQ :=
  ((DiskQueue.empty q.dq).1, { q with mem := [], dq := (DiskQueue.empty q.dq).2 })

/-- the memory loop of `Channel.flush` / `Topic.flush`: every message of `memoryMsgChan` is
`writeMessageToBackend`; an error is only logged. Returns the backend and the records it refused. -/
def flushInto : St → List Bytes → St × List Bytes
  | d, [] => (d, [])
  | d, b :: rest =>
    if (DiskQueue.put d b).1 = .ok then flushInto (DiskQueue.put d b).2 rest
    else ((flushInto (DiskQueue.put d b).2 rest).1, b :: (flushInto (DiskQueue.put d b).2 rest).2)

def flush (q : BQ) : BQ × List Bytes :=
  ({ q with mem := [], dq := (flushInto q.dq q.mem).1 }, (flushInto q.dq q.mem).2)

/-- `Channel.exit(false)` / `Topic.exit(false)` (queue part): `flush()` then `backend.Close()` -/
def close (q : BQ) : BQ × List Bytes :=
  ({ (flush q).1 with dq := DiskQueue.close (flush q).1.dq }, (flush q).2)

/-- `Channel.exit(true)` = `Channel.Delete` (queue part): `c.Empty()` then `c.backend.Delete()` -/
def delete (q : BQ) : BQ :=
  { (empty q).2 with dq := DiskQueue.delete (empty q).2.dq }

/-- `NewChannel` / `NewTopic` on a data path: a new memory channel, `diskqueue.New(...)` -/
def openBQ (memCap : Nat) (cfg : Cfg) (fs : FS) : BQ :=
  { memCap := memCap, mem := [], dq := openQ cfg fs }

/-- `Channel.Depth` / `Topic.Depth`: `len(memoryMsgChan) + backend.Depth()` -/
def depth (q : BQ) : Int := (q.mem.length : Int) + q.dq.depth

/-! ### histories (with a ghost ledger) -/

inductive Op
  | put (b : Bytes)
  | takeMem
  | takeDisk
  /-- `Close` (flush + backend close) followed by `NewChannel` on the same data path -/
  | restart
  | empty
deriving Repr, DecidableEq

structure Run where
  q : BQ
  /-- ghost: records whose `put` returned nil, oldest first -/
  accepted : List Bytes := []
  /-- ghost: records handed to a pump, oldest first -/
  taken : List Bytes := []
  /-- ghost: records whose `put` returned the backend's error (never accepted) -/
  refused : List Bytes := []
  /-- ghost: records that were accepted into the memory queue and later refused by the backend in
  `flush` (the error is only logged) -/
  flushLost : List Bytes := []
  /-- ghost: records discarded by `Empty` from the memory queue (the backend's share is its files) -/
  emptiedMem : List Bytes := []

def stepRun (cfg : Cfg) (r : Run) : Op → Run
  | .put b =>
    if (put r.q b).1 = .mem ∨ (put r.q b).1 = .backend .ok then
      { r with q := (put r.q b).2, accepted := r.accepted ++ [b] }
    else { r with q := (put r.q b).2, refused := r.refused ++ [b] }
  | .takeMem =>
    match (takeMem r.q).1 with
    | some b => { r with q := (takeMem r.q).2, taken := r.taken ++ [b] }
    | none => r
  | .takeDisk =>
    match (takeDisk r.q).1 with
    | some b => { r with q := (takeDisk r.q).2, taken := r.taken ++ [b] }
    | none => { r with q := (takeDisk r.q).2 }
  | .restart =>
    { r with q := openBQ r.q.memCap cfg (close r.q).1.dq.fs, flushLost := r.flushLost ++ (close r.q).2 }
  | .empty => { r with q := (empty r.q).2, emptiedMem := r.emptiedMem ++ r.q.mem }

def fresh (memCap : Nat) (cfg : Cfg) : Run := { q := openBQ memCap cfg FS.empty }

def run (memCap : Nat) (cfg : Cfg) (ops : List Op) : Run := ops.foldl (stepRun cfg) (fresh memCap cfg)

end Nsq.Model.BackedQueue
