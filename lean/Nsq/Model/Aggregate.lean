/-
Model of nsqadmin's cluster view (property C18): internal/clusterinfo/data.go
(GetLookupdTopics, GetNSQDTopics, GetLookupdProducers, GetNSQDProducers, GetLookupdTopicProducers,
GetNSQDTopicProducers, GetNSQDStats), internal/clusterinfo/types.go (Producer.UnmarshalJSON,
TopicStats.Add, ChannelStats.Add), internal/stringy (Uniq, Add) and the view handlers of
nsqadmin/http.go (topicsHandler, topicHandler, channelHandler, nodesHandler, nodeHandler,
counterHandler) with their 200+warning / 502 / 404 mapping. Core Lean only (linked into `drv_e7`).

Upstream answers are structured values: `none` = the request failed (connection refused, non-200,
body that `encoding/json` rejects); JSON `null` array elements and absent optional members are
explicit (`Option`, `e2e : Bool`). The fetch goroutines finish in any order: the model processes
upstreams in list order and the theorems show the result does not depend on that order (up to the
order of lists that the code itself leaves unsorted; the harness compares those sorted).

Go panics are explicit outcomes (`Except Fault`). The places where the code on the unchanged tree
can panic are guarded by the switches of `Fixes`; the checked tree is modelled by `Fixes.tree` (= `Fixes.all` with the
switch of the reverted F58 off), `Fixes.all` is the tree plus the documented proposal F58.
-/
import Nsq.Model.Latency

namespace Nsq.Model.Aggregate

inductive Fault
  | indexOutOfRange (site : String)
  | nilDeref (site : String)
  | nilMapWrite (site : String)
deriving DecidableEq, Repr

/-- Which guards a tree has. `tree` = /repo as committed; `all` = `tree` + the proposal F58 (committed as 783e91a, then
REVERTED by 338c8a6: it turned nsqlookupd's ordinary `404 TOPIC_NOT_FOUND` into permanent warnings and, with a single
nsqlookupd, into a 502 of the whole listing). -/
structure Fixes where
  tombBounds   : Bool   -- Producer.UnmarshalJSON checks `i < len(tombstones)`            (F4)
  nilElems     : Bool   -- null producers / topics / channels / clients are skipped
  nilE2e       : Bool   -- TopicStats.Add / ChannelStats.Add tolerate a missing e2e latency
  chanNotFound : Bool   -- channelHandler answers 404 when no node reports the channel
  nilPct       : Bool := true   -- E2eProcessingLatencyAggregate.UnmarshalJSON drops null percentile entries (F53)
  clearNodes   : Bool := true   -- GetNSQDStats discards a `nodes` member sent by the upstream (F54)
  inactiveErrs : Bool := true   -- topicsHandler `?inactive=true` reports the errors of its per-topic fetches (F58: reverted, NOT in /repo)
deriving DecidableEq, Repr

def Fixes.all : Fixes := ⟨true, true, true, true, true, true, true⟩
/-- the committed tree: every guard except the one of the reverted F58 (tie `Tie.AdminAgg.topics_inactive_discards_errors`) -/
def Fixes.tree : Fixes := { Fixes.all with inactiveErrs := false }
def Fixes.unfixed : Fixes := ⟨false, false, false, false, false, false, false⟩

/-! ### What the upstreams say -/

structure Client where
  hostname : String
  clientId : String
deriving DecidableEq, Repr

/-- The integer counters of a topic or channel (`TopicStats` uses a subset; unused ones are 0). -/
structure Counters where
  depth : Int := 0
  memDepth : Int := 0
  backendDepth : Int := 0
  inFlight : Int := 0
  deferred : Int := 0
  requeue : Int := 0
  timeout : Int := 0
  msgCount : Int := 0
  delivery : Int := 0
  zoneLocal : Int := 0
  regionLocal : Int := 0
  globalMsg : Int := 0
  clientCount : Int := 0
deriving DecidableEq, Repr

def Counters.add (a b : Counters) : Counters :=
  { depth := a.depth + b.depth, memDepth := a.memDepth + b.memDepth,
    backendDepth := a.backendDepth + b.backendDepth, inFlight := a.inFlight + b.inFlight,
    deferred := a.deferred + b.deferred, requeue := a.requeue + b.requeue,
    timeout := a.timeout + b.timeout, msgCount := a.msgCount + b.msgCount,
    delivery := a.delivery + b.delivery, zoneLocal := a.zoneLocal + b.zoneLocal,
    regionLocal := a.regionLocal + b.regionLocal, globalMsg := a.globalMsg + b.globalMsg,
    clientCount := a.clientCount + b.clientCount }

/-- `memory_depth` and `delivery_msg_count` are recomputed by nsqadmin from the other fields. -/
def Counters.derive (c : Counters) : Counters :=
  { c with memDepth := c.depth - c.backendDepth,
           delivery := c.zoneLocal + c.regionLocal + c.globalMsg }

/-- One channel in an nsqd `/stats` answer. -/
structure Chan where
  name : String
  cnt : Counters
  paused : Bool
  clients : List (Option Client)     -- `none` = JSON null
  e2e : Bool                         -- `e2e_processing_latency` present and not null
  pct : List Latency.Pct := []       -- shape of its `percentiles` array (see `Nsq.Model.Latency`)
  upNodes : List Bool := []          -- a `nodes` member in the upstream's channel object (nsqd never sends
                                     -- one; the field exists because nsqadmin's own output type is decoded
                                     -- into): one entry per element, `false` = JSON null
deriving DecidableEq, Repr

/-- One topic in an nsqd `/stats` answer. -/
structure Topic where
  name : String
  cnt : Counters
  paused : Bool
  channels : List (Option Chan)
  e2e : Bool
  pct : List Latency.Pct := []
deriving DecidableEq, Repr

/-- A producer object as nsqlookupd's `/nodes` and `/lookup` send it. `addr` stands for
`broadcast_address:http_port` (symbolic in the harness), `tcp` for `broadcast_address:tcp_port`. -/
structure ProducerJSON where
  hostname : String
  addr : String
  tcp : String
  version : String
  ver : Nat × Nat × Nat              -- `semver.Parse(version)`, (0,0,0) when it does not parse
  remote : String                    -- remote_address
  topics : List String
  tombstones : List Bool
deriving DecidableEq, Repr

structure ProducerTopic where
  topic : String
  tombstoned : Bool
deriving DecidableEq, Repr

/-- `clusterinfo.Producer`. -/
structure Producer where
  hostname : String
  addr : String
  tcp : String
  version : String
  ver : Nat × Nat × Nat
  remote : String
  remotes : List String := []
  topics : List ProducerTopic := []
  outOfDate : Bool := false
  region : String := ""
  zone : String := ""
deriving DecidableEq, Repr

structure Info where
  hostname : String
  addr : String                      -- `broadcast_address:http_port` as the answer gives it (":0" when both are missing)
  tcp : String
  version : String
  ver : Nat × Nat × Nat
  noBcast : Bool := false            -- the answer has no (or an empty) `broadcast_address` (an nsqd from before that member)
deriving DecidableEq, Repr

/-- One nsqlookupd: its answers (`none` = failed). -/
structure Lookupd where
  addr : String
  topics : Option (List String)
  nodes : Option (List (Option ProducerJSON))
  lookup : Option (List (Option ProducerJSON))   -- answer of `/lookup?topic=` for the topic asked
deriving Repr

/-- One nsqd. -/
structure Nsqd where
  addr : String
  info : Option Info
  stats : Option (List (Option Topic))
  filters : Bool                    -- honours `topic=` / `channel=` / `include_clients=false`
  host : String := "127.0.0.1"      -- host part of the address it is configured under (`net.SplitHostPort(addr)`)
deriving Repr

/-- What nsqlookupd `lk` answers to `/lookup?topic=` and `/channels?topic=` for one particular topic (the
`?inactive=true` variant of `/api/topics` asks both for every topic). Without an entry for (lk, topic) the
nsqlookupd answers `/lookup` with its `lookup` member and `/channels` with an empty list. -/
structure TopicAns where
  lk : String
  topic : String
  lookup : Option (List (Option ProducerJSON))
  channels : Option (List String)
deriving Repr

structure World where
  lookupds : List Lookupd           -- configured nsqlookupds ([] = direct-nsqd mode)
  nsqdAddrs : List String           -- configured nsqds (direct mode)
  nsqds : List Nsqd                 -- every nsqd that exists
  perTopic : List TopicAns := []
deriving Repr

/-! ### Sorting and de-duplication of names (stringy.Uniq / stringy.Add, sort.Strings) -/

def uniq : List String → List String
  | [] => []
  | x :: xs => x :: (uniq xs).filter (· != x)

def sortNames (l : List String) : List String := l.mergeSort (fun a b => decide (a ≤ b))

/-! ### Producer.UnmarshalJSON -/

def tombAt (fx : Fixes) (tombs : List Bool) (i : Nat) : Except Fault Bool :=
  if fx.tombBounds then
    (match tombs[i]? with
     | some b => .ok b
     | none => .ok false)
  else
    (match tombs[i]? with
     | some b => .ok b
     | none => .error (.indexOutOfRange "Producer.UnmarshalJSON tombstones[i]"))

def zipTombs (fx : Fixes) (tombs : List Bool) : List String → Nat → Except Fault (List ProducerTopic)
  | [], _ => .ok []
  | t :: ts, i =>
    match tombAt fx tombs i with
    | .error e => .error e
    | .ok b =>
      match zipTombs fx tombs ts (i + 1) with
      | .error e => .error e
      | .ok rest => .ok (⟨t, b⟩ :: rest)

def unmarshalProducer (fx : Fixes) (p : ProducerJSON) : Except Fault Producer :=
  match zipTombs fx p.tombstones p.topics 0 with
  | .error e => .error e
  | .ok pts =>
    .ok { hostname := p.hostname, addr := p.addr, tcp := p.tcp, version := p.version, ver := p.ver,
          remote := p.remote, topics := pts }

/-- Decoding a `[]*Producer` array: `null` stays a nil pointer. -/
def unmarshalProducers (fx : Fixes) : List (Option ProducerJSON) → Except Fault (List (Option Producer))
  | [] => .ok []
  | none :: rest =>
    (match unmarshalProducers fx rest with
     | .error e => .error e
     | .ok r => .ok (none :: r))
  | some p :: rest =>
    match unmarshalProducer fx p with
    | .error e => .error e
    | .ok q =>
      match unmarshalProducers fx rest with
      | .error e => .error e
      | .ok r => .ok (some q :: r)

/-! ### Fetch results with per-upstream errors -/

/-- What a `Get*` function returns: nothing usable (non-partial error), or a value together with
the number of upstreams that failed (`ErrList`, a `PartialErr`, when > 0). -/
inductive Fetched (α : Type)
  | allFailed
  | got (a : α) (failed : Nat)
deriving Repr

def countFailed {α : Type} (l : List (Option α)) : Nat := (l.filter (·.isNone)).length

/-! ### GetLookupdTopics / GetNSQDTopics -/

def lookupdTopics (ls : List Lookupd) : Fetched (List String) :=
  let answers := ls.map (·.topics)
  if countFailed answers == ls.length then .allFailed
  else .got (sortNames (uniq (answers.filterMap id).flatten)) (countFailed answers)

/-- The `/stats` answer of an nsqd after the stub's own filtering. -/
def statsAnswer (n : Nsqd) (topicSel chanSel : String) (includeClients : Bool) :
    Option (List (Option Topic)) :=
  match n.stats with
  | none => none
  | some ts =>
    if !n.filters then some ts
    else some ((ts.filter (fun t => match t with
        | none => true
        | some t => topicSel == "" || t.name == topicSel)).map (fun t => match t with
        | none => none
        | some t => some { t with channels :=
            (t.channels.filter (fun c => match c with
              | none => true
              | some c => chanSel == "" || c.name == chanSel)).map (fun c => match c with
              | none => none
              | some c => some (if includeClients then c else { c with clients := [] })) }))

def nsqdAt (w : World) (addr : String) : Option Nsqd := w.nsqds.find? (·.addr == addr)

def statsOf (w : World) (addr topicSel chanSel : String) (includeClients : Bool) :
    Option (List (Option Topic)) :=
  match nsqdAt w addr with
  | none => none
  | some n => statsAnswer n topicSel chanSel includeClients

def infoOf (w : World) (addr : String) : Option Info :=
  match nsqdAt w addr with
  | none => none
  | some n => n.info

/-- Topic names of a `/stats` answer decoded into `[]struct{Name string}`: a null element is the
zero struct, name "". -/
def topicNames (ts : List (Option Topic)) : List String :=
  ts.map (fun t => match t with | none => "" | some t => t.name)

def nsqdTopics (w : World) : Fetched (List String) :=
  let answers := w.nsqdAddrs.map (fun a => statsOf w a "" "" true)
  if countFailed answers == w.nsqdAddrs.length then .allFailed
  else .got (sortNames (uniq ((answers.filterMap id).map topicNames).flatten)) (countFailed answers)

/-! ### GetLookupdProducers / GetNSQDProducers -/

def verLt (a b : Nat × Nat × Nat) : Bool :=
  a.1 < b.1 || (a.1 == b.1 && (a.2.1 < b.2.1 || (a.2.1 == b.2.1 && a.2.2 < b.2.2)))

def sortTopics (l : List ProducerTopic) : List ProducerTopic :=
  l.mergeSort (fun a b => decide (a.topic ≤ b.topic))

/-- Merge the producers of one lookupd's `/nodes` answer into the list collected so far
(`producersByAddr` keyed by the TCP address). -/
def mergeProducers (fx : Fixes) (lk : String) :
    List (Option Producer) → List Producer → Except Fault (List Producer)
  | [], acc => .ok acc
  | none :: rest, acc =>
    if fx.nilElems then mergeProducers fx lk rest acc
    else .error (.nilDeref "GetLookupdProducers producer.TCPAddress()")
  | some p :: rest, acc =>
    let ra := lk ++ "/" ++ (if p.remote == "" then "N/A" else p.remote)
    if acc.any (·.tcp == p.tcp) then
      mergeProducers fx lk rest
        (acc.map (fun q => if q.tcp == p.tcp then { q with remotes := q.remotes ++ [ra] } else q))
    else
      mergeProducers fx lk rest
        (acc ++ [{ p with topics := sortTopics p.topics, remotes := [ra] }])

def lookupdProducersGo (fx : Fixes) :
    List Lookupd → List Producer → Nat → Except Fault (List Producer × Nat)
  | [], acc, failed => .ok (acc, failed)
  | l :: rest, acc, failed =>
    match l.nodes with
    | none => lookupdProducersGo fx rest acc (failed + 1)
    | some ps =>
      match unmarshalProducers fx ps with
      | .error e => .error e
      | .ok dec =>
        match mergeProducers fx l.addr dec acc with
        | .error e => .error e
        | .ok acc' => lookupdProducersGo fx rest acc' failed

def maxVer (ps : List Producer) : Nat × Nat × Nat :=
  ps.foldl (fun m p => if verLt m p.ver then p.ver else m) (0, 0, 0)

def markOutOfDate (ps : List Producer) : List Producer :=
  ps.map (fun p => { p with outOfDate := verLt p.ver (maxVer ps) })

def lookupdProducers (fx : Fixes) (ls : List Lookupd) : Except Fault (Fetched (List Producer)) :=
  match lookupdProducersGo fx ls [] 0 with
  | .error e => .error e
  | .ok (ps, failed) =>
    if failed == ls.length then .ok .allFailed
    else .ok (.got (markOutOfDate ps) failed)

/-- One nsqd in direct mode: `/info` then `/stats?format=json&include_clients=false`. -/
def nsqdProducer (w : World) (addr : String) : Option Producer :=
  match infoOf w addr with
  | none => none
  | some i =>
    match statsOf w addr "" "" false with
    | none => none
    | some ts =>
      some { hostname := i.hostname, addr := i.addr, tcp := i.tcp, version := i.version, ver := i.ver,
             remote := "", topics := (topicNames ts).map (fun n => ⟨n, false⟩) }

def nsqdProducers (w : World) (addrs : List String) : Fetched (List Producer) :=
  let answers := addrs.map (nsqdProducer w)
  if countFailed answers == addrs.length then .allFailed
  else .got (answers.filterMap id) (countFailed answers)

def getProducers (fx : Fixes) (w : World) : Except Fault (Fetched (List Producer)) :=
  if !w.lookupds.isEmpty then lookupdProducers fx w.lookupds
  else .ok (nsqdProducers w w.nsqdAddrs)

/-! ### GetLookupdTopicProducers / GetNSQDTopicProducers -/

def mergeTopicProducers (fx : Fixes) :
    List (Option Producer) → List Producer → Except Fault (List Producer)
  | [], acc => .ok acc
  | none :: rest, acc =>
    if fx.nilElems then mergeTopicProducers fx rest acc
    else .error (.nilDeref "GetLookupdTopicProducers p.HTTPAddress()")
  | some p :: rest, acc =>
    if acc.any (·.addr == p.addr) then mergeTopicProducers fx rest acc
    else mergeTopicProducers fx rest (acc ++ [p])

def lookupdTopicProducersGo (fx : Fixes) :
    List Lookupd → List Producer → Nat → Except Fault (List Producer × Nat)
  | [], acc, failed => .ok (acc, failed)
  | l :: rest, acc, failed =>
    match l.lookup with
    | none => lookupdTopicProducersGo fx rest acc (failed + 1)
    | some ps =>
      match unmarshalProducers fx ps with
      | .error e => .error e
      | .ok dec =>
        match mergeTopicProducers fx dec acc with
        | .error e => .error e
        | .ok acc' => lookupdTopicProducersGo fx rest acc' failed

def lookupdTopicProducers (fx : Fixes) (ls : List Lookupd) : Except Fault (Fetched (List Producer)) :=
  match lookupdTopicProducersGo fx ls [] 0 with
  | .error e => .error e
  | .ok (ps, failed) =>
    if failed == ls.length then .ok .allFailed
    else .ok (.got ps failed)

def hostOf (w : World) (addr : String) : String :=
  match nsqdAt w addr with
  | none => ""
  | some n => n.host

/-- Direct mode, one nsqd: `/stats?topic=` and, if it lists the topic, `/info`.
`none` = an error was recorded; `some none` = answered but does not produce the topic.
Unlike GetNSQDProducers, this function falls back on the configured address when `/info` has no
`broadcast_address` (address and HTTP port are both replaced) and on its host part when `hostname` is empty. -/
def nsqdTopicProducer (w : World) (topic addr : String) : Option (Option Producer) :=
  match statsOf w addr topic "" false with
  | none => none
  | some ts =>
    if (topicNames ts).contains topic then
      (match infoOf w addr with
       | none => none
       | some i =>
         some (some { hostname := if i.hostname == "" then hostOf w addr else i.hostname,
                      addr := if i.noBcast then addr else i.addr,
                      tcp := if i.noBcast then hostOf w addr ++ i.tcp else i.tcp,
                      version := i.version, ver := i.ver, remote := "",
                      topics := (topicNames ts).map (fun n => ⟨n, false⟩) }))
    else some none

def nsqdTopicProducers (w : World) (topic : String) : Fetched (List Producer) :=
  let answers := w.nsqdAddrs.map (nsqdTopicProducer w topic)
  if countFailed answers == w.nsqdAddrs.length then .allFailed
  else .got ((answers.filterMap id).filterMap id) (countFailed answers)

def getTopicProducers (fx : Fixes) (w : World) (topic : String) : Except Fault (Fetched (List Producer)) :=
  if !w.lookupds.isEmpty then lookupdTopicProducers fx w.lookupds
  else .ok (nsqdTopicProducers w topic)

/-! ### GetNSQDStats, TopicStats.Add, ChannelStats.Add -/

/-- A client as nsqadmin shows it (`Node` filled in). -/
structure ClientV where
  hostname : String
  clientId : String
  node : String
deriving DecidableEq, Repr

/-- A per-node `ChannelStats` after GetNSQDStats' post-processing. -/
structure ChanNode where
  node : String
  hostname : String
  topic : String
  name : String
  cnt : Counters
  paused : Bool
  clients : List ClientV
  e2e : Bool
  upNodes : List Bool := []          -- what is in `NodeStats` when the report leaves GetNSQDStats
deriving DecidableEq, Repr

/-- An aggregated `ChannelStats`. -/
structure ChanAgg where
  node : String
  topic : String
  name : String
  cnt : Counters := {}
  paused : Bool := false
  nodes : List ChanNode := []
  clients : List ClientV := []
  junk : List Bool := []             -- entries of `NodeStats` that did not come from an `Add` (`false` = nil)
deriving DecidableEq, Repr

/-- A per-node `TopicStats`. -/
structure TopicNode where
  node : String
  hostname : String
  name : String
  cnt : Counters
  paused : Bool
  channels : List ChanNode
  e2e : Bool
deriving DecidableEq, Repr

/-- `ChannelStats.Add` (integer part; the float latency aggregate is not modelled beyond its
nil dereference). -/
def ChanAgg.add (fx : Fixes) (c : ChanAgg) (a : ChanNode) : Except Fault ChanAgg :=
  if !a.e2e && !fx.nilE2e then .error (.nilDeref "ChannelStats.Add a.E2eProcessingLatency")
  else .ok { c with node := "*", cnt := c.cnt.add a.cnt, paused := c.paused || a.paused,
                    nodes := c.nodes ++ [a], clients := c.clients ++ a.clients }

def clientsOf (fx : Fixes) (node : String) : List (Option Client) → Except Fault (List ClientV)
  | [] => .ok []
  | none :: rest =>
    if fx.nilElems then clientsOf fx node rest
    else .error (.nilDeref "GetNSQDStats c.Node")
  | some c :: rest =>
    match clientsOf fx node rest with
    | .error e => .error e
    | .ok r => .ok (⟨c.hostname, c.clientId, node⟩ :: r)

def chanNodeOf (fx : Fixes) (p : Producer) (topic : String) (c : Chan) : Except Fault ChanNode :=
  match clientsOf fx p.addr c.clients with
  | .error e => .error e
  | .ok cl => .ok { node := p.addr, hostname := p.hostname, topic := topic, name := c.name,
                    cnt := c.cnt.derive, paused := c.paused, clients := cl, e2e := c.e2e,
                    upNodes := if fx.clearNodes then [] else c.upNodes }

/-- The channel map of GetNSQDStats as an association list in first-seen order. -/
abbrev ChanMap := List (String × ChanAgg)

def ChanMap.addNode (fx : Fixes) (m : ChanMap) (key : String) (a : ChanNode) : Except Fault ChanMap :=
  if m.any (·.1 == key) then
    (let rec go : ChanMap → Except Fault ChanMap
      | [] => .ok []
      | (k, c) :: rest =>
        if k == key then
          (match c.add fx a with
           | .error e => .error e
           | .ok c' => .ok ((k, c') :: rest))
        else
          (match go rest with
           | .error e => .error e
           | .ok r => .ok ((k, c) :: r))
     go m)
  else
    match ({ node := a.node, topic := a.topic, name := a.name } : ChanAgg).add fx a with
    | .error e => .error e
    | .ok c => .ok (m ++ [(key, c)])

/-- The channels of one topic of one node: per-node entries and the updated channel map. -/
def chansOfTopic (fx : Fixes) (p : Producer) (selTopic topic : String) :
    List (Option Chan) → ChanMap → Except Fault (List ChanNode × ChanMap)
  | [], m => .ok ([], m)
  | none :: rest, m =>
    if fx.nilElems then chansOfTopic fx p selTopic topic rest m
    else .error (.nilDeref "GetNSQDStats channel.Node")
  | some c :: rest, m =>
    match chanNodeOf fx p topic c with
    | .error e => .error e
    | .ok cn =>
      let key := if selTopic == "" then topic ++ ":" ++ c.name else c.name
      match ChanMap.addNode fx m key cn with
      | .error e => .error e
      | .ok m' =>
        match chansOfTopic fx p selTopic topic rest m' with
        | .error e => .error e
        | .ok (cns, m'') => .ok (cn :: cns, m'')

/-- One node's `/stats` answer inside GetNSQDStats. -/
def topicsOfNode (fx : Fixes) (p : Producer) (selTopic : String) :
    List (Option Topic) → ChanMap → Except Fault (List TopicNode × ChanMap)
  | [], m => .ok ([], m)
  | none :: rest, m =>
    if fx.nilElems then topicsOfNode fx p selTopic rest m
    else .error (.nilDeref "GetNSQDStats topic.Node")
  | some t :: rest, m =>
    if selTopic != "" && t.name != selTopic then topicsOfNode fx p selTopic rest m
    else
      match chansOfTopic fx p selTopic t.name t.channels m with
      | .error e => .error e
      | .ok (cns, m') =>
        match topicsOfNode fx p selTopic rest m' with
        | .error e => .error e
        | .ok (tns, m'') =>
          .ok ({ node := p.addr, hostname := p.hostname, name := t.name, cnt := t.cnt.derive,
                 paused := t.paused, channels := cns, e2e := t.e2e } :: tns, m'')

/-! Decoding one nsqd's `/stats` answer into `[]*TopicStats` (`json.Unmarshal` inside `GETV1`, inside
the fetch goroutine) runs `E2eProcessingLatencyAggregate.UnmarshalJSON` on the latency document of
*every* topic and channel of the answer — before any `selectedTopic` filter — and that method writes
to every entry of `percentiles`. -/

def pctDecodes (fx : Fixes) (e2e : Bool) (pct : List Latency.Pct) : Bool :=
  !e2e || fx.nilPct || pct.all (·.isSome)

def chanDecodes (fx : Fixes) : Option Chan → Bool
  | none => true
  | some c => pctDecodes fx c.e2e c.pct

def topicDecodes (fx : Fixes) : Option Topic → Bool
  | none => true
  | some t => pctDecodes fx t.e2e t.pct && t.channels.all (chanDecodes fx)

def statsDecodes (fx : Fixes) (ans : List (Option Topic)) : Bool := ans.all (topicDecodes fx)

/-- One producer's answer inside the GetNSQDStats goroutine: decode, then the loop over the topics. -/
def nodeAnswer (fx : Fixes) (p : Producer) (selTopic : String) (ans : List (Option Topic)) (m : ChanMap) :
    Except Fault (List TopicNode × ChanMap) :=
  if statsDecodes fx ans then topicsOfNode fx p selTopic ans m
  else .error (.nilMapWrite "E2eProcessingLatencyAggregate.UnmarshalJSON p[\"min\"]")

def nsqdStatsGo (fx : Fixes) (w : World) (selTopic selChan : String) (incl : Bool) :
    List Producer → List TopicNode → ChanMap → Nat → Except Fault (List TopicNode × ChanMap × Nat)
  | [], ts, m, failed => .ok (ts, m, failed)
  | p :: rest, ts, m, failed =>
    match statsOf w p.addr selTopic (if selTopic == "" then "" else selChan) incl with
    | none => nsqdStatsGo fx w selTopic selChan incl rest ts m (failed + 1)
    | some ans =>
      match nodeAnswer fx p selTopic ans m with
      | .error e => .error e
      | .ok (tns, m') => nsqdStatsGo fx w selTopic selChan incl rest (ts ++ tns) m' failed

/-- GetNSQDStats. -/
def nsqdStats (fx : Fixes) (w : World) (ps : List Producer) (selTopic selChan : String) (incl : Bool) :
    Except Fault (Fetched (List TopicNode × ChanMap)) :=
  match nsqdStatsGo fx w selTopic selChan incl ps [] [] 0 with
  | .error e => .error e
  | .ok (ts, m, failed) =>
    if failed == ps.length then .ok .allFailed
    else .ok (.got (ts, m) failed)

/-- The aggregated `TopicStats` of topicHandler. `channels` holds the merged channels. -/
structure TopicAgg where
  name : String
  cnt : Counters := {}
  paused : Bool := false
  nodes : List TopicNode := []
  channels : List ChanAgg := []
deriving DecidableEq, Repr

/-- The channel part of `TopicStats.Add`: a channel seen for the first time is taken over as it
is (the node's own object), a channel seen again is `Add`ed to every entry with its name. -/
def mergeChan (fx : Fixes) (cs : List ChanAgg) (a : ChanNode) : Except Fault (List ChanAgg) :=
  if cs.any (·.name == a.name) then
    (let rec go : List ChanAgg → Except Fault (List ChanAgg)
      | [] => .ok []
      | c :: rest =>
        match go rest with
        | .error e => .error e
        | .ok r =>
          if c.name == a.name then
            -- `c.NodeStats = append(c.NodeStats, a); sort.Sort(ChannelStatsByHost{c.NodeStats})`: at least two
            -- elements, so `Less` looks at every one of them
            (if c.junk.any (!·) then .error (.nilDeref "ChannelStatsByHost.Less c.NodeStats[i].Hostname")
             else match c.add fx a with
               | .error e => .error e
               | .ok c' => .ok (c' :: r))
          else .ok (c :: r)
     go cs)
  else
    .ok (cs ++ [{ node := a.node, topic := a.topic, name := a.name, cnt := a.cnt, paused := a.paused,
                  nodes := [], clients := a.clients, junk := a.upNodes }])

def mergeChans (fx : Fixes) : List ChanNode → List ChanAgg → Except Fault (List ChanAgg)
  | [], cs => .ok cs
  | a :: rest, cs =>
    match mergeChan fx cs a with
    | .error e => .error e
    | .ok cs' => mergeChans fx rest cs'

/-- `TopicStats.Add`. -/
def TopicAgg.add (fx : Fixes) (t : TopicAgg) (a : TopicNode) : Except Fault TopicAgg :=
  match mergeChans fx a.channels t.channels with
  | .error e => .error e
  | .ok cs =>
    if !a.e2e && !fx.nilE2e then .error (.nilDeref "TopicStats.Add a.E2eProcessingLatency")
    else .ok { t with cnt := t.cnt.add a.cnt, paused := t.paused || a.paused,
                      nodes := t.nodes ++ [a], channels := cs }

def TopicAgg.addAll (fx : Fixes) : List TopicNode → TopicAgg → Except Fault TopicAgg
  | [], t => .ok t
  | a :: rest, t =>
    match t.add fx a with
    | .error e => .error e
    | .ok t' => TopicAgg.addAll fx rest t'

/-! ### The views (handlers) -/

/-- Body of a view. -/
inductive Body
  | topics (names : List String)
  | topic (t : TopicAgg)
  | channel (c : ChanAgg)
  | nodes (ps : List Producer)
  | node (name : String) (topics : List TopicNode) (totalMessages totalClients : Int)
  | counter (stats : List (String × Int))
  | inactive (m : List (String × List String))
  | none
deriving Repr

/-- What the HTTP client of nsqadmin gets. `warn` = the `message` member is non-empty. -/
structure View where
  status : Nat
  warn : Bool := false
  body : Body := .none
deriving Repr

inductive Request
  | topics
  | topic (name : String)
  | channel (topic channel : String)
  | nodes
  | node (addr : String)
  | counter
  | topicsInactive                   -- `/api/topics?inactive=true`
deriving Repr

/-- A handler panic is recovered by the router (`LogPanicHandler`): answer 500. A panic in a fetch
goroutine kills the process: that is the `Except.error` of the fetch functions, never caught. -/
def recovered500 : View := { status := 500 }

def topicsView (w : World) : View :=
  match (if !w.lookupds.isEmpty then lookupdTopics w.lookupds else nsqdTopics w) with
  | .allFailed => { status := 502 }
  | .got ts f => { status := 200, warn := f > 0, body := .topics ts }

/-! `/api/topics?inactive=true` (nsqlookupd mode): for every topic of the list, `/lookup?topic=` on every
nsqlookupd; a topic without any producer is listed with the union of `/channels?topic=`. The unchanged code
throws both errors away (`producers, _ :=`, `topicChannels, _ :=`); with F58 a partial error goes into the
warning and a total one is a 502, as in every other handler. -/

def unionNames (answers : List (Option (List String))) : Fetched (List String) :=
  if countFailed answers == answers.length then .allFailed
  else .got (sortNames (uniq (answers.filterMap id).flatten)) (countFailed answers)

def lookupFor (w : World) (l : Lookupd) (t : String) : Option (List (Option ProducerJSON)) :=
  match w.perTopic.find? (fun a => a.lk == l.addr && a.topic == t) with
  | some a => a.lookup
  | none => l.lookup

def channelsFor (w : World) (l : Lookupd) (t : String) : Option (List String) :=
  match w.perTopic.find? (fun a => a.lk == l.addr && a.topic == t) with
  | some a => a.channels
  | none => some []

/-- The nsqlookupds as topic `t` sees them. -/
def lookupdsFor (w : World) (t : String) : List Lookupd :=
  w.lookupds.map (fun l => { l with lookup := lookupFor w l t })

def channelAnswers (w : World) (t : String) : List (Option (List String)) :=
  w.lookupds.map (fun l => channelsFor w l t)

/-- One pass of the loop. `none` = the handler answers 502; `some (none, warn)` = the topic has a producer;
`some (some cs, warn)` = inactive, with channels `cs`. -/
def inactiveStep (fx : Fixes) (w : World) (t : String) :
    Except Fault (Option (Option (List String) × Bool)) :=
  match lookupdTopicProducers fx (lookupdsFor w t) with
  | .error e => .error e
  | .ok .allFailed =>
    if fx.inactiveErrs then .ok none
    else
      -- `producers` is nil: the topic counts as inactive
      (match unionNames (channelAnswers w t) with
       | .allFailed => .ok (some (some [], false))
       | .got cs _ => .ok (some (some cs, false)))
  | .ok (.got ps f1) =>
    if !ps.isEmpty then .ok (some (none, fx.inactiveErrs && decide (f1 > 0)))
    else
      match unionNames (channelAnswers w t) with
      | .allFailed => if fx.inactiveErrs then .ok none else .ok (some (some [], false))
      | .got cs f2 => .ok (some (some cs, fx.inactiveErrs && (decide (f1 > 0) || decide (f2 > 0))))

def inactiveGo (fx : Fixes) (w : World) : List String → Except Fault (Option (List (String × List String) × Bool))
  | [] => .ok (some ([], false))
  | t :: rest =>
    match inactiveStep fx w t with
    | .error e => .error e
    | .ok none => .ok none
    | .ok (some (r, wn)) =>
      match inactiveGo fx w rest with
      | .error e => .error e
      | .ok none => .ok none
      | .ok (some (acc, wn')) =>
        .ok (some ((match r with | some cs => [(t, cs)] | none => []) ++ acc, wn || wn'))

def topicsInactiveView (fx : Fixes) (w : World) : Except Fault View :=
  if w.lookupds.isEmpty then
    -- direct mode: `goto respond` with the empty map; the warning of GetNSQDTopics is kept
    (match nsqdTopics w with
     | .allFailed => .ok { status := 502 }
     | .got _ f => .ok { status := 200, warn := f > 0, body := .inactive [] })
  else
    match lookupdTopics w.lookupds with
    | .allFailed => .ok { status := 502 }
    | .got ts f =>
      match inactiveGo fx w ts with
      | .error e => .error e
      | .ok none => .ok { status := 502 }
      | .ok (some (m, wn)) => .ok { status := 200, warn := f > 0 || wn, body := .inactive m }

def topicView (fx : Fixes) (w : World) (name : String) : Except Fault View :=
  match getTopicProducers fx w name with
  | .error e => .error e
  | .ok .allFailed => .ok { status := 502 }
  | .ok (.got ps f1) =>
    match nsqdStats fx w ps name "" false with
    | .error e => .error e
    | .ok .allFailed => .ok { status := 502 }
    | .ok (.got (ts, _) f2) =>
      -- the handler itself runs under the router's panic handler
      match TopicAgg.addAll fx ts { name := name } with
      | .error _ => .ok recovered500
      | .ok t => .ok { status := 200, warn := f1 > 0 || f2 > 0, body := .topic t }

def channelView (fx : Fixes) (w : World) (topic chan : String) : Except Fault View :=
  match getTopicProducers fx w topic with
  | .error e => .error e
  | .ok .allFailed => .ok { status := 502 }
  | .ok (.got ps f1) =>
    match nsqdStats fx w ps topic chan true with
    | .error e => .error e
    | .ok .allFailed => .ok { status := 502 }
    | .ok (.got (_, m) f2) =>
      match m.find? (·.1 == chan) with
      | none => .ok (if fx.chanNotFound then { status := 404 } else recovered500)
      | some (_, c) => .ok { status := 200, warn := f1 > 0 || f2 > 0, body := .channel c }

def nodesView (fx : Fixes) (w : World) : Except Fault View :=
  match getProducers fx w with
  | .error e => .error e
  | .ok .allFailed => .ok { status := 502 }
  | .ok (.got ps f) => .ok { status := 200, warn := f > 0, body := .nodes ps }

def sumInts (l : List Int) : Int := l.foldl (· + ·) 0

def nodeView (fx : Fixes) (w : World) (addr : String) : Except Fault View :=
  match getProducers fx w with
  | .error e => .error e
  | .ok .allFailed => .ok { status := 502 }
  | .ok (.got ps f) =>
    match ps.find? (·.addr == addr) with
    | none => .ok { status := 404 }
    | some p =>
      match nsqdStats fx w [p] "" "" true with
      | .error e => .error e
      | .ok .allFailed => .ok { status := 502 }
      | .ok (.got (ts, _) _) =>
        .ok { status := 200, warn := f > 0,
              body := .node addr ts (sumInts (ts.map (·.cnt.msgCount)))
                (sumInts (ts.map (fun t => sumInts (t.channels.map (fun c => (c.clients.length : Int)))))) }

/-- counterHandler: per (topic, channel, node) message counts, keyed "topic:channel:node". -/
def counterAdd (m : List (String × Int)) (k : String) (v : Int) : List (String × Int) :=
  if m.any (·.1 == k) then m.map (fun kv => if kv.1 == k then (kv.1, kv.2 + v) else kv)
  else m ++ [(k, v)]

def counterOf (m : ChanMap) : List (String × Int) :=
  m.foldl (fun acc kc =>
    kc.2.nodes.foldl (fun acc n =>
      counterAdd acc (kc.2.topic ++ ":" ++ kc.2.name ++ ":" ++ n.node) n.cnt.msgCount) acc) []

def counterView (fx : Fixes) (w : World) : Except Fault View :=
  match getProducers fx w with
  | .error e => .error e
  | .ok .allFailed => .ok { status := 502 }
  | .ok (.got ps f1) =>
    match nsqdStats fx w ps "" "" false with
    | .error e => .error e
    | .ok .allFailed => .ok { status := 502 }
    | .ok (.got (_, m) f2) =>
      .ok { status := 200, warn := f1 > 0 || f2 > 0, body := .counter (counterOf m) }

/-- The whole thing: `Except.error` = a panic outside any handler's recover = process death. -/
def view (fx : Fixes) (w : World) : Request → Except Fault View
  | .topics => .ok (topicsView w)
  | .topic n => topicView fx w n
  | .channel t c => channelView fx w t c
  | .nodes => nodesView fx w
  | .node a => nodeView fx w a
  | .counter => counterView fx w
  | .topicsInactive => topicsInactiveView fx w

end Nsq.Model.Aggregate
