namespace Nsq.Model.Aggregate
end Nsq.Model.Aggregate
