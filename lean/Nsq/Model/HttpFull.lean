import Nsq.Model.HttpApi
/-
The *whole* nsqd HTTP surface (round 6): every `router.Handle / HandlerFunc / Handler` registration of
`newHTTPServer` with its decorator, the response envelope written by `http_api.Decorate` →
`V1` / `PlainText` / `RespondV1` (status, `Content-Type`, `X-NSQ-Content-Type`, kind of body), and the
handlers `Nsq.Model.HttpApi` left abstract:

* `/stats` — `format`, `topic`, `channel`, `include_clients`, `include_mem` (`boolParams`, "unknown
  value means true") and the projection of the broker it shows (`NSQD.GetStats`: topic / channel
  filter, both sorted by name);
* `/info` (a JSON document), `/ping` (PlainText), `/config/:opt` GET and PUT — `log_level` through
  `lg.ParseLogLevel` = `strings.ToLower` (Unicode: `İ` U+0130 and the Kelvin sign lower-case to ASCII)
  and `nsqlookupd_tcp_addresses` through `json.Unmarshal(body, &[]string)` (an explicit recogniser
  of exactly the accepted texts);
* `/debug/setblockrate`, `/debug/freememory` (PlainText handlers that return `nil, nil`; finding F24:
  `PlainText` panicked on a nil result → 500; modelled as repaired: 200, empty body) and the nine
  `net/http/pprof` registrations (standard library: `external`).

`serve` extends `HttpApi.handle`: wherever the latter is not `external` the status, message and broker
are *the same* (`Proofs.HttpFull.serve_agrees`). Core Lean only.
-/
namespace Nsq.Model.HttpFull
open Nsq.Model.HttpApi Nsq.Model.ProtoV2 Nsq.Model.Names Nsq.Model.Base10

/-! ## Route table with decorators -/

inductive Deco
  | v1          -- http_api.Decorate(f, [log,] http_api.V1)
  | plain       -- http_api.Decorate(f, log, http_api.PlainText)
  | raw         -- net/http/pprof handler registered as it is
deriving DecidableEq, Repr

/-- (method, path, Go handler, decorator) — every registration of `newHTTPServer`, in source order.
Tied to the regenerated `Nsq.Gen.Proto.routesAll` by `Nsq.Tie.ProtoHttpFull.routes_full`. -/
def fullTable : List (String × String × String × Deco) := [
  ("GET", "/ping", "pingHandler", .plain),
  ("GET", "/info", "doInfo", .v1),
  ("POST", "/pub", "doPUB", .v1),
  ("POST", "/mpub", "doMPUB", .v1),
  ("GET", "/stats", "doStats", .v1),
  ("POST", "/topic/create", "doCreateTopic", .v1),
  ("POST", "/topic/delete", "doDeleteTopic", .v1),
  ("POST", "/topic/empty", "doEmptyTopic", .v1),
  ("POST", "/topic/pause", "doPauseTopic", .v1),
  ("POST", "/topic/unpause", "doPauseTopic", .v1),
  ("POST", "/channel/create", "doCreateChannel", .v1),
  ("POST", "/channel/delete", "doDeleteChannel", .v1),
  ("POST", "/channel/empty", "doEmptyChannel", .v1),
  ("POST", "/channel/pause", "doPauseChannel", .v1),
  ("POST", "/channel/unpause", "doPauseChannel", .v1),
  ("GET", "/config/:opt", "doConfig", .v1),
  ("PUT", "/config/:opt", "doConfig", .v1),
  ("GET", "/debug/pprof/", "pprof.Index", .raw),
  ("GET", "/debug/pprof/cmdline", "pprof.Cmdline", .raw),
  ("GET", "/debug/pprof/symbol", "pprof.Symbol", .raw),
  ("POST", "/debug/pprof/symbol", "pprof.Symbol", .raw),
  ("GET", "/debug/pprof/profile", "pprof.Profile", .raw),
  ("GET", "/debug/pprof/heap", "pprof.Handler(\"heap\")", .raw),
  ("GET", "/debug/pprof/goroutine", "pprof.Handler(\"goroutine\")", .raw),
  ("GET", "/debug/pprof/block", "pprof.Handler(\"block\")", .raw),
  ("PUT", "/debug/setblockrate", "setBlockRateHandler", .plain),
  ("POST", "/debug/freememory", "freeMemory", .plain),
  ("GET", "/debug/pprof/threadcreate", "pprof.Handler(\"threadcreate\")", .raw)]

inductive FRouted
  | handler (name : String) (d : Deco)
  | options
  | methodNotAllowed
  | notFound
deriving DecidableEq, Repr

def routeFull (method path : Bytes) : FRouted :=
  match fullTable.find? (fun r => ascii r.1 == method && pathMatches r.2.1 path) with
  | some r => .handler r.2.2.1 r.2.2.2
  | none =>
    if fullTable.any (fun r => pathMatches r.2.1 path) then
      (if method = ascii "OPTIONS" then .options else .methodNotAllowed)
    else .notFound

/-! ## What a handler returns and what the decorators write -/

structure ChanView where
  name : Bytes
  paused : Bool
  clients : Nat
  total : Nat                 -- depth + in_flight_count + deferred_count
deriving DecidableEq, Repr

structure TopicView where
  name : Bytes
  paused : Bool
  count : Nat                 -- message_count
  depth : Nat
  chans : List ChanView
deriving DecidableEq, Repr

/-- JSON documents a 200 answer may carry (rendered by `json.Marshal`, trusted). -/
inductive Doc
  | info                                              -- the twelve option / address fields of doInfo
  | stats (topics : List TopicView) (clients mem : Bool)
  | level (n : Nat)                                   -- PUT /config/log_level: the level now in force
  | cfgValue (opt : Bytes)                            -- any other option value
deriving DecidableEq, Repr

/-- Result of an `APIHandler`: `(interface{}, error)`. -/
inductive HRes
  | err (s : Status) (m : String)     -- http_api.Err{code, text}
  | okNil                             -- nil, nil
  | okStr (s : String)                -- a fixed string
  | okText                            -- string / []byte with content outside the model (health, stats text)
  | okOptStr                          -- the value of a string-typed option: `RespondV1` writes it raw (no JSON)
  | okJson (d : Doc)                  -- a struct / value for json.Marshal
  | errText (s : Status)              -- PlainText error with free text (Atoi message, health)
  | external
deriving DecidableEq, Repr

inductive Body
  | empty
  | text (s : String)
  | freeText
  | optText                           -- raw value of a string option (possibly empty)
  | errJson (m : String)              -- exactly {"message":"m"}
  | tlsJson                           -- {"message": "TLS_REQUIRED", "https_port": N}
  | json (d : Doc)
  | external
deriving DecidableEq, Repr

/-- What reaches the wire, as far as nsqd's own code decides it. `ctJson`: the handler set
`Content-Type: application/json; charset=utf-8`; `nsqHdr`: `X-NSQ-Content-Type: nsq; version=1.0`. -/
structure Wire where
  status : Status
  ctJson : Bool
  nsqHdr : Bool
  body : Body
deriving DecidableEq, Repr

/-- `V1` + `RespondV1`. -/
def renderV1 : HRes → Wire
  | .err s m => ⟨s, true, true, .errJson m⟩
  | .errText s => ⟨s, true, true, .freeText⟩           -- not produced by any V1 handler (theorem)
  | .okNil => ⟨.s200, false, true, .empty⟩
  | .okStr s => ⟨.s200, false, true, .text s⟩
  | .okText => ⟨.s200, false, true, .freeText⟩
  | .okOptStr => ⟨.s200, false, true, .optText⟩
  | .okJson d => ⟨.s200, true, true, .json d⟩
  | .external => ⟨.external, false, false, .external⟩

/-- `PlainText` (with the F24 repair: a nil result is an empty 200 instead of a panic → 500). -/
def renderPlain : HRes → Wire
  | .err s m => ⟨s, false, false, .text m⟩
  | .errText s => ⟨s, false, false, .freeText⟩
  | .okNil => ⟨.s200, false, false, .empty⟩
  | .okStr s => ⟨.s200, false, false, .text s⟩
  | .okText => ⟨.s200, false, false, .freeText⟩
  | .okOptStr => ⟨.s200, false, false, .optText⟩
  | .okJson _ => ⟨.s500, true, true, .errJson "INTERNAL_ERROR"⟩   -- `panic("unknown response type")`; no plain handler returns one (theorem)
  | .external => ⟨.external, false, false, .external⟩

/-- The same decorator before F24 (`default: panic(...)` also for nil). Kept for the witness. -/
def renderPlainOld : HRes → Wire
  | .okNil => ⟨.s500, true, true, .errJson "INTERNAL_ERROR"⟩
  | r => renderPlain r

def render : Deco → HRes → Wire
  | .v1, r => renderV1 r
  | .plain, r => renderPlain r
  | .raw, _ => ⟨.external, false, false, .external⟩

/-! ## `/stats` -/

def bytesLe : Bytes → Bytes → Bool
  | [], _ => true
  | _ :: _, [] => false
  | a :: as, b :: bs => if a < b then true else if b < a then false else bytesLe as bs

/-- Insertion sort (structural, so that concrete instances evaluate by `decide`); `sort.Sort` of the Go
code is only required to produce *a* sorted permutation — names are unique, so it is this one. -/
def insertBy {α : Type} (le : α → α → Bool) (x : α) : List α → List α
  | [] => [x]
  | y :: ys => if le x y then x :: y :: ys else y :: insertBy le x ys

def sortBy {α : Type} (le : α → α → Bool) : List α → List α
  | [] => []
  | x :: xs => insertBy le x (sortBy le xs)

def chanView (c : Chan) : ChanView := ⟨c.name, c.paused, c.clients, c.msgs.length⟩

def topicView (t : Topic) (cs : List Chan) : TopicView :=
  ⟨t.name, t.paused, t.count, t.msgs.length, (sortBy (fun a b => bytesLe a.name b.name) cs).map chanView⟩

/-- `NSQD.GetStats(topic, channel, _)`: the named topic or all; per topic the named channel or all
(a topic without the named channel is left out); both levels sorted by name. -/
def statsView (b : Broker) (topic channel : Bytes) : List TopicView :=
  (sortBy (fun x y => bytesLe x.name y.name)
      (if topic.isEmpty then b else b.filter (·.name == topic))).filterMap (fun t =>
    if channel.isEmpty then some (topicView t t.chans)
    else if hasChan t channel then some (topicView t (t.chans.filter (·.name == channel)))
    else none)

/-- `boolParams[v]`, with "not in the table ⇒ true" (also for an absent argument: `Get` returns ""). -/
def boolParam (kv : List (Bytes × Bytes)) (key : Bytes) : Bool :=
  match qget kv key with
  | none => true
  | some v => !(v = ascii "false" || v = ascii "0")

def argOr (kv : List (Bytes × Bytes)) (key : Bytes) : Bytes := (qget kv key).getD []

def doStatsFull (b : Broker) (rq : Request) : HRes :=
  match parseQuery rq.rawQuery with
  | none => .err .s400 "INVALID_REQUEST"
  | some kv =>
    if argOr kv (ascii "format") = ascii "json" then
      .okJson (.stats (statsView b (argOr kv kTopic) (argOr kv kChannel))
        (boolParam kv (ascii "include_clients")) (boolParam kv (ascii "include_mem")))
    else .okText

/-! ## `/config/:opt` -/

/-- The five level words: DEBUG = 1 … FATAL = 5. -/
def wordLevel (w : Bytes) : Option Nat :=
  if w = ascii "debug" then some 1
  else if w = ascii "info" then some 2
  else if w = ascii "warn" then some 3
  else if w = ascii "error" then some 4
  else if w = ascii "fatal" then some 5
  else none

/-- `lg.ParseLogLevel`: `switch strings.ToLower(levelstr)`. -/
def parseLogLevel (s : Bytes) : Option Nat := wordLevel (goLower s)

/-- Scanner states of the recogniser for `json.Unmarshal(body, &[]string) == nil`: the text is
`null` or an array whose elements are strings or `null`, with JSON white space anywhere between
tokens. (Any other valid JSON is a type error, anything else a syntax error: both 400.) -/
inductive JS
  | start                       -- before the value
  | lit (rest : List UInt8) (top : Bool)   -- inside `null`
  | arr0                        -- after `[`
  | elem                        -- after `,`
  | str | esc | hex (k : Nat)   -- inside a string element
  | after                       -- after an element
  | done                        -- after the value
  | fail
deriving DecidableEq, Repr

def isWs (c : UInt8) : Bool := c = 32 || c = 9 || c = 10 || c = 13

def isHex (c : UInt8) : Bool := (48 ≤ c && c ≤ 57) || (97 ≤ c && c ≤ 102) || (65 ≤ c && c ≤ 70)

def jsStep : JS → UInt8 → JS
  | .start, c =>
    if isWs c then .start else if c = 91 then .arr0 else if c = 110 then .lit [117, 108, 108] true else .fail
  | .lit [] _, _ => .fail
  | .lit (x :: r) top, c =>
    if c = x then (if r.isEmpty then (if top then .done else .after) else .lit r top) else .fail
  | .arr0, c =>
    if isWs c then .arr0 else if c = 93 then .done else if c = 34 then .str
    else if c = 110 then .lit [117, 108, 108] false else .fail
  | .elem, c =>
    if isWs c then .elem else if c = 34 then .str else if c = 110 then .lit [117, 108, 108] false else .fail
  | .str, c => if c = 34 then .after else if c = 92 then .esc else if c < 32 then .fail else .str
  | .esc, c =>
    if c = 117 then .hex 4
    else if c = 34 || c = 92 || c = 47 || c = 98 || c = 102 || c = 110 || c = 114 || c = 116 then .str
    else .fail
  | .hex k, c => if isHex c then (if k ≤ 1 then .str else .hex (k - 1)) else .fail
  | .after, c => if isWs c then .after else if c = 44 then .elem else if c = 93 then .done else .fail
  | .done, c => if isWs c then .done else .fail
  | .fail, _ => .fail

def isStrArrayJson (bs : Bytes) : Bool := bs.foldl jsStep .start = .done

def kLookupdAddrs : Bytes := ascii "nsqlookupd_tcp_addresses"
def kLogLevel : Bytes := ascii "log_level"

def doConfigFull (hc : HConf) (rq : Request) : HRes :=
  match configOpt rq.path with
  | none => .err .notFoundOrRedirect "NOT_FOUND"
  | some opt =>
    if rq.method = ascii "PUT" then
      (if ((rq.body.take (hc.maxMsgSize + 1).toNat).length : Int) = hc.maxMsgSize + 1
          || (rq.body.take (hc.maxMsgSize + 1).toNat).isEmpty then .err .s413 "INVALID_VALUE"
       else if opt = kLookupdAddrs then
         (if isStrArrayJson (rq.body.take (hc.maxMsgSize + 1).toNat) then .okJson (.cfgValue opt)
          else .err .s400 "INVALID_VALUE")
       else if opt = kLogLevel then
         (match parseLogLevel (rq.body.take (hc.maxMsgSize + 1).toNat) with
          | some n => .okJson (.level n)
          | none => .err .s400 "INVALID_VALUE")
       else .err .s400 "INVALID_OPTION")
    else if hc.cfgNames.contains opt then
      (if hc.cfgStrNames.contains opt then .okOptStr else .okJson (.cfgValue opt))
    else .err .s400 "INVALID_OPTION"

/-! ## `/debug/setblockrate` -/

/-- `Request.ParseForm` keeps every pair of the query that parses and skips the others (the
error of `url.ParseQuery` is dropped by `FormValue`). -/
def lenientPairs : List Bytes → List (Bytes × Bytes)
  | [] => []
  | seg :: segs =>
    if seg.contains 59 then lenientPairs segs
    else if seg.isEmpty then lenientPairs segs
    else
      match unescape (cutEq seg).1, unescape (cutEq seg).2 with
      | some k, some v => (k, v) :: lenientPairs segs
      | _, _ => lenientPairs segs

/-- `strconv.Atoi(req.FormValue("rate"))`: first `rate` of the query (no form body: the request
has no form content type), optional sign and decimal digits within int64 (`parseInt64`, the model
of `strconv.ParseInt(_, 10, 64)`). On success `runtime.SetBlockProfileRate` and `nil, nil`. -/
def setBlockRate (rq : Request) : HRes :=
  match qget (lenientPairs (splitOn 38 rq.rawQuery)) (ascii "rate") with
  | none => .errText .s400
  | some v => if (parseInt64 v).isSome then .okNil else .errText .s400

/-! ## The whole server -/

/-- 200-answers of the handlers modelled in `HttpApi` (`OK` text or empty). -/
def ofResponse (r : Response) : HRes :=
  if r.status = .s200 then (if r.msg = "OK" then .okStr "OK" else .okNil)
  else if r.status = .external then .external
  else .err r.status r.msg

def baseHandler : String → Option Handler
  | "doPUB" => some .pub | "doMPUB" => some .mpub
  | "doCreateTopic" => some .createTopic | "doDeleteTopic" => some .deleteTopic
  | "doEmptyTopic" => some .emptyTopic | "doPauseTopic" => some .pauseTopic
  | "doCreateChannel" => some .createChannel | "doDeleteChannel" => some .deleteChannel
  | "doEmptyChannel" => some .emptyChannel | "doPauseChannel" => some .pauseChannel
  | _ => none

def runFull (hc : HConf) (healthy : Bool) (b : Broker) (rq : Request) (name : String) : HRes × Broker :=
  match baseHandler name with
  | some h => (ofResponse (runHandler hc healthy b rq h).1, (runHandler hc healthy b rq h).2)
  | none =>
    if name = "pingHandler" then ((if healthy then .okStr "OK" else .errText .s500), b)
    else if name = "doInfo" then (.okJson .info, b)
    else if name = "doStats" then (doStatsFull b rq, b)
    else if name = "doConfig" then (doConfigFull hc rq, b)
    else if name = "setBlockRateHandler" then (setBlockRate rq, b)
    else if name = "freeMemory" then (.okNil, b)
    else (.external, b)

/-- `httpServer.ServeHTTP` for every registered route. -/
def serve (hc : HConf) (healthy : Bool) (b : Broker) (rq : Request) : Wire × Broker :=
  if hc.tlsRefuse then (⟨.s403, true, true, .tlsJson⟩, b)
  else
    match routeFull rq.method rq.path with
    | .handler name d => (render d (runFull hc healthy b rq name).1, (runFull hc healthy b rq name).2)
    | .options => (⟨.s200, false, false, .empty⟩, b)
    | .methodNotAllowed => (renderV1 (.err .s405 "METHOD_NOT_ALLOWED"), b)
    | .notFound => (renderV1 (.err .notFoundOrRedirect "NOT_FOUND"), b)

def allCodes : List Code := [
  .E_INVALID, .E_BAD_BODY, .E_BAD_TOPIC, .E_BAD_CHANNEL, .E_BAD_MESSAGE, .E_PUB_FAILED, .E_MPUB_FAILED,
  .E_DPUB_FAILED, .E_FIN_FAILED, .E_REQ_FAILED, .E_TOUCH_FAILED, .E_SUB_FAILED, .E_IDENTIFY_FAILED,
  .E_AUTH_DISABLED, .E_AUTH_FAILED, .E_UNAUTHORIZED, .E_AUTH_FIRST, .E_AUTH_ERROR, .E_BAD_PROTOCOL]

/-- Every `message` an error body of this server can carry (the last group: `Code[2:]` of a
protocol error, of which binary /mpub produces `BAD_BODY` and `BAD_MESSAGE`). -/
def errorMessages : List String := [
  "INVALID_REQUEST", "MISSING_ARG_TOPIC", "INVALID_TOPIC", "INVALID_ARG_TOPIC", "MISSING_ARG_CHANNEL",
  "INVALID_ARG_CHANNEL", "TOPIC_NOT_FOUND", "CHANNEL_NOT_FOUND", "MSG_TOO_BIG", "MSG_EMPTY", "INVALID_DEFER",
  "BODY_TOO_BIG", "INVALID_VALUE", "INVALID_OPTION", "NOT_FOUND", "METHOD_NOT_ALLOWED", "INTERNAL_ERROR"]
  ++ allCodes.map codeTail

/-- Characters `json.Marshal` writes verbatim inside a string (so `{"message":"m"}` is literally
the rendered body): here upper-case letters and `_`. -/
def plainJsonChar (c : Char) : Bool := c.isUpper || c = '_'

end Nsq.Model.HttpFull
