/-
Line-protocol helpers shared by all drivers (core Lean only).
-/
namespace Nsq.Line

def words (s : String) : List String :=
  (s.splitOn " ").filter (· ≠ "")

def hexVal (c : Char) : Option Nat :=
  if '0' ≤ c ∧ c ≤ '9' then some (c.toNat - '0'.toNat)
  else if 'a' ≤ c ∧ c ≤ 'f' then some (c.toNat - 'a'.toNat + 10)
  else if 'A' ≤ c ∧ c ≤ 'F' then some (c.toNat - 'A'.toNat + 10)
  else none

/-- "-" is the empty byte string; otherwise an even number of hex digits. -/
def unhex (s : String) : Option (List UInt8) :=
  if s = "-" then some [] else
  let rec go : List Char → List UInt8 → Option (List UInt8)
    | [], acc => some acc.reverse
    | [_], _ => none
    | a :: b :: rest, acc =>
      match hexVal a, hexVal b with
      | some x, some y => go rest ((x * 16 + y).toUInt8 :: acc)
      | _, _ => none
  go s.toList []

def hexDigitChar (n : Nat) : Char :=
  if n < 10 then Char.ofNat (48 + n) else Char.ofNat (87 + n)

def hex (b : List UInt8) : String :=
  if b.isEmpty then "-" else
  String.ofList (b.foldr (fun x acc => hexDigitChar (x.toNat / 16) :: hexDigitChar (x.toNat % 16) :: acc) [])

def bytesToString (b : List UInt8) : String :=
  String.ofList (b.map (fun x => Char.ofNat x.toNat))

/-- signed 64-bit value given in decimal → BitVec 64 (two's complement) -/
def bv64 (s : String) : Option (BitVec 64) :=
  s.toInt?.map (fun i => BitVec.ofInt 64 i)

end Nsq.Line
