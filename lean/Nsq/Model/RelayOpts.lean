import Nsq.Model.Line
/-
Option surface of the relay tools (C20 round 6). Core Lean only (linked into drv_e8).

* nsq_to_http `--header` / `--content-type`: `parseCustomHeaders` ("key:value", split at the FIRST colon, both
  sides `strings.TrimSpace`d, empty key or value rejected, a later flag with the same key wins) and the header
  set `HTTPPost` / `HTTPGet` put on every request (`User-Agent`, `Content-Type` on POST only, then every
  custom header with `Header.Set`, which overwrites — so a custom `Content-Type` / `User-Agent` wins).
  Strings are byte lists; `trimSpace` is Go's `strings.TrimSpace` on ASCII input (bytes ≥ 0x80 at the
  boundary would make Go consult `unicode.IsSpace`; the harness and the theorems stay within ASCII).
* nsq_to_http `main()` validations (`validateHttp`), unknown `--mode` = ModeAll.
* nsq_to_nsq JSON stage: `shouldPass` (`--require-json-field` / `--require-json-value`) and `whitelist`
  (`--whitelist-json-field`) over an abstract JSON object (association list, values opaque).
* nsq_to_nsq destination topic, hostpool marking.
-/
namespace Nsq.Model.RelayOpts

abbrev Str := List UInt8

/-! ### `--header` -/

/-- Go's `asciiSpace`: `\t \n \v \f \r` and space -/
def isSpace (b : UInt8) : Bool := b == 9 || b == 10 || b == 11 || b == 12 || b == 13 || b == 32

def trimLeft (s : Str) : Str := s.dropWhile isSpace
def trimSpace (s : Str) : Str := (trimLeft (trimLeft s).reverse).reverse

/-- split at the first occurrence of byte `c`: `strings.SplitN(s, string(c), 2)` has two parts iff `c` occurs -/
def cut (c : UInt8) : Str → Option (Str × Str)
  | [] => none
  | b :: rest =>
    if b = c then some ([], rest)
    else match cut c rest with
      | none => none
      | some (k, v) => some (b :: k, v)

/-- `strings.SplitN(s, string(c), 2)` -/
def splitN2 (c : UInt8) (s : Str) : List Str :=
  match cut c s with
  | none => [s]
  | some (k, v) => [k, v]

/-- `m[key] = val` on an insertion-ordered association list -/
def mapSet (m : List (Str × Str)) (k v : Str) : List (Str × Str) :=
  match m with
  | [] => [(k, v)]
  | (k', v') :: rest => if k' = k then (k, v) :: rest else (k', v') :: mapSet rest k v

def mapGet (m : List (Str × Str)) (k : Str) : Option Str :=
  match m with
  | [] => none
  | (k', v') :: rest => if k' = k then some v' else mapGet rest k

/-- one `--header` value → (key, value) or rejected -/
def parseHeader (s : Str) : Option (Str × Str) :=
  match cut 58 s with
  | none => none
  | some (k, v) => if trimSpace k = [] ∨ trimSpace v = [] then none else some (trimSpace k, trimSpace v)

inductive Step
  | ok (m : List (Str × Str))
  | err
  | panic
deriving DecidableEq, Repr

/-- body of the `for _, s := range strs` loop of `parseCustomHeaders` -/
def headerStep (m : List (Str × Str)) (s : Str) : Step :=
  match parseHeader s with
  | none => .err
  | some (k, v) => .ok (mapSet m k v)

/-- the loop: stop at the first error -/
def foldSteps (f : List (Str × Str) → Str → Step) (m : List (Str × Str)) : List Str → Step
  | [] => .ok m
  | s :: rest =>
    match f m s with
    | .ok m' => foldSteps f m' rest
    | .err => .err
    | .panic => .panic

def parseCustomHeaders (strs : List Str) : Step := foldSteps headerStep [] strs

/-- an ASCII literal as bytes (reduces in the kernel, unlike `String.toUTF8`) -/
def ofAscii (x : String) : Str := x.toList.map fun c => c.toNat.toUInt8

/-- ASCII lower-casing (header names are case-insensitive; net/http canonicalises them) -/
def lower (s : Str) : Str := s.map fun b => if 65 ≤ b ∧ b ≤ 90 then b + 32 else b

/-- the value a request carries for header `name` (case-insensitive): `Header.Set` of the defaults, then of
every custom header (a custom header with the same name overwrites the default) -/
def headerOnRequest (post : Bool) (contentType userAgent : Str) (custom : List (Str × Str)) (name : Str) : Option Str :=
  match (custom.filter fun kv => lower kv.1 = lower name).getLast? with
  | some kv => some kv.2
  | none =>
    if lower name = ofAscii "user-agent" then some userAgent
    else if lower name = ofAscii "content-type" ∧ post then some contentType
    else none

/-! ### nsq_to_http `main()`: validations in source order; `none` = the tool starts -/

structure HttpArgs where
  headersOk : Bool          -- parseCustomHeaders succeeded (or no --header)
  topicEmpty : Bool
  channelEmpty : Bool
  contentTypeGiven : Bool   -- value differs from the default "application/octet-stream"
  contentTypeEmpty : Bool
  nsqd : Nat
  lookupd : Nat
  posts : Nat
  getCounts : List Nat      -- strings.Count(get, "%s") of every --get
  sampleOk : Bool           -- !(sample > 1.0 || sample < 0.0)   (NaN passes)
deriving DecidableEq, Repr

inductive Fatal
  | header | topicChannel | ctNeedsPost | ctEmpty | noSource | bothSources | noDest | bothDest | badGet | sample
deriving DecidableEq, Repr

def validateHttp (a : HttpArgs) : Option Fatal :=
  if a.headersOk = false then some .header
  else if a.topicEmpty ∨ a.channelEmpty then some .topicChannel
  else if a.contentTypeGiven ∧ a.posts = 0 then some .ctNeedsPost
  else if a.contentTypeGiven ∧ a.contentTypeEmpty then some .ctEmpty
  else if a.nsqd = 0 ∧ a.lookupd = 0 then some .noSource
  else if a.nsqd > 0 ∧ a.lookupd > 0 then some .bothSources
  else if a.getCounts.length = 0 ∧ a.posts = 0 then some .noDest
  else if a.getCounts.length > 0 ∧ a.posts > 0 then some .bothDest
  else if a.getCounts.any (fun c => c != 1) then some .badGet
  else if a.sampleOk = false then some .sample
  else none

/-- `switch *mode`: 0 = ModeAll (the zero value: any unknown string), 1 = round-robin, 2 = hostpool -/
def httpMode (mode : String) : Nat :=
  if mode = "round-robin" then 1 else if mode = "hostpool" ∨ mode = "epsilon-greedy" then 2 else 0

/-- nsq_to_nsq: 0 = ModeRoundRobin (also the zero value: any unknown string), 1 = hostpool -/
def n2nMode (mode : String) : Nat :=
  if mode = "hostpool" ∨ mode = "epsilon-greedy" then 1 else 0

/-- nsq_to_nsq `main()`: every consumed topic gets one handler publishing to `--destination-topic` when it is
set (a single string flag: the LAST occurrence wins) and to the consumed topic's own name otherwise -/
def publishTopic (destTopic consumed : Str) : Str := if destTopic ≠ [] then destTopic else consumed

/-! ### nsq_to_nsq JSON stage -/

/-- what `shouldPassMessage` can see of a decoded JSON value -/
inductive JVal
  | str (s : Str)
  | num (eqReq : Bool)     -- a JSON number; `eqReq` = equals `ParseFloat(--require-json-value)` (meaningful when that parses)
  | other                   -- bool / null / array / object
deriving DecidableEq, Repr

structure Req where
  field : Str              -- --require-json-field ("" = no requirement)
  value : Str              -- --require-json-value ("" = presence only)
  valueIsNumber : Bool     -- strconv.ParseFloat(value, 64) succeeded
deriving DecidableEq, Repr

/-- `(pass, backoff)` of `shouldPassMessage`; `v` = `js[field]` -/
def shouldPass (r : Req) (v : Option JVal) : Bool × Bool :=
  if r.field = [] then (true, false)
  else match v with
    | none => (false, decide (r.value ≠ []))
    | some jv =>
      if r.value = [] then (true, false)
      else match jv with
        | .str s => (decide (s = r.value), false)
        | .num eq => (r.valueIsNumber && eq, false)
        | .other => (false, false)

/-- `filterMessage` with a non-empty whitelist over an object with opaque values: for every whitelisted key
present in the object (first occurrence in the whitelist decides the position; `newMsg[key] = value` is a map
write, duplicates collapse) the object's value -/
def dedup : List Str → List Str
  | [] => []
  | k :: ks => k :: (dedup ks).filter (fun x => x ≠ k)

def whitelist {V : Type} (wl : List Str) (js : Str → Option V) : List (Str × V) :=
  (dedup wl).filterMap fun k => (js k).map fun v => (k, v)

/-- what a non-negative JSON integer becomes on its way through `json.Unmarshal` into `interface{}` (float64,
round to nearest even on 53 bits) and back through `int64(f)` / `json.Marshal` in `filterMessage` -/
def f64round (n : Nat) : Nat :=
  if n < 2 ^ 53 then n else
  let sh := (Nat.log2 n + 1) - 53
  let q := n >>> sh
  let rem := n % 2 ^ sh
  let half := 2 ^ (sh - 1)
  (if rem > half ∨ (rem = half ∧ q % 2 = 1) then q + 1 else q) <<< sh

/-! ### hostpool marking (who calls `Mark`, with what) -/

/-- nsq_to_http, `ModeHostPool`: `Get`, `Publish`, `Mark(err)` — one mark per message, carrying the outcome -/
def httpMarks (hostPoolMode sampledOut : Bool) (accepted : Bool) : List Bool :=
  if sampledOut then [] else if hostPoolMode then [accepted] else []

/-- nsq_to_nsq: `HandleMessage` marks only when `PublishAsync` fails at once; otherwise the responder marks
when the transaction completes. `none` = the transaction is still outstanding (no mark yet). -/
def n2nMarks (hostPoolMode : Bool) (asyncErr : Bool) (completion : Option Bool) : List Bool :=
  if hostPoolMode = false then []
  else if asyncErr then [false]
  else match completion with
    | none => []
    | some ok => [ok]

/-! ### driver -/
open Nsq.Line

def kvLine (m : List (Str × Str)) : String :=
  if m = [] then "-" else
  ",".intercalate ((m.map fun kv => hex kv.1 ++ "=" ++ hex kv.2).mergeSort (fun a b => decide (a ≤ b)))

def unhexAll (ws : List String) : Option (List Str) :=
  ws.foldr (fun w acc => match unhex w, acc with | some b, some r => some (b :: r) | _, _ => none) (some [])

def b01 (s : String) : Option Bool := if s = "1" then some true else if s = "0" then some false else none

def fatalName : Option Fatal → String
  | none => "start" | some .header => "header" | some .topicChannel => "topic-channel"
  | some .ctNeedsPost => "ct-needs-post" | some .ctEmpty => "ct-empty" | some .noSource => "no-source"
  | some .bothSources => "both-sources" | some .noDest => "no-dest" | some .bothDest => "both-dest"
  | some .badGet => "bad-get" | some .sample => "sample"

def jvalOf (s : String) : Option (Option JVal) :=
  if s = "absent" then some none
  else if s = "num1" then some (some (.num true)) else if s = "num0" then some (some (.num false))
  else if s = "other" then some (some .other)
  else if s.startsWith "str:" then (unhex (s.drop 4).toString).map fun b => some (.str b)
  else none

def driverLine (ws : List String) : String :=
  match ws with
  | "hdr" :: strs =>
    match unhexAll strs with
    | some strs =>
      match parseCustomHeaders strs with
      | .ok m => "ok " ++ kvLine m
      | .err => "err"
      | .panic => "panic"
    | none => "bad-op"
  | "req" :: post :: ct :: ua :: names :: strs =>
    -- names: comma separated hex header names to report; strs: the --header values
    match b01 post, unhex ct, unhex ua, unhexAll (names.splitOn ","), unhexAll strs with
    | some post, some ct, some ua, some names, some strs =>
      match parseCustomHeaders strs with
      | .ok m =>
        ",".intercalate (names.map fun n => match headerOnRequest post ct ua m n with
          | none => hex n ++ "=absent" | some v => hex n ++ "=" ++ hex v)
      | _ => "err"
    | _, _, _, _, _ => "bad-op"
  | ["args", hok, te, ce, ctg, cte, nsqd, lookupd, posts, gets, sok] =>
    match b01 hok, b01 te, b01 ce, b01 ctg, b01 cte, nsqd.toNat?, lookupd.toNat?, posts.toNat?, b01 sok with
    | some hok, some te, some ce, some ctg, some cte, some nsqd, some lookupd, some posts, some sok =>
      let gc := if gets = "-" then some [] else
        (gets.splitOn ",").foldr (fun w acc => match w.toNat?, acc with | some n, some r => some (n :: r) | _, _ => none) (some [])
      match gc with
      | some gc => fatalName (validateHttp ⟨hok, te, ce, ctg, cte, nsqd, lookupd, posts, gc, sok⟩)
      | none => "bad-op"
    | _, _, _, _, _, _, _, _, _ => "bad-op"
  | ["pass", field, value, isnum, v] =>
    match unhex field, unhex value, b01 isnum, jvalOf v with
    | some field, some value, some isnum, some v =>
      let r := shouldPass ⟨field, value, isnum⟩ v
      s!"pass={if r.1 then 1 else 0} backoff={if r.2 then 1 else 0}"
    | _, _, _, _ => "bad-op"
  | ["wl", wl, present] =>
    -- wl: whitelisted keys; present: keys of the object (values opaque: the answer is the key list, in order)
    match unhexAll (if wl = "-" then [] else wl.splitOn ","), unhexAll (if present = "-" then [] else present.splitOn ",") with
    | some wl, some present =>
      let out := whitelist wl (fun k => if k ∈ present then some () else none)
      let keys := (out.map fun kv => hex kv.1).mergeSort (fun a b => decide (a ≤ b))
      if keys = [] then "keys=-" else "keys=" ++ ",".intercalate keys
    | _, _ => "bad-op"
  | ["f64", n] =>
    match n.toNat? with
    | some n => toString (f64round n)
    | none => "bad-op"
  | ["topic", dest, consumed] =>
    match unhex dest, unhex consumed with
    | some dest, some consumed => hex (publishTopic dest consumed)
    | _, _ => "bad-op"
  | ["hmark", hp, so, acc] =>
    match b01 hp, b01 so, b01 acc with
    | some hp, some so, some acc => "marks=" ++ String.ofList ((httpMarks hp so acc).map fun b => if b then '1' else '0')
    | _, _, _ => "bad-op"
  | ["nmark", hp, ae, comp] =>
    match b01 hp, b01 ae with
    | some hp, some ae =>
      let c := if comp = "ok" then some (some true) else if comp = "fail" then some (some false)
               else if comp = "none" then some none else none
      match c with
      | some c => "marks=" ++ String.ofList ((n2nMarks hp ae c).map fun b => if b then '1' else '0')
      | none => "bad-op"
    | _, _ => "bad-op"
  | _ => "bad-op"

end Nsq.Model.RelayOpts
