import Nsq.Model.LookupSync
/-!
# LookupSync, two refinements asked for by audit round 7 (C16; items C7 and C2)

Both are *layers over* `Nsq.Model.LookupSync` (the base model is unchanged; the fixed shape of each layer is
proved to be the base model, so every base theorem transfers — `Nsq.Props.C16More`).

## 1. a refused command (`E_…` reply) — audit C7

`lookupPeer.Command` reads one framed reply and returns it; `lookupLoop` and `connectCallback` discard the reply
of REGISTER / UNREGISTER / PING. A well-framed reply `E_INVALID …` (a lookupd that refuses the command but keeps
the connection) therefore left `lp.state = stateConnected` with the command NOT applied, and nothing ever
repeated it. `Outcome3.rejected` is that reply; `f36 = true` is the tree with
fixes/F36_lookup_peer_closes_on_error_reply.patch (`Command` closes the connection on an `E_` reply: the next
Command reconnects and `connectCallback` registers everything again), where `rejected` is just another failure.

## 2. overlapping deletions of one channel — audit C2

`Topic.DeleteExistingChannel(name)`: look the channel object up under the read lock, `channel.Delete()` (its
result is ignored: a second deleter gets "exiting" at once), then unlink under the write lock. Before
c687824 (F22) the unlink was `delete(t.channelMap, channelName)` — by NAME: a deleter that was overtaken by
another deleter and a re-creation of the name unlinked the fresh channel, which nobody had deleted and for which
no notification is ever sent. `f22 = true` is the current tree (`if t.channelMap[channelName] == channel`):
the unlink removes the looked-up object or nothing. `DelState.dels` are the deleter threads between their
`channel.Delete()` and their unlink.
-/
namespace Nsq.Model.LookupSync

/-! ## 1. refused commands -/

inductive Outcome3
  | ok
  | fail
  | rejected        -- every round trip worked, but the command was answered with a framed `E_…` error
deriving DecidableEq, Repr

def Outcome3.collapse : Outcome3 → Outcome
  | .ok => .ok
  | .fail => .fail
  | .rejected => .fail

/-- `lookupPeer.Command` with the three-valued outcome. Without F36 a refused command on an established connection
changes nothing (not applied, `lp.state` stays connected); on a fresh connection (one admissible behaviour: IDENTIFY
accepted, every REGISTER of `connectCallback` and the command refused) the peer ends connected holding nothing; on a
connection the lookupd has already closed no reply can arrive: failure. -/
def commandR (f36 : Bool) (objs dead : List Ref) (apply : List Key → List Key) (p : Peer) (o : Outcome3) : Peer :=
  if o = .rejected && !f36 then
    match p.conn with
    | .up => p
    | .down => { p with conn := .up, regs := [] }
    | .stale => { p with conn := .down, regs := [] }
  else command objs dead apply p o.collapse

def mapOutcomes3 (f : Peer → Outcome3 → Peer) : List Peer → List Outcome3 → List Peer
  | [], _ => []
  | p :: ps, [] => f p .fail :: mapOutcomes3 f ps []
  | p :: ps, o :: os => f p o :: mapOutcomes3 f ps os

/-- steps of the base model; the three that run `Command`s carry three-valued outcomes -/
inductive StepR
  | base (st : Step)                       -- createTopic / createChan / delBegin / delUnlink / lookupdDrop / removePeer
  | notify (r : Ref) (outs : List Outcome3)
  | tick (outs : List Outcome3)
  | addPeer (addr : Nat) (o : Outcome3)
deriving Repr

def StepR.collapse : StepR → Step
  | .base st => st
  | .notify r outs => .notify r (outs.map Outcome3.collapse)
  | .tick outs => .tick (outs.map Outcome3.collapse)
  | .addPeer a o => .addPeer a o.collapse

def stepR (f36 : Bool) (s : State) : StepR → Option State
  | .base st => step s st
  | .notify r outs =>
    if !s.bag.contains r then none
    else
      let apply : List Key → List Key :=
        if nameLive s.objs s.dead r.topic r.chan then register r.topic r.chan else unregister r.topic r.chan
      some { s with bag := s.bag.erase r, peers := mapOutcomes3 (commandR f36 s.objs s.dead apply) s.peers outs }
  | .tick outs => some { s with peers := mapOutcomes3 (commandR f36 s.objs s.dead id) s.peers outs }
  | .addPeer a o =>
    if s.peers.any (fun p => p.addr == a) then none
    else some { s with peers := s.peers ++ [commandR f36 s.objs s.dead id ⟨a, .down, []⟩ o] }

def runR (f36 : Bool) (s : State) : List StepR → Option State
  | [] => some s
  | st :: rest =>
    match stepR f36 s st with
    | none => none
    | some s' => runR f36 s' rest

/-! ## 2. deleter threads of `DeleteExistingChannel` -/

structure DelState where
  s : State
  dels : List Ref          -- deleter threads: looked `r` up, called `r.Delete()`, have not yet unlinked
deriving Repr

def DelState.init : DelState := { s := State.init, dels := [] }

inductive StepD
  | base (st : Step)
  | delStart (r : Ref)      -- lookup of `r` in the channel map + `r.Delete()` (winner: flag + Notify; loser: "exiting", ignored)
  | delFinish (r : Ref)     -- the unlink of a deleter that holds `r`
deriving Repr

def stepD (f22 : Bool) (d : DelState) : StepD → Option DelState
  | .base st => (step d.s st).map (fun s' => { d with s := s' })
  | .delStart r =>
    if isTopic r then none                          -- topics: F20 (the loser returns early), base steps
    else if !d.s.objs.contains r then none          -- the lookup found `r` in the map
    else if d.s.dead.contains r then some { d with dels := r :: d.dels }
    else some { s := { d.s with dead := r :: d.s.dead, bag := r :: d.s.bag }, dels := r :: d.dels }
  | .delFinish r =>
    if !d.dels.contains r then none
    else if f22 then
      -- `if t.channelMap[channelName] == channel { delete(...) }`
      some { s := { d.s with objs := d.s.objs.erase r }, dels := d.dels.erase r }
    else
      -- `delete(t.channelMap, channelName)`: whatever object carries the name now
      some { s := { d.s with objs := d.s.objs.filter (fun x => !(x.topic == r.topic && x.chan == r.chan)) },
             dels := d.dels.erase r }

def runD (f22 : Bool) (d : DelState) : List StepD → Option DelState
  | [] => some d
  | st :: rest =>
    match stepD f22 d st with
    | none => none
    | some d' => runD f22 d' rest

end Nsq.Model.LookupSync
