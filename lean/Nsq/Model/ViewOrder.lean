/-
The comparators nsqadmin sorts its lists with (internal/clusterinfo/types.go), as functions on the
compared fields only. Core Lean (linked into `drv_e7`; tied by the `less` correspondence stream, which
calls the real `Less` methods on generated pairs).

* `hostLess`  — `ChannelStatsByHost`, `ClientsByHost`, `TopicStatsByHost`, `ProducersByHost`:
                `x[i].Hostname < x[j].Hostname`;  `ProducerTopics.Less`: `pt[i].Topic < pt[j].Topic`.
* `topoLess`  — `ClientStatsByNodeTopology.Less` (channel view, `sort.Sort` over the channel's clients).
-/
namespace Nsq.Model.ViewOrder

def hostLess (a b : String) : Bool := decide (a < b)

/-- The fields of a `ClientStats` that `ClientStatsByNodeTopology.Less` reads. -/
structure ClientKey where
  node : String
  nodeRegion : String
  nodeZone : String
  region : String
  zone : String
deriving DecidableEq, Repr

/-- `ClientStatsByNodeTopology.Less(i, j)`: the switch, case by case. `region` / `zone` of the *node* are
read off element `i` (both elements carry the same ones when `Node` is equal, GetNSQDStats fills them in). -/
def topoLess (a b : ClientKey) : Bool :=
  if a.node == b.node then
    if a.region == a.nodeRegion && a.zone == a.nodeZone then true
    else if b.region == a.nodeRegion && b.zone == a.nodeZone then false
    else if a.region == a.nodeRegion then true
    else if b.region == a.nodeRegion then false
    else if a.region == b.region then decide (a.zone < b.zone)
    else decide (a.region < b.region)
  else decide (a.node < b.node)

/-- How close a client is to its node: 0 same zone, 1 same region, 2 elsewhere. -/
def cls (a : ClientKey) : Nat :=
  if a.region == a.nodeRegion && a.zone == a.nodeZone then 0
  else if a.region == a.nodeRegion then 1
  else 2

end Nsq.Model.ViewOrder
