/-
Model of the nsqadmin HTTP handlers as *skeletons* (nsqadmin/http.go) and of the admin check
`isAuthorizedAdminRequest`. Core Lean only (linked into the driver `drv_e7`).

A skeleton is the control-flow tree of one handler with everything but its effects removed:
conditions are pure reads of the configuration / request / the outcome of the latest
err-producing effect; effects are the calls that can be observed from outside (upstream calls
through `ClusterInfo` / the HTTP client, notifications, reading the request body, writing the
configuration) plus local err-producing calls. The skeletons themselves are regenerated from
the Go source on every run (`Nsq.Gen.AdminRoutes`, extractor `tools/go2lean/kind_adminroutes.go`).
-/
namespace Nsq.Model.AdminGate

/-- A condition of an `if` / `switch` in a handler. Evaluating a condition has no effect (the
extractor hoists calls made inside conditions in front of the `if`). -/
inductive Cond
  | notAdmin                 -- `!s.isAuthorizedAdminRequest(req)`
  | errNotNil                -- `err != nil` (err of the latest err-producing effect)
  | errNotPartial            -- `!ok` after `pe, ok := err.(clusterinfo.PartialErr)`
  | cidrSet                  -- `AllowConfigFromCIDR != ""`
  | notInNet                 -- `!ipnet.Contains(ip)`
  | methodIs (m : String)    -- `req.Method == m`
  | actionIs (a : String)    -- `switch body.Action { case a: … }`
  | optIs (o : String)       -- `switch opt { case o: … }` (the `:opt` path parameter)
  | paramNonEmpty (p : String)  -- `ps.ByName(p) != ""` (after inlining of helper arguments)
  | bodyFieldNonEmpty (f : String) -- `len(body.f) > 0`
  | lookupdMode              -- `len(opts.NSQLookupdHTTPAddresses) != 0`
  | notifyOn                 -- `opts.NotificationHTTPEndpoint != ""` (inside notifyAdminAction)
  | other (txt : String)     -- anything else (text of the Go expression): arbitrary truth value
  | identityDep (txt : String) -- a test that reads the request headers / the admin list / the ACL header name /
                             -- a variable holding the outcome of the admin check, other than the bare check
                             -- (`u := req.Header.Get(h); if u != "alice"`): arbitrary truth value, and
                             -- *no* judgement below treats it as independent of the identity
deriving DecidableEq, Repr

/-- An effect of a handler. -/
inductive Eff
  | decodeBody               -- `json.NewDecoder(req.Body).Decode(&body)`; sets err
  | readBody                 -- `io.ReadAll(io.LimitReader(req.Body, …))`; sets err
  | upstream (name : String) -- `s.ci.<name>(…)` / `s.client.<name>(…)`; sets err
  | upstreamMany (name : String) -- the same inside a `for` loop (zero or more times)
  | notify (action : String) -- `s.notifyAdminAction(action, …)` (after its endpoint test)
  | configWrite              -- `s.nsqadmin.swapOpts(…)`
  | localCall (name : String) -- any other call whose error result is tested; sets err
  | pureCall (name : String)  -- a call with no effect at all (the admin check used as a value)
deriving DecidableEq, Repr

/-- Control-flow tree of a handler. `ret code` = the handler returns and `http_api.Decorate`
answers with that status (200 for a nil error). `unknown` = a statement the extractor does not
understand (nothing can be proved through it). -/
inductive Skel
  | ret (code : Nat)
  | eff (e : Eff) (k : Skel)
  | ite (c : Cond) (t e : Skel)
  | unknown (why : String)
deriving DecidableEq, Repr

structure Route where
  method  : String
  segs    : List String      -- path split at '/', e.g. ["api","topics",":topic"]
  handler : String
deriving DecidableEq, Repr

/-- What can be observed from outside, in program order. -/
inductive Obs
  | upstream (name : String)
  | notify (action : String)
  | bodyRead
  | configWrite
deriving DecidableEq, Repr

inductive ErrKind
  | none | partialErr | full
deriving DecidableEq, Repr

/-- The options that matter here (nsqadmin/options.go). -/
structure Conf where
  adminUsers : List String
  aclHeader  : String          -- ACLHTTPHeader, as configured
  cidrSet    : Bool            -- AllowConfigFromCIDR != ""
  lookupdMode : Bool
  notifyOn   : Bool
deriving Repr

/-- `validHeaderFieldByte` of net/textproto: the token characters of RFC 7230. -/
def isTokenByte (b : Nat) : Bool :=
  (48 ≤ b && b ≤ 57) || (65 ≤ b && b ≤ 90) || (97 ≤ b && b ≤ 122) ||
  b == 33 || b == 35 || b == 36 || b == 37 || b == 38 || b == 39 || b == 42 || b == 43 || b == 45 ||
  b == 46 || b == 94 || b == 95 || b == 96 || b == 124 || b == 126

def canonChars : Bool → List Char → List Char
  | _, [] => []
  | up, c :: cs =>
    (if up then c.toUpper else c.toLower) :: canonChars (c == '-') cs

/-- `textproto.CanonicalMIMEHeaderKey`: a name made of token characters only gets its first letter and every
letter after '-' in upper case, the rest in lower case; a name that contains anything else (a space, a
non-ASCII byte, …) is returned **unchanged**. Tied to the real function by the `strfn` correspondence stream. -/
def canon (s : String) : String :=
  if s.toList.all (fun c => isTokenByte c.toNat) then String.ofList (canonChars true s.toList) else s

/-- The request as the handler sees it. Header names are as received by `net/http`
(canonical form); `Header.Get` returns the first value of the canonicalised key or "". -/
structure Req where
  method  : String
  headers : List (String × String)
  action  : String             -- body.Action after a successful decode
  opt     : String             -- the `:opt` parameter
  nonEmptyParams : List String -- path parameters with a non-empty value
  nonEmptyBody   : List String -- body fields with a non-empty value
deriving Repr

def headerGet (hs : List (String × String)) (name : String) : String :=
  match hs.find? (fun kv => kv.1 == canon name) with
  | some kv => kv.2
  | none => ""

/-- `isAuthorizedAdminRequest`: no admin list configured = everyone is an admin; otherwise the
value of the ACL header must *equal* one of the configured users. -/
def isAdmin (conf : Conf) (req : Req) : Bool :=
  if conf.adminUsers.length == 0 then true
  else conf.adminUsers.any (fun v => v == headerGet req.headers conf.aclHeader)

/-- Everything a run of a handler depends on. The outcome of the n-th observable/local call is
an arbitrary function (`upstreamErr`, `localErr`, `otherCond`): theorems quantify over all of it. -/
structure Env where
  conf : Conf
  req  : Req
  inNet : Bool                         -- `ipnet.Contains(ip)` (stdlib, an input)
  bodyOk : Bool                        -- body decodes / reads without error
  upstreamErr : String → Nat → ErrKind -- outcome of an upstream call, by name and position
  localErr : String → Nat → Bool       -- does a local err-producing call fail
  otherCond : String → Bool

structure St where
  obs : List Obs := []      -- reversed program order
  err : ErrKind := .none

def evalCond (env : Env) (st : St) : Cond → Bool
  | .notAdmin => !isAdmin env.conf env.req
  | .errNotNil => st.err != .none
  | .errNotPartial => st.err == .full
  | .cidrSet => env.conf.cidrSet
  | .notInNet => !env.inNet
  | .methodIs m => env.req.method == m
  | .actionIs a => env.req.action == a
  | .optIs o => env.req.opt == o
  | .paramNonEmpty p => env.req.nonEmptyParams.contains p
  | .bodyFieldNonEmpty f => env.req.nonEmptyBody.contains f
  | .lookupdMode => env.conf.lookupdMode
  | .notifyOn => env.conf.notifyOn
  | .other t => env.otherCond t
  | .identityDep t => env.otherCond t

def doEff (env : Env) (st : St) : Eff → St
  | .decodeBody => { obs := .bodyRead :: st.obs, err := if env.bodyOk then .none else .full }
  | .readBody => { obs := .bodyRead :: st.obs, err := if env.bodyOk then .none else .full }
  | .upstream n => { obs := .upstream n :: st.obs, err := env.upstreamErr n st.obs.length }
  | .upstreamMany n => { obs := .upstream n :: st.obs, err := env.upstreamErr n st.obs.length }
  | .notify a => { st with obs := .notify a :: st.obs }
  | .configWrite => { st with obs := .configWrite :: st.obs }
  | .localCall n => { st with err := if env.localErr n st.obs.length then .full else .none }
  | .pureCall _ => st

/-- Status answered for a skeleton that cannot be interpreted. -/
def unknownStatus : Nat := 0

/-- Interpreter: status code and the observable effects in program order. -/
def runSt (env : Env) : Skel → St → Nat × List Obs
  | .ret code, st => (code, st.obs.reverse)
  | .eff e k, st => runSt env k (doEff env st e)
  | .ite c t e, st => if evalCond env st c then runSt env t st else runSt env e st
  | .unknown _, st => (unknownStatus, st.obs.reverse)

def run (env : Env) (sk : Skel) : Nat × List Obs := runSt env sk {}

/-! ### Static judgements on skeletons (decidable; evaluated on the regenerated table) -/

/-- On every path the admin check comes before any effect, and its failure branch is exactly
`return 403`. -/
def guarded : Skel → Bool
  | .ite .notAdmin (.ret 403) _ => true
  | .ite .notAdmin _ _ => false
  | .ite _ t e => guarded t && guarded e
  | _ => false

/-- No path evaluates the admin check (the status cannot depend on the identity). -/
def authFree : Skel → Bool
  | .ret _ => true
  | .eff _ k => authFree k
  | .ite .notAdmin _ _ => false
  | .ite (.identityDep _) _ _ => false
  | .ite _ t e => authFree t && authFree e
  | .unknown _ => false

/-- Is an effect invisible from outside (only sets `err`)? -/
def Eff.isLocal : Eff → Bool
  | .localCall _ => true
  | .pureCall _ => true
  | _ => false

/-- `netGuarded sk`: every path reaches `if !ipnet.Contains(ip) { return 403 }` having done
only local calls, and may leave earlier only by returning a 4xx. (The shape of `doConfig`
below `if allowConfigFromCIDR != ""`.) -/
def netGuarded : Skel → Bool
  | .ite .notInNet (.ret 403) _ => true
  | .ite .notInNet _ _ => false
  | .ite _ t e => netGuardedOrDeny t && netGuardedOrDeny e
  | .eff e k => e.isLocal && netGuarded k
  | _ => false
where
  netGuardedOrDeny : Skel → Bool
    | .ret code => 400 ≤ code && code < 500
    | .ite .notInNet (.ret 403) _ => true
    | .ite .notInNet _ _ => false
    | .ite _ t e => netGuardedOrDeny t && netGuardedOrDeny e
    | .eff e k => e.isLocal && netGuardedOrDeny k
    | .unknown _ => false

/-- The CIDR gate: the handler starts with `if cidrSet { … net check … }`. -/
def cidrGuarded : Skel → Bool
  | .ite .cidrSet t _ => netGuarded.netGuardedOrDeny t
  | _ => false

/-- Observable effects a skeleton can perform, with the conditions under which it does, are
listed by `paths`: every root-to-leaf path as (conditions taken, effects, status). -/
def paths : Skel → List (List (Cond × Bool) × List Eff × Nat)
  | .ret code => [([], [], code)]
  | .eff e k => (paths k).map (fun p => (p.1, e :: p.2.1, p.2.2))
  | .ite c t e =>
    (paths t).map (fun p => ((c, true) :: p.1, p.2.1, p.2.2)) ++
    (paths e).map (fun p => ((c, false) :: p.1, p.2.1, p.2.2))
  | .unknown _ => [([], [], unknownStatus)]


/-! ### "State-changing" by effect (audit C18)

Which upstream calls can change the cluster is read off the code, not off the HTTP method of the nsqadmin
route: the table `tbl` (regenerated, `Nsq.Gen.AdminRoutes.upstreamWrites`) says for every method of
`ClusterInfo` / `http_api.Client` whether it can send a request that is not a GET. A name that is not in the
table counts as a write. -/

def writesOf (tbl : List (String × Bool)) (n : String) : Bool :=
  match tbl.find? (fun kv => kv.1 == n) with
  | some kv => kv.2
  | none => true

/-- Effects that change something outside the handler: a writing upstream call, a notification, a
configuration write. -/
def Eff.isWrite (tbl : List (String × Bool)) : Eff → Bool
  | .upstream n => writesOf tbl n
  | .upstreamMany n => writesOf tbl n
  | .notify _ => true
  | .configWrite => true
  | _ => false

def Obs.isWrite (tbl : List (String × Bool)) : Obs → Bool
  | .upstream n => writesOf tbl n
  | .notify _ => true
  | .configWrite => true
  | .bodyRead => false

/-- Can any path of the skeleton perform a write? (`unknown` counts as "yes".) -/
def canWrite (tbl : List (String × Bool)) : Skel → Bool
  | .ret _ => false
  | .unknown _ => true
  | .eff e k => e.isWrite tbl || canWrite tbl k
  | .ite _ t e => canWrite tbl t || canWrite tbl e

/-! ### The action is reached (audit C19)

`reaches V errNone rem sk`: walk the skeleton the way a *well-formed request with an admin identity* does —
the admin check passes, the body decodes (`errNone` = the latest err-producing effect was the body decode, so
`err` is known to be nil), every validation test listed in `V` passes, and the body's action is one of
`rem` (`none` = the handler is not asked about it) — taking **both** branches of every other test. Every leaf
met must be an answer 200 or 502. A `return 400` slipped in behind the check (under a condition that is not a
listed validation, or unconditionally) makes this false. -/
def reaches (V : List String) : Bool → Option (List String) → Skel → Bool
  | _, _, .ret c => c == 200 || c == 502
  | _, _, .unknown _ => false
  | _, rem, .eff .decodeBody k => reaches V true rem k
  | _, rem, .eff .readBody k => reaches V true rem k
  | _, rem, .eff (.upstream _) k => reaches V false rem k
  | _, rem, .eff (.upstreamMany _) k => reaches V false rem k
  | _, rem, .eff (.localCall _) k => reaches V false rem k
  | en, rem, .eff (.notify _) k => reaches V en rem k
  | en, rem, .eff .configWrite k => reaches V en rem k
  | en, rem, .eff (.pureCall _) k => reaches V en rem k
  | en, rem, .ite c t e =>
    match c, en, rem with
    | .notAdmin, _, _ => reaches V en rem e
    | .errNotNil, true, _ => reaches V en rem e
    | .errNotPartial, true, _ => reaches V en rem e
    | .other s, _, _ =>
      if V.contains s then reaches V en rem e else reaches V en rem t && reaches V en rem e
    | .actionIs a, _, some as =>
      (!as.contains a || reaches V en (some [a]) t) &&
        ((as.filter (· != a)).isEmpty || reaches V en (some (as.filter (· != a))) e)
    | _, _, _ => reaches V en rem t && reaches V en rem e

/-- What a well-formed request is, per mutating handler: the validation tests it passes (Go text of the
refusing condition) and the actions its body may name. -/
structure Valid where
  others : List String
  actions : Option (List String)
deriving Repr

def validOf (handler : String) : Valid :=
  if handler == "createTopicChannelHandler" then
    ⟨["!protocol.IsValidTopicName(body.Topic)", "!protocol.IsValidChannelName(body.Channel)"], none⟩
  else if handler == "tombstoneNodeForTopicHandler" then ⟨["!protocol.IsValidTopicName(body.Topic)"], none⟩
  else if handler == "topicActionHandler" || handler == "channelActionHandler" then
    ⟨[], some ["pause", "unpause", "empty"]⟩
  else ⟨[], none⟩

def adminReaches (handler : String) (sk : Skel) : Bool :=
  reaches (validOf handler).others false (validOf handler).actions sk

def lookupHandler (hs : List (String × Skel)) (name : String) : Option Skel :=
  match hs.find? (fun kv => kv.1 == name) with
  | some kv => some kv.2
  | none => none

/-- A route that changes cluster state: POST / PUT / DELETE below `/api`. -/
def Route.mutating (r : Route) : Bool :=
  (r.method == "POST" || r.method == "PUT" || r.method == "DELETE") && r.segs.head? == some "api"

def Route.isConfig (r : Route) : Bool := r.segs.head? == some "config"

def Route.readOnly (r : Route) : Bool := r.method == "GET"

/-- The conditional graphite reverse proxy (`GET /render`, registered only with `--proxy-graphite`): not a
handler of `httpServer`; it forwards the GET it received to the configured graphite URL. -/
def Route.isProxy (r : Route) : Bool := r.handler == "expr:proxy"

/-- A GET route outside `/config` that is served by an extracted handler (views, pages, static files). -/
def Route.plainGet (r : Route) : Bool := r.method == "GET" && !r.isConfig && !r.isProxy

end Nsq.Model.AdminGate
