/-
E2 / C13 — one consumer's `in_flight_count` with EVERY counter window split (round 9, audit B18).

`Nsq.Model.Chan` splits FIN (`finChan | finClient`) and the pump (`guard | deliverArmed`); REQ, the timeout scan, the
pump's `SendingMessage | StartInFlightTimeout` pair and `Channel.Empty`'s `initPQ | Discarded` pair are fused there.
This model keeps only what the counter depends on — how many messages of consumer k are where — and makes each of
those pairs two steps; a schedule is any list of steps:
  `sendCount`     pump: `client.SendingMessage()`  (count first — fix F13)        | `sendRegister`  `StartInFlightTimeout`: map insert
  `pop`           `popInFlightMessage` by k's FIN / REQ, or the scan's pop of one of k's messages
                                                                                  | `dec`  `FinishedMessage` / `RequeuedMessage` / `TimedOutMessage`
  `emptyDrop`     `Channel.Empty`: `dropped := initPQ()` (the map is reset, k's entries counted)
                                                                                  | `emptyDisc`  `client.Discarded(dropped[k])`
Flags select the two pre-F13 shapes: `countFirst = false` (register, then count), `subtract = false`
(`client.Empty()`: store 0).
Core Lean only.
-/
namespace Nsq.Model.ClientWindows

structure St where
  /-- k's entries in the in-flight map -/
  held     : Nat := 0
  /-- `client.InFlightCount` -/
  cnt      : Int := 0
  /-- popped from the map, the client-side decrement pending -/
  pendDec  : Nat := 0
  /-- counted by `SendingMessage`, map insert pending (`countFirst`); or inserted, count pending (`!countFirst`) -/
  pendSend : Nat := 0
  /-- dropped by `initPQ`, `Discarded` pending -/
  pendDisc : Nat := 0
deriving DecidableEq, Repr

inductive Op where
  | sendFirst | sendSecond
  | pop | dec
  | emptyDrop | emptyDisc
deriving DecidableEq, Repr

def step (countFirst subtract : Bool) (s : St) : Op → St × Bool
  | .sendFirst =>
    if countFirst then ({ s with cnt := s.cnt + 1, pendSend := s.pendSend + 1 }, true)
    else ({ s with held := s.held + 1, pendSend := s.pendSend + 1 }, true)
  | .sendSecond =>
    if s.pendSend == 0 then (s, false)
    else if countFirst then ({ s with held := s.held + 1, pendSend := s.pendSend - 1 }, true)
    else ({ s with cnt := s.cnt + 1, pendSend := s.pendSend - 1 }, true)
  | .pop => if s.held == 0 then (s, false) else ({ s with held := s.held - 1, pendDec := s.pendDec + 1 }, true)
  | .dec => if s.pendDec == 0 then (s, false) else ({ s with pendDec := s.pendDec - 1, cnt := s.cnt - 1 }, true)
  | .emptyDrop => ({ s with held := 0, pendDisc := s.pendDisc + s.held }, true)
  | .emptyDisc =>
    if subtract then ({ s with cnt := s.cnt - s.pendDisc, pendDisc := 0 }, true)
    else ({ s with cnt := 0, pendDisc := 0 }, true)

def run (countFirst subtract : Bool) (s : St) : List Op → St
  | [] => s
  | op :: ops => run countFirst subtract (step countFirst subtract s op).1 ops

end Nsq.Model.ClientWindows
