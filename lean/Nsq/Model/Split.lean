import Nsq.Model.Line
/-
Model of apps/to_nsq/to_nsq.go: the `for { readAndPublish(r, delim, producers) }` loop.
`readBytes` is `bufio.Reader.ReadBytes(delim)` on the input that is still unread (buffer
boundaries are invisible through the bufio API; the harness straddles the 4096-byte buffer).
Two trimming rules are modelled:
  * `trimFixed` — "trim the delimiter only when the last byte is the delimiter" (fix F5), the rule the
    property theorem `to_nsq_records` is about;
  * `trimOld`   — "drop the last byte of every non-empty line" (the tree before fix F5), kept as the
    witness of finding F5 (`to_nsq_records_old_false`).
Core Lean only (linked into drv_e8).
-/
namespace Nsq.Model.Split

abbrev Bytes := List UInt8

/-- `line, err := r.ReadBytes(d)`: the line up to and including the first `d`, the unread rest,
and `err == io.EOF` (no delimiter before the end of input) -/
def readBytes (d : UInt8) : Bytes → Bytes × Bytes × Bool
  | [] => ([], [], true)
  | b :: rest =>
    if b = d then ([b], rest, false)
    else (b :: (readBytes d rest).1, (readBytes d rest).2.1, (readBytes d rest).2.2)

theorem readBytes_lt (d : UInt8) (input : Bytes) (h : (readBytes d input).2.2 = false) :
    (readBytes d input).2.1.length < input.length := by
  induction input with
  | nil => simp [readBytes] at h
  | cons b rest ih =>
    unfold readBytes at h ⊢
    by_cases hb : b = d
    · simp [hb]
    · simp [hb] at h ⊢
      have := ih h
      omega

/-- `if len(line) > 0 && line[len(line)-1] == delim { line = line[:len(line)-1] }` -/
def trimFixed (d : UInt8) (l : Bytes) : Bytes :=
  if l.length > 0 ∧ l.getLast? = some d then l.dropLast else l

/-- `if len(line) > 0 { line = line[:len(line)-1] }` -/
def trimOld (_d : UInt8) (l : Bytes) : Bytes :=
  if l.length > 0 then l.dropLast else l

/-- every record the loop publishes, in order (`trim` = the trimming rule of `readAndPublish`):
read a line, trim, skip if empty, publish; stop when `ReadBytes` reported EOF -/
def published (trim : UInt8 → Bytes → Bytes) (d : UInt8) (input : Bytes) : List Bytes :=
  if h : (readBytes d input).2.2 = true then
    (if (trim d (readBytes d input).1).length = 0 then [] else [trim d (readBytes d input).1])
  else
    (if (trim d (readBytes d input).1).length = 0 then [] else [trim d (readBytes d input).1])
      ++ published trim d (readBytes d input).2.1
termination_by input.length
decreasing_by exact readBytes_lt d input (by simpa using h)

/-- `for _, producer := range producers { producer.Publish(topic, line) }` for every record:
the publish events (destination index, body) in order, all publishes succeeding -/
def deliver (n : Nat) (recs : List Bytes) : List (Nat × Bytes) :=
  recs.flatMap fun r => (List.range n).map fun i => (i, r)

def received (i : Nat) (evs : List (Nat × Bytes)) : List Bytes :=
  evs.filterMap fun e => if e.1 = i then some e.2 else none

/-! ### specification: the non-empty delimiter-separated records of a byte string -/

def splitOn (d : UInt8) : Bytes → List Bytes
  | [] => [[]]
  | b :: rest =>
    if b = d then [] :: splitOn d rest
    else match splitOn d rest with
      | [] => [[b]]
      | p :: ps => (b :: p) :: ps

def records (d : UInt8) (input : Bytes) : List Bytes :=
  (splitOn d input).filter (fun p => p ≠ [])

/-! ### driver -/
open Nsq.Line in
def driverLine (ws : List String) : String :=
  match ws with
  | [which, d, input] =>
    match unhex d, unhex input with
    | some [d], some input =>
      let recs := if which = "fixed" then some (published trimFixed d input)
                  else if which = "old" then some (published trimOld d input)
                  else if which = "spec" then some (records d input) else none
      match recs with
      | some recs => s!"n={recs.length} [{",".intercalate (recs.map hex)}]"
      | none => "bad-op"
    | _, _ => "bad-op"
  | _ => "bad-op"

end Nsq.Model.Split
