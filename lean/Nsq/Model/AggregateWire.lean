import Nsq.Model.Aggregate
namespace Nsq.Model.AggregateWire
def viewLine (toks : List String) : String := "bad-op"
end Nsq.Model.AggregateWire
