import Nsq.Model.Aggregate
import Nsq.Model.Int64
/-!
Line protocol of the C18 correspondence (driver side): parse a `view …` op (request + the whole
stub cluster) and render the model's view canonically. Lists whose order the code leaves to
goroutine arrival (or to an unstable sort) are rendered sorted; the harness does the same.
Not used by any theorem. Integers are printed as nsqadmin holds them: int64, i.e. `wrap64` of the model's
`Int` (see `Props.C18.int64_sum_wraps`, `counters_go_sum`).
-/
namespace Nsq.Model.AggregateWire
open Nsq.Model.Aggregate

abbrev P (α : Type) := List String → Option (α × List String)

def str : P String
  | [] => none
  | t :: r => some (if t == "-" then "" else t, r)

def nat : P Nat
  | [] => none
  | t :: r => t.toNat?.map (fun n => (n, r))

def int : P Int
  | [] => none
  | t :: r => t.toInt?.map (fun n => (n, r))

def bool : P Bool
  | [] => none
  | t :: r => some (t == "1", r)

/-- The latency token: `0` absent / null, `1` present and well-formed, `p:<e>,<e>,…` present with that
`percentiles` shape (`n` = null element, a number = the id of the float under "quantile"). -/
def pctEntry (e : String) : Option Latency.Pct :=
  if e == "n" then some none else e.toNat?.map some

def pctEntries : List String → Option (List Latency.Pct)
  | [] => some []
  | e :: rest =>
    match pctEntry e, pctEntries rest with
    | some x, some xs => some (x :: xs)
    | _, _ => none

/-- Suffix `/j:<e>,<e>` of a channel's latency token: the channel object carries a `nodes` member
(`n` = null element, anything else = an object). -/
def junkOf (t : String) : List Bool :=
  match t.splitOn "/j:" with
  | [_, j] => ((j.splitOn ",").filter (· != "")).map (· != "n")
  | _ => []

def stripJunk (t : String) : String :=
  match t.splitOn "/j:" with
  | e :: _ => e
  | [] => t

def e2eTok : P (Bool × List Latency.Pct)
  | [] => none
  | t0 :: r =>
    let t := stripJunk t0
    if t.startsWith "p:" then
      (pctEntries (((t.splitOn ":").drop 1).flatMap (fun x => (x.splitOn ",").filter (· != "")))).map (fun l => ((true, l), r))
    else some ((t == "1", []), r)

def many {α : Type} (p : P α) : Nat → P (List α)
  | 0, ts => some ([], ts)
  | n + 1, ts =>
    match p ts with
    | none => none
    | some (a, r) =>
      match many p n r with
      | none => none
      | some (as, r') => some (a :: as, r')

def counted {α : Type} (p : P α) : P (List α) := fun ts =>
  match nat ts with
  | none => none
  | some (n, r) => many p n r

/-- `F` = failed, `O …` = answered. -/
def answer {α : Type} (p : P α) : P (Option α)
  | "F" :: r => some (none, r)
  | "O" :: r => (p r).map (fun (a, r') => (some a, r'))
  | _ => none

def nullable {α : Type} (tag : String) (p : P α) : P (Option α)
  | "null" :: r => some (none, r)
  | t :: r => if t == tag then (p r).map (fun (a, r') => (some a, r')) else none
  | [] => none

def client : P Client := fun ts => do
  let (h, ts) ← str ts
  let (c, ts) ← str ts
  pure (⟨h, c⟩, ts)

def chan : P Chan := fun ts => do
  let (name, ts) ← str ts
  let (depth, ts) ← int ts
  let (bk, ts) ← int ts
  let (inflight, ts) ← int ts
  let (deferred, ts) ← int ts
  let (requeue, ts) ← int ts
  let (timeout, ts) ← int ts
  let (msg, ts) ← int ts
  let (zone, ts) ← int ts
  let (region, ts) ← int ts
  let (glob, ts) ← int ts
  let (cc, ts) ← int ts
  let (paused, ts) ← bool ts
  let up := match ts with | t :: _ => junkOf t | [] => []
  let ((e2e, pct), ts) ← e2eTok ts
  let (cl, ts) ← counted (nullable "K" client) ts
  let cnt : Counters :=
    { depth := depth, backendDepth := bk, inFlight := inflight,
      deferred := deferred, requeue := requeue, timeout := timeout, msgCount := msg,
      zoneLocal := zone, regionLocal := region, globalMsg := glob, clientCount := cc }
  pure ({ name := name, cnt := cnt, paused := paused, clients := cl, e2e := e2e, pct := pct, upNodes := up }, ts)

def topic : P Topic := fun ts => do
  let (name, ts) ← str ts
  let (depth, ts) ← int ts
  let (bk, ts) ← int ts
  let (msg, ts) ← int ts
  let (zone, ts) ← int ts
  let (region, ts) ← int ts
  let (glob, ts) ← int ts
  let (paused, ts) ← bool ts
  let ((e2e, pct), ts) ← e2eTok ts
  let (chs, ts) ← counted (nullable "C" chan) ts
  let cnt : Counters :=
    { depth := depth, backendDepth := bk, msgCount := msg,
      zoneLocal := zone, regionLocal := region, globalMsg := glob }
  pure ({ name := name, cnt := cnt, paused := paused, channels := chs, e2e := e2e, pct := pct }, ts)

def producer : P ProducerJSON := fun ts => do
  let (hostname, ts) ← str ts
  let (addr, ts) ← str ts
  let (tcp, ts) ← str ts
  let (version, ts) ← str ts
  let (a, ts) ← nat ts
  let (b, ts) ← nat ts
  let (c, ts) ← nat ts
  let (remote, ts) ← str ts
  let (topics, ts) ← counted str ts
  let (tombs, ts) ← counted bool ts
  pure ({ hostname := hostname, addr := addr, tcp := tcp, version := version, ver := (a, b, c),
          remote := remote, topics := topics, tombstones := tombs }, ts)

def info : P Info := fun ts => do
  let (hostname, ts) ← str ts
  let (addr, ts) ← str ts
  let (tcp, ts) ← str ts
  let (version, ts) ← str ts
  let (a, ts) ← nat ts
  let (b, ts) ← nat ts
  let (c, ts) ← nat ts
  -- an `/info` answer without `broadcast_address` (and `http_port`) is written with the address ":0"
  pure ({ hostname := hostname, addr := addr, tcp := tcp, version := version, ver := (a, b, c),
          noBcast := addr.startsWith ":" }, ts)

def lookupd : P Lookupd := fun ts => do
  let (addr, ts) ← str ts
  let (tp, ts) ← answer (counted str) ts
  let (nd, ts) ← answer (counted (nullable "P" producer)) ts
  let (lk, ts) ← answer (counted (nullable "P" producer)) ts
  pure ({ addr := addr, topics := tp, nodes := nd, lookup := lk }, ts)

def nsqd : P Nsqd := fun ts => do
  let (addr, ts) ← str ts
  let (flt, ts) ← bool ts
  let (inf, ts) ← answer info ts
  let (st, ts) ← answer (counted (nullable "T" topic)) ts
  pure ({ addr := addr, info := inf, stats := st, filters := flt }, ts)

def expect (tag : String) : P Unit
  | t :: r => if t == tag then some ((), r) else none
  | [] => none

/-- One entry of the optional section `I <n> …`: `<lk> <topic> <answer /lookup> <answer /channels>`. -/
def topicAns : P TopicAns := fun ts => do
  let (lk, ts) ← str ts
  let (t, ts) ← str ts
  let (lo, ts) ← answer (counted (nullable "P" producer)) ts
  let (ch, ts) ← answer (counted str) ts
  pure ({ lk := lk, topic := t, lookup := lo, channels := ch }, ts)

def world : P World := fun ts => do
  let (_, ts) ← expect "W" ts
  let (_, ts) ← expect "L" ts
  let (ls, ts) ← counted lookupd ts
  let (_, ts) ← expect "A" ts
  let (as, ts) ← counted str ts
  let (_, ts) ← expect "N" ts
  let (ns, ts) ← counted nsqd ts
  match ts with
  | "I" :: ts' =>
    let (pt, ts'') ← counted topicAns ts'
    pure ({ lookupds := ls, nsqdAddrs := as, nsqds := ns, perTopic := pt }, ts'')
  | _ => pure ({ lookupds := ls, nsqdAddrs := as, nsqds := ns }, ts)

def request : P Request
  | "topics" :: r => some (.topics, r)
  | "topic" :: n :: r => some (.topic n, r)
  | "channel" :: t :: c :: r => some (.channel t c, r)
  | "nodes" :: r => some (.nodes, r)
  | "node" :: a :: r => some (.node a, r)
  | "counter" :: r => some (.counter, r)
  | "inactive" :: r => some (.topicsInactive, r)
  | _ => none

/-! ### Rendering -/

def b01 (b : Bool) : String := if b then "1" else "0"

def joinOr (xs : List String) (sep : String) : String :=
  if xs.isEmpty then "-" else String.intercalate sep xs

def sorted (xs : List String) : List String := sortNames xs

def cs (c : Counters) : String :=
  String.intercalate "," ([c.depth, c.memDepth, c.backendDepth, c.inFlight, c.deferred, c.requeue,
    c.timeout, c.msgCount, c.delivery, c.zoneLocal, c.regionLocal, c.globalMsg, c.clientCount].map (fun x => toString (Nsq.Model.Int64.wrap64 x)))

def e (s : String) : String := if s == "" then "-" else s

def clientsStr (cl : List ClientV) : String :=
  joinOr (sorted (cl.map (fun c => e c.hostname ++ "~" ++ e c.clientId ++ "~" ++ e c.node))) "+"

def renderBody : Body → String
  | .topics ns => joinOr (ns.map e) ","
  | .topic t =>
    "T/" ++ e t.name ++ "/" ++ cs t.cnt ++ "/" ++ b01 t.paused ++
    " N[" ++ joinOr (sorted (t.nodes.map (fun n =>
        e n.node ++ "/" ++ e n.hostname ++ "/" ++ cs n.cnt ++ "/" ++ b01 n.paused))) ";" ++ "]" ++
    " C[" ++ joinOr (sorted (t.channels.map (fun c =>
        e c.name ++ "/" ++ e c.node ++ "/" ++ cs c.cnt ++ "/" ++ b01 c.paused ++ "/" ++
        clientsStr c.clients ++ "/" ++ toString c.nodes.length))) ";" ++ "]"
  | .channel c =>
    "C/" ++ e c.name ++ "/" ++ e c.node ++ "/" ++ e c.topic ++ "/" ++ cs c.cnt ++ "/" ++ b01 c.paused ++ "/" ++
    clientsStr c.clients ++ "/" ++
    joinOr (sorted (c.nodes.map (fun n =>
      e n.node ++ "~" ++ e n.hostname ++ "~" ++ cs n.cnt ++ "~" ++ b01 n.paused))) "+"
  | .nodes ps =>
    "P[" ++ joinOr (sorted (ps.map (fun p =>
      e p.hostname ++ "/" ++ e p.addr ++ "/" ++ e p.tcp ++ "/" ++ e p.version ++ "/" ++ b01 p.outOfDate ++ "/" ++
      joinOr (sorted p.remotes) "+" ++ "/" ++
      joinOr (sorted (p.topics.map (fun t => e t.topic ++ "~" ++ b01 t.tombstoned))) "+"))) ";" ++ "]"
  | .node name ts tm tc =>
    e name ++ " " ++ toString (Nsq.Model.Int64.wrap64 tm) ++ " " ++ toString (Nsq.Model.Int64.wrap64 tc) ++
    " T[" ++ joinOr (sorted (ts.map (fun t =>
      e t.name ++ "/" ++ cs t.cnt ++ "/" ++ b01 t.paused ++ "/" ++
      joinOr (sorted (t.channels.map (fun c =>
        e c.name ++ "~" ++ cs c.cnt ++ "~" ++ b01 c.paused ++ "~" ++ toString c.clients.length))) "+"))) ";" ++ "]"
  | .counter st => joinOr (sorted (st.map (fun kv => kv.1 ++ "=" ++ toString (Nsq.Model.Int64.wrap64 kv.2)))) ","
  | .inactive m =>
    "I[" ++ joinOr (m.map (fun kv => e kv.1 ++ "=" ++ joinOr (kv.2.map e) "+")) ";" ++ "]"
  | .none => "-"

def renderView (v : View) : String :=
  if v.status == 200 then s!"200 {b01 v.warn} {renderBody v.body}" else s!"{v.status} - -"

def faultSite : Fault → String
  | .indexOutOfRange s => "index-out-of-range:" ++ (s.replace " " "_")
  | .nilDeref s => "nil-deref:" ++ (s.replace " " "_")
  | .nilMapWrite s => "nil-map-write:" ++ (s.replace " " "_")

def viewLine (toks : List String) : String :=
  match request toks with
  | none => "bad-op"
  | some (req, r) =>
    match world r with
    | none => "bad-op"
    | some (w, _) =>
      match view Fixes.tree w req with
      | .error f => "PANIC " ++ faultSite f
      | .ok v => renderView v

/-! ### `add …`: TopicStats.Add / ChannelStats.Add on reports given directly (stream `add`) -/

def counters13 : P Counters := fun ts => do
  let (l, ts) ← many int 13 ts
  match l with
  | [a, b, c, d, e', f, g, h, i, j, k, m, n] =>
    pure ({ depth := a, memDepth := b, backendDepth := c, inFlight := d, deferred := e', requeue := f, timeout := g,
            msgCount := h, delivery := i, zoneLocal := j, regionLocal := k, globalMsg := m, clientCount := n }, ts)
  | _ => none

def counters8 : P Counters := fun ts => do
  let (l, ts) ← many int 8 ts
  match l with
  | [a, b, c, h, i, j, k, m] =>
    pure ({ depth := a, memDepth := b, backendDepth := c, msgCount := h, delivery := i, zoneLocal := j,
            regionLocal := k, globalMsg := m }, ts)
  | _ => none

def chanNodeTok : P ChanNode := fun ts => do
  let (node, ts) ← str ts
  let (host, ts) ← str ts
  let (topic, ts) ← str ts
  let (name, ts) ← str ts
  let (paused, ts) ← bool ts
  let (e2e, ts) ← bool ts
  let (cnt, ts) ← counters13 ts
  let (cl, ts) ← counted client ts
  pure ({ node := node, hostname := host, topic := topic, name := name, cnt := cnt, paused := paused,
          clients := cl.map (fun c => ⟨c.hostname, c.clientId, node⟩), e2e := e2e }, ts)

def topicNodeTok : P TopicNode := fun ts => do
  let (node, ts) ← str ts
  let (host, ts) ← str ts
  let (name, ts) ← str ts
  let (paused, ts) ← bool ts
  let (e2e, ts) ← bool ts
  let (cnt, ts) ← counters8 ts
  let (chs, ts) ← counted chanNodeTok ts
  pure ({ node := node, hostname := host, name := name, cnt := cnt, paused := paused, channels := chs, e2e := e2e }, ts)

def foldChan (fx : Fixes) : List ChanNode → ChanAgg → Except Fault ChanAgg
  | [], c => .ok c
  | a :: rest, c =>
    match c.add fx a with
    | .error e => .error e
    | .ok c' => foldChan fx rest c'

def addLine : List String → String
  | "topic" :: name :: rest =>
    (match counted topicNodeTok rest with
     | none => "bad-op"
     | some (reports, _) =>
       match TopicAgg.addAll Fixes.all reports { name := name } with
       | .error f => "PANIC " ++ faultSite f
       | .ok t => "200 0 " ++ renderBody (.topic t))
  | "channel" :: name :: rest =>
    (match counted chanNodeTok rest with
     | none => "bad-op"
     | some (reports, _) =>
       match foldChan Fixes.all reports { node := "", topic := "", name := name } with
       | .error f => "PANIC " ++ faultSite f
       | .ok c => "200 0 " ++ renderBody (.channel c))
  | _ => "bad-op"

end Nsq.Model.AggregateWire
