import Nsq.Model.Line
/-
nsq_to_http, GET mode (audit round 7, item C23): `GetPublisher.Publish` builds the request target as

    endpoint := fmt.Sprintf(addr, url.QueryEscape(string(msg)))

* `queryEscape`  = Go's `url.QueryEscape`: `A-Z a-z 0-9 - _ . ~` are kept, space becomes `+`, every other byte becomes
  `%XX` with upper-case hex digits. `queryUnescape` = `url.QueryUnescape` (what the destination applies).
* `sprintf1`     = `fmt.Sprintf(template, arg)` with ONE string operand, restricted to what is needed: the template
  is scanned left to right, `%s` substitutes the operand, `%%` prints `%`; any other character after `%` (another
  verb, a flag, a width) and a `%` at the very end make the template *unclean* — there Go prints `%!…` diagnostics
  (`%!(NOVERB)`, `%!d(string=…)`, `%!s(MISSING)`, `%!(EXTRA string=…)`) into the URL; those are not modelled, the
  result is `none`. A clean template uses the operand exactly once.
* `mainCheck`    = main()'s validation `strings.Count(get, "%s") == 1` (textual).
Core Lean only (linked into drv_e8).
-/
namespace Nsq.Model.HttpGet

abbrev Bytes := List UInt8

/-- `shouldEscape(c, encodeQueryComponent) == false` -/
def unreserved (b : UInt8) : Bool :=
  (decide (65 ≤ b) && decide (b ≤ 90)) || (decide (97 ≤ b) && decide (b ≤ 122)) || (decide (48 ≤ b) && decide (b ≤ 57))
    || b == 45 || b == 95 || b == 46 || b == 126

/-- `"0123456789ABCDEF"[n]` -/
def hexDigit (n : Nat) : UInt8 := if n < 10 then UInt8.ofNat (48 + n) else UInt8.ofNat (55 + n)

def escapeByte (b : UInt8) : Bytes :=
  if unreserved b then [b]
  else if b = 32 then [43]
  else [37, hexDigit (b.toNat / 16), hexDigit (b.toNat % 16)]

def queryEscape (bs : Bytes) : Bytes := bs.flatMap escapeByte

/-- `unhex` of net/url (both cases) -/
def unhexDigit (c : UInt8) : Option Nat :=
  if 48 ≤ c ∧ c ≤ 57 then some (c.toNat - 48)
  else if 65 ≤ c ∧ c ≤ 70 then some (c.toNat - 55)
  else if 97 ≤ c ∧ c ≤ 102 then some (c.toNat - 87)
  else none

/-- `url.QueryUnescape`: `%XX` → byte, `+` → space; `none` = `EscapeError` -/
def queryUnescape : Bytes → Option Bytes
  | [] => some []
  | b :: rest =>
    if b = 37 then
      match rest with
      | h :: l :: rest' =>
        match unhexDigit h, unhexDigit l, queryUnescape rest' with
        | some a, some c, some r => some (UInt8.ofNat (a * 16 + c) :: r)
        | _, _, _ => none
      | _ => none
    else if b = 43 then (queryUnescape rest).map (32 :: ·)
    else (queryUnescape rest).map (b :: ·)

/-! ### the template -/

inductive Piece
  | lit (b : UInt8)
  | arg
deriving DecidableEq, Repr

/-- scan a printf template; `none` = something other than `%s` / `%%` follows a `%` -/
def scan : Bytes → Option (List Piece)
  | [] => some []
  | b :: rest =>
    if b = 37 then
      match rest with
      | c :: rest' =>
        if c = 115 then (scan rest').map (Piece.arg :: ·)
        else if c = 37 then (scan rest').map (Piece.lit 37 :: ·)
        else none
      | [] => none
    else (scan rest).map (Piece.lit b :: ·)

def render (arg : Bytes) : List Piece → Bytes
  | [] => []
  | .lit b :: ps => b :: render arg ps
  | .arg :: ps => arg ++ render arg ps

def nargs : List Piece → Nat
  | [] => 0
  | .lit _ :: ps => nargs ps
  | .arg :: ps => nargs ps + 1

/-- every `%` of the template belongs to `%%` or to the single `%s` -/
def cleanTemplate (t : Bytes) : Bool :=
  match scan t with
  | some ps => nargs ps == 1
  | none => false

/-- `fmt.Sprintf(t, arg)` for clean templates (`none`: Go prints `%!…` diagnostics, not modelled) -/
def sprintf1 (t arg : Bytes) : Option Bytes :=
  match scan t with
  | some ps => if nargs ps = 1 then some (render arg ps) else none
  | none => none

/-- the request target `GetPublisher.Publish` asks for -/
def endpoint (t body : Bytes) : Option Bytes := sprintf1 t (queryEscape body)

/-- `strings.Count(s, "%s")` (non-overlapping; `%s` cannot overlap itself) -/
def countPctS : Bytes → Nat
  | [] => 0
  | [_] => 0
  | a :: b :: rest => if a = 37 ∧ b = 115 then countPctS rest + 1 else countPctS (b :: rest)

/-- main(): `if strings.Count(get, "%s") != 1 { log.Fatal("invalid GET address - must be a printf string") }` -/
def mainCheck (t : Bytes) : Bool := countPctS t == 1

/-! ### driver -/
open Nsq.Line

/-- `get <template> <body>` → `main=<0|1> uri=<hex>` for a clean template, `main=<0|1> unclean` otherwise -/
def driverLine (ws : List String) : String :=
  match ws with
  | ["get", t, body] =>
    match unhex t, unhex body with
    | some t, some body =>
      let mc := if mainCheck t then "1" else "0"
      match endpoint t body with
      | some e => s!"main={mc} uri={hex e}"
      | none => s!"main={mc} unclean"
    | _, _ => "bad-op"
  | _ => "bad-op"

end Nsq.Model.HttpGet
