import Nsq.Model.Split
/-
to_nsq when a destination REFUSES a record (audit round 7, item C14). `Nsq.Model.Split.deliver` assumes that every
`producer.Publish` succeeds. The real loop is fail-stop:

    for _, producer := range producers {          // Go map: the order is chosen anew for every record
        err := producer.Publish(*topic, line)
        if err != nil { return err }               // main: `if err != io.EOF { log.Fatal(err) }`  → exit status 1
    }

`acc i r` = destination `i` acknowledges record `r` (nsqd refuses e.g. a body above --max-msg-size with
E_BAD_MESSAGE, a full / failing topic with E_PUB_FAILED). The iteration order of the map is an input of every
iteration (`ord`, a duplicate-free list of the destinations). Core Lean only (linked into drv_e8).
-/
namespace Nsq.Model.ToNsqRefuse
open Nsq.Model.Split

/-- one `readAndPublish` with a non-empty record: the acknowledged publishes, and `err == nil` -/
def publishOne (acc : Nat → Bytes → Bool) (r : Bytes) : List Nat → List (Nat × Bytes) × Bool
  | [] => ([], true)
  | i :: is => if acc i r then ((i, r) :: (publishOne acc r is).1, (publishOne acc r is).2) else ([], false)

/-- the loop over the records (each with the map order of its iteration): acknowledged publishes and the exit
status (0 after EOF, 1 = `log.Fatal` at the first refused publish; nothing is read after that) -/
def run (acc : Nat → Bytes → Bool) : List (Bytes × List Nat) → List (Nat × Bytes) × Nat
  | [] => ([], 0)
  | it :: rest =>
    if (publishOne acc it.1 it.2).2 then ((publishOne acc it.1 it.2).1 ++ (run acc rest).1, (run acc rest).2)
    else ((publishOne acc it.1 it.2).1, 1)

/-- a legal map order over destinations `0 … n-1` -/
def ValidOrder (n : Nat) (ord : List Nat) : Prop := ord.Nodup ∧ ∀ i, i ∈ ord ↔ i < n

/-- destination `j` has a size limit, everybody else accepts everything (the harness scenario) -/
def sizeLimit (j limit : Nat) : Nat → Bytes → Bool := fun i r => decide (i ≠ j) || decide (r.length ≤ limit)

/-! ### driver -/
open Nsq.Line

def natsOf (s : String) : Option (List Nat) :=
  if s = "-" then some [] else (s.splitOn ",").foldr (fun w acc => match w.toNat?, acc with | some k, some l => some (k :: l) | _, _ => none) (some [])

/-- `refuse n j limit delim input first` — records of `input`, destination `j` refuses bodies longer than `limit`;
`first` = the destinations the real loop visited before `j` in the iteration of the refused record (read off the
stubs; a runtime choice). Answer: exit status and what every destination acknowledged. -/
def driverLine (ws : List String) : String :=
  match ws with
  | ["refuse", n, j, limit, d, input, first] =>
    match n.toNat?, j.toNat?, limit.toNat?, unhex d, unhex input, natsOf first with
    | some n, some j, some limit, some [d], some input, some first =>
      let ord := first ++ [j] ++ ((List.range n).filter (fun i => i ≠ j ∧ i ∉ first))
      let r := run (sizeLimit j limit) ((published trimFixed d input).map (fun rec => (rec, ord)))
      let per := (List.range n).map fun i =>
        let recs := received i r.1
        s!"n={recs.length} [{",".intercalate (recs.map hex)}]"
      s!"exit={r.2} {" ".intercalate per}"
    | _, _, _, _, _, _ => "bad-op"
  | _ => "bad-op"

end Nsq.Model.ToNsqRefuse
