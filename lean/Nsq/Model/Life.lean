/-
C08 / C05 atomic-operation model of the life cycle of topics and channels of one nsqd:
create / delete / empty / pause / subscribe / unsubscribe (ephemeral auto-delete) /
publish / fan-out / deliver / FIN / REQ, plus the disk-file set and the persisted metadata.
(`closeAll`/`reload` for C05 are in Model/Restart.lean on top of this state.)

One `Op` = one API operation (DESIGN 3.4 "atomic-op model").  Queues are FIFO lists split into
the memory channel (`mem`, capacity `memCap`) and the disk queue (`disk`); which waiting
message a consumer takes is an *observation* (`deliver … id`), the model only checks that it
was allowed (acceptor, DESIGN §5 "E2 state machine").
-/
namespace Nsq.Model.Life

structure Msg where
  id : Nat
  ts : Int
  attempts : Nat
  body : List UInt8
deriving Repr, DecidableEq, Inhabited

structure Client where
  id : Nat
  inFlight : Int
deriving Repr, DecidableEq

structure Chan where
  name : String
  eph : Bool
  paused : Bool := false
  exiting : Bool := false
  queue : List Msg := []                 -- memory channel + disk queue, as a bag
  memLen : Nat := 0                      -- how many of them sit in the memory channel
  inflight : List (Msg × Nat) := []      -- message and owning client
  deferred : List Msg := []
  clients : List Client := []
  msgCount : Nat := 0
deriving Repr, DecidableEq

structure Topic where
  name : String
  eph : Bool
  paused : Bool := false
  queue : List Msg := []
  memLen : Nat := 0
  chans : List Chan := []
  msgCount : Nat := 0
deriving Repr, DecidableEq

/-- a disk-queue identity: topic, or (topic, channel) -/
abbrev BName := String × Option String

structure St where
  memCap : Nat
  topics : List Topic := []
  /-- connections force-closed by a delete -/
  closed : List Nat := []
  /-- backends that own at least one file under the data path -/
  files : List BName := []
  /-- ghost: (topic, channel) auto-deleted by the ephemeral once-only callback -/
  autoDeleted : List (String × String) := []
  /-- disk queues present under the data path that no topic/channel owns (left by a restart: a
  durable channel under an ephemeral topic is not in the metadata); `diskqueue.New` of the same
  name re-opens them -/
  orphans : List (BName × List Msg) := []
deriving Repr, DecidableEq

/-! ### lookups and updates -/

def getTopic (s : St) (t : String) : Option Topic := s.topics.find? (fun T => T.name == t)

def Topic.getChan (T : Topic) (c : String) : Option Chan := T.chans.find? (fun C => C.name == c)

def getChan (s : St) (t c : String) : Option Chan :=
  match getTopic s t with
  | none => none
  | some T => T.getChan c

def modTopic (s : St) (t : String) (f : Topic → Topic) : St :=
  { s with topics := s.topics.map (fun T => if T.name == t then f T else T) }

def Topic.modChan (T : Topic) (c : String) (f : Chan → Chan) : Topic :=
  { T with chans := T.chans.map (fun C => if C.name == c then f C else C) }

def modChan (s : St) (t c : String) (f : Chan → Chan) : St :=
  modTopic s t (fun T => T.modChan c f)

/-- every message a channel is responsible for, wherever it sits -/
def Chan.located (C : Chan) : List Msg :=
  C.queue ++ C.inflight.map (·.1) ++ C.deferred

def Chan.diskLen (C : Chan) : Nat := C.queue.length - C.memLen
def Topic.diskLen (T : Topic) : Nat := T.queue.length - T.memLen

/-! ### queue writes -/

/-- `Channel.put`: memory channel if there is room, else the backend; the backend of an
ephemeral channel is the dummy queue, which drops. Returns the channel and whether a file
was written. -/
def Chan.put (memCap : Nat) (C : Chan) (m : Msg) : Chan :=
  if C.memLen < memCap then { C with queue := C.queue ++ [m], memLen := C.memLen + 1 }
  else if C.eph then C
  else { C with queue := C.queue ++ [m] }

def Chan.putWrites (memCap : Nat) (C : Chan) : Bool :=
  !(decide (C.memLen < memCap)) && !C.eph

/-- `Channel.PutMessage`: refused when exiting; counts the message -/
def Chan.putMessage (memCap : Nat) (C : Chan) (m : Msg) : Chan :=
  if C.exiting then C
  else { Chan.put memCap C m with msgCount := C.msgCount + 1 }

def Topic.put (memCap : Nat) (T : Topic) (m : Msg) : Topic :=
  if T.memLen < memCap then { T with queue := T.queue ++ [m], memLen := T.memLen + 1, msgCount := T.msgCount + 1 }
  else if T.eph then { T with msgCount := T.msgCount + 1 }
  else { T with queue := T.queue ++ [m], msgCount := T.msgCount + 1 }

def Topic.putWrites (memCap : Nat) (T : Topic) : Bool :=
  !(decide (T.memLen < memCap)) && !T.eph

def addFile (fs : List BName) (b : BName) : List BName := if b ∈ fs then fs else b :: fs

/-- fan one message out to every channel of the topic (each gets its own copy) -/
def fanout (memCap : Nat) (chans : List Chan) (m : Msg) : List Chan :=
  chans.map (fun C => C.putMessage memCap m)

def fanoutAll (memCap : Nat) (chans : List Chan) (ms : List Msg) : List Chan :=
  ms.foldl (fanout memCap) chans

/-- files written by fanning `ms` out, channel by channel -/
def fanoutFiles (memCap : Nat) (t : String) : List Chan → List Msg → List BName → List BName
  | _, [], fs => fs
  | chans, m :: ms, fs =>
    fanoutFiles memCap t (fanout memCap chans m) ms
      (chans.foldl (fun acc C =>
        if !C.exiting && C.putWrites memCap then addFile acc (t, some C.name) else acc) fs)

/-! ### operations -/

inductive Op where
  | createTopic (t : String) (eph : Bool)
  | createChan (t c : String) (eph : Bool)
  | deleteTopic (t : String)
  | deleteChanBegin (t c : String)     -- Channel.Delete(): exit flag, close consumers, Empty, backend.Delete
  | deleteChanUnlink (t c : String)    -- removal from the topic's channel map (+ ephemeral topic auto-delete)
  | emptyTopic (t : String)
  | emptyChan (t c : String)
  | pauseTopic (t : String) (p : Bool)
  | pauseChan (t c : String) (p : Bool)
  | pub (t : String) (m : Msg)
  | pump (t : String)                  -- topic messagePump: fan out everything waiting (when enabled)
  | sub (t c : String) (k : Nat)       -- AddClient on an existing channel
  | unsub (t c : String) (k : Nat)     -- RemoveClient (+ ephemeral channel auto-delete begin)
  | deliver (t c : String) (k : Nat) (fromMem : Bool) (id : Nat)
  | fin (t c : String) (k : Nat) (id : Nat)
  | req (t c : String) (k : Nat) (id : Nat) (deferred : Bool)
  | release (t c : String) (id : Nat)  -- deferred timer fired: back into the queue
deriving Repr, DecidableEq

inductive Ans where
  | ok
  | noTopic
  | noChan
  | exiting
  | notAllowed      -- an observation the model state does not allow
  | failed          -- E_FIN_FAILED / E_REQ_FAILED
deriving Repr, DecidableEq

def newTopic (t : String) (eph : Bool) : Topic := { name := t, eph := eph }
def newChan (c : String) (eph : Bool) : Chan := { name := c, eph := eph }

def orphanOf (os : List (BName × List Msg)) (b : BName) : List Msg :=
  match os.find? (fun e => e.1 == b) with
  | some e => e.2
  | none => []

/-- a new durable channel opens the disk queue of its name: empty unless an orphan is there -/
def openChan (os : List (BName × List Msg)) (t c : String) (eph : Bool) : Chan :=
  if eph then newChan c eph else { name := c, eph := false, queue := orphanOf os (t, some c) }

def removeFiles (fs : List BName) (b : BName) : List BName := fs.filter (fun x => x != b)

/-- `Channel.Empty` -/
def Chan.empty (C : Chan) : Chan :=
  { C with queue := [], memLen := 0, inflight := [], deferred := [],
           clients := C.clients.map (fun k => { k with inFlight := 0 }) }

/-- `Channel.exit(true)` up to (not including) the unlink from the map -/
def Chan.deleteBegin (C : Chan) : Chan :=
  { Chan.empty C with exiting := true, clients := [] }

def Topic.addChan (T : Topic) (C : Chan) : Topic := { T with chans := T.chans ++ [C] }

def Topic.clearQueue (T : Topic) : Topic := { T with queue := [], memLen := 0 }

def Topic.dropChan (T : Topic) (c : String) : Topic :=
  { T with chans := T.chans.filter (fun X => X.name != c) }

def Topic.filesOf (T : Topic) : List BName :=
  (T.name, none) :: T.chans.map (fun C => (T.name, some C.name))

def bumpClient (cs : List Client) (k : Nat) (d : Int) : List Client :=
  cs.map (fun x => if x.id == k then { x with inFlight := x.inFlight + d } else x)

def takeId (l : List Msg) (id : Nat) : Option (Msg × List Msg) :=
  match l.find? (fun m => m.id == id) with
  | none => none
  | some m => some (m, l.erase m)

def nextAttempts (a : Nat) : Nat := (a + 1) % 65536

def hasClient (C : Chan) (k : Nat) : Bool := C.clients.any (fun x => x.id == k)

def findInflight (C : Chan) (k id : Nat) : Option (Msg × Nat) :=
  C.inflight.find? (fun e => e.1.id == id && e.2 == k)

def step (s : St) : Op → St × Ans
  | .createTopic t eph =>
    match getTopic s t with
    | some _ => (s, Ans.ok)
    | none => ({ s with topics := s.topics ++ [newTopic t eph] }, Ans.ok)
  | .createChan t c eph =>
    match getTopic s t with
    | none => (s, Ans.noTopic)
    | some T =>
      match T.getChan c with
      | some _ => (s, Ans.ok)
      | none =>
        ({ modTopic s t (fun T => T.addChan (openChan s.orphans t c eph)) with
            orphans := if eph then s.orphans else s.orphans.filter (fun e => e.1 != (t, some c)) }, Ans.ok)
  | .deleteTopic t =>
    match getTopic s t with
    | none => (s, Ans.noTopic)
    | some T =>
      ({ s with topics := s.topics.filter (fun X => X.name != t),
                closed := s.closed ++ (T.chans.map (fun C => C.clients.map (·.id))).flatten,
                files := s.files.filter (fun b => !(T.filesOf.contains b)) }, Ans.ok)
  | .deleteChanBegin t c =>
    match getChan s t c with
    | none => (s, Ans.noChan)
    | some C =>
      if C.exiting then (s, Ans.exiting)
      else
        ({ modChan s t c Chan.deleteBegin with
            closed := s.closed ++ C.clients.map (·.id),
            files := removeFiles s.files (t, some c) }, Ans.ok)
  | .deleteChanUnlink t c =>
    match getTopic s t with
    | none => (s, Ans.noTopic)
    | some T =>
      match T.getChan c with
      | none => (s, Ans.noChan)
      | some C =>
        if !C.exiting then (s, Ans.notAllowed)
        else if T.eph && (T.chans.filter (fun X => X.name != c)).isEmpty then
          -- last channel of an ephemeral topic: the topic's own once-only delete callback
          ({ s with topics := s.topics.filter (fun X => X.name != t),
                    files := s.files.filter (fun b => !(T.filesOf.contains b)) }, Ans.ok)
        else
          (modTopic s t (fun T => T.dropChan c), Ans.ok)
  | .emptyTopic t =>
    match getTopic s t with
    | none => (s, Ans.noTopic)
    | some _ =>
      ({ modTopic s t Topic.clearQueue with
          files := removeFiles s.files (t, none) }, Ans.ok)
  | .emptyChan t c =>
    match getChan s t c with
    | none => (s, Ans.noChan)
    | some C =>
      if C.exiting then (s, Ans.exiting)
      else ({ modChan s t c Chan.empty with files := removeFiles s.files (t, some c) }, Ans.ok)
  | .pauseTopic t p =>
    match getTopic s t with
    | none => (s, Ans.noTopic)
    | some _ => (modTopic s t (fun T => { T with paused := p }), Ans.ok)
  | .pauseChan t c p =>
    match getChan s t c with
    | none => (s, Ans.noChan)
    | some _ => (modChan s t c (fun C => { C with paused := p }), Ans.ok)
  | .pub t m =>
    match getTopic s t with
    | none => (s, Ans.noTopic)
    | some T =>
      ({ modTopic s t (fun T => T.put s.memCap m) with
          files := if T.putWrites s.memCap then addFile s.files (t, none) else s.files }, Ans.ok)
  | .pump t =>
    match getTopic s t with
    | none => (s, Ans.noTopic)
    | some T =>
      if T.paused || T.chans.isEmpty then (s, Ans.ok)
      else
        ({ modTopic s t (fun T => { T with queue := [], memLen := 0,
                                           chans := fanoutAll s.memCap T.chans T.queue }) with
            files := fanoutFiles s.memCap t T.chans T.queue s.files }, Ans.ok)
  | .sub t c k =>
    match getChan s t c with
    | none => (s, Ans.noChan)
    | some C =>
      if C.exiting then (s, Ans.exiting)
      else if hasClient C k then (s, Ans.ok)
      else (modChan s t c (fun C => { C with clients := C.clients ++ [{ id := k, inFlight := 0 }] }), Ans.ok)
  | .unsub t c k =>
    match getChan s t c with
    | none => (s, Ans.noChan)
    | some C =>
      if C.exiting then (s, Ans.ok)                -- RemoveClient returns early
      else if !hasClient C k then (s, Ans.ok)
      else if C.eph && (C.clients.filter (fun x => x.id != k)).isEmpty then
        -- last consumer of an ephemeral channel: deleter.Do(deleteCallback) → Channel.Delete()
        ({ modChan s t c Chan.deleteBegin with
            files := removeFiles s.files (t, some c),
            autoDeleted := s.autoDeleted ++ [(t, c)] }, Ans.ok)
      else
        (modChan s t c (fun C => { C with clients := C.clients.filter (fun x => x.id != k) }), Ans.ok)
  | .deliver t c k fromMem id =>
    match getChan s t c with
    | none => (s, Ans.noChan)
    | some C =>
      if C.exiting || C.paused || !hasClient C k then (s, Ans.notAllowed)
      else if (if fromMem then C.memLen else C.diskLen) = 0 then (s, Ans.notAllowed)
      else
        match takeId C.queue id with
        | none => (s, Ans.notAllowed)
        | some (m, rest) =>
          (modChan s t c (fun C =>
            { C with queue := rest,
                     memLen := if fromMem then C.memLen - 1 else C.memLen,
                     inflight := C.inflight ++ [({ m with attempts := nextAttempts m.attempts }, k)],
                     clients := bumpClient C.clients k 1 }), Ans.ok)
  | .fin t c k id =>
    match getChan s t c with
    | none => (s, Ans.noChan)
    | some C =>
      match findInflight C k id with
      | none => (s, Ans.failed)
      | some e =>
        (modChan s t c (fun C =>
          { C with inflight := C.inflight.erase e, clients := bumpClient C.clients k (-1) }), Ans.ok)
  | .req t c k id deferred =>
    match getChan s t c with
    | none => (s, Ans.noChan)
    | some C =>
      match findInflight C k id with
      | none => (s, Ans.failed)
      | some e =>
        if deferred then
          (modChan s t c (fun C =>
            { C with inflight := C.inflight.erase e, deferred := C.deferred ++ [e.1],
                     clients := bumpClient C.clients k (-1) }), Ans.ok)
        else
          ({ modChan s t c (fun C =>
              { Chan.put s.memCap { C with inflight := C.inflight.erase e } e.1 with
                  clients := bumpClient C.clients k (-1) }) with
              files := if C.putWrites s.memCap then addFile s.files (t, some c) else s.files }, Ans.ok)
  | .release t c id =>
    match getChan s t c with
    | none => (s, Ans.noChan)
    | some C =>
      match takeId C.deferred id with
      | none => (s, Ans.notAllowed)
      | some (m, rest) =>
        ({ modChan s t c (fun C => Chan.put s.memCap { C with deferred := rest } m) with
            files := if C.putWrites s.memCap then addFile s.files (t, some c) else s.files }, Ans.ok)

def run (s : St) : List Op → St
  | [] => s
  | o :: os => run (step s o).1 os

/-- `GetMetadata(false)`: what PersistMetadata writes — non-ephemeral topics with their
non-ephemeral channels and the paused flags -/
def persisted (s : St) : List (String × Bool × List (String × Bool)) :=
  (s.topics.filter (fun T => !T.eph)).map (fun T =>
    (T.name, T.paused, (T.chans.filter (fun C => !C.eph)).map (fun C => (C.name, C.paused))))

def init (memCap : Nat) : St := { memCap := memCap }

end Nsq.Model.Life
