/-
C08 — deletion of a channel racing subscriptions, publishes, re-creation and another deletion of the
same channel name (micro-steps of `Topic.DeleteExistingChannel`, `Channel.exit`, `protocolV2.SUB`,
`Topic.GetChannel`, the topic pump's fan-out).  Companion of Model/TopicDelete.lean one level down.

`DeleteExistingChannel(name)`: look the object up under the read lock; `channel.Delete()` = take
`exitMutex`, CAS the exit flag ("exiting" if it was set already — the error is ignored), close the
consumers, empty the queues, delete the disk queue, release `exitMutex`; finally unlink **the name** from
`channelMap` under the topic's write lock.  Unlike `Topic.exit`, the whole of `Channel.exit` runs under
`exitMutex`: a deletion that loses the CAS comes back from `Delete()` only after the winner's exit has
finished (harness leg `chan_double_delete_waits`), and `AddClient`/`PutMessage` (read lock + flag test)
refuse an exiting channel.  The ephemeral channel's `deleteCallback` is `DeleteExistingChannel(c.name)`
(tie `chan_delete_callback_is_delete_by_name`) — the same steps.

One model parameter selects the tree (tie `Tie.ChanDelete.delete_chan_unlink_shape`): `ownUnlink` — the
unlink removes the name only while it still refers to the object this deletion looked up (fixes/F22).
-/
namespace Nsq.Model.ChanDelete

/-- one channel object registered (at some time) under the name -/
structure CObj where
  id : Nat
  exiting : Bool := false
  /-- `exit(true)` has run to its end: consumers closed, queues emptied, backend deleted, `exitMutex` released -/
  exited : Bool := false
  /-- consumers attached to this object (AddClient succeeded, connection not closed by the server) -/
  subs : List Nat := []
  /-- messages the topic pump has put into this object and that were not discarded by its deletion -/
  queue : List Nat := []
deriving Repr, DecidableEq

structure CSt where
  map : Option CObj := none
  /-- objects that the channel map does not hold any more -/
  unlinked : List CObj := []
  nextId : Nat := 0
  nextMsg : Nat := 0
  /-- connections closed by the server (delete, or a refused SUB) -/
  closed : List Nat := []
  /-- ghost: consumer k's SUB was answered OK on object id -/
  okSub : List (Nat × Nat) := []
  /-- consumers that disconnected by themselves -/
  left : List Nat := []
  /-- objects whose deletion (by the goroutine that won the CAS) is between the flag and the unlink -/
  deleters : List Nat := []
  /-- deletions that looked object `id` up, lost the CAS and have not unlinked yet -/
  losers : List Nat := []
  /-- ghost: ids of the objects whose deletion has answered (its unlink step is done) -/
  answered : List Nat := []
  ownUnlink : Bool := false
deriving Repr, DecidableEq

inductive CStep where
  | sub (k : Nat)          -- SUB: GetChannel (creates a fresh object if the name is free), AddClient
  | create                 -- GetChannel without a consumer (HTTP /channel/create, a second topic pump snapshot …)
  | leave (k : Nat)        -- the consumer disconnects
  | pub                    -- the topic pump puts the next message into the object registered under the name
  | delBegin               -- DeleteExistingChannel / deleteCallback: lookup + (attempted) exit-flag CAS
  | delExit (id : Nat)     -- … the winner's Channel.exit(true): consumers closed, emptied, backend deleted
  | delUnlink (id : Nat)   -- … the winner's unlink
  | loserUnlink (id : Nat) -- the unlink of a deletion whose `channel.Delete()` returned "exiting"
deriving Repr, DecidableEq

def updObj (s : CSt) (id : Nat) (f : CObj → CObj) : CSt :=
  { s with map := s.map.map (fun T => if T.id = id then f T else T),
           unlinked := s.unlinked.map (fun T => if T.id = id then f T else T) }

def findObj (s : CSt) (id : Nat) : Option CObj :=
  match s.map with
  | some T => if T.id = id then some T else s.unlinked.find? (fun X => X.id = id)
  | none => s.unlinked.find? (fun X => X.id = id)

/-- `delete(t.channelMap, name)` as the tree has it: by name, or only if the name still refers to object `id` -/
def unlink (s : CSt) (id : Nat) : CSt :=
  match s.map with
  | none => s
  | some M =>
    if s.ownUnlink && M.id != id then s
    else { s with map := none, unlinked := M :: s.unlinked }

def cstep (s : CSt) : CStep → Option CSt
  | .sub k =>
    if k ∈ s.closed ∨ k ∈ s.left ∨ s.okSub.any (fun e => e.1 = k) then none    -- one SUB per connection
    else
      match s.map with
      | some T =>
        if T.exiting then some { s with closed := k :: s.closed }               -- AddClient: "exiting" → E_SUB_FAILED, closed
        else some { s with map := some { T with subs := k :: T.subs }, okSub := (k, T.id) :: s.okSub }
      | none =>
        some { s with map := some { id := s.nextId, subs := [k] }, nextId := s.nextId + 1,
                      okSub := (k, s.nextId) :: s.okSub }
  | .create =>
    match s.map with
    | some _ => some s
    | none => some { s with map := some { id := s.nextId }, nextId := s.nextId + 1 }
  | .leave k =>
    if k ∈ s.closed ∨ k ∈ s.left then none
    else some { s with left := k :: s.left,
                       map := s.map.map (fun T => { T with subs := T.subs.erase k }),
                       unlinked := s.unlinked.map (fun T => { T with subs := T.subs.erase k }) }
  | .pub =>
    match s.map with
    | none => some { s with nextMsg := s.nextMsg + 1 }                           -- no channel of that name: nothing to fan out to
    | some T =>
      if T.exiting then some { s with nextMsg := s.nextMsg + 1 }                 -- PutMessage: "exiting"
      else some { s with map := some { T with queue := T.queue ++ [s.nextMsg] }, nextMsg := s.nextMsg + 1 }
  | .delBegin =>
    match s.map with
    | none => none                                                               -- "channel does not exist"
    | some T =>
      if T.exiting then some { s with losers := T.id :: s.losers }
      else some { s with map := some { T with exiting := true }, deleters := T.id :: s.deleters }
  | .delExit id =>
    if id ∈ s.deleters then
      match findObj s id with
      | none => none
      | some T =>
        if T.exited then none
        else some { updObj s id (fun T => { T with exited := true, subs := [], queue := [] }) with closed := T.subs ++ s.closed }
    else none
  | .delUnlink id =>
    if id ∈ s.deleters then
      match findObj s id with
      | none => none
      | some T =>
        if !T.exited then none
        else some { unlink s id with deleters := s.deleters.erase id, answered := id :: s.answered }
    else none
  | .loserUnlink id =>
    if id ∈ s.losers then
      match findObj s id with
      | none => none
      | some T =>
        if !T.exited then none                                                   -- its Delete() is still waiting for exitMutex
        else some { unlink s id with losers := s.losers.erase id, answered := id :: s.answered }
    else none

def crun : CSt → List CStep → Option CSt
  | s, [] => some s
  | s, a :: as =>
    match cstep s a with
    | none => none
    | some s' => crun s' as

/-- consumers connected to an object the map does not hold: SUB answered OK, never closed by the server, did
not leave — nothing published to the topic reaches them any more and no deletion will ever close them -/
def zombies (s : CSt) : List Nat := (s.unlinked.map (·.subs)).flatten

/-- objects unlinked although nobody deleted them (exit flag never set) -/
def leaked (s : CSt) : List Nat := (s.unlinked.filter (fun T => !T.exiting)).map (·.id)

/-- messages fanned out to an object that left the map without being deleted: no shutdown flushes them, the
metadata does not list their channel -/
def stranded (s : CSt) : List Nat := (s.unlinked.map (·.queue)).flatten

def fixedTree : CSt := { ownUnlink := true }

end Nsq.Model.ChanDelete
