import Nsq.Model.Wire
import Nsq.Model.Guid
/-!
Prelude of the translator kind `bytes` (tools/go2lean/kind_bytes.go): the few standard-library
operations the translated byte-format functions call, over `List UInt8` and `BitVec`.

  encoding/binary  BigEndian.PutUintNN / UintNN / binary.Write of a fixed-size integer
                   → `Model.Wire.beBytes` / `Model.Wire.beVal` (the model of the library that the
                     C07 theorems already use; `Proofs.ByteOps` shows it is the shift-and-truncate
                     code of byteorder.go)
  encoding/hex     Encode                          → `hexEncode`
  copy / slicing   `store`, `slice`
  io.Writer        `Writer` (abstract: any state, any short write / error behaviour), `bufferWriter`
                   (`bytes.Buffer`: appends everything, returns `len(p), nil`)
  io.Reader        `Reader` (abstract `io.ReadFull`), `streamReader` (a byte stream)

A translated function returns `Res α`: `ret v` (the Go results; `error` rendered as a string,
`""` = nil) or `panic what` — an index/slice expression outside the *length* of its operand (Go
panics, or for `hi ≤ cap` re-slices into bytes the model does not have). The ties prove that
`panic` is unreachable. Core Lean only.
-/
namespace Nsq.Model.ByteOps

export Nsq.Model.Wire (Bytes)

inductive Res (α : Type) where
  | ret (v : α)
  | panic (what : String)
deriving Repr, DecidableEq

/-- `x[lo:hi]` (the caller has checked `lo ≤ hi ≤ len x`) -/
def slice (x : Bytes) (lo hi : Nat) : Bytes := (x.drop lo).take (hi - lo)

/-- overwrite `dst[off : off+len src]` (the caller has checked that it fits): what `copy`,
`PutUintNN`, `hex.Encode` do to the array behind a slice expression `dst[off:…]` -/
def store (dst : Bytes) (off : Nat) (src : Bytes) : Bytes :=
  dst.take off ++ src ++ dst.drop (off + src.length)

/-- `binary.BigEndian.PutUintNN` / `binary.Write(w, binary.BigEndian, x)` for a `w`-byte integer -/
def putBE (w : Nat) {n : Nat} (x : BitVec n) : Bytes := Nsq.Model.Wire.beBytes w x.toNat

/-- `binary.BigEndian.UintNN(b)` on exactly `n/8` bytes -/
def getBE (n : Nat) (b : Bytes) : BitVec n := BitVec.ofNat n (Nsq.Model.Wire.beVal b)

/-- `hex.Encode(dst, src)`: two lower-case digits per byte -/
def hexEncode (src : Bytes) : Bytes :=
  src.flatMap fun v => [Nsq.Model.Guid.hexDigit (v.toNat / 16), Nsq.Model.Guid.hexDigit (v.toNat % 16)]

/-- `byte(x)` stored into a byte array -/
def toByte {n : Nat} (x : BitVec n) : UInt8 := UInt8.ofBitVec (x.setWidth 8)

/-- an `io.Writer` seen from its caller: `Write(p)` returns the new state, `n` and `err`
(`""` = nil). Nothing is assumed about it. -/
structure Writer (W : Type) where
  write : W → Bytes → W × BitVec 64 × String

/-- `bytes.Buffer` (and every writer that takes everything): `Write` appends and returns `len(p), nil` -/
def bufferWriter : Writer Bytes := ⟨fun w p => (w ++ p, BitVec.ofNat 64 p.length, "")⟩

/-- an `io.Reader` seen through `io.ReadFull(r, buf)` with `len(buf) = k`: new state, the `k`
bytes read (meaningful when err = ""), and err -/
structure Reader (R : Type) where
  readFull : R → Nat → R × Bytes × String

/-- a reader over a fixed byte stream: `ReadFull` of `k` bytes succeeds iff `k` bytes are left -/
def streamReader : Reader Bytes :=
  ⟨fun s k => if s.length < k then ([], [], if s.isEmpty then "EOF" else "ErrUnexpectedEOF")
              else (s.drop k, s.take k, "")⟩

end Nsq.Model.ByteOps
