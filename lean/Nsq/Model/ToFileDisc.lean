import Nsq.Model.Str
import Nsq.Model.Line
/-
Model of apps/nsq_to_file/topic_discoverer.go: `TopicDiscoverer.updateTopics`, `isTopicAllowed`
and the `run()` loop (lookupd polling tick, SIGTERM, SIGHUP). One `FileLogger` (with its router
goroutine) per topic; the loggers are the keys of `t.topics`, kept here in creation order.

Environment inputs: the answer of `regexp.MatchString(pattern, topic)` (`matched`), whether
`NewFileLogger(topic)` succeeds (`create`: file-name format accepted, topic/channel name valid,
connect calls accepted) and the result of each lookupd poll (`GetLookupdTopics`: a topic list or
an error). Core Lean only (linked into drv_e8).
-/
namespace Nsq.Model.ToFileDisc
open Nsq.Model.Str

/-- `isTopicAllowed` (the go2lean translation is proved equal to this, `Nsq.Tie.ToolsToFileFn`) -/
def isTopicAllowed (pattern : Str) (matched : Except Str Bool) : Bool :=
  if pattern = [] then true
  else match matched with
    | .error _ => false
    | .ok b => b

structure Env where
  pattern : Str
  matched : Str → Except Str Bool
  create  : Str → Bool

/-- `updateTopics(list)`: skip a topic that already has a logger, skip one the pattern rejects, skip
one whose logger cannot be created (it is tried again at the next poll), otherwise add a logger
and start its router -/
def updateTopics (e : Env) : List Str → List Str → List Str
  | ts, [] => ts
  | ts, t :: rest =>
    if t ∈ ts then updateTopics e ts rest
    else if isTopicAllowed e.pattern (e.matched t) = false then updateTopics e ts rest
    else if e.create t = false then updateTopics e ts rest
    else updateTopics e (ts ++ [t]) rest

inductive Ev
  | tick (r : Option (List Str))   -- the ticker fired; `none` = `GetLookupdTopics` returned an error
  | term                           -- SIGINT / SIGTERM
  | hup                            -- SIGHUP
deriving Repr

structure St where
  topics  : List Str    -- loggers, in creation order
  termed  : List Str    -- loggers whose `termChan` was closed, in order
  hups    : List Str    -- `hupChan <- true` deliveries, in order
  looping : Bool        -- `run()` is still inside its `for { select … }`
deriving Repr

/-- `run()` up to the loop: `updateTopics(opts.Topics)` -/
def start (e : Env) (explicit : List Str) : St :=
  { topics := updateTopics e [] explicit, termed := [], hups := [], looping := true }

/-- one iteration of the loop of `run()`; `polling` = the ticker exists (`len(opts.Topics) == 0`) -/
def step (e : Env) (polling : Bool) (s : St) : Ev → St
  | .tick r =>
    if s.looping = false ∨ polling = false then s
    else match r with
      | none => s
      | some l => { s with topics := updateTopics e s.topics l }
  | .term => if s.looping = false then s else { s with termed := s.termed ++ s.topics, looping := false }
  | .hup => if s.looping = false then s else { s with hups := s.hups ++ s.topics }

def run (e : Env) (polling : Bool) (s : St) : List Ev → St
  | [] => s
  | ev :: evs => run e polling (step e polling s ev) evs

/-! ### driver: `td new <pattern>` / `td upd <n> (<topic> <match 1|0|e> <create 1|0>)*` / `td tick-err` /
`td hup` / `td term`; `upd` with `explicit=1` is the initial `updateTopics(opts.Topics)` -/

structure D where
  pattern : Str := []
  polling : Bool := true
  st : St := { topics := [], termed := [], hups := [], looping := true }

open Nsq.Line in
def parseTriples : List String → Option (List (Str × Except Str Bool × Bool))
  | [] => some []
  | t :: m :: c :: rest =>
    match unhex t, parseTriples rest with
    | some t, some r =>
      let mv : Except Str Bool := if m = "1" then .ok true else if m = "0" then .ok false else .error []
      some ((t, mv, c == "1") :: r)
    | _, _ => none
  | _ => none

def envOf (pattern : Str) (tr : List (Str × Except Str Bool × Bool)) : Env :=
  { pattern := pattern,
    matched := fun t => match tr.find? (fun x => x.1 == t) with | some x => x.2.1 | none => .ok false,
    create := fun t => match tr.find? (fun x => x.1 == t) with | some x => x.2.2 | none => false }

def sortStr (xs : List String) : List String := xs.mergeSort (fun a b => decide (a ≤ b))

open Nsq.Line in
def showSet (l : List Str) : String := ",".intercalate (sortStr (l.map hex))

open Nsq.Line in
def driverStep (d : D) (ws : List String) : String × D :=
  match ws with
  | ["new", pat, polling] =>
    match unhex pat with
    | some p => ("ok", { pattern := p, polling := polling == "1", st := { topics := [], termed := [], hups := [], looping := true } })
    | none => ("bad-op", d)
  | "upd" :: rest =>
    match parseTriples rest with
    | some tr =>
      let e := envOf d.pattern tr
      let st := step e true d.st (.tick (some (tr.map (·.1))))
      (s!"topics={showSet st.topics} n={st.topics.length}", { d with st := st })
    | none => ("bad-op", d)
  | ["tick-err"] =>
    let st := step (envOf d.pattern []) d.polling d.st (.tick none)
    (s!"topics={showSet st.topics} n={st.topics.length}", { d with st := st })
  | ["hup"] =>
    let st := step (envOf d.pattern []) d.polling d.st .hup
    (s!"hups={st.hups.length}", { d with st := st })
  | ["term"] =>
    let st := step (envOf d.pattern []) d.polling d.st .term
    (s!"returned=1 termed={showSet st.termed} n={st.termed.length} stopped={st.termed.length}", { d with st := st })
  | _ => ("bad-op", d)

end Nsq.Model.ToFileDisc
