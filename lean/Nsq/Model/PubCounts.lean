/-! Producers in `/stats` (property C13, audit B26): the `pub_counts` of one producer connection.

Go (`nsqd/client_v2.go`):

    func (c *clientV2) PublishedMessage(topic string, count uint64) {   // PUB / DPUB: 1, MPUB: len(messages)
        c.metaLock.Lock(); c.pubCounts[topic] += count; c.metaLock.Unlock() }

    func (c *clientV2) Stats(topicName string) ClientStats { …
        pubCounts := make([]PubCount, 0, len(c.pubCounts))
        for topic, count := range c.pubCounts {
            if len(topicName) > 0 && topic != topicName { continue }
            pubCounts = append(pubCounts, PubCount{Topic: topic, Count: count})
            break                                   // fix F49: if len(topicName) > 0 { break }
        } …

The map `c.pubCounts` is an association list `List (String × Nat)`: ONE iteration order of the map. The order of a
`range` over a Go map is the runtime's choice, so the theorems quantify over every order (every permutation of the
list `mapOf` builds); the keys of a map are distinct (`keys_nodup_mapOf`). `uint64` is read as `Nat` (a connection
would have to publish 2^64 messages to wrap). `fixed = false` is the loop with the unconditional `break`,
`fixed = true` the F49 shape (`Nsq.Tie.PubCounts.statsPubCounts_eq` accepts exactly these two). Core Lean only. -/
namespace Nsq.Model.PubCounts

/-- `clientV2.Stats(filter)`: the `pub_counts` loop over the map in iteration order `m`. -/
def pubCountsOf (fixed : Bool) (m : List (String × Nat)) (filter : String) : List (String × Nat) :=
  match m with
  | [] => []
  | (t, c) :: rest =>
    if filter ≠ "" ∧ t ≠ filter then pubCountsOf fixed rest filter      -- continue
    else if fixed = false then [(t, c)]                                  -- append; break
    else if filter ≠ "" then [(t, c)]                                    -- append; F49: break only with a filter
    else (t, c) :: pubCountsOf fixed rest filter                         -- append; next key

/-- `clientV2.PublishedMessage(topic, n)`: `c.pubCounts[topic] += n` (a missing key starts at 0; where the new key
lands in the iteration order is irrelevant: every theorem is stated for every permutation). -/
def publish (m : List (String × Nat)) (topic : String) (n : Nat) : List (String × Nat) :=
  match m with
  | [] => [(topic, n)]
  | (k, c) :: rest => if k = topic then (k, c + n) :: rest else (k, c) :: publish rest topic n

/-- the map of a connection after the publish history `h` (topic, number of messages of the command), oldest first;
a new connection starts with `make(map[string]uint64)`. -/
def mapFrom (m : List (String × Nat)) (h : List (String × Nat)) : List (String × Nat) :=
  match h with
  | [] => m
  | (t, n) :: rest => mapFrom (publish m t n) rest

def mapOf (h : List (String × Nat)) : List (String × Nat) := mapFrom [] h

def keys (m : List (String × Nat)) : List String := m.map Prod.fst

/-- sum of the counts of a `pub_counts` list / the messages of a history. -/
def total (m : List (String × Nat)) : Nat := (m.map Prod.snd).sum

/-- messages the history published to topic `t`. -/
def publishedTo (h : List (String × Nat)) (t : String) : Nat := total (h.filter (fun e => e.1 = t))

end Nsq.Model.PubCounts
