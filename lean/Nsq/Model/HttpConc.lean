import Nsq.Model.HttpFull
/-!
# Concurrently served HTTP requests (C10, seeded defect C10-m9)

`HttpFull.serve` answers ONE request as a function of (options, health, broker, request). The real server
answers many at the same time: each request runs its handler and renders ("encodes") its answer, and —
later, after other requests may have encoded theirs — hands it to its client (`WriteHeader` + `Write`).
This module makes the interleaving explicit so that the independence of concurrently served requests is a
*statement with a hypothesis* instead of a silent consequence of `serve` being a function:

* a history is a list of micro steps `encode i` / `write i` over the requests `reqs[i]`;
* between its `encode` and its `write` a request keeps the encoded answer in a **slot**; `slot i` says which
  one. In the real code the slot is the `[]byte` that `json.Marshal` returns to `RespondV1` — a fresh
  allocation per call, i.e. `slot` is injective (request-local). The seeded defect C10-m9 made it a buffer of
  a package-level `sync.Pool`, handed back before the write: two requests could get the same slot
  (`slot = fun _ => 0` is the one-buffer pool).

`Nsq.Props.C10Conc` proves: with an injective `slot` every client receives `serve` of ITS request on a
broker state of the history (the answer it gets when served alone, if the requests do not change the
broker); with the shared slot this is false. That `slot` is injective for the real code is not provable
here: it is carried by the regenerated fact `Nsq.Tie.HttpShared` (the response path refers to no shared
mutable package-level state) and by the concurrency leg `harness/e3/concur_*` (parked ResponseWriter pairs,
concurrent `ServeHTTP`, keep-alive clients on the real listener: every answer = the answer served alone).
-/
namespace Nsq.Model.HttpConc
open Nsq.Model.HttpFull Nsq.Model.HttpApi Nsq.Model.ProtoV2

inductive CStep where
  | encode (i : Nat)   -- request i: handler + rendering of the answer (RespondV1 up to json.Marshal), atomically
  | write (i : Nat)    -- request i: what its slot holds goes to its client (WriteHeader, Write)
deriving DecidableEq, Repr

structure CSt where
  broker : Broker
  held : List (Nat × Wire)     -- slot ↦ encoded answer (first match counts)
  pending : List Nat           -- requests that have encoded and not yet written
  out : List (Nat × Wire)      -- (request, what its client received)
  seen : List Broker           -- ghost: the broker states on which handlers ran

def slotGet (k : Nat) : List (Nat × Wire) → Option Wire
  | [] => none
  | (k', w) :: l => if k' = k then some w else slotGet k l

def init (b : Broker) : CSt := ⟨b, [], [], [], []⟩

def step (hc : HConf) (healthy : Bool) (reqs : List Request) (slot : Nat → Nat) (s : CSt) : CStep → CSt
  | .encode i =>
    match reqs[i]? with
    | none => s
    | some rq =>
      { broker := (serve hc healthy s.broker rq).2,
        held := (slot i, (serve hc healthy s.broker rq).1) :: s.held,
        pending := i :: s.pending,
        out := s.out,
        seen := s.broker :: s.seen }
  | .write i =>
    if i ∈ s.pending then
      match slotGet (slot i) s.held with
      | none => s
      | some w => { s with pending := s.pending.filter (fun j => j != i), out := (i, w) :: s.out }
    else s

def run (hc : HConf) (healthy : Bool) (reqs : List Request) (slot : Nat → Nat) (b : Broker) (sched : List CStep) : CSt :=
  sched.foldl (step hc healthy reqs slot) (init b)

/-- the requests of the history leave the broker `b` as it is (GETs, errors, idempotent creations) -/
def ReadOnly (hc : HConf) (healthy : Bool) (b : Broker) (reqs : List Request) : Prop :=
  ∀ rq ∈ reqs, (serve hc healthy b rq).2 = b

instance (hc : HConf) (healthy : Bool) (b : Broker) (reqs : List Request) : Decidable (ReadOnly hc healthy b reqs) := by
  unfold ReadOnly; exact inferInstance

end Nsq.Model.HttpConc
