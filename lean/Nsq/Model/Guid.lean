/-
Model of nsqd/guid.go (guidFactory.NewGUID, guid.Hex) and of Topic.GenerateID's retry loop.
Core Lean only (linked into the driver).
-/
namespace Nsq.Model.Guid

/-- `guidFactory` without the mutex (the mutex makes `NewGUID` one atomic step). -/
structure St where
  nodeID : BitVec 64
  seq    : BitVec 64
  lastTs : BitVec 64
  lastID : BitVec 64
deriving DecidableEq, Repr

inductive Err
  | none | timeBackwards | sequenceExpired | idBackwards
deriving DecidableEq, Repr

def twepoch : BitVec 64 := 1288834974288#64

/-- `((ts - twepoch) << 22) | (nodeID << 12) | sequence` -/
def pack (ts node seq : BitVec 64) : BitVec 64 :=
  (((ts - twepoch) <<< 22) ||| (node <<< 12)) ||| seq

/-- One call of `NewGUID`; `now` is the value `time.Now().UnixNano()` returned. -/
def newGUID (f : St) (now : BitVec 64) : St × BitVec 64 × Err :=
  let ts := BitVec.sshiftRight now 20
  if BitVec.slt ts f.lastTs then
    (f, 0#64, .timeBackwards)
  else if f.lastTs == ts then
    let seq := (f.seq + 1#64) &&& 4095#64
    if seq == 0#64 then
      ({ f with seq := seq }, 0#64, .sequenceExpired)
    else if BitVec.sle (pack ts f.nodeID seq) f.lastID then
      ({ f with seq := seq, lastTs := ts }, 0#64, .idBackwards)
    else
      ({ f with seq := seq, lastTs := ts, lastID := pack ts f.nodeID seq }, pack ts f.nodeID seq, .none)
  else if BitVec.sle (pack ts f.nodeID 0#64) f.lastID then
    ({ f with seq := 0#64, lastTs := ts }, 0#64, .idBackwards)
  else
    ({ f with seq := 0#64, lastTs := ts, lastID := pack ts f.nodeID 0#64 }, pack ts f.nodeID 0#64, .none)

/-- All ids successfully returned by a sequence of `NewGUID` calls made at the given clock
readings (arbitrary: the clock may stall or step back). -/
def run : St → List (BitVec 64) → List (BitVec 64)
  | _, [] => []
  | f, now :: rest =>
    let r := newGUID f now
    if r.2.2 = .none then r.2.1 :: run r.1 rest else run r.1 rest

/-- State after a sequence of calls. -/
def runSt : St → List (BitVec 64) → St
  | f, [] => f
  | f, now :: rest => runSt (newGUID f now).1 rest

/-- `Topic.GenerateID`: retry until `NewGUID` succeeds. The clock readings are an arbitrary
stream; `fuel` bounds the number of attempts looked at. Returns the id (if one was produced
within the fuel) and the state. It never returns on an error path. -/
def generateID : St → List (BitVec 64) → St × Option (BitVec 64)
  | f, [] => (f, none)
  | f, now :: rest =>
    let r := newGUID f now
    if r.2.2 = .none then (r.1, some r.2.1) else generateID r.1 rest

/-- lower-case hex digit of a nibble (encoding/hex) -/
def hexDigit (n : Nat) : UInt8 :=
  if n < 10 then (48 + n).toUInt8 else (87 + n).toUInt8

/-- Big-endian fixed-width base-16 rendering of `n` with `w` digits. -/
def hexBE : Nat → Nat → List UInt8
  | 0, _ => []
  | w + 1, n => hexBE w (n / 16) ++ [hexDigit (n % 16)]

/-- `guid.Hex()`: 8 big-endian bytes of the two's-complement value, hex encoded: 16 chars. -/
def hex (g : BitVec 64) : List UInt8 := hexBE 16 g.toNat

end Nsq.Model.Guid
