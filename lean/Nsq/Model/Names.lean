/-
Model of internal/protocol/names.go: `isValidName` (= IsValidTopicName = IsValidChannelName).

  len(name) in [1,64]  and  name matches  ^[.a-zA-Z0-9_-]+(#ephemeral)?$

The regular expression is modelled as an explicit character-class automaton (`Q`, `step`,
`accepting`). A Go string is a byte string; `regexp` decodes invalid UTF-8 as U+FFFD and every
rune >= 0x80 is outside the class, so matching byte-wise is the same thing (trusted, and
compared on generated names by the correspondence harness). Core Lean only.
-/
namespace Nsq.Model.Names

abbrev Bytes := List UInt8

/-- ASCII literal as bytes (reduces in the kernel, unlike `String.toUTF8`). -/
def ascii (s : String) : Bytes := s.toList.map (fun c => c.toNat.toUInt8)

/-- The character class `[.a-zA-Z0-9_-]`. -/
def nameChar (c : UInt8) : Bool :=
  c == 46 || (97 ≤ c && c ≤ 122) || (65 ≤ c && c ≤ 90) || (48 ≤ c && c ≤ 57) || c == 95 || c == 45

/-- `#ephemeral` -/
def ephSuffix : Bytes := [35, 101, 112, 104, 101, 109, 101, 114, 97, 108]

/-- The regex literal the automaton was built from (tied to the source by `Nsq.Tie.Proto`). -/
def regexLiteral : String := "^[.a-zA-Z0-9_-]+(#ephemeral)?$"

/-- Automaton states: `start` (nothing read), `base` (inside `[...]+`), `suf k` (the first `k ≥ 1`
bytes of `#ephemeral` read), `dead`. -/
inductive Q
  | start | base | suf (k : Nat) | dead
deriving DecidableEq, Repr

def step : Q → UInt8 → Q
  | .start, c => if nameChar c then .base else .dead
  | .base, c => if nameChar c then .base else if c = 35 then .suf 1 else .dead
  | .suf k, c => if ephSuffix[k]? = some c then .suf (k + 1) else .dead
  | .dead, _ => .dead

def accepting : Q → Bool
  | .base => true
  | .suf k => k == ephSuffix.length
  | _ => false

def run (q : Q) (s : Bytes) : Q := s.foldl step q

/-- `validTopicChannelNameRegex.MatchString` -/
def regexMatch (s : Bytes) : Bool := accepting (run .start s)

/-- `isValidName` -/
def isValidName (s : Bytes) : Bool :=
  if s.length > 64 || s.length < 1 then false else regexMatch s

/-- `strings.HasSuffix(name, "#ephemeral")` (NewTopic / NewChannel). -/
def isEphemeral (s : Bytes) : Bool := ephSuffix.isSuffixOf s

end Nsq.Model.Names
