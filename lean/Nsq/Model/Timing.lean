import Nsq.Model.PQ
/-
C04 (timing half): the deadline bookkeeping of one channel (nsqd/channel.go), at the granularity
of one API call = one step. Time is an input (`now`, `t` in nanoseconds).

  StartInFlightTimeout, TouchMessage, FinishMessage, RequeueMessage, StartDeferredTimeout,
  processInFlightQueue(t), processDeferredQueue(t)          — nsqd/channel.go
  UniqRands                                                  — internal/util/rand.go

`ready` is what `Channel.put` received (memory queue or backend: where consumers get messages
from), in call order. `time.Time` arithmetic is exact integer arithmetic on nanoseconds here.
Core Lean only (linked into the driver).
-/
namespace Nsq.Model.Timing
open Nsq.Model.PQ

/-- an entry of `inFlightMessages`: the fields of the `*Message` that the timing code reads -/
structure InF where
  id : Nat
  client : Int
  dts : Int
deriving DecidableEq, Repr

structure Chan where
  ifpq : H := #[]
  ifmap : List InF := []
  dpq : H := #[]
  dmap : List Nat := []
  ready : List Nat := []
deriving Repr

inductive Res
  | ok | alreadyInFlight | notInFlight | notOwner | alreadyDeferred | panic
deriving DecidableEq, Repr

def lookup (m : List InF) (id : Nat) : Option InF := m.find? (fun r => r.id == id)

def erase (m : List InF) (id : Nat) : List InF := m.filter (fun r => r.id != id)

/-- `StartInFlightTimeout(msg, clientID, timeout)` at clock reading `now` -/
def startInFlight (c : Chan) (now : Int) (id : Nat) (client : Int) (timeout : Int) : Chan × Res :=
  if (lookup c.ifmap id).isSome then (c, .alreadyInFlight)
  else ({ c with ifmap := { id := id, client := client, dts := now } :: c.ifmap,
                 ifpq := push c.ifpq id (now + timeout) }, .ok)

/-- `removeFromInFlightPQ(msg)`: uses the message's own `index` field (`-1` = already popped).
`none` = index out of range panic. -/
def removeFromPQ (a : H) (id : Nat) : Option H :=
  match a.find? (fun e => e.id == id) with
  | none => some a
  | some e =>
    if e.index = -1 then some a
    else if e.index < 0 then none
    else (remove1 a e.index.toNat).map (·.1)

/-- the deadline `TouchMessage` computes:
`newTimeout := now + clientMsgTimeout; if newTimeout - deliveryTS >= MaxMsgTimeout { newTimeout = deliveryTS + MaxMsgTimeout }` -/
def touchDeadline (now dts msgTimeout maxMsgTimeout : Int) : Int :=
  if now + msgTimeout - dts ≥ maxMsgTimeout then dts + maxMsgTimeout else now + msgTimeout

/-- `TouchMessage(clientID, id, clientMsgTimeout)` at `now` -/
def touch (c : Chan) (now : Int) (client : Int) (id : Nat) (msgTimeout maxMsgTimeout : Int) : Chan × Res :=
  match lookup c.ifmap id with
  | none => (c, .notInFlight)
  | some r =>
    if r.client ≠ client then (c, .notOwner)
    else match removeFromPQ c.ifpq id with
      | none => (c, .panic)
      | some pq =>
        ({ c with ifpq := push pq id (touchDeadline now r.dts msgTimeout maxMsgTimeout) }, .ok)

/-- `FinishMessage(clientID, id)` -/
def finish (c : Chan) (client : Int) (id : Nat) : Chan × Res :=
  match lookup c.ifmap id with
  | none => (c, .notInFlight)
  | some r =>
    if r.client ≠ client then (c, .notOwner)
    else match removeFromPQ c.ifpq id with
      | none => (c, .panic)
      | some pq => ({ c with ifpq := pq, ifmap := erase c.ifmap id }, .ok)

/-- `StartDeferredTimeout(msg, timeout)` at `now` -/
def startDeferred (c : Chan) (now : Int) (id : Nat) (timeout : Int) : Chan × Res :=
  if c.dmap.contains id then (c, .alreadyDeferred)
  else ({ c with dmap := id :: c.dmap, dpq := push c.dpq id (now + timeout) }, .ok)

/-- `RequeueMessage(clientID, id, timeout)` at `now`: `timeout == 0` → `put` at once, otherwise
deferred by `timeout`. -/
def requeue (c : Chan) (now : Int) (client : Int) (id : Nat) (timeout : Int) : Chan × Res :=
  match lookup c.ifmap id with
  | none => (c, .notInFlight)
  | some r =>
    if r.client ≠ client then (c, .notOwner)
    else match removeFromPQ c.ifpq id with
      | none => (c, .panic)
      | some pq =>
        if timeout = 0 then
          ({ c with ifpq := pq, ifmap := erase c.ifmap id, ready := c.ready ++ [id] }, .ok)
        else startDeferred { c with ifpq := pq, ifmap := erase c.ifmap id } now id timeout

theorem takeLast_size (a : H) (h : 0 < a.size) : (takeLast a h).1.size = a.size - 1 := by
  simp [takeLast]

theorem pop1_size {a b : H} {e : E} (h : pop1 a = some (b, e)) : b.size = a.size - 1 := by
  unfold pop1 at h
  split at h
  · simp only [Option.some.injEq] at h
    have := congrArg (·.1.size) h
    simp only [takeLast_size, down_size, size_swp] at this
    omega
  · contradiction

theorem peekAndShift1_size {a b : H} {e : E} {t : Int} (h : peekAndShift1 a t = some (b, e)) :
    b.size < a.size := by
  unfold peekAndShift1 at h
  split at h
  · split at h
    · contradiction
    · have := pop1_size h; omega
  · contradiction

theorem remove2_size {a b : H} {e : E} {i : Nat} (h : remove2 a i = some (b, e)) :
    b.size = a.size - 1 := by
  unfold remove2 at h
  split at h
  · split at h
    · simp only [Option.some.injEq] at h
      have := congrArg (·.1.size) h
      simpa [takeLast_size] using this.symm
    · simp only at h
      split at h
      · simp only [Option.some.injEq] at h
        have := congrArg (·.1.size) h
        simp only [takeLast_size, down_size, size_swp] at this
        omega
      · simp only [Option.some.injEq] at h
        have := congrArg (·.1.size) h
        simp only [takeLast_size, up_size, down_size, size_swp] at this
        omega
  · contradiction

theorem peekAndShift2_size {a b : H} {e : E} {t : Int} (h : peekAndShift2 a t = some (b, e)) :
    b.size < a.size := by
  unfold peekAndShift2 at h
  split at h
  · split at h
    · contradiction
    · have := remove2_size h; omega
  · contradiction

/-- result of a scan: new state, `dirty`, and the heap entries released to `put` (in order) -/
structure Scan where
  chan : Chan
  dirty : Bool
  released : List E
deriving Repr

/-- the loop of `processInFlightQueue(t)`:
`for { msg := PeekAndShift(t); if msg == nil { break }; dirty = true;
       if popInFlightMessage(msg.clientID, msg.ID) fails { break }; put(msg) }` -/
def scanInFlightLoop (t : Int) (c : Chan) (dirty : Bool) (rel : List E) : Scan :=
  match h : peekAndShift1 c.ifpq t with
  | none => { chan := c, dirty := dirty, released := rel }
  | some (pq, e) =>
    match lookup c.ifmap e.id with
    | none => { chan := { c with ifpq := pq }, dirty := true, released := rel }
    | some _ =>
      scanInFlightLoop t { c with ifpq := pq, ifmap := erase c.ifmap e.id, ready := c.ready ++ [e.id] }
        true (rel ++ [e])
termination_by c.ifpq.size
decreasing_by exact peekAndShift1_size h

def scanInFlight (c : Chan) (t : Int) : Scan := scanInFlightLoop t c false []

/-- the loop of `processDeferredQueue(t)` -/
def scanDeferredLoop (t : Int) (c : Chan) (dirty : Bool) (rel : List E) : Scan :=
  match h : peekAndShift2 c.dpq t with
  | none => { chan := c, dirty := dirty, released := rel }
  | some (pq, e) =>
    if c.dmap.contains e.id then
      scanDeferredLoop t { c with dpq := pq, dmap := c.dmap.erase e.id, ready := c.ready ++ [e.id] }
        true (rel ++ [e])
    else { chan := { c with dpq := pq }, dirty := true, released := rel }
termination_by c.dpq.size
decreasing_by exact peekAndShift2_size h

def scanDeferred (c : Chan) (t : Int) : Scan := scanDeferredLoop t c false []

/-- `queueScanWorker` for one channel at clock reading `now`: both scans with the same `now` -/
def scanChannel (c : Chan) (now : Int) : Scan :=
  let s1 := scanInFlight c now
  let s2 := scanDeferred s1.chan now
  { chan := s2.chan, dirty := s1.dirty || s2.dirty, released := s1.released ++ s2.released }

/-! ### histories -/

/-- one API call on the channel (`maxMsgTimeout` is the daemon option, fixed for a history) -/
inductive Op
  | inflight (now : Int) (id : Nat) (client : Int) (timeout : Int)
  | touch (now : Int) (client : Int) (id : Nat) (msgTimeout : Int)
  | finish (client : Int) (id : Nat)
  | requeue (now : Int) (client : Int) (id : Nat) (timeout : Int)
  | defer (now : Int) (id : Nat) (timeout : Int)
  | scanIf (t : Int)
  | scanDef (t : Int)
deriving Repr

def step (maxMsgTimeout : Int) (c : Chan) : Op → Chan
  | .inflight now id client timeout => (startInFlight c now id client timeout).1
  | .touch now client id mt => (touch c now client id mt maxMsgTimeout).1
  | .finish client id => (finish c client id).1
  | .requeue now client id timeout => (requeue c now client id timeout).1
  | .defer now id timeout => (startDeferred c now id timeout).1
  | .scanIf t => (scanInFlight c t).chan
  | .scanDef t => (scanDeferred c t).chan

def run (maxMsgTimeout : Int) (c : Chan) (ops : List Op) : Chan := ops.foldl (step maxMsgTimeout) c

/-! ### UniqRands (internal/util/rand.go) -/

/-- the second loop: `for i := 0; i < quantity; i++ { j := rand.Int()%maxval + i; swap(i, j); maxval-- }`
with `k` iterations left; `r i` is the value `rand.Int()` returned in iteration `i`.
`none` = panic (modulo by zero, index out of range). -/
def uniqLoop (r : Nat → Nat) : Nat → Nat → Nat → Array Nat → Option (Array Nat)
  | 0, _, _, a => some a
  | k + 1, i, maxval, a =>
    if maxval = 0 then none
    else if h : i < a.size ∧ r i % maxval + i < a.size then
      uniqLoop r k (i + 1) (maxval - 1) (a.swap i (r i % maxval + i) h.1 h.2)
    else none

/-- `UniqRands(quantity, maxval)` for non-negative arguments -/
def uniqRands (quantity maxval : Nat) (r : Nat → Nat) : Option (List Nat) :=
  (uniqLoop r (min quantity maxval) 0 maxval (Array.range maxval)).map
    fun a => (a.extract 0 (min quantity maxval)).toList

/-! ### micro-steps of one iteration of processInFlightQueue

`fixed = false` — the code before fix F16: one iteration is TWO critical sections: `PeekAndShift`
under `inFlightMutex`, then — after the lock was released (hook point `chan.scan.afterPQPop`) —
`popInFlightMessage(msg.clientID, msg.ID)`, which reads the CURRENT `clientID` field of the shared
`*Message`. Other API calls can run in between.
`fixed = true` — the code after F16: the heap pop and the map delete are one critical section (the
map entry is deleted only if it still is that very object); what remains after the hook point is
the hand-over to `put`, which touches neither the heap nor the map. -/

/-- first critical section; the scan now holds a pointer to the message (its id) -/
def scanPopPQ (fixed : Bool) (c : Chan) (t : Int) : Chan × Option E :=
  match peekAndShift1 c.ifpq t with
  | none => (c, none)
  | some (pq, e) =>
    if fixed then
      (match lookup c.ifmap e.id with
       | none => ({ c with ifpq := pq }, none)
       | some _ => ({ c with ifpq := pq, ifmap := erase c.ifmap e.id }, some e))
    else ({ c with ifpq := pq }, some e)

/-- the rest of the iteration. Unfixed: the map entry of that id is removed if there is one — the
ownership test compares the object's current `clientID` with itself, so it always passes — and
the message is handed to `put`. Fixed: `put` only. Returns whether it was released. -/
def scanFinishPop (fixed : Bool) (c : Chan) (id : Nat) : Chan × Bool :=
  if fixed then ({ c with ready := c.ready ++ [id] }, true)
  else match lookup c.ifmap id with
    | none => (c, false)
    | some _ => ({ c with ifmap := erase c.ifmap id, ready := c.ready ++ [id] }, true)

/-- A history in which deliveries come from the queue: `inflight … id …` (the pump taking a message
and calling `StartInFlightTimeout`) is possible only for an id that `put` received and that was
not taken yet; it takes it. All other operations as in `step`. -/
def stepQ (maxMsgTimeout : Int) (c : Chan) : Op → Chan
  | .inflight now id client timeout =>
    if c.ready.contains id then
      (startInFlight { c with ready := c.ready.erase id } now id client timeout).1
    else c
  | op => step maxMsgTimeout c op

def runQ (maxMsgTimeout : Int) (c : Chan) (ops : List Op) : Chan := ops.foldl (stepQ maxMsgTimeout) c

/-- the current in-flight deadline of a message, if it is in the heap -/
def deadlineOf (c : Chan) (id : Nat) : Option Int :=
  (c.ifpq.find? (fun e => e.id == id)).map (·.pri)

/-! ### one tick of queueScanLoop -/

/-- the channels at the selected indices of the (cached) channel list are handed to
`queueScanWorker`, which scans both queues with the clock reading `now i` it takes -/
def scanTick (cs : List Chan) (sel : List Nat) (now : Nat → Int) : List Chan :=
  cs.mapIdx fun i c => if sel.contains i then (scanChannel c (now i)).chan else c

/-- `num := min(QueueScanSelectionCount, len(channels)); for _, i := range UniqRands(num, len(channels))` -/
def queueScanTick (selectionCount : Nat) (cs : List Chan) (r : Nat → Nat) (now : Nat → Int) :
    Option (List Chan) :=
  (uniqRands (min selectionCount cs.length) cs.length r).map fun sel => scanTick cs sel now

/-- nothing in either queue of the channel is due at `t` -/
def nothingDue (c : Chan) (t : Int) : Bool :=
  c.ifpq.all (fun e => decide (t < e.pri)) && c.dpq.all (fun e => decide (t < e.pri))

end Nsq.Model.Timing
