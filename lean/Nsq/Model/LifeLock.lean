/-
C08 deadlock freedom, lock part: the lock-nesting relation (regenerated from nsqd/ by
tools/go2lean kind `locknest`) is checked for acyclicity by computing a topological order and
verifying that every edge points forward in it.
-/
namespace Nsq.Model.LifeLock

abbrev Edges := List (String × String)

def nodes (E : Edges) : List String := (E.map (·.1) ++ E.map (·.2)).eraseDups

/-- Kahn's algorithm with fuel; whatever cannot be ordered (a cycle) is appended as is -/
def topo (E : Edges) : List String → Nat → List String
  | remaining, 0 => remaining
  | remaining, fuel + 1 =>
    let ready := remaining.filter (fun n => E.all (fun e => e.2 != n || !(remaining.contains e.1)))
    if ready.isEmpty then remaining
    else ready ++ topo E (remaining.filter (fun n => !(ready.contains n))) fuel

def order (E : Edges) : List String := topo E (nodes E) (nodes E).length

def rank (E : Edges) (a : String) : Nat := (order E).idxOf a

/-- every edge goes strictly forward in the computed order -/
def acyclicB (E : Edges) : Bool := E.all (fun e => decide (rank E e.1 < rank E e.2))

/-- consecutive elements are related -/
def IsChain (E : Edges) : List String → Prop
  | [] => True
  | [_] => True
  | a :: b :: l => (a, b) ∈ E ∧ IsChain E (b :: l)

/-- a lock-only deadlock: goroutine i holds `hs[i]` and waits for `hs[i+1]` (cyclically); each
wait is an acquisition under a held lock, hence an edge of the nesting relation -/
def DeadlockCycle (E : Edges) (hs : List String) : Prop :=
  match hs with
  | [] => False
  | a :: l => IsChain E (a :: l ++ [a])

end Nsq.Model.LifeLock
