/-
E2 — functions of the ghost history and the executable invariant `invOk`
(DESIGN 3.8: the same conjuncts the proofs establish, evaluated by the driver on the model
state it tracks along the real run, and on states rebuilt from white-box dumps).
Core Lean only.
-/
import Nsq.Model.Chan
import Nsq.Model.ChanNsqd
namespace Nsq.Model.Chan

/-- where the history says a message id is -/
inductive St where
  | none | queued | held (k : Nat) | deferred | gone
deriving DecidableEq, Repr

/-- status of `id` after event `e`, given its status before -/
def evSt (e : Ev) (id : Nat) (prev : St) : St :=
  match e with
  | .fanout i d => if i = id then (if d then .deferred else .queued) else prev
  | .deliver k i _ => if i = id then .held k else prev
  | .finOk _ i => if i = id then .gone else prev
  | .reqOk _ i d => if i = id then (if d = 0 then .queued else .deferred) else prev
  | .timeout i _ => if i = id then .queued else prev
  | .deferDue i => if i = id then .queued else prev
  | .emptied ids => if ids.contains id then .gone else prev
  | .sampledOut _ i => if i = id then .gone else prev
  | .ephDrop i => if i = id then .gone else prev
  | _ => prev

def status : List Ev → Nat → St
  | [], _ => .none
  | e :: h, id => evSt e id (status h id)

def nDeliver : List Ev → Nat → Nat
  | [], _ => 0
  | .deliver _ i _ :: h, id => nDeliver h id + (if i = id then 1 else 0)
  | _ :: h, id => nDeliver h id

def St.located : St → Bool
  | .queued => true | .held _ => true | .deferred => true | _ => false

/-- C02 well-formedness of one event w.r.t. the history before it -/
def okEv (rest : List Ev) : Ev → Bool
  | .fanout i _ => status rest i == .none
  | .deliver _ i a => status rest i == .queued && a == nDeliver rest i + 1
  | .finOk k i => status rest i == .held k
  | .reqOk k i _ => status rest i == .held k
  | .touchOk k i => status rest i == .held k
  | .timeout i k => status rest i == .held k
  | .deferDue i => status rest i == .deferred
  | .emptied ids => ids.all (fun i => (status rest i).located)
  | .sampledOut _ i => status rest i == .queued
  | .ephDrop i => status rest i == .queued
  | _ => true

def okHist : List Ev → Bool
  | [] => true
  | e :: h => okEv h e && okHist h

/-! history functions for C03 -/

def rdyOf : List Ev → Nat → Int
  | [], _ => 0
  | .rdySet k' n :: h, k => if k' = k then n else rdyOf h k
  | .closed k' :: h, k => if k' = k then 0 else rdyOf h k
  | .joined k' :: h, k => if k' = k then 0 else rdyOf h k
  | _ :: h, k => rdyOf h k

def closedOf : List Ev → Nat → Bool
  | [], _ => false
  | .closed k' :: h, k => if k' = k then true else closedOf h k
  | .joined k' :: h, k => if k' = k then false else closedOf h k
  | _ :: h, k => closedOf h k

def pausedOf : List Ev → Bool
  | [] => false
  | .pauseSet p :: _ => p
  | _ :: h => pausedOf h

/-- the consumer-side bookkeeping the property names: sent − answered − timed out
(an `Empty` forgets everything) -/
def outstanding : List Ev → Nat → Int
  | [], _ => 0
  | .deliver k' _ _ :: h, k => outstanding h k + (if k' = k then 1 else 0)
  | .finOk k' _ :: h, k => outstanding h k - (if k' = k then 1 else 0)
  | .reqOk k' _ _ :: h, k => outstanding h k - (if k' = k then 1 else 0)
  | .timeout _ k' :: h, k => outstanding h k - (if k' = k then 1 else 0)
  | .emptied _ :: _, _ => 0
  | _ :: h, k => outstanding h k

/-- C03 well-formedness of one event w.r.t. the history before it (atomic model) -/
def okEv3 (maxRdy : Int) (rest : List Ev) : Ev → Bool
  | .deliver k _ _ =>
    decide (0 < rdyOf rest k) && decide (outstanding rest k < rdyOf rest k) && !pausedOf rest
  | .rdySet k n => !closedOf rest k && decide (0 ≤ n) && decide (n ≤ maxRdy)
  | _ => true

def okHist3 (maxRdy : Int) : List Ev → Bool
  | [] => true
  | e :: h => okEv3 maxRdy h e && okHist3 maxRdy h

/-! counting functions for C13 -/

def nEv (p : Ev → Bool) (h : List Ev) : Nat := h.countP p
def isFanout : Ev → Bool | .fanout .. => true | _ => false
def isFin : Ev → Bool | .finOk .. => true | _ => false
def isReq : Ev → Bool | .reqOk .. => true | _ => false
def isTimeout : Ev → Bool | .timeout .. => true | _ => false
def isSampled : Ev → Bool | .sampledOut .. => true | _ => false
def isEphDrop : Ev → Bool | .ephDrop .. => true | _ => false
def nEmptied : List Ev → Nat
  | [] => 0
  | .emptied ids :: h => ids.length + nEmptied h
  | _ :: h => nEmptied h
def nDeliverBy : List Ev → Nat → Nat
  | [], _ => 0
  | .deliver k' _ _ :: h, k => nDeliverBy h k + (if k' = k then 1 else 0)
  | .joined k' :: h, k => if k' = k then 0 else nDeliverBy h k
  | _ :: h, k => nDeliverBy h k
def nFinBy : List Ev → Nat → Nat
  | [], _ => 0
  | .finOk k' _ :: h, k => nFinBy h k + (if k' = k then 1 else 0)
  | .joined k' :: h, k => if k' = k then 0 else nFinBy h k
  | _ :: h, k => nFinBy h k
def nReqBy : List Ev → Nat → Nat
  | [], _ => 0
  | .reqOk k' _ _ :: h, k => nReqBy h k + (if k' = k then 1 else 0)
  | .joined k' :: h, k => if k' = k then 0 else nReqBy h k
  | _ :: h, k => nReqBy h k

/-- removed for good: finished, emptied, sampled out, dropped by an ephemeral queue -/
def nGone (h : List Ev) : Nat := nEv isFin h + nEmptied h + nEv isSampled h + nEv isEphDrop h

def locSt : Loc → St
  | .queued => .queued
  | .inflight k _ _ => .held k
  | .deferred _ => .deferred

/-- every message id mentioned by the history -/
def evIds : Ev → List Nat
  | .fanout i _ => [i] | .deliver _ i _ => [i] | .finOk _ i => [i] | .reqOk _ i _ => [i]
  | .touchOk _ i => [i] | .timeout i _ => [i] | .deferDue i => [i] | .emptied ids => ids
  | .sampledOut _ i => [i] | .ephDrop i => [i] | _ => []
def histIds (h : List Ev) : List Nat := h.flatMap evIds

def nodupB : List Nat → Bool
  | [] => true
  | x :: xs => !xs.contains x && nodupB xs

/-- the channel invariant that holds under *every* schedule, micro-steps included -/
def invOk (c : Chan) : Bool :=
  nodupB (c.msgs.map (·.id))
  && c.msgs.all (fun e => status c.hist e.id == locSt e.loc && e.att == nDeliver c.hist e.id)
  && (histIds c.hist).all (fun i => hasId c.msgs i || !(status c.hist i).located)
  && okHist c.hist
  && c.memLen + c.dqLen == nQueued c.msgs
  && decide (c.memLen ≤ c.memCap)
  && (!c.ephemeral || c.dqLen == 0)
  && c.messageCount == nEv isFanout c.hist
  && c.messageCount == c.msgs.length + nGone c.hist
  && c.requeueCount == nEv isReq c.hist
  && c.timeoutCount == nEv isTimeout c.hist
  && nodupB (c.clients.map (·.conn))
  && c.paused == pausedOf c.hist
  && c.clients.all (fun cl =>
        cl.msgCount == nDeliverBy c.hist cl.conn && cl.reqCount == nReqBy c.hist cl.conn
        && cl.rdy == rdyOf c.hist cl.conn && cl.closing == closedOf c.hist cl.conn
        && decide (0 ≤ cl.rdy) && (!cl.closing || cl.rdy == 0))

/-- after fix F13, under every schedule: `in_flight_count` = messages held in the in-flight map +
FINs of this connection that completed on the channel and have not run `FinishedMessage` yet -/
def inFlOk (c : Chan) : Bool :=
  c.clients.all (fun cl => cl.inFlight == (heldBy c.msgs cl.conn : Int) + (c.pendingFin.count cl.conn : Nat))

/-- the additional conjuncts of the atomic model (no FIN is split around an `Empty`) -/
def invOkA (conf : Conf) (c : Chan) : Bool :=
  invOk c
  && c.pendingFin.isEmpty
  && okHist3 conf.maxRdy c.hist
  && c.clients.all (fun cl =>
        cl.inFlight == (heldBy c.msgs cl.conn : Int)
        && cl.inFlight == outstanding c.hist cl.conn
        && cl.finCount == nFinBy c.hist cl.conn
        && decide (cl.rdy ≤ conf.maxRdy)
        && decide (cl.inFlight ≤ cl.lgr) && (cl.decr || decide (cl.lgr ≤ cl.rdy)))

end Nsq.Model.Chan

namespace Nsq.Model.ChanInv
open Nsq.Model.Chan Nsq.Model.ChanNsqd

/-- topic-level conjuncts: acknowledged ids are in the topic queue or were fanned out; the
counters; the pump snapshot is the channel map; every channel created before an id was
published and still present has a `fanout` event for every pumped id -/
def topicOk (conf : NConf) (nextId : Nat) (t : Topic) : Bool :=
  nodupB (t.queue.map (·.id) ++ t.pumped)
  && (t.acked ++ t.unacked).all (fun i => (t.queue.any (fun m => m.id == i)) || t.pumped.contains i)
  && (t.queue.map (·.id) ++ t.pumped).all (fun i => t.acked.contains i || t.unacked.contains i)
  && nodupB (t.acked ++ t.unacked)
  && t.msgCount == t.acked.length + t.unacked.length
  && (t.acked ++ t.unacked).all (fun i => decide (i < nextId))
  && t.pump == t.chans.map (·.cid)
  && nodupB (t.chans.map (·.cid))
  && t.chans.all (fun nc =>
        decide (nc.born ≤ nextId)
        && t.pumped.all (fun i => decide (i < nc.born) || nFanout nc.ch.hist i == 1)
        && (histIds nc.ch.hist).all (fun i => t.pumped.contains i)
        && nc.ch.memCap == conf.memq)

def invOkState (s : State) (atomic : Bool := true) : Bool :=
  s.topics.all (fun t => topicOk s.conf s.nextId t
    && t.chans.all (fun nc => if atomic then invOkA s.conf.chan nc.ch else (invOk nc.ch && inFlOk nc.ch)))
  && nodupB (s.topics.map (·.tid))

/-- one line for the driver: which topic/channel fails, if any -/
def invReport (s : State) : String :=
  let bad := s.topics.foldr (fun t acc =>
    (if topicOk s.conf s.nextId t then [] else [s!"topic t{t.tid}"]) ++
    t.chans.foldr (fun nc acc2 =>
      (if invOk nc.ch then (if invOkA s.conf.chan nc.ch then [] else [s!"chanA t{t.tid} c{nc.cid}"])
       else [s!"chan t{t.tid} c{nc.cid}"]) ++ acc2) [] ++ acc) []
  if bad.isEmpty then "inv ok" else " ".intercalate ("INV-FAIL" :: bad)

end Nsq.Model.ChanInv
