import Nsq.Model.Registry
/-!
The wild-card paths of nsqlookupd whose result depends on Go's map iteration order, modelled as a
SET of allowed results (a function of the resolved choice `pick`), not excluded.

`RegistrationDB.FindProducers("topic", "*", "")` walks `registrationMap` in Go map order and keeps,
for every peer id, the `*Producer` of the FIRST topic registration in which it meets that id
(`results[producer.peerInfo.id]`). Which topic that is, is the run-time choice
`pick : peer id → topic name`; it is constrained only by `PickValid`: a peer that has at least one
topic registration gets one of ITS topics. Two callers:

* `POST /topic/tombstone?topic=*&node=N` (`doTombstoneTopicProducer`): every picked producer whose
  node address is `N` is tombstoned — i.e. each matching peer is tombstoned for exactly ONE of its
  topics (`tombstoneStarDB`).
* `GET /lookup?topic=*` (`doLookup`): 404 iff no topic exists; channels = the channels of all
  topics (`FindRegistrations("channel","*","*")`, a list with repetitions); producers = the picked
  producers that pass `FilterByActive` — a peer tombstoned for only some of its topics is listed
  or not, depending on the pick (`qLookupStar`).

`GET /channels?topic=*` is deterministic as a set (`qChannels r star`).

The model is an ACCEPTOR: the harness reads the pick off the real run (white-box for the tombstone,
from the answer for `/lookup`), the driver checks `pickValidB` and replays with it.
Core Lean only (linked into `drv_e4`).
-/
namespace Nsq.Model.Registry
open AMap

/-- peers with at least one topic registration (the ids `FindProducers("topic","*","")` returns) -/
def topicPeers (db : DB) : List Nat :=
  ((db.filter (fun e => isMatch e.1 .topic star [])).flatMap (fun e => e.2.map (·.1))).eraseDups

/-- `pick` is a possible outcome of the map iteration: every peer with a topic registration is
represented by one of its own topic registrations. -/
def PickValid (db : DB) (pick : Pick) : Prop := ∀ id, topicsOf db id ≠ [] → pick id ∈ topicsOf db id

def pickValidB (db : DB) (pick : Pick) : Bool :=
  (topicPeers db).all (fun id => (topicsOf db id).contains (pick id))

/-- `POST /topic/tombstone?topic=*&node=…` with the iteration resolved by `pick` -/
def tombstoneStar (r : Registry) (pick : Pick) (node : Name) (now : Int) : Registry :=
  { r with db := tombstoneStarDB r pick node now }

/-- the producers `FindProducers("topic","*","")` returns under `pick`: one `(id, Tomb)` per peer -/
def pickedProducers (db : DB) (pick : Pick) : PMap :=
  (topicPeers db).filterMap (fun id =>
    ((mget db (topicKey (pick id))).bind (fun pm => mget pm id)).map (fun tb => (id, tb)))

/-- `GET /lookup?topic=*` with the iteration resolved by `pick`; `none` = 404 -/
def qLookupStar (c : Conf) (r : Registry) (pick : Pick) (now : Int) : Option LookupAns :=
  if (findRegistrations r.db .topic star []).isEmpty then none
  else some ⟨qChannels r star,
             peerInfos r (filterByActive r c.inactive c.tombLife now (pickedProducers r.db pick))⟩

/-! ## Histories with the choices resolved -/

/-- the operations whose result is a set: `POST /topic/tombstone?topic=*` that passes its argument checks -/
def Op.starNode : Op → Option (Name × Int)
  | .tombstone a now =>
    if a.badQuery = false ∧ a.topic = some star then a.node.map (fun n => (n, now)) else none
  | _ => none

/-- one step as a relation: deterministic operations have exactly one result (`step`); the
wild-card tombstone has one result per valid pick. -/
def StepSet (r : Registry) (op : Op) (r' : Registry) : Prop :=
  match op.starNode with
  | some (node, now) => ∃ pick, PickValid r.db pick ∧ r' = tombstoneStar r pick node now
  | none => r' = (step r op).1

/-- `RunSet r ops r'`: `r'` is a possible state after the history `ops` from `r` -/
inductive RunSet : Registry → List Op → Registry → Prop
  | nil (r : Registry) : RunSet r [] r
  | cons {r r1 r' : Registry} {op : Op} {ops : List Op} :
      StepSet r op r1 → RunSet r1 ops r' → RunSet r (op :: ops) r'

end Nsq.Model.Registry
