import Nsq.Model.Relay
/-
nsq_to_nsq as shipped (audit round 7, item C22): the handler of `Nsq.Model.Relay.N2N` behind go-nsq's
`Consumer.handlerLoop`, which first applies `shouldFailMessage` (`MaxAttempts > 0 && Attempts > MaxAttempts`
→ `Finish()` without calling the handler). Transaction results are not messages of the consumer: they reach
`responder` through `respChan` and are never subject to the give-up rule. Core Lean only (linked into drv_e8).
-/
namespace Nsq.Model.Relay.N2N

/-- one event of the tool: a message delivery carries the source's `attempts` counter -/
structure TEv where
  attempts : Nat
  ev : Ev

/-- `handlerLoop` in front of `HandleMessage`; `responder` is not behind it -/
def consume (c : Cfg) (maxAttempts : Nat) (st : St) (t : TEv) : St × List Out :=
  match t.ev with
  | .msg m _ _ _ => if Http.shouldFail maxAttempts t.attempts then (st, [Out.fin m.id]) else step c st t.ev
  | .result _ _ => step c st t.ev

def consumeRun (c : Cfg) (maxAttempts : Nat) (st : St) : List TEv → List Out
  | [] => []
  | t :: ts => (consume c maxAttempts st t).2 ++ consumeRun c maxAttempts (consume c maxAttempts st t).1 ts

def consumeSt (c : Cfg) (maxAttempts : Nat) (st : St) : List TEv → St
  | [] => st
  | t :: ts => consumeSt c maxAttempts (consume c maxAttempts st t).1 ts

/-- the initial state of the tool (`counter` 0, nothing outstanding) -/
def init : St := ⟨0, []⟩

/-! ### driver: whole histories (the single-step ops `rl n2n-msg` / `rl n2n-result` restart from an empty
outstanding list; this op keeps the list, so `.result i ok` with `i > 0` is exercised) -/
open Nsq.Line

def txStr (t : Tx) : String := s!"{t.addr}:{t.id}:{hex t.body}"

/-- `m,<attempts>,<id>,<bodyhex>,<filter>,<pick>,<asyncErr>` or `r,<i>,<ok>` -/
def tevOf (s : String) : Option TEv :=
  match s.splitOn "," with
  | ["m", att, id, body, f, pick, ae] =>
    match att.toNat?, id.toNat?, unhex body, filterOf f, pick.toNat?, b01 ae with
    | some att, some id, some body, some f, some pick, some ae => some ⟨att, .msg ⟨id, body⟩ f pick ae⟩
    | _, _, _, _, _, _ => none
  | ["r", i, ok] =>
    match i.toNat?, b01 ok with
    | some i, some ok => some ⟨0, .result i ok⟩
    | _, _ => none
  | _ => none

def allSome {α : Type} : List (Option α) → Option (List α)
  | [] => some []
  | none :: _ => none
  | some x :: xs => (allSome xs).map (x :: ·)

/-- `n2n-hist rr naddr filterOn maxAttempts ev;ev;…` → trace, final counter, outstanding list in order -/
def driverLineTool (ws : List String) : String :=
  match ws with
  | ["n2n-hist", rr, naddr, filterOn, mx, evs] =>
    match b01 rr, naddr.toNat?, b01 filterOn, mx.toNat?, allSome ((evs.splitOn ";").map tevOf) with
    | some rr, some naddr, some filterOn, some mx, some evs =>
      let c : Cfg := ⟨rr, naddr, filterOn⟩
      let st := consumeSt c mx init evs
      s!"counter={st.counter} out=[{",".intercalate (st.outstanding.map txStr)}] {outsStr (consumeRun c mx init evs)}"
    | _, _, _, _, _ => "bad-op"
  | _ => "bad-op"

end Nsq.Model.Relay.N2N
