/-
Model of internal/protocol/byte_base10.go (`ByteToBase10`, with the overflow check of commit
43ed751) and of the integer conversions applied to its result in nsqd/protocol_v2.go
(`int64(b10)`, `msToDuration`). Core Lean only.
-/
namespace Nsq.Model.Base10

def maxU64 : Nat := 18446744073709551615
def maxI64 : Int := 9223372036854775807

/-- The loop of `ByteToBase10`: `n` is the accumulator; `none` = `errBase10`. -/
def b10loop : List UInt8 → Nat → Option Nat
  | [], n => some n
  | d :: ds, n =>
    if 48 ≤ d.toNat ∧ d.toNat ≤ 57 then
      if n > (maxU64 - (d.toNat - 48)) / 10 then none
      else b10loop ds (n * 10 + (d.toNat - 48))
    else none

/-- `ByteToBase10`: `some n` (n < 2^64) or `none` (error). The empty string is 0. -/
def byteToBase10 (b : List UInt8) : Option Nat := b10loop b 0

/-- `int64(x)` for a uint64 `x` (two's complement reinterpretation). -/
def toInt64 (n : Nat) : Int :=
  if n ≥ 9223372036854775808 then (n : Int) - 18446744073709551616 else (n : Int)

/-- `msToDuration`: milliseconds → nanoseconds, saturating at MaxInt64. -/
def msToDuration (ms : Nat) : Int :=
  if ms > 9223372036854 then maxI64 else (ms : Int) * 1000000

/-- `strconv.ParseInt(s, 10, 64)` restricted to what `/pub?defer=` needs: optional sign, at least
one digit, only digits, value within int64. (Underscores are only legal with base 0.) -/
def digitsVal : List UInt8 → Nat → Option Nat
  | [], n => some n
  | d :: ds, n => if 48 ≤ d.toNat ∧ d.toNat ≤ 57 then digitsVal ds (n * 10 + (d.toNat - 48)) else none

def parseInt64 (s : List UInt8) : Option Int :=
  match s with
  | [] => none
  | c :: cs =>
    if c = 43 then
      (if cs = [] then none else
        match digitsVal cs 0 with
        | none => none
        | some n => if (n : Int) ≤ maxI64 then some n else none)
    else if c = 45 then
      (if cs = [] then none else
        match digitsVal cs 0 with
        | none => none
        | some n => if (n : Int) ≤ maxI64 + 1 then some (-(n : Int)) else none)
    else
      match digitsVal (c :: cs) 0 with
      | none => none
      | some n => if (n : Int) ≤ maxI64 then some n else none

end Nsq.Model.Base10
