/-
E2 / C01 — `#ephemeral` TOPICS (round 9, audit A5): an extension of `Nsq.Model.ChanNsqd`, which has no such topics.

Real code (nsqd/topic.go): `NewTopic` gives a topic whose name ends in `#ephemeral` `t.ephemeral = true` and
`t.backend = newDummyBackendQueue()`. `Topic.put` tries
    `select { case t.memoryMsgChan <- m: return nil; default: }`
(for an ephemeral topic even when `mem-queue-size` is 0) and otherwise calls `writeMessageToBackend(m, t.backend)`;
`dummyBackendQueue.Put` is `return nil`: the bytes are discarded. So on an ephemeral topic whose memory queue has no
room the message is DROPPED and `PutMessage` still returns nil: the publisher is answered OK and
`message_count` / `message_bytes` are incremented. A deliberate, documented drop, like the `#ephemeral` channel's
(`ephDrop` in `Nsq.Model.Chan`). `C01.ack_implies_enqueued` therefore does NOT extend to such a topic
(`Props.C01Eph.ack_implies_enqueued_false_ephemeral`).

`putTE` = `Topic.put` of an ephemeral topic. `stepE` wraps `ChanNsqd.step`: which topics are ephemeral (`eph`), a
ghost list of the drops (`dropped`, newest first); the publish ops of the base model are refused on a topic in `eph`
(they would enqueue on disk) and `pubE` / `mpubE` are refused on a durable topic.
`pubE t size delay env taken`: PUB (`delay = 0`) or DPUB; `taken` is the runtime's choice that matters only with
`mem-queue-size 0` (the unbuffered send succeeds iff the pump is receiving at that moment).
Not modelled: an ephemeral topic deletes itself when its last channel is deleted (`DeleteExistingChannel`; channel
deletion is C05/C08's). Core Lean only.
-/
import Nsq.Model.ChanNsqd
namespace Nsq.Model.TopicEph
open Nsq.Model.Chan (Env Out)
open Nsq.Model.ChanNsqd

/-- does the non-blocking send `t.memoryMsgChan <- m` succeed? -/
def roomTE (t : Topic) (taken : Bool) : Bool :=
  if t.memCap > 0 then decide (memLenT t < t.memCap) else taken

/-- `Topic.put` of an ephemeral topic: enqueued in memory (deferral kept) or dropped; second component = dropped -/
def putTE (t : Topic) (id size deferred : Nat) (env : Env) (taken : Bool) : Topic × Bool :=
  if roomTE t taken then
    ({ t with queue := ⟨id, size, deferred, .mem, env⟩ :: t.queue, envlog := (id, env) :: t.envlog }, false)
  else (t, true)

/-- `Topic.PutMessages` of an ephemeral topic (ids counted up from `id`); the drops, newest first -/
def putManyTE (t : Topic) (id : Nat) : List Nat → List Env → List Bool → Topic × List (Nat × Nat)
  | [], _, _ => (t, [])
  | sz :: rest, envs, takens =>
    let r := putTE t id sz 0 (envs.headD {}) (takens.headD false)
    let rr := putManyTE r.1 (id + 1) rest envs.tail takens.tail
    (rr.1, rr.2 ++ (if r.2 then [(t.tid, id)] else []))

structure ES where
  s       : State := {}
  /-- tids of the `#ephemeral` topics -/
  eph     : List Nat := []
  /-- ghost: (tid, id) of every message an ephemeral topic dropped, newest first -/
  dropped : List (Nat × Nat) := []
deriving DecidableEq, Repr

inductive EOp where
  | base (op : Op)
  | createEphTopic (t : Nat)
  | pubE (t size delay : Nat) (env : Env) (taken : Bool)
  | mpubE (t : Nat) (sizes : List Nat) (envs : List Env) (takens : List Bool)
deriving DecidableEq, Repr

/-- the topic a publish op of the base model writes to -/
def pubTopic : Op → Option Nat
  | .pub t _ _ => some t
  | .mpub t _ _ => some t
  | .mpubFail t _ _ _ => some t
  | .dpub t _ _ _ => some t
  | _ => none

/-- a base publish op aimed at an ephemeral topic (it would write to a disk queue the topic does not have) -/
def blocked (es : ES) (op : Op) : Bool :=
  match pubTopic op with
  | some t => es.eph.contains t
  | none => false

def stepE (es : ES) : EOp → ES × Out
  | .base op =>
    if blocked es op then (es, .reject "ephemeral-topic") else
    ({ es with s := (step es.s op).1 }, (step es.s op).2)
  | .createEphTopic t =>
    match findT es.s.topics t with
    | some _ => if es.eph.contains t then (es, .ok) else (es, .reject "durable-topic")
    | none => ({ es with s := ensureTopic es.s t, eph := t :: es.eph }, .ok)
  | .pubE t size delay env taken =>
    if !es.eph.contains t then (es, .reject "not-ephemeral") else
    match findT es.s.topics t with
    | none => (es, .reject "no-topic")
    | some tp =>
      let r := putTE tp es.s.nextId size delay env taken
      ({ es with s := { es.s with topics := updT es.s.topics t (fun _ =>
                          { r.1 with msgCount := tp.msgCount + 1, msgBytes := tp.msgBytes + size,
                                     acked := es.s.nextId :: tp.acked }),
                                  nextId := es.s.nextId + 1 },
                 dropped := if r.2 then (t, es.s.nextId) :: es.dropped else es.dropped }, .ids [es.s.nextId])
  | .mpubE t sizes envs takens =>
    if !es.eph.contains t then (es, .reject "not-ephemeral") else
    match findT es.s.topics t with
    | none => (es, .reject "no-topic")
    | some tp =>
      let r := putManyTE tp es.s.nextId sizes envs takens
      ({ es with s := { es.s with topics := updT es.s.topics t (fun _ =>
                          { r.1 with msgCount := tp.msgCount + sizes.length, msgBytes := tp.msgBytes + sizes.sum,
                                     acked := (idsFrom es.s.nextId sizes.length).reverse ++ tp.acked }),
                                  nextId := es.s.nextId + sizes.length },
                 dropped := r.2 ++ es.dropped }, .ids (idsFrom es.s.nextId sizes.length))

def runE (es : ES) : List EOp → ES
  | [] => es
  | op :: ops => runE (stepE es op).1 ops

/-- parameters of one `pubE`: size, delay, envelope, the runtime's `taken` -/
abbrev PubArg := Nat × Nat × Env × Bool

/-- a run of publishes to topic `t` and nothing else (nothing is pumped in between) -/
def pubOps (t : Nat) (ps : List PubArg) : List EOp := ps.map (fun p => .pubE t p.1 p.2.1 p.2.2.1 p.2.2.2)

/-- a daemon with `mem-queue-size memq` and the one ephemeral topic `t` -/
def freshE (memq t : Nat) : ES := (stepE { s := { conf := { memq := memq } } } (.createEphTopic t)).1

/-- how many messages topic `t` dropped -/
def nDropped (es : ES) (t : Nat) : Nat := es.dropped.countP (fun p => p.1 == t)

end Nsq.Model.TopicEph
