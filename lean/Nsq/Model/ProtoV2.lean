import Nsq.Model.Mpub
import Nsq.Model.Base10
/-
Model of the nsqd TCP protocol: nsqd/tcp.go `tcpServer.Handle` (magic), nsqd/protocol_v2.go
`IOLoop` / `Exec` / the command handlers, nsqd/client_v2.go `Identify` and its four setters.

The input is the RAW byte stream of one connection (the client sends the bytes and then
half-closes); the output is the list of frames the server answers, how the connection ends, the
connection's final state and the effect on the abstract broker.

Outside this model (owned elsewhere / trusted): the TLS policy and AUTH are "gate passed"
inputs (`Conf.tlsGate`, `Conf.authGate`, `Conf.authCmd`; C11), `encoding/json` is the
parameter `Conf.decode`, message delivery (`messagePump`, heartbeats) produces frames this
model does not list, a negotiated TLS / snappy / deflate upgrade ends the modelled part of the
run (`End.upgraded`), write errors are I/O faults. Core Lean only.
-/
namespace Nsq.Model.ProtoV2
open Nsq.Model.Names Nsq.Model.Base10

inductive St
  | init | subscribed | closing
deriving DecidableEq, Repr

/-- The fields of `identifyDataV2` the protocol acts on (`encoding/json` result). -/
structure IdentifyData where
  heartbeat : Int
  outBufSize : Int
  outBufTimeout : Int
  msgTimeout : Int
  sampleRate : Int
  featureNegotiation : Bool
  tlsv1 : Bool
  deflate : Bool
  snappy : Bool
deriving DecidableEq, Repr

/-- What the AUTH command does after its body was read (C11 owns the refinement). -/
inductive AuthCmd
  | disabled | alreadySet | failed | noAuthz | ok
deriving DecidableEq, Repr

structure Conf where
  maxMsgSize : Int
  maxBodySize : Int
  maxRdy : Int
  maxReqTimeoutNs : Int
  maxHeartbeatMs : Int          -- int(MaxHeartbeatInterval / time.Millisecond)
  minObtMs : Int
  maxObtMs : Int
  maxObSize : Int
  maxMsgTimeoutMs : Int
  tlsGate : Bool                -- enforceTLSPolicy passes
  authGate : Option Code        -- CheckAuth: none = passed, some c = fatal error c
  authCmd : AuthCmd
  tlsConfigured : Bool
  deflateEnabled : Bool
  snappyEnabled : Bool
  decode : Bytes → Option IdentifyData

structure ConnState where
  st : St
  hbNs : Int                    -- HeartbeatInterval
  obSize : Int                  -- OutputBufferSize
  obtNs : Int                   -- OutputBufferTimeout
  sampleRate : Int
  msgTimeoutNs : Int
  rdy : Int
  sub : Option (Bytes × Bytes)
  inflight : List Bytes         -- ids in flight for this client (input of the model)
deriving DecidableEq, Repr

inductive Reply
  | ok | closeWait | json | err (c : Code)
deriving DecidableEq, Repr

inductive Ctl
  | cont | close | upgraded | panic
deriving DecidableEq, Repr

inductive End
  | eof          -- the client closed; IOLoop returned nil
  | closed       -- the server closed (fatal error, over-long line, bad magic)
  | upgraded     -- TLS / snappy / deflate negotiated: the rest is outside this model
  | panic
  | outOfFuel    -- never (theorem `serve_total`)
deriving DecidableEq, Repr

inductive Effect
  | enq (topic : Bytes) (msgs : List Msg)
  | sub (topic chan : Bytes)
  | rdy (n : Int)
  | fin (id : Bytes)
  | req (id : Bytes) (ns : Int)
  | touch (id : Bytes)
  | identify (d : IdentifyData)
  | cls
deriving DecidableEq, Repr

structure Step where
  ctl : Ctl
  reply : Option Reply
  st : ConnState
  broker : Broker
  rest : Bytes
  eff : List Effect

def fatal (c : Code) (s : ConnState) (b : Broker) : Step := ⟨.close, some (.err c), s, b, [], []⟩
def nonfatal (c : Code) (s : ConnState) (b : Broker) (rest : Bytes) : Step :=
  ⟨.cont, some (.err c), s, b, rest, []⟩
def done (r : Option Reply) (s : ConnState) (b : Broker) (rest : Bytes) (e : List Effect) : Step :=
  ⟨.cont, r, s, b, rest, e⟩
def panicStep (s : ConnState) (b : Broker) : Step := ⟨.panic, none, s, b, [], []⟩

/-! ## Reader: lines and bodies -/

def bufSize : Nat := 16384      -- defaultBufferSize (client_v2.go)

/-- Cut at the first `\n`: (bytes before it, bytes after it). -/
def splitLine : Bytes → Option (Bytes × Bytes)
  | [] => none
  | c :: cs =>
    if c = 10 then some ([], cs)
    else match splitLine cs with
      | none => none
      | some (l, r) => some (c :: l, r)

def trimCr (l : Bytes) : Bytes := if l.getLast? = some 13 then l.dropLast else l

inductive LineRes
  | line (l rest : Bytes)
  | eof
  | tooLong
deriving DecidableEq, Repr

/-- `bufio.Reader.ReadSlice('\n')` with a 16 KiB buffer on a stream that ends after `bs`, then
the trimming done by `IOLoop`. -/
def readLine (bs : Bytes) : LineRes :=
  match splitLine bs with
  | some (l, r) => if l.length < bufSize then .line (trimCr l) r else .tooLong
  | none => if bs.length ≥ bufSize then .tooLong else .eof

/-- `bytes.Split(line, " ")` -/
def splitSp : Bytes → List Bytes
  | [] => [[]]
  | c :: cs =>
    if c = 32 then [] :: splitSp cs
    else match splitSp cs with
      | [] => [[c]]
      | p :: ps => (c :: p) :: ps

inductive BodyRes
  | ok (body rest : Bytes)
  | bad
  | panic
deriving DecidableEq, Repr

/-- 4-byte size, range check against `limit`, `make`, `io.ReadFull`. (IDENTIFY/AUTH test the upper
bound first, PUB/DPUB the lower bound first; the answer is the same code either way.) -/
def readBody (limit : Int) (bs : Bytes) : BodyRes :=
  match readLen bs with
  | none => .bad
  | some (n, r) =>
    if n ≤ 0 then .bad
    else if n > limit then .bad
    else if n < 0 then .panic                   -- make([]byte, bodyLen)
    else if r.length < n.toNat then .bad
    else .ok (r.take n.toNat) (r.drop n.toNat)

/-! ## IDENTIFY negotiation (client_v2.go) -/

def setHeartbeat (conf : Conf) (cur d : Int) : Option Int :=
  if d = -1 then some 0
  else if d = 0 then some cur
  else if d ≥ 1000 ∧ d ≤ conf.maxHeartbeatMs then some (d * 1000000)
  else none

def setObTimeout (conf : Conf) (cur d : Int) : Option Int :=
  if d = -1 then some 0
  else if d = 0 then some cur
  else if d ≥ conf.minObtMs ∧ d ≤ conf.maxObtMs then some (d * 1000000)
  else none

def setObSize (conf : Conf) (cur d : Int) : Option Int :=
  if d = -1 then some 1
  else if d = 0 then some cur
  else if d ≥ 64 ∧ d ≤ conf.maxObSize then some d
  else none

def setMsgTimeout (conf : Conf) (cur d : Int) : Option Int :=
  if d = 0 then some cur
  else if d ≥ 1000 ∧ d ≤ conf.maxMsgTimeoutMs then some (d * 1000000)
  else none

/-- `clientV2.Identify`: heartbeat, output buffer (timeout, then size), sample rate, msg timeout;
the first invalid value is an error. -/
def applyIdentify (conf : Conf) (s : ConnState) (d : IdentifyData) : Option ConnState :=
  match setHeartbeat conf s.hbNs d.heartbeat with
  | none => none
  | some hb =>
    match setObTimeout conf s.obtNs d.outBufTimeout with
    | none => none
    | some t =>
      match setObSize conf s.obSize d.outBufSize with
      | none => none
      | some sz =>
        if d.sampleRate < 0 ∨ d.sampleRate > 99 then none
        else
          match setMsgTimeout conf s.msgTimeoutNs d.msgTimeout with
          | none => none
          | some mt =>
            some { s with hbNs := hb, obSize := sz, obtNs := if d.outBufSize = -1 then 0 else t,
                          sampleRate := d.sampleRate, msgTimeoutNs := mt }

/-! ## Commands -/

def cIDENTIFY : Bytes := ascii "IDENTIFY"
def cFIN : Bytes := ascii "FIN"
def cRDY : Bytes := ascii "RDY"
def cREQ : Bytes := ascii "REQ"
def cPUB : Bytes := ascii "PUB"
def cMPUB : Bytes := ascii "MPUB"
def cDPUB : Bytes := ascii "DPUB"
def cNOP : Bytes := ascii "NOP"
def cTOUCH : Bytes := ascii "TOUCH"
def cSUB : Bytes := ascii "SUB"
def cCLS : Bytes := ascii "CLS"
def cAUTH : Bytes := ascii "AUTH"

def identify (conf : Conf) (s : ConnState) (b : Broker) (rest : Bytes) : Step :=
  if s.st ≠ .init then fatal .E_INVALID s b
  else
    match readBody conf.maxBodySize rest with
    | .bad => fatal .E_BAD_BODY s b
    | .panic => panicStep s b
    | .ok body r =>
      match conf.decode body with
      | none => fatal .E_BAD_BODY s b
      | some d =>
        match applyIdentify conf s d with
        | none => fatal .E_BAD_BODY s b
        | some s' =>
          if !d.featureNegotiation then done (some .ok) s' b r [.identify d]
          else if (conf.deflateEnabled && d.deflate) && (conf.snappyEnabled && d.snappy) then
            fatal .E_IDENTIFY_FAILED s' b
          else if (conf.tlsConfigured && d.tlsv1) || (conf.snappyEnabled && d.snappy)
                  || (conf.deflateEnabled && d.deflate) then
            ⟨.upgraded, some .json, s', b, r, [.identify d]⟩
          else done (some .json) s' b r [.identify d]

def authStep (conf : Conf) (s : ConnState) (b : Broker) (r : Bytes) : Step :=
  match conf.authCmd with
  | .alreadySet => fatal .E_INVALID s b
  | .disabled => fatal .E_AUTH_DISABLED s b
  | .failed => fatal .E_AUTH_FAILED s b
  | .noAuthz => fatal .E_UNAUTHORIZED s b
  | .ok => done (some .json) s b r []

def auth (conf : Conf) (s : ConnState) (b : Broker) (params : List Bytes) (rest : Bytes) : Step :=
  if s.st ≠ .init then fatal .E_INVALID s b
  else if params.length ≠ 1 then fatal .E_INVALID s b
  else
    match readBody conf.maxBodySize rest with
    | .bad => fatal .E_BAD_BODY s b
    | .panic => panicStep s b
    | .ok _ r => authStep conf s b r

def sub (conf : Conf) (s : ConnState) (b : Broker) (params : List Bytes) (rest : Bytes) : Step :=
  if s.st ≠ .init then fatal .E_INVALID s b
  else if s.hbNs ≤ 0 then fatal .E_INVALID s b
  else
    match params with
    | _ :: t :: c :: _ =>
      if !isValidName t then fatal .E_BAD_TOPIC s b
      else if !isValidName c then fatal .E_BAD_CHANNEL s b
      else
        match conf.authGate with
        | some code => fatal code s b
        | none =>
          done (some .ok) { s with st := .subscribed, sub := some (t, c) }
            (addClient (getChannel (getTopic b t) t c) t c) rest [.sub t c]
    | _ => fatal .E_INVALID s b

def rdySet (conf : Conf) (s : ConnState) (b : Broker) (rest : Bytes) (count : Int) : Step :=
  if count < 0 ∨ count > conf.maxRdy then fatal .E_INVALID s b
  else done none { s with rdy := count } b rest [.rdy count]

def rdy (conf : Conf) (s : ConnState) (b : Broker) (params : List Bytes) (rest : Bytes) : Step :=
  if s.st = .closing then done none s b rest []
  else if s.st ≠ .subscribed then fatal .E_INVALID s b
  else
    match params with
    | _ :: p :: _ =>
      match byteToBase10 p with
      | none => fatal .E_INVALID s b
      | some n => rdySet conf s b rest (toInt64 n)
    | _ => rdySet conf s b rest 1

def fin (s : ConnState) (b : Broker) (params : List Bytes) (rest : Bytes) : Step :=
  if s.st ≠ .subscribed ∧ s.st ≠ .closing then fatal .E_INVALID s b
  else
    match params with
    | _ :: id :: _ =>
      if id.length ≠ 16 then fatal .E_INVALID s b
      else if id ∈ s.inflight then
        done none { s with inflight := s.inflight.erase id } b rest [.fin id]
      else nonfatal .E_FIN_FAILED s b rest
    | _ => fatal .E_INVALID s b

/-- The clamp of REQ: `[0, max-req-timeout]`. -/
def clampReq (conf : Conf) (d : Int) : Int :=
  if d < 0 then 0 else if d > conf.maxReqTimeoutNs then conf.maxReqTimeoutNs else d

def req (conf : Conf) (s : ConnState) (b : Broker) (params : List Bytes) (rest : Bytes) : Step :=
  if s.st ≠ .subscribed ∧ s.st ≠ .closing then fatal .E_INVALID s b
  else
    match params with
    | _ :: id :: t :: _ =>
      if id.length ≠ 16 then fatal .E_INVALID s b
      else
        match byteToBase10 t with
        | none => fatal .E_INVALID s b
        | some ms =>
          if id ∈ s.inflight then
            done none { s with inflight := s.inflight.erase id } b rest
              [.req id (clampReq conf (msToDuration ms))]
          else nonfatal .E_REQ_FAILED s b rest
    | _ => fatal .E_INVALID s b

def touch (s : ConnState) (b : Broker) (params : List Bytes) (rest : Bytes) : Step :=
  if s.st ≠ .subscribed ∧ s.st ≠ .closing then fatal .E_INVALID s b
  else
    match params with
    | _ :: id :: _ =>
      if id.length ≠ 16 then fatal .E_INVALID s b
      else if id ∈ s.inflight then done none s b rest [.touch id]
      else nonfatal .E_TOUCH_FAILED s b rest
    | _ => fatal .E_INVALID s b

def cls (s : ConnState) (b : Broker) (rest : Bytes) : Step :=
  if s.st ≠ .subscribed then fatal .E_INVALID s b
  else done (some .closeWait) { s with st := .closing, rdy := 0 } b rest [.cls]

/-- Shared tail of PUB and DPUB: body, auth gate, enqueue. -/
def pubBody (conf : Conf) (s : ConnState) (b : Broker) (t : Bytes) (deferNs : Int) (rest : Bytes) : Step :=
  match readBody conf.maxMsgSize rest with
  | .bad => fatal .E_BAD_MESSAGE s b
  | .panic => panicStep s b
  | .ok body r =>
    match conf.authGate with
    | some code => fatal code s b
    | none => done (some .ok) s (publish b t [⟨body, deferNs⟩]) r [.enq t [⟨body, deferNs⟩]]

def pub (conf : Conf) (s : ConnState) (b : Broker) (params : List Bytes) (rest : Bytes) : Step :=
  match params with
  | _ :: t :: _ =>
    if !isValidName t then fatal .E_BAD_TOPIC s b
    else pubBody conf s b t 0 rest
  | _ => fatal .E_INVALID s b

def dpub (conf : Conf) (s : ConnState) (b : Broker) (params : List Bytes) (rest : Bytes) : Step :=
  match params with
  | _ :: t :: d :: _ =>
    if !isValidName t then fatal .E_BAD_TOPIC s b
    else
      match byteToBase10 d with
      | none => fatal .E_INVALID s b
      | some ms =>
        if msToDuration ms < 0 ∨ msToDuration ms > conf.maxReqTimeoutNs then fatal .E_INVALID s b
        else pubBody conf s b t (msToDuration ms) rest
  | _ => fatal .E_INVALID s b

def toMsgs (bodies : List Bytes) : List Msg := bodies.map (fun x => ⟨x, 0⟩)

def mpub (conf : Conf) (s : ConnState) (b : Broker) (params : List Bytes) (rest : Bytes) : Step :=
  match params with
  | _ :: t :: _ =>
    if !isValidName t then fatal .E_BAD_TOPIC s b
    else
      match conf.authGate with
      | some code => fatal code s b
      | none =>
        -- the topic is created before the body is looked at
        match readLen rest with
        | none => fatal .E_BAD_BODY s (getTopic b t)
        | some (n, r) =>
          if n ≤ 0 then fatal .E_BAD_BODY s (getTopic b t)
          else if n > conf.maxBodySize then fatal .E_BAD_BODY s (getTopic b t)
          else
            -- io.LimitReader(client.Reader, bodyLen): the batch is read from the declared body only
            match Mpub.readMPUB conf.maxMsgSize conf.maxBodySize (r.take n.toNat) with
            | .err c => fatal c s (getTopic b t)
            | .panic => panicStep s (getTopic b t)
            | .ok bodies r2 =>
              done (some .ok) s (publish b t (toMsgs bodies)) (r2 ++ r.drop n.toNat) [.enq t (toMsgs bodies)]
  | _ => fatal .E_INVALID s b

/-- `protocolV2.Exec` -/
def exec (conf : Conf) (s : ConnState) (b : Broker) (params : List Bytes) (rest : Bytes) : Step :=
  match params with
  | [] => fatal .E_INVALID s b            -- bytes.Split never returns an empty slice
  | cmd :: _ =>
    if cmd = cIDENTIFY then identify conf s b rest
    else if !conf.tlsGate then fatal .E_INVALID s b
    else if cmd = cFIN then fin s b params rest
    else if cmd = cRDY then rdy conf s b params rest
    else if cmd = cREQ then req conf s b params rest
    else if cmd = cPUB then pub conf s b params rest
    else if cmd = cMPUB then mpub conf s b params rest
    else if cmd = cDPUB then dpub conf s b params rest
    else if cmd = cNOP then done none s b rest []
    else if cmd = cTOUCH then touch s b params rest
    else if cmd = cSUB then sub conf s b params rest
    else if cmd = cCLS then cls s b rest
    else if cmd = cAUTH then auth conf s b params rest
    else fatal .E_INVALID s b

/-! ## The loop -/

structure Run where
  replies : List Reply
  fin : End
  st : ConnState
  broker : Broker
  eff : List Effect

def Run.cons (stp : Step) (r : Run) : Run :=
  ⟨stp.reply.toList ++ r.replies, r.fin, r.st, r.broker, stp.eff ++ r.eff⟩

def Run.stop (stp : Step) (e : End) : Run := ⟨stp.reply.toList, e, stp.st, stp.broker, stp.eff⟩

/-- `IOLoop` after the magic; `fuel` bounds the number of commands (one per byte is enough). -/
def loop (conf : Conf) : Nat → ConnState → Broker → Bytes → Run
  | 0, s, b, _ => ⟨[], .outOfFuel, s, b, []⟩
  | fuel + 1, s, b, bs =>
    match readLine bs with
    | .eof => ⟨[], .eof, s, b, []⟩
    | .tooLong => ⟨[], .closed, s, b, []⟩
    | .line l rest =>
      match (exec conf s b (splitSp l) rest).ctl with
      | .cont =>
        Run.cons (exec conf s b (splitSp l) rest)
          (loop conf fuel (exec conf s b (splitSp l) rest).st (exec conf s b (splitSp l) rest).broker
            (exec conf s b (splitSp l) rest).rest)
      | .close => Run.stop (exec conf s b (splitSp l) rest) .closed
      | .upgraded => Run.stop (exec conf s b (splitSp l) rest) .upgraded
      | .panic => Run.stop (exec conf s b (splitSp l) rest) .panic

def magicV2 : Bytes := [32, 32, 86, 50]

/-- End of `IOLoop`: `client.Channel.RemoveClient`. -/
def disconnect (r : Run) : Run :=
  match r.st.sub with
  | some (t, c) => if r.fin = .upgraded then r else { r with broker := removeClient r.broker t c }
  | none => r

/-- One whole connection: `tcpServer.Handle` (magic) + `IOLoop` + teardown. -/
def serve (conf : Conf) (s : ConnState) (b : Broker) (bs : Bytes) : Run :=
  match bs with
  | m0 :: m1 :: m2 :: m3 :: rest =>
    if [m0, m1, m2, m3] = magicV2 then disconnect (loop conf (rest.length + 1) s b rest)
    else ⟨[.err .E_BAD_PROTOCOL], .closed, s, b, []⟩
  | _ => ⟨[], .eof, s, b, []⟩

/-- The function named in DESIGN §5 C09: replies and end of one connection's byte stream. -/
def ioLoop (conf : Conf) (s : ConnState) (bs : Bytes) : List Reply × End :=
  ((serve conf s [] bs).replies, (serve conf s [] bs).fin)

/-- A fresh connection (`newClientV2`): defaults come from the options. -/
def freshConn (hbNs obtNs msgTimeoutNs : Int) : ConnState :=
  { st := .init, hbNs := hbNs, obSize := 16384, obtNs := obtNs, sampleRate := 0,
    msgTimeoutNs := msgTimeoutNs, rdy := 0, sub := none, inflight := [] }

end Nsq.Model.ProtoV2
