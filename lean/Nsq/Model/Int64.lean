/-
Go's `int64` arithmetic as a function on mathematical integers: every `+`, `-`, `+=` of two int64 values
gives the exact result reduced into [-2^63, 2^63) (two's complement wrap-around, Go spec "Integer overflow").
Used by the nsqadmin aggregation model (C18): the model computes with `Int`; what nsqadmin shows is `wrap64`
of it. Core Lean only (linked into `drv_e7`).
-/
namespace Nsq.Model.Int64

def two63 : Int := 9223372036854775808
def two64 : Int := 18446744073709551616

/-- Reduce into the int64 range. -/
def wrap64 (x : Int) : Int := (x + two63) % two64 - two63

/-- Go's `a + b` on int64 values. -/
def add64 (a b : Int) : Int := wrap64 (a + b)

/-- Go's `a - b` on int64 values. -/
def sub64 (a b : Int) : Int := wrap64 (a - b)

def inRange (x : Int) : Prop := -two63 ≤ x ∧ x < two63

/-- Go's running sum `for _, x := range l { s += x }`. -/
def goSum (l : List Int) : Int := l.foldl add64 0

end Nsq.Model.Int64
