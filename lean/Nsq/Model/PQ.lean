/-
C04 (timing half): the two deadline heaps of a channel.

  variant 1  nsqd/in_flight_pqueue.go   inFlightPqueue: own `up`/`down`, `Push/Pop/Remove/PeekAndShift`
  variant 2  internal/pqueue/pqueue.go  PriorityQueue driven by `container/heap`
             (`heap.Push`, `heap.Remove`, with the stdlib `up`/`down` modelled explicitly)

Both are array heaps of pointers; every element carries its own position (`index`) which
`Swap`/`Push` maintain and `Pop`/`Remove` set to -1. An element is `E = {id, pri, index}`.
Out-of-range accesses panic in Go: here they are the outcome `none`.
Core Lean only (linked into the driver).
-/
namespace Nsq.Model.PQ

structure E where
  id : Nat
  pri : Int
  index : Int
deriving DecidableEq, Repr

abbrev H := Array E

/-- `Swap(i, j)`: exchange the pointers, then `pq[i].index = i; pq[j].index = j` -/
def swp (a : H) (i j : Nat) (hi : i < a.size) (hj : j < a.size) : H :=
  (a.set i { a[j] with index := i } hi).set j { a[i] with index := j } (by simpa using hj)

@[simp] theorem size_swp (a : H) (i j : Nat) (hi : i < a.size) (hj : j < a.size) :
    (swp a i j hi hj).size = a.size := by simp [swp]

/-- `up(j)` (identical in in_flight_pqueue.go and container/heap):
`for { i := (j-1)/2; if i == j || pq[j].pri >= pq[i].pri { break }; Swap(i, j); j = i }`.
Go's `(0-1)/2` is 0, so `i == j` exactly when `j = 0`. -/
def up (a : H) (j : Nat) (hj : j < a.size) : H :=
  if h0 : j = 0 then a
  else if a[j].pri ≥ (a[(j - 1) / 2]'(by omega)).pri then a
  else up (swp a ((j - 1) / 2) j (by omega) hj) ((j - 1) / 2) (by simp; omega)
termination_by j
decreasing_by omega

/-- which child `down` looks at: the left one `j1`, or the right one `j1+1` when it exists and
wins. `tr = true`: in_flight_pqueue.go (`pq[j1].pri >= pq[j2].pri` → right, also on ties);
`tr = false`: container/heap (`Less(j2, j1)` → right only when strictly smaller). -/
def child (tr : Bool) (a : H) (j1 n : Nat) (_h1 : j1 < n) (hn : n ≤ a.size) : Nat :=
  if h2 : j1 + 1 < n then
    if tr then (if a[j1].pri ≥ a[j1 + 1].pri then j1 + 1 else j1)
    else (if a[j1 + 1].pri < a[j1].pri then j1 + 1 else j1)
  else j1

theorem child_cases (tr : Bool) (a : H) (j1 n : Nat) (h1 : j1 < n) (hn : n ≤ a.size) :
    child tr a j1 n h1 hn = j1 ∨ (child tr a j1 n h1 hn = j1 + 1 ∧ j1 + 1 < n) := by
  unfold child
  split
  · cases tr <;> simp <;> omega
  · simp

theorem child_lt (tr : Bool) (a : H) (j1 n : Nat) (h1 : j1 < n) (hn : n ≤ a.size) :
    child tr a j1 n h1 hn < n := by
  rcases child_cases tr a j1 n h1 hn with h | ⟨h, h'⟩ <;> omega

/-- `down(i, n)` on the prefix `[0, n)`; returns the array and the final position of the element
(container/heap's `down` reports `i > i0`). The `j1 < 0` overflow test of the Go code cannot
fire for array sizes that exist. -/
def down (tr : Bool) (a : H) (i n : Nat) (hn : n ≤ a.size) : H × Nat :=
  if h1 : 2 * i + 1 < n then
    if (a[child tr a (2 * i + 1) n h1 hn]'(by have := child_lt tr a (2 * i + 1) n h1 hn; omega)).pri
        ≥ (a[i]'(by omega)).pri then (a, i)
    else
      down tr (swp a i (child tr a (2 * i + 1) n h1 hn) (by omega)
                (by have := child_lt tr a (2 * i + 1) n h1 hn; omega))
        (child tr a (2 * i + 1) n h1 hn) n (by simpa using hn)
  else (a, i)
termination_by n - i
decreasing_by
  have := child_cases tr a (2 * i + 1) n h1 hn
  omega

theorem down_size (tr : Bool) (a : H) (i n : Nat) (hn : n ≤ a.size) :
    (down tr a i n hn).1.size = a.size := by
  fun_induction down tr a i n hn <;> simp_all

theorem up_size (a : H) (j : Nat) (hj : j < a.size) : (up a j hj).size = a.size := by
  fun_induction up a j hj <;> simp_all

/-- the tail of `Pop`/`Remove`: `x := pq[n-1]; x.index = -1; pq = pq[0:n-1]; return x` -/
def takeLast (a : H) (h : 0 < a.size) : H × E :=
  (a.pop, { a[a.size - 1] with index := -1 })

/-- `Push(x)`: `x.index = n; pq[n] = x; up(n)` (capacity growth does not change contents);
`heap.Push` on a `PriorityQueue` is the same sequence. -/
def push (a : H) (id : Nat) (pri : Int) : H :=
  up (a.push { id := id, pri := pri, index := a.size }) a.size (by simp)

/-- `inFlightPqueue.Pop`: `Swap(0, n-1); down(0, n-1)`, then take the last. `none`: panic on empty. -/
def pop1 (a : H) : Option (H × E) :=
  if h : 0 < a.size then
    let b := (down true (swp a 0 (a.size - 1) h (by omega)) 0 (a.size - 1) (by simp)).1
    have hb : b.size = a.size := by
      have := down_size true (swp a 0 (a.size - 1) h (by omega)) 0 (a.size - 1) (by simp)
      simpa using this
    some (takeLast b (by omega))
  else none

/-- `inFlightPqueue.Remove(i)`: `if n-1 != i { Swap(i, n-1); down(i, n-1); up(i) }`, take the
last. `none`: index out of range panic. -/
def remove1 (a : H) (i : Nat) : Option (H × E) :=
  if h : i < a.size then
    if hl : a.size - 1 = i then some (takeLast a (by omega))
    else
      let b := (down true (swp a i (a.size - 1) h (by omega)) i (a.size - 1) (by simp)).1
      have hb : b.size = a.size := by
        have := down_size true (swp a i (a.size - 1) h (by omega)) i (a.size - 1) (by simp)
        simpa using this
      some (takeLast (up b i (by omega)) (by rw [up_size]; omega))
  else none

/-- `inFlightPqueue.PeekAndShift(max)`: `none` when empty or when the root is later than `max`. -/
def peekAndShift1 (a : H) (max : Int) : Option (H × E) :=
  if h : 0 < a.size then
    if a[0].pri > max then none else pop1 a
  else none

/-- `heap.Remove(pq, i)`: `n := Len()-1; if n != i { Swap(i, n); if !down(i, n) { up(i) } }; Pop()` -/
def remove2 (a : H) (i : Nat) : Option (H × E) :=
  if h : i < a.size then
    if hl : a.size - 1 = i then some (takeLast a (by omega))
    else
      let r := down false (swp a i (a.size - 1) h (by omega)) i (a.size - 1) (by simp)
      have hb : r.1.size = a.size := by
        have := down_size false (swp a i (a.size - 1) h (by omega)) i (a.size - 1) (by simp)
        simpa using this
      if r.2 > i then some (takeLast r.1 (by omega))
      else
        some (takeLast (up r.1 i (by omega)) (by rw [up_size]; omega))
  else none

/-- `PriorityQueue.PeekAndShift(max)` -/
def peekAndShift2 (a : H) (max : Int) : Option (H × E) :=
  if h : 0 < a.size then
    if a[0].pri > max then none else remove2 a 0
  else none

/-! ### the invariants, in executable form (evaluated by the driver on dumps of the real heaps) -/

/-- min-heap order on the whole array -/
def heapOrdOk (a : H) : Bool :=
  (List.range a.size).all fun k =>
    if h : k < a.size then
      k = 0 || decide ((a[(k - 1) / 2]'(by omega)).pri ≤ a[k].pri)
    else true

/-- every element knows its own position -/
def indexOk (a : H) : Bool :=
  (List.range a.size).all fun k =>
    if h : k < a.size then decide (a[k].index = (k : Int)) else true

end Nsq.Model.PQ
