/-
C04 (timing half) — the WHOLE tick of `NSQD.queueScanLoop`, i.e. the `loop:` label:
select `num = min(QueueScanSelectionCount, len(channels))` channels with `UniqRands`, let the
workers scan them, count the dirty answers, and repeat at once while
`float64(numDirty)/float64(num) > QueueScanDirtyPercent`.
`Nsq.Model.Timing.queueScanTick` is ONE round of this loop. Core Lean only.
-/
import Nsq.Model.Timing
namespace Nsq.Model.Timing

/-- the inputs one round consumes: the `math/rand` stream `UniqRands` reads and the clock reading
the worker of channel index `i` takes (`time.Now().UnixNano()` in `queueScanWorker`) -/
structure Round where
  r   : Nat → Nat
  now : Nat → Int

/-- `numDirty`: how many of the selected channels' workers answered `dirty` -/
def dirtyCount (cs : List Chan) (sel : List Nat) (now : Nat → Int) : Nat :=
  (sel.filter fun i => match cs[i]? with
    | some c => (scanChannel c (now i)).dirty
    | none => false).length

/-- the tick: rounds are consumed from the given list while the dirty fraction exceeds
`pn / pd` (`QueueScanDirtyPercent`, default 1/4 — for counts below 2^32 the float64 comparison
`numDirty/num > 0.25` is exactly `4·numDirty > num`). Result: the channels, whether the tick ended
by the dirty test (`true`) or the given rounds ran out (`false`), and the number of rounds executed.
`none` = a panic of `UniqRands` (proved impossible: `tickLoop_total`). -/
def tickLoop (q pn pd : Nat) (cs : List Chan) : List Round → Option (List Chan × Bool × Nat)
  | [] => some (cs, false, 0)
  | rd :: rest =>
    match uniqRands (min q cs.length) cs.length rd.r with
    | none => none
    | some sel =>
      if dirtyCount cs sel rd.now * pd > pn * min q cs.length then
        (tickLoop q pn pd (scanTick cs sel rd.now) rest).map fun x => (x.1, x.2.1, x.2.2 + 1)
      else some (scanTick cs sel rd.now, true, 1)

/-- was channel index `i` handed to a worker, with a clock reading `≥ d`, in one of the rounds the
tick executed? -/
def everSelected (q pn pd : Nat) (cs : List Chan) (i : Nat) (d : Int) : List Round → Bool
  | [] => false
  | rd :: rest =>
    match uniqRands (min q cs.length) cs.length rd.r with
    | none => false
    | some sel =>
      (sel.contains i && decide (d ≤ rd.now i)) ||
      (decide (dirtyCount cs sel rd.now * pd > pn * min q cs.length) &&
        everSelected q pn pd (scanTick cs sel rd.now) i d rest)

end Nsq.Model.Timing
