/-
Shape model of `internal/quantile/aggregate.go` (property C18, "nsqadmin itself never crashes"):
`E2eProcessingLatencyAggregate.UnmarshalJSON` and `.Add` as far as the *shape* of the
`e2e_processing_latency` document goes — which entries of `percentiles` exist, which of them are nil
maps, under which "quantile" key they are found — never the float values. Core Lean only (linked
into `drv_e7`).

`percentiles` is decoded by `encoding/json` into `[]map[string]float64`:
* `null` / absent              → nil slice                     (`[]`)
* an element `null`            → a nil map                     (`none`)
* an element `{…}`             → a non-nil map                 (`some q`, `q` names the float stored
                                                                under "quantile"; 0 = member absent,
                                                                `null` or 0.0 — a missing key reads 0.0)
* anything else (string, number, array element; non-numeric member) → `encoding/json` returns an error, the
  answer as a whole counts as failed — that is `none` at the level of `Aggregate.Nsqd.stats`.

Reading a nil map is fine in Go; *writing* to it panics ("assignment to entry in nil map").
-/
namespace Nsq.Model.Latency

abbrev Pct := Option Nat

inductive Fault
  | nilMapWrite (site : String)
deriving DecidableEq, Repr

/-- What `value["quantile"]` reads. -/
def key : Pct → Nat
  | none => 0
  | some q => q

/-- The loop of `UnmarshalJSON` over `resp.Percentiles` (`p["min"] = p["value"]` …).
`fixed = false`: the tree before `fixes/F53`: the first nil map is written to.
`fixed = true`: nil maps are dropped from the slice (F53). -/
def unmarshal (fixed : Bool) : List Pct → Except Fault (List Pct)
  | [] => .ok []
  | none :: rest =>
    if fixed then unmarshal fixed rest
    else .error (.nilMapWrite "E2eProcessingLatencyAggregate.UnmarshalJSON p[\"min\"]")
  | some q :: rest =>
    match unmarshal fixed rest with
    | .error e => .error e
    | .ok r => .ok (some q :: r)

/-- One pass of the outer loop of `Add` for an entry of `e2` whose "quantile" reads `k`:
linear search for the first entry of `p` with the same key; none ⇒ append a fresh map carrying the
key; then `p[i]["max"] = …` and the other writes, which need `p[i]` to be a non-nil map. -/
def addOne : List Pct → Nat → Except Fault (List Pct)
  | [], k => .ok [some k]
  | none :: rest, k =>
    if k == 0 then .error (.nilMapWrite "E2eProcessingLatencyAggregate.Add p[i][\"max\"]")
    else
      match addOne rest k with
      | .error e => .error e
      | .ok r => .ok (none :: r)
  | some q :: rest, k =>
    if q == k then .ok (some q :: rest)
    else
      match addOne rest k with
      | .error e => .error e
      | .ok r => .ok (some q :: r)

/-- `e.Add(e2)` on the percentile lists (`e2 == nil` is `[]`). The final `sort.Sort(e)` permutes the
entries (its `Less` compares a "percentile" member that nsqd never sends); the model keeps the
order of insertion and the harness compares the entries as a multiset. -/
def add : List Pct → List Pct → Except Fault (List Pct)
  | p, [] => .ok p
  | p, v :: rest =>
    match addOne p (key v) with
    | .error e => .error e
    | .ok p' => add p' rest

/-- The aggregate of a channel / topic over its node reports, as `ChannelStats.Add` /
`TopicStats.Add` build it: a fresh aggregate, then `Add` of every node's document in turn. -/
def addAll : List Pct → List (List Pct) → Except Fault (List Pct)
  | p, [] => .ok p
  | p, d :: rest =>
    match add p d with
    | .error e => .error e
    | .ok p' => addAll p' rest

/-- The whole path of one upstream document list: decode each node's document, then aggregate. -/
def decodeAll (fixed : Bool) : List (List Pct) → Except Fault (List (List Pct))
  | [] => .ok []
  | d :: rest =>
    match unmarshal fixed d with
    | .error e => .error e
    | .ok d' =>
      match decodeAll fixed rest with
      | .error e => .error e
      | .ok r => .ok (d' :: r)

def aggregate (fixed : Bool) (docs : List (List Pct)) : Except Fault (List Pct) :=
  match decodeAll fixed docs with
  | .error e => .error e
  | .ok ds => addAll [] ds

end Nsq.Model.Latency
