/-!
# FS — the file-system view used by C06 (DESIGN A.3, "written" view)

`FS β` is the data-path directory as far as `PersistMetadata`/`LoadMetadata` touch it:
`nsqd.dat` and the temporary files `nsqd.dat.<r>.tmp`, with contents of an abstract byte-string
type `β`. Process death (`SIGKILL`) keeps every completed `write(2)` (page cache survives), so a
kill does not change an `FS`; `rename(2)` is atomic. Core Lean only.
-/
namespace Nsq.Model.FS

structure FS (β : Type) where
  dat : Option β
  tmps : List (Nat × β)

def FS.empty {β : Type} : FS β := { dat := none, tmps := [] }

/-- content of `nsqd.dat.<r>.tmp` -/
def FS.tmp {β : Type} (fs : FS β) (r : Nat) : Option β :=
  (fs.tmps.find? (fun p => p.1 == r)).map (fun p => p.2)

/-- `open(O_CREATE|O_TRUNC)` followed by writes: the file `r` now holds exactly `b`. -/
def FS.setTmp {β : Type} (fs : FS β) (r : Nat) (b : β) : FS β :=
  { fs with tmps := (r, b) :: fs.tmps.filter (fun p => p.1 != r) }

/-- `rename(tmp_r, nsqd.dat)`: atomic replace; no-op if the temporary file does not exist. -/
def FS.renameTmp {β : Type} (fs : FS β) (r : Nat) : FS β :=
  match fs.tmp r with
  | some b => { dat := some b, tmps := fs.tmps.filter (fun p => p.1 != r) }
  | none => fs

theorem FS.tmp_setTmp {β : Type} (fs : FS β) (r : Nat) (b : β) : (fs.setTmp r b).tmp r = some b := by
  simp [FS.tmp, FS.setTmp]

theorem FS.dat_setTmp {β : Type} (fs : FS β) (r : Nat) (b : β) : (fs.setTmp r b).dat = fs.dat := rfl

theorem FS.dat_renameTmp {β : Type} (fs : FS β) (r : Nat) (b : β) (h : fs.tmp r = some b) :
    (fs.renameTmp r).dat = some b := by
  simp [FS.renameTmp, h]

end Nsq.Model.FS
