/-
E2 — micro-step model of a channel's in-flight structures (DESIGN C02.7).

One micro-step = one critical section of `nsqd/channel.go` on `inFlightMessages` (the map) or
`inFlightPQ` (the heap), exactly the windows the anchors name:

  answer (FIN / REQ / TOUCH)  =  mapPop  (popInFlightMessage: present? owner?)      `ansMapPop`
                               |  heapRemove (removeFromInFlightPQ) + completion     `ansFinish`
                               (TOUCH continues:  | mapPush `touchMapPush` | heapPush `heapPush`)
  delivery                    =  Attempts++, stamp owner/deadline, mapPush           `delMapPush`
                               |  heapPush (addToInFlightPQ)                          `heapPush`
  timeout scan (fix F16)      =  heapPop AND mapPop in ONE critical section           `scanPop`
                                  (PeekAndShift; `delete` iff the map still holds that object,
                                   else the stale heap entry is skipped and the scan exits)
                               |  timeoutCount++, TimedOutMessage, `c.put(msg)`         `scanPut`

A schedule is any list of micro-steps: between two steps of one operation any steps of other
operations may run. The goroutine that is between two critical sections is a *pending
continuation* (`Pend`). The heap is a multiset of ids (a stale entry — an object pushed after it
left the map — is possible; harmless for OWNERSHIP (not for lateness: `Nsq.Model.ChanMicroT`, audit A3, fix F48) since `removeFromInFlightPQ` checks `pq[index] == msg`
(fix 80a0e5f) and the scan checks the map in the same critical section in which it pops the heap
(fix F16; before it the two were separate sections and a REQ plus a redelivery in between made the
scan time out the fresh delivery). Deadlines are abstracted: the scan may pop any heap member (an
over-approximation of `pri <= t`); message objects are identified by their id. Events are recorded at the map steps (the
linearisation points), with the event type of the atomic model so that its history lemmas apply.
Core Lean only.
-/
import Nsq.Model.ChanInv
namespace Nsq.Model.ChanMicro
open Nsq.Model.Chan (Ev status)

inductive Ans where
  | fin
  | req (delay : Nat)
  | touch
deriving DecidableEq, Repr

inductive Pend where
  /-- FIN/REQ/TOUCH of `k`: popped from the map, heap removal and completion pending -/
  | ans (k id : Nat) (a : Ans)
  /-- TOUCH of `k`: removed from the heap, re-insertion into the map pending -/
  | touchMap (k id : Nat)
  /-- delivery or TOUCH: in the map, heap insertion pending -/
  | push (id : Nat)
  /-- timeout scan: popped from heap and map (the timeout is decided), `c.put` pending -/
  | scan (id : Nat)
deriving DecidableEq, Repr

structure MS where
  queue    : List Nat := []
  deferred : List Nat := []
  /-- `inFlightMessages` (keyed by id) -/
  map      : List Nat := []
  /-- `inFlightPQ` as a multiset of ids -/
  heap     : List Nat := []
  pend     : List Pend := []
  /-- `msg.Attempts` of each message object -/
  atts     : List (Nat × Nat) := []
  /-- `msg.clientID` of each message object -/
  owner    : List (Nat × Nat) := []
  hist     : List Ev := []
deriving DecidableEq, Repr

inductive Op where
  | put (id : Nat)
  | delMapPush (k id : Nat)
  | heapPush (id : Nat)
  | ansMapPop (k id : Nat) (a : Ans)
  | ansFinish (k id : Nat) (a : Ans)
  | touchMapPush (k id : Nat)
  | scanPop (id : Nat)
  | scanPut (id : Nat)
  | deferDue (id : Nat)
deriving DecidableEq, Repr

inductive Res where
  | ok
  | fail      -- E_FIN_FAILED / E_REQ_FAILED / E_TOUCH_FAILED, or the scan skipping a stale heap entry
  | reject    -- the step is not enabled in this state
deriving DecidableEq, Repr

/-- fields of the message objects (`msg.Attempts`, `msg.clientID`): latest binding wins -/
def getA : List (Nat × Nat) → Nat → Nat
  | [], _ => 0
  | (i, v) :: l, id => if i = id then v else getA l id
def setA (l : List (Nat × Nat)) (id v : Nat) : List (Nat × Nat) := (id, v) :: l

def ansEv (k id : Nat) : Ans → Ev
  | .fin => .finOk k id
  | .req d => .reqOk k id d
  | .touch => .touchOk k id

def step (s : MS) : Op → MS × Res
  | .put id =>
    if status s.hist id = .none then
      ({ s with queue := id :: s.queue, hist := Ev.fanout id false :: s.hist }, .ok)
    else (s, .reject)
  | .delMapPush k id =>
    -- the pump received the object: Attempts++, StartInFlightTimeout stamps owner (and deadline)
    -- and inserts it in the map
    if id ∈ s.queue then
      if id ∈ s.map then (s, .reject)      -- "ID already in flight": unreachable (`never_already_in_flight`)
      else
      ({ s with queue := s.queue.erase id,
                atts := setA s.atts id (getA s.atts id + 1),
                owner := setA s.owner id k,
                map := id :: s.map,
                pend := Pend.push id :: s.pend,
                hist := Ev.deliver k id (getA s.atts id + 1) :: s.hist }, .ok)
    else (s, .reject)
  | .heapPush id =>
    if Pend.push id ∈ s.pend then
      ({ s with heap := id :: s.heap, pend := s.pend.erase (Pend.push id) }, .ok)
    else (s, .reject)
  | .ansMapPop k id a =>
    -- popInFlightMessage(clientID, id): `msg, ok := map[id]`, then `msg.clientID != clientID`
    if id ∈ s.map then
      if getA s.owner id = k then
        ({ s with map := s.map.erase id, pend := Pend.ans k id a :: s.pend,
                  hist := ansEv k id a :: s.hist }, .ok)
      else (s, .fail)                        -- "client does not own message"
    else (s, .fail)                          -- "ID not in flight"
  | .ansFinish k id a =>
    -- removeFromInFlightPQ (removes the object iff it is in the heap), then the rest of the answer
    if Pend.ans k id a ∈ s.pend then
      match a with
      | .fin => ({ s with heap := s.heap.erase id, pend := s.pend.erase (Pend.ans k id a) }, .ok)
      | .req d =>
        if d = 0 then ({ s with heap := s.heap.erase id, pend := s.pend.erase (Pend.ans k id a),
                                queue := id :: s.queue }, .ok)
        else ({ s with heap := s.heap.erase id, pend := s.pend.erase (Pend.ans k id a),
                       deferred := id :: s.deferred }, .ok)
      | .touch => ({ s with heap := s.heap.erase id,
                            pend := Pend.touchMap k id :: s.pend.erase (Pend.ans k id a) }, .ok)
    else (s, .reject)
  | .touchMapPush k id =>
    if Pend.touchMap k id ∈ s.pend then
      if id ∈ s.map then (s, .reject)      -- unreachable (`never_already_in_flight`)
      else
      ({ s with map := id :: s.map,
                pend := Pend.push id :: s.pend.erase (Pend.touchMap k id) }, .ok)
    else (s, .reject)
  | .scanPop id =>
    -- one critical section: PeekAndShift, then `delete(inFlightMessages, id)` iff the map holds the object
    if id ∈ s.heap then
      if id ∈ s.map then
        ({ s with heap := s.heap.erase id, map := s.map.erase id, pend := Pend.scan id :: s.pend,
                  hist := Ev.timeout id (getA s.owner id) :: s.hist }, .ok)
      else ({ s with heap := s.heap.erase id }, .fail)   -- stale entry: somebody else got the message
    else (s, .reject)
  | .scanPut id =>
    if Pend.scan id ∈ s.pend then
      ({ s with pend := s.pend.erase (Pend.scan id), queue := id :: s.queue }, .ok)
    else (s, .reject)
  | .deferDue id =>
    if id ∈ s.deferred then
      ({ s with deferred := s.deferred.erase id, queue := id :: s.queue,
                hist := Ev.deferDue id :: s.hist }, .ok)
    else (s, .reject)

def run (s : MS) : List Op → MS
  | [] => s
  | op :: ops => run (step s op).1 ops

/-- a step that tries to take `id` out of the in-flight map: an answer of any connection, or the scan -/
def isPopOf (id : Nat) : Op → Bool
  | .ansMapPop _ i _ => i == id
  | .scanPop i => i == id
  | _ => false

/-- a step that puts `id` (back) into the in-flight map: a delivery, or the second half of a TOUCH -/
def isPushOf (id : Nat) : Op → Bool
  | .delMapPush _ i => i == id
  | .touchMapPush _ i => i == id
  | _ => false

/-- how many map pops of `id` succeed along the schedule -/
def wins (id : Nat) (s : MS) : List Op → Nat
  | [] => 0
  | op :: ops => (if isPopOf id op && (step s op).2 == .ok then 1 else 0) + wins id (step s op).1 ops

end Nsq.Model.ChanMicro
