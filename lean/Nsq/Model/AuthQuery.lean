import Nsq.Model.HttpApi
/-
The request side of `internal/auth`: `QueryAuthd` builds the endpoint and the four parameters
(`remote_ip`, `tls`, `secret`, `common_name`), sends them as a GET query (`url.Values.Encode`) or as a
POST body, `QueryAnyAuthd` walks the configured servers starting at a random index until one
answers, and the accepted answer's TTL becomes `Expires = now + time.Duration(ttl) * time.Second`
(64-bit arithmetic). The response validation and everything the gate decides from it is
`Nsq.Model.Gate` (`validate`, `isAllowed`, `isExpired`). Core Lean only.
-/
namespace Nsq.Model.AuthQuery
open Nsq.Model.Names Nsq.Model.HttpApi

/-- `strings.Contains(s, pat)` -/
def containsSub (pat : Bytes) : Bytes → Bool
  | [] => pat.isEmpty
  | c :: r => pat.isPrefixOf (c :: r) || containsSub pat r

/-- The endpoint rule: an address with a scheme is used as it is, a bare `host:port` becomes
`http://host:port/auth`. -/
def endpoint (authd : Bytes) : Bytes :=
  if containsSub (ascii "://") authd then authd else ascii "http://" ++ authd ++ ascii "/auth"

/-- `url.QueryEscape`: letters, digits, `-_.~` are kept, a space becomes `+`, every other byte `%XX`. -/
def unreserved (c : UInt8) : Bool :=
  (97 ≤ c && c ≤ 122) || (65 ≤ c && c ≤ 90) || (48 ≤ c && c ≤ 57) || c = 45 || c = 95 || c = 46 || c = 126

def upperHex (n : Nat) : UInt8 := if n < 10 then (48 + n).toUInt8 else (55 + n).toUInt8

def queryEscape : Bytes → Bytes
  | [] => []
  | c :: r =>
    if unreserved c then c :: queryEscape r
    else if c = 32 then 43 :: queryEscape r
    else 37 :: upperHex (c.toNat / 16) :: upperHex (c.toNat % 16) :: queryEscape r

def kCommonName : Bytes := ascii "common_name"
def kRemoteIP : Bytes := ascii "remote_ip"
def kSecret : Bytes := ascii "secret"
def kTLS : Bytes := ascii "tls"

def tlsText (tls : Bool) : Bytes := if tls then ascii "true" else ascii "false"

/-- `url.Values.Encode()` of the four parameters (keys in sorted order). -/
def encodeQuery (ip cn secret : Bytes) (tls : Bool) : Bytes :=
  kCommonName ++ [61] ++ queryEscape cn ++ [38] ++ kRemoteIP ++ [61] ++ queryEscape ip ++ [38] ++
  kSecret ++ [61] ++ queryEscape secret ++ [38] ++ kTLS ++ [61] ++ queryEscape (tlsText tls)

structure HttpReq where
  post : Bool
  url : Bytes                                   -- what is handed to `http.NewRequest`
  form : List (Bytes × Bytes)                   -- POST: the parameters (sent as a JSON object of one-element lists)
deriving DecidableEq, Repr

/-- `auth.QueryAuthd` up to the HTTP exchange. `method` is the option
`--auth-http-request-method` (`"post"` selects POST, anything else GET). A GET appends `?` and the
encoded parameters even when the configured URL already has a query. -/
def buildRequest (authd ip cn secret : Bytes) (tls : Bool) (method : Bytes) : HttpReq :=
  if method = ascii "post" then
    ⟨true, endpoint authd, [(kCommonName, cn), (kRemoteIP, ip), (kSecret, secret), (kTLS, tlsText tls)]⟩
  else ⟨false, endpoint authd ++ [63] ++ encodeQuery ip cn secret tls, []⟩

/-! ## `QueryAnyAuthd` -/

/-- Servers asked, in order, and the index that answered (`none`: all failed). `ok i` says whether
server `i` gives an acceptable answer; `k` = servers still to try, `i` = offset from `start`. -/
def walk (n start : Nat) (ok : Nat → Bool) : Nat → Nat → List Nat × Option Nat
  | 0, _ => ([], none)
  | k + 1, i =>
    if ok ((i + start) % n) then ([(i + start) % n], some ((i + start) % n))
    else (((i + start) % n) :: (walk n start ok k (i + 1)).1, (walk n start ok k (i + 1)).2)

def queryAny (n start : Nat) (ok : Nat → Bool) : List Nat × Option Nat := walk n start ok n 0

/-! ## TTL -/

/-- Two's-complement reduction to int64. -/
def wrap64 (x : Int) : Int := Int.bmod x 18446744073709551616

/-- `time.Duration(ttl) * time.Second` in nanoseconds. -/
def ttlNs (ttl : Int) : Int := wrap64 (wrap64 ttl * 1000000000)

end Nsq.Model.AuthQuery
