/-
C08 — deletion of a topic racing subscriptions, re-creation and another deletion of the same name
(micro-steps of `NSQD.DeleteExistingTopic`, `protocolV2.SUB`, `NSQD.GetTopic`, `Topic.GetChannel`).

`DeleteExistingTopic(name)`: look the object up; `topic.Delete()` = set the exit flag (CAS; "exiting" if
it was set already — the error is ignored), then delete every channel (consumers closed), empty and
delete the disk queue; finally unlink **the name** from `topicMap`.  The dead object stays in the map
until that last step: `GetTopic` returns it, `GetChannel` creates a channel inside it, and `SUB` re-checks
`Exiting()` only for ephemeral topics.  The ephemeral topic's `deleteCallback` is `DeleteExistingTopic(t.name)`
— the same steps, enabled at any time in this model.

Two model parameters select the tree (ties `Tie.TopicDelete.*`): `subGuard` — SUB refuses any exiting
topic (fixes/F19); `ownUnlink` — a deletion that lost the CAS returns without unlinking, and the unlink
removes the name only while it still refers to the deleted object (fixes/F20).
-/
namespace Nsq.Model.TopicDelete

/-- one topic object registered (at some time) under the name -/
structure TObj where
  id : Nat
  eph : Bool := false
  exiting : Bool := false
  /-- `exit(true)` has deleted every channel (and closed their consumers), emptied and deleted the backend -/
  chansDeleted : Bool := false
  /-- consumers attached to a channel of this object (AddClient succeeded, connection not closed by the server) -/
  subs : List Nat := []
deriving Repr, DecidableEq

structure DSt where
  map : Option TObj := none
  /-- objects that no map holds any more -/
  unlinked : List TObj := []
  nextId : Nat := 0
  /-- connections closed by the server (delete, or a refused SUB) -/
  closed : List Nat := []
  /-- ghost: consumer k's SUB was answered OK on object id -/
  okSub : List (Nat × Nat) := []
  /-- consumers that disconnected by themselves -/
  left : List Nat := []
  /-- objects whose deletion (by the goroutine that won the CAS) is between the flag and the unlink -/
  deleters : List Nat := []
  /-- deletions that lost the CAS and are about to unlink the name -/
  losers : Nat := 0
  subGuard : Bool := false
  ownUnlink : Bool := false
deriving Repr, DecidableEq

inductive DStep where
  | sub (k : Nat) (eph : Bool)   -- SUB: GetTopic (creates a fresh object if the name is free), GetChannel, AddClient, guard
  | leave (k : Nat)              -- the consumer disconnects
  | delBegin                     -- DeleteExistingTopic / deleteCallback: lookup + exit-flag CAS
  | delChannels (id : Nat)       -- … channels deleted, consumers closed, backend deleted
  | delUnlink (id : Nat)         -- … `delete(n.topicMap, name)`
  | loserUnlink                  -- the unlink of a deletion whose `topic.Delete()` returned "exiting"
deriving Repr, DecidableEq

def updObj (s : DSt) (id : Nat) (f : TObj → TObj) : DSt :=
  { s with map := s.map.map (fun T => if T.id = id then f T else T),
           unlinked := s.unlinked.map (fun T => if T.id = id then f T else T) }

def findObj (s : DSt) (id : Nat) : Option TObj :=
  match s.map with
  | some T => if T.id = id then some T else s.unlinked.find? (fun X => X.id = id)
  | none => s.unlinked.find? (fun X => X.id = id)

def attach (s : DSt) (T : TObj) (k : Nat) : DSt :=
  if (T.eph || s.subGuard) && T.exiting then
    { s with closed := k :: s.closed }                      -- E_SUB_FAILED (fatal): connection closed
  else
    { s with map := some { T with subs := k :: T.subs }, okSub := (k, T.id) :: s.okSub }

def dstep (s : DSt) : DStep → Option DSt
  | .sub k eph =>
    if k ∈ s.closed ∨ k ∈ s.left ∨ s.okSub.any (fun e => e.1 = k) then none    -- one SUB per connection
    else
      match s.map with
      | some T => some (attach s T k)
      | none =>
        let T : TObj := { id := s.nextId, eph := eph }
        some (attach { s with nextId := s.nextId + 1 } T k)
  | .leave k =>
    if k ∈ s.closed ∨ k ∈ s.left then none
    else some { s with left := k :: s.left,
                       map := s.map.map (fun T => { T with subs := T.subs.erase k }),
                       unlinked := s.unlinked.map (fun T => { T with subs := T.subs.erase k }) }
  | .delBegin =>
    match s.map with
    | none => none                                           -- "topic does not exist"
    | some T =>
      if T.exiting then
        if s.ownUnlink then some s                           -- returns; the running deletion unlinks
        else some { s with losers := s.losers + 1 }
      else some { s with map := some { T with exiting := true }, deleters := T.id :: s.deleters }
  | .delChannels id =>
    if id ∈ s.deleters then
      match findObj s id with
      | none => none
      | some T =>
        if T.chansDeleted then none
        else some { updObj s id (fun T => { T with chansDeleted := true, subs := [] }) with closed := T.subs ++ s.closed }
    else none
  | .delUnlink id =>
    if id ∈ s.deleters then
      match findObj s id with
      | none => none
      | some T =>
        if !T.chansDeleted then none
        else
          match s.map with
          | none => some { s with deleters := s.deleters.erase id }
          | some M =>
            if s.ownUnlink && M.id != id then some { s with deleters := s.deleters.erase id }
            else some { s with map := none, unlinked := M :: s.unlinked, deleters := s.deleters.erase id }
    else none
  | .loserUnlink =>
    if s.losers = 0 then none
    else
      match s.map with
      | none => some { s with losers := s.losers - 1 }
      | some M => some { s with map := none, unlinked := M :: s.unlinked, losers := s.losers - 1 }

def drun : DSt → List DStep → Option DSt
  | s, [] => some s
  | s, a :: as =>
    match dstep s a with
    | none => none
    | some s' => drun s' as

/-- consumers that are connected to an object no map holds: SUB answered OK, never closed by the server,
did not leave — nothing published to the name can reach them and no deletion will ever close them -/
def zombies (s : DSt) : List Nat := (s.unlinked.map (·.subs)).flatten

/-- objects unlinked although nobody deleted them (exit flag never set) -/
def leaked (s : DSt) : List Nat := (s.unlinked.filter (fun T => !T.exiting)).map (·.id)

def fixedTree : DSt := { subGuard := true, ownUnlink := true }

end Nsq.Model.TopicDelete
