/-
E2 — the nsqd-level state machine: topics (queue bag, pump snapshot, pause flag, counters),
their channels (`Nsq.Model.Chan`), the subscription registry, and the id counter.

Every API-level operation is one step (`step`).  Steps whose outcome the Go runtime chooses
(`pumpTopic`, `deliver`, `sampleDrop`, `resplit`) are *observations*: the step function accepts
them when they were allowed in the current state and rejects them otherwise.
Core Lean only.
-/
import Nsq.Model.Chan
namespace Nsq.Model.ChanNsqd
open Nsq.Model.Chan

inductive Place where
  | mem | disk | either
deriving DecidableEq, Repr

structure TMsg where
  id       : Nat
  size     : Nat
  deferred : Nat      -- milliseconds (0 = not deferred)
  place    : Place
  env      : Env := {}
deriving DecidableEq, Repr

structure NChan where
  cid  : Nat
  /-- ghost: value of the id counter when the channel was created -/
  born : Nat
  ch   : Chan
deriving DecidableEq, Repr

structure Topic where
  tid      : Nat
  queue    : List TMsg := []
  memCap   : Nat := 0
  chans    : List NChan := []
  /-- channel ids in the topic pump's snapshot (`chans` local of `Topic.messagePump`) -/
  pump     : List Nat := []
  paused   : Bool := false
  msgCount : Nat := 0
  msgBytes : Nat := 0
  /-- ghost: ids whose publish was acknowledged, ids fanned out, ids enqueued by a failed MPUB -/
  acked    : List Nat := []
  pumped   : List Nat := []
  unacked  : List Nat := []
  /-- ghost: the envelope (timestamp, body) every id was published with -/
  envlog   : List (Nat × Env) := []
deriving DecidableEq, Repr

structure Sub where
  conn : Nat
  tid  : Nat
  cid  : Nat
deriving DecidableEq, Repr

structure NConf where
  memq     : Nat := 10000
  maxReqMs : Nat := 3600000
  chan     : Conf := {}
deriving DecidableEq, Repr

structure State where
  conf    : NConf := {}
  topics  : List Topic := []
  subs    : List Sub := []
  /-- every connection id that ever subscribed (ids are never reused) -/
  everSub : List Nat := []
  nextId  : Nat := 1
deriving DecidableEq, Repr

inductive Op where
  | createTopic (t : Nat)
  | createChan (t c : Nat) (eph : Bool)        -- Topic.GetChannel incl. the channelUpdateChan handshake
  | createChanRaw (t c : Nat) (eph : Bool)     -- only the map insert (first half of GetChannel)
  | refreshPump (t : Nat)                      -- the pump takes a new snapshot
  | sub (k t c : Nat) (eph : Bool) (msgTimeout : Int) (sample : Nat)
  | disconnect (k : Nat)
  | rdy (k : Nat) (n : Option Int)             -- `none`: the count did not parse
  | cls (k : Nat)
  | pub (t size : Nat) (env : Env := {})
  | mpub (t : Nat) (sizes : List Nat) (envs : List Env := [])
  | mpubFail (t : Nat) (sizes : List Nat) (j : Nat) (envs : List Env := [])   -- the (j+1)-th backend write fails
  | dpub (t size delay : Nat) (env : Env := {})
  | pumpTopic (t id : Nat) (kept : Bool) (pris : List (Nat × Int))
  | deliver (k id : Nat) (now : Int)
  | sampleDrop (k id : Nat)
  | fin (k id : Nat)
  | req (k id delay : Nat) (now : Int)
  | touch (k id : Nat) (now : Int)
  | scanInFlight (t c : Nat) (time : Int)
  | scanDeferred (t c : Nat) (time : Int)
  | pauseChan (t c : Nat)
  | unpauseChan (t c : Nat)
  | pauseTopic (t : Nat)
  | unpauseTopic (t : Nat)
  | emptyChan (t c : Nat)
  | resplit (t c mem dq : Nat)
  | finChan (k id : Nat)
  | finClient (k : Nat)
  | guard (k : Nat)
  | deliverArmed (k id : Nat) (now : Int)
deriving DecidableEq, Repr

def Op.atomic : Op → Bool
  | .finChan .. => false
  | .finClient .. => false
  | .guard .. => false
  | .deliverArmed .. => false
  | .createChanRaw .. => false
  | .refreshPump .. => false
  | _ => true

def findT (l : List Topic) (t : Nat) : Option Topic := l.find? (fun x => x.tid == t)
def updT (l : List Topic) (t : Nat) (f : Topic → Topic) : List Topic :=
  l.map (fun x => if x.tid == t then f x else x)
def findN (l : List NChan) (c : Nat) : Option NChan := l.find? (fun x => x.cid == c)
def updN (l : List NChan) (c : Nat) (f : Chan → Chan) : List NChan :=
  l.map (fun x => if x.cid == c then { x with ch := f x.ch } else x)
def findS (l : List Sub) (k : Nat) : Option Sub := l.find? (fun x => x.conn == k)

def pumpEnabled (t : Topic) : Bool := !t.paused && !t.pump.isEmpty
def memLenT (t : Topic) : Nat := t.queue.countP (fun m => m.place == .mem)
def dqLenT (t : Topic) : Nat := t.queue.countP (fun m => m.place == .disk)

/-- `Topic.put`: the memory channel when it has room (or, with `mem-queue-size 0`, for a
deferred message when the pump happens to be receiving — the runtime decides), else disk. -/
def placeOf (t : Topic) (deferred : Nat) : Place :=
  if t.memCap > 0 then (if memLenT t < t.memCap then .mem else .disk)
  else if deferred > 0 && pumpEnabled t then .either else .disk

def putT (t : Topic) (id size deferred : Nat) (env : Env := {}) : Topic :=
  let p := placeOf t deferred
  -- a message written to disk loses its deferral (`writeMessageToBackend` does not encode it);
  -- timestamp, id and body are what `WriteTo` / `decodeMessage` carry
  { t with queue := ⟨id, size, if p == .disk then 0 else deferred, p, env⟩ :: t.queue,
           envlog := (id, env) :: t.envlog }

/-- `Topic.PutMessages` for a list of body sizes, ids counted up from `id` -/
def putMany (t : Topic) (id : Nat) : List Nat → List Env → Topic
  | [], _ => t
  | sz :: rest, envs => putMany (putT t id sz 0 (envs.headD {})) (id + 1) rest envs.tail

def idsFrom (id : Nat) : Nat → List Nat
  | 0 => []
  | n + 1 => id :: idsFrom (id + 1) n

def newChan (conf : NConf) (eph : Bool) : Chan :=
  { ephemeral := eph, memCap := conf.memq }

def ensureTopic (s : State) (t : Nat) : State :=
  match findT s.topics t with
  | some _ => s
  | none => { s with topics := s.topics ++ [{ tid := t, memCap := s.conf.memq }] }

/-- apply a channel operation to channel (t,c); the channel-level output is returned -/
def chanStep (s : State) (t c : Nat) (op : Chan.Op) : State × Out :=
  match findT s.topics t with
  | none => (s, .reject "no-topic")
  | some tp =>
    match findN tp.chans c with
    | none => (s, .reject "no-chan")
    | some nc =>
      let r := Chan.step s.conf.chan nc.ch op
      ({ s with topics := updT s.topics t (fun tp => { tp with chans := updN tp.chans c (fun _ => r.1) }) }, r.2)

/-- fan one message out to every channel of the snapshot (`Topic.messagePump` inner loop) -/
def fanOne (conf : NConf) (pump : List Nat) (m : TMsg) (kept : Bool) (pris : List (Nat × Int)) (nc : NChan) : NChan :=
  if !pump.contains nc.cid then nc else
  if m.deferred > 0 && kept then
    match pris.lookup nc.cid with
    | some pri => { nc with ch := (Chan.step conf.chan nc.ch (.putDeferred m.id pri m.env)).1 }
    | none => { nc with ch := (Chan.step conf.chan nc.ch (.putDeferred m.id 0 m.env)).1 }
  else { nc with ch := (Chan.step conf.chan nc.ch (.put m.id m.env)).1 }

def keptAllowed (m : TMsg) (kept : Bool) : Bool :=
  if m.deferred == 0 then true
  else match m.place with
    | .mem => kept
    | .disk => !kept
    | .either => true

def clampReq (conf : NConf) (d : Nat) : Nat := if d > conf.maxReqMs then conf.maxReqMs else d

def removeSub (s : State) (k : Nat) : State := { s with subs := s.subs.filter (fun x => x.conn != k) }

/-- after a client left: an `#ephemeral` channel without clients deletes itself
(`RemoveClient` → `deleteCallback` → `DeleteExistingChannel`, which re-synchronises the pump) -/
def reapEphemeral (tp : Topic) (c : Nat) : Topic :=
  match findN tp.chans c with
  | some nc =>
    if nc.ch.ephemeral && nc.ch.clients.isEmpty then
      { tp with chans := tp.chans.filter (fun x => x.cid != c), pump := tp.pump.filter (fun x => x != c) }
    else tp
  | none => tp

/-- run a channel op on behalf of connection `k` (FIN/REQ/TOUCH/RDY/CLS/deliver):
a connection that is not subscribed gets the fatal `E_INVALID` ("cannot … in current state") -/
def connStep (s : State) (k : Nat) (op : Chan.Op) : State × Out :=
  match findS s.subs k with
  | none => (s, .err "E_INVALID" true)
  | some sb =>
    let r := chanStep s sb.tid sb.cid op
    match r.2 with
    | .err _ true =>
      -- fatal error: the IOLoop exits, RemoveClient (already done by the channel step), maybe reap
      ({ removeSub r.1 k with topics := updT r.1.topics sb.tid (fun tp => reapEphemeral tp sb.cid) }, r.2)
    | _ => r

/-- `Topic.GetChannel` for a new channel: map insert + the `channelUpdateChan` handshake -/
def doCreateChan (s : State) (t c : Nat) (eph : Bool) : State × Out :=
  let s := ensureTopic s t
  match findT s.topics t with
  | none => (s, .reject "no-topic")
  | some tp =>
    match findN tp.chans c with
    | some _ => (s, .ok)
    | none =>
      let nc : NChan := { cid := c, born := s.nextId, ch := newChan s.conf eph }
      ({ s with topics := updT s.topics t (fun tp =>
          { tp with chans := tp.chans ++ [nc], pump := (tp.chans ++ [nc]).map (·.cid) }) }, .ok)

def step (s : State) : Op → State × Out
  | .createTopic t => (ensureTopic s t, .ok)
  | .createChanRaw t c eph =>
    let s := ensureTopic s t
    match findT s.topics t with
    | none => (s, .reject "no-topic")
    | some tp =>
      match findN tp.chans c with
      | some _ => (s, .ok)
      | none =>
        ({ s with topics := updT s.topics t (fun tp =>
            { tp with chans := tp.chans ++ [{ cid := c, born := s.nextId, ch := newChan s.conf eph }] }) }, .ok)
  | .refreshPump t =>
    ({ s with topics := updT s.topics t (fun tp => { tp with pump := tp.chans.map (·.cid) }) }, .ok)
  | .createChan t c eph => doCreateChan s t c eph
  | .sub k t c eph mt sample =>
    if s.everSub.contains k then (s, .err "E_INVALID" true) else
    let s1 := (doCreateChan s t c eph).1
    let r := chanStep s1 t c (.addClient k mt sample)
    match r.2 with
    | .ok => ({ r.1 with subs := ⟨k, t, c⟩ :: r.1.subs, everSub := k :: r.1.everSub }, .ok)
    | o => (s1, o)
  | .disconnect k =>
    match findS s.subs k with
    | none => (s, .ok)
    | some sb =>
      let r := chanStep s sb.tid sb.cid (.removeClient k)
      ({ removeSub r.1 k with topics := updT r.1.topics sb.tid (fun tp => reapEphemeral tp sb.cid) }, .ok)
  | .rdy k n =>
    match n with
    | some v => connStep s k (.rdy k v)
    | none =>
      -- "RDY could not parse count": fatal E_INVALID, modelled as an out-of-range count
      match findS s.subs k with
      | none => (s, .err "E_INVALID" true)
      | some sb =>
        let closing := match findT s.topics sb.tid with
          | some tp => match findN tp.chans sb.cid with
            | some nc => match findC nc.ch.clients k with
              | some cl => cl.closing
              | none => false
            | none => false
          | none => false
        if closing then (s, .ok) else connStep s k (.rdy k (-1))
  | .cls k => connStep s k (.cls k)
  | .pub t size env =>
    let s := ensureTopic s t
    ({ s with topics := updT s.topics t (fun tp =>
        { putT tp s.nextId size 0 env with msgCount := tp.msgCount + 1, msgBytes := tp.msgBytes + size, acked := s.nextId :: tp.acked }),
              nextId := s.nextId + 1 }, .ids [s.nextId])
  | .dpub t size delay env =>
    let s := ensureTopic s t
    ({ s with topics := updT s.topics t (fun tp =>
        { putT tp s.nextId size delay env with msgCount := tp.msgCount + 1, msgBytes := tp.msgBytes + size, acked := s.nextId :: tp.acked }),
              nextId := s.nextId + 1 }, .ids [s.nextId])
  | .mpub t sizes envs =>
    let s := ensureTopic s t
    ({ s with topics := updT s.topics t (fun tp =>
        { putMany tp s.nextId sizes envs with msgCount := tp.msgCount + sizes.length, msgBytes := tp.msgBytes + sizes.sum, acked := (idsFrom s.nextId sizes.length).reverse ++ tp.acked }),
              nextId := s.nextId + sizes.length }, .ids (idsFrom s.nextId sizes.length))
  | .mpubFail t sizes j envs =>
    -- `PutMessages`: the put of message j fails → the j messages before it stay enqueued and are
    -- counted, the publish is answered with E_MPUB_FAILED (ids for all messages were generated)
    let s := ensureTopic s t
    if j ≥ sizes.length then (s, .reject "bad-j") else
    ({ s with topics := updT s.topics t (fun tp =>
        { putMany tp s.nextId (sizes.take j) envs with msgCount := tp.msgCount + j, msgBytes := tp.msgBytes + (sizes.take j).sum, unacked := (idsFrom s.nextId j).reverse ++ tp.unacked }),
              nextId := s.nextId + sizes.length }, .err "E_MPUB_FAILED" true)
  | .pumpTopic t id kept pris =>
    match findT s.topics t with
    | none => (s, .reject "no-topic")
    | some tp =>
      if !pumpEnabled tp then (s, .reject "pump-disabled") else
      match tp.queue.find? (fun m => m.id == id) with
      | none => (s, .reject "not-in-topic-queue")
      | some m =>
        if !keptAllowed m kept then (s, .reject "deferral") else
        ({ s with topics := updT s.topics t (fun tp =>
            { tp with queue := tp.queue.filter (fun x => x.id != id),
                      chans := tp.chans.map (fanOne s.conf tp.pump m kept pris),
                      pumped := id :: tp.pumped }) },
         .ids ((tp.chans.filter (fun nc => tp.pump.contains nc.cid)).map (·.cid)))
  | .deliver k id now => connStep s k (.deliver k id now)
  | .sampleDrop k id => connStep s k (.sampleDrop k id)
  | .fin k id => connStep s k (.fin k id)
  | .finChan k id => connStep s k (.finChan k id)
  | .finClient k => connStep s k (.finClient k)
  | .guard k => connStep s k (.guard k)
  | .deliverArmed k id now => connStep s k (.deliverArmed k id now)
  | .req k id delay now => connStep s k (.req k id (clampReq s.conf delay) now)
  | .touch k id now => connStep s k (.touch k id now)
  | .scanInFlight t c time => chanStep s t c (.scanInFlight time)
  | .scanDeferred t c time => chanStep s t c (.scanDeferred time)
  | .pauseChan t c => chanStep s t c .pause
  | .unpauseChan t c => chanStep s t c .unpause
  | .emptyChan t c => chanStep s t c .empty
  | .resplit t c m d => chanStep s t c (.resplit m d)
  | .pauseTopic t =>
    match findT s.topics t with
    | none => (s, .reject "no-topic")
    | some _ => ({ s with topics := updT s.topics t (fun tp => { tp with paused := true }) }, .ok)
  | .unpauseTopic t =>
    match findT s.topics t with
    | none => (s, .reject "no-topic")
    | some _ => ({ s with topics := updT s.topics t (fun tp => { tp with paused := false }) }, .ok)

def run (s : State) : List Op → State
  | [] => s
  | op :: ops => run (step s op).1 ops

/-- anything still enabled that the implementation should have done by a `settle` barrier? -/
def enabledAt (s : State) : List String :=
  s.topics.foldr (fun tp acc =>
    (if pumpEnabled tp && !tp.queue.isEmpty then [s!"pump t{tp.tid}"] else []) ++
    (tp.chans.foldr (fun nc acc2 =>
      (if deliverEnabled nc.ch then [s!"deliver t{tp.tid} c{nc.cid}"] else []) ++ acc2) []) ++ acc) []

end Nsq.Model.ChanNsqd
