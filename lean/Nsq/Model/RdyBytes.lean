import Nsq.Model.Num
/-!
C03, audit item A9: the count argument of `RDY` as the handler reads it off the wire
(nsqd/protocol_v2.go RDY): no parameter ⇒ 1; otherwise `protocol.ByteToBase10(params[1])`
(model `Num.byteToBase10`, tied by translation: `Tie.Num`), `count = int64(b10)` (same 64 bits, read
signed), then `if count < 0 || count > MaxRdyCount` ⇒ fatal `E_INVALID`. Core Lean only (driver op `rdy`).
-/
namespace Nsq.Model.RdyBytes
open Nsq.Model.Num

inductive RdyRes
  | parseErr                       -- E_INVALID "RDY could not parse count"
  | rangeErr (count : BitVec 64)   -- E_INVALID "RDY count %d out of range 0-%d"
  | ok (count : BitVec 64)         -- client.SetReadyCount(count)
deriving DecidableEq, Repr

/-- the handler's decision for a subscribed, not closing connection; `arg = none`: no parameter -/
def rdyArg (maxRdy : BitVec 64) (arg : Option Bytes) : RdyRes :=
  match arg with
  | none => if BitVec.slt 1#64 0#64 || BitVec.slt maxRdy 1#64 then .rangeErr 1#64 else .ok 1#64
  | some b =>
    match byteToBase10 b with
    | none => .parseErr
    | some c => if BitVec.slt c 0#64 || BitVec.slt maxRdy c then .rangeErr c else .ok c

def rdyAnswer (maxRdy : BitVec 64) (arg : Option Bytes) : String :=
  match rdyArg maxRdy arg with
  | .parseErr => "E_INVALID parse"
  | .rangeErr c => s!"E_INVALID range {c.toInt}"
  | .ok c => s!"ok {c.toInt}"

end Nsq.Model.RdyBytes
