import Nsq.Model.Relay
/-
Wire-level model of ONE `Publish` of apps/nsq_to_http through the `http.Client` that `main()` builds
(audit round 7, item C3; round 11: the client of fix F45b). Core Lean only (linked into drv_e8).

`Nsq.Model.Relay.Http.step` takes the status code *the publisher sees* (`resp a`). Between the
destination and the publisher sits `http.Client.Do` (net/http `Client.do`, `redirectBehavior`):

* 301 / 302 / 303 with a `Location`: the follow-up request is a **GET without a body** (a GET stays a GET);
* 307 / 308 with a `Location`: method and body are kept (the body is re-read through `GetBody`: `bytes.Buffer`);
* the URL of the follow-up request is the `Location` — for the GET publisher the message travels in the query
  string, so the follow-up GET carries the message iff the `Location` carries that query (`Loc.keepsQuery`:
  the destination's choice, e.g. an http→https or trailing-slash redirect keeps it, `Location: /elsewhere` drops it);
* any other status, or no `Location` header: the answer is handed to the caller;
* before a follow-up request is sent the client asks `CheckRedirect(req, via)` — here a `Check`: a function of
  the method of the upcoming request, the method of the first request (`via[0].Method`) and `len(via)`:
  `nil` = send it (`Verdict.follow`), `http.ErrUseLastResponse` = hand the 3xx answer to the caller
  (`Verdict.useLast`), any other error = `Do` fails (`Verdict.error`).

Three clients:
* `checkDefault` — no `CheckRedirect` (tree before fix F45): net/http's `defaultCheckRedirect`, follow, the 11th
  request is refused with the error "stopped after 10 redirects";
* `checkNever` — fix F45 (/repo 2a7fc8c) `return http.ErrUseLastResponse`: the first answer is handed back;
* `checkSameMethod` — fix F45b: `if req.Method != via[0].Method || len(via) >= 10 { return http.ErrUseLastResponse };
  return nil`: redirects that keep the method are followed (307/308 of a POST with the body, every redirect of a
  GET), a POST answered 301/302/303 is handed back, and so is the answer to the 10th request of a chain.
Which `Check` a tree has is *translated* from its `noRedirect` by go2lean (`Nsq.Tie.ToolsRelayRedirect`).

The destination side is arbitrary: `World` gives the answer of every endpoint to every request
(method, carried message bytes).  Endpoints are numbered; the tool's configured addresses are the
endpoints `0 … naddr-1`, a `Location` may name any endpoint.  What a request *carries* is the POST
body, or for the GET publisher the message inside the query string.
`doReq` has a `fuel` argument only because a `Check` that never stops would follow a redirect loop until the
request timeout of the client ends it (an error): for the three clients above ten requests are the most that
is ever made (`Nsq.Proofs.RelayRedirect.doReq_fuel_irrelevant`), `redirectFuel = 10`.
-/
namespace Nsq.Model.RelayRedirect
open Nsq.Model.Relay

/-- the `Location` of a redirect answer: the endpoint it names, and whether it still carries the query string
of the request it answers (only relevant for the GET publisher, whose message travels in the query) -/
structure Loc where
  ep : Nat
  keepsQuery : Bool
deriving DecidableEq, Repr

/-- the answer of an endpoint: status line (+ optional `Location`), or a transport error -/
inductive Ans
  | status (code : Nat) (loc : Option Loc)
  | err
deriving DecidableEq, Repr

/-- one request on the wire, with the status it was answered with (`none` = transport error) -/
structure Wire where
  ep : Nat
  post : Bool
  payload : Option Bytes
  status : Option Nat
deriving DecidableEq, Repr

abbrev World := Nat → Bool → Option Bytes → Ans

/-- net/http `redirectBehavior`: `some keep` = the status asks for a follow-up request; method and
body are kept iff `keep` -/
def redirectKind (code : Nat) : Option Bool :=
  if code = 301 ∨ code = 302 ∨ code = 303 then some false
  else if code = 307 ∨ code = 308 then some true
  else none

def finalOf : Ans → Option Nat
  | .status c _ => some c
  | .err => none

/-- the follow-up request the client prepares for this answer: `Location`, keep method+body -/
def followUp : Ans → Option (Loc × Bool)
  | .status code (some next) =>
    match redirectKind code with
    | some keep => some (next, keep)
    | none => none
  | _ => none

/-- what `CheckRedirect` returns: `nil`, `http.ErrUseLastResponse`, another error -/
inductive Verdict | follow | useLast | error
deriving DecidableEq, Repr

/-- `CheckRedirect(req, via)` as a function of `req.Method = "POST"`, `via[0].Method = "POST"`, `len(via)` -/
abbrev Check := Bool → Bool → Nat → Verdict

/-- net/http `defaultCheckRedirect`: `len(via) >= 10` is an error -/
def checkDefault : Check := fun _ _ nvia => if nvia ≥ 10 then .error else .follow
/-- fix F45: `return http.ErrUseLastResponse` -/
def checkNever : Check := fun _ _ _ => .useLast
/-- fix F45b: `if req.Method != via[0].Method || len(via) >= 10 { return http.ErrUseLastResponse }; return nil` -/
def checkSameMethod : Check := fun reqPost via0Post nvia =>
  if reqPost ≠ via0Post ∨ nvia ≥ 10 then .useLast else .follow

/-- the result codes of a translated `CheckRedirect` body (`go2lean` kind `clientlit`):
0 = `return nil`, 1 = `return http.ErrUseLastResponse`, anything else = another error -/
def verdictOfCode (n : Nat) : Verdict := if n = 0 then .follow else if n = 1 then .useLast else .error

/-- what the follow-up request carries: a POST re-sends its body iff method and body are kept (307/308), a request
that became a GET carries nothing; a GET carries the message iff it still does and the `Location` keeps the query -/
def nextPayload (post : Bool) (lk : Loc × Bool) (payload : Option Bytes) : Option Bytes :=
  if post then (if lk.2 then payload else none)
  else (if lk.1.keepsQuery then payload else none)

/-- `http.Client.Do`; `post0` = method of the first request (`via[0]`), `nvia` = requests already made -/
def doReq (check : Check) (w : World) (post0 : Bool) : Nat → Nat → Nat → Bool → Option Bytes → List Wire × Option Nat
  | 0, _, _, _, _ => ([], none)      -- a chain the `Check` never stops ends by the client's request timeout
  | fuel + 1, nvia, ep, post, payload =>
    match followUp (w ep post payload) with
    | none => ([⟨ep, post, payload, finalOf (w ep post payload)⟩], finalOf (w ep post payload))
    | some lk =>
      match check (post && lk.2) post0 (nvia + 1) with
      | .useLast => ([⟨ep, post, payload, finalOf (w ep post payload)⟩], finalOf (w ep post payload))
      | .error => ([⟨ep, post, payload, finalOf (w ep post payload)⟩], none)
      | .follow =>
        (⟨ep, post, payload, finalOf (w ep post payload)⟩ ::
           (doReq check w post0 fuel (nvia + 1) lk.1.ep (post && lk.2) (nextPayload post lk payload)).1,
         (doReq check w post0 fuel (nvia + 1) lk.1.ep (post && lk.2) (nextPayload post lk payload)).2)

/-- enough for every client whose `Check` stops at `len(via) >= 10` -/
def redirectFuel : Nat := 10

/-- the wire requests of one `Publisher.Publish(addr, body)` -/
def wireOf (check : Check) (post : Bool) (w : World) (a : Nat) (body : Bytes) : List Wire :=
  (doReq check w post redirectFuel 0 a post (some body)).1

/-- the status the publisher sees -/
def seenBy (check : Check) (post : Bool) (w : World) (body : Bytes) : Nat → Option Nat :=
  fun a => (doReq check w post redirectFuel 0 a post (some body)).2

/-- `HandleMessage` + go-nsq's response rule, the destinations seen through the client -/
def stepVia (check : Check) (c : Http.Cfg) (counter : Nat) (m : Msg) (sampledOut : Bool) (pick : Nat) (w : World) :
    Nat × List Out :=
  Http.step c counter m sampledOut pick (seenBy check c.post w m.body)

/-- a destination received the message: some wire request to (a chain starting at) address `a`
carried the body, with the publisher's method, and was answered with an accepted status -/
def Delivered (check : Check) (post : Bool) (w : World) (a : Nat) (body : Bytes) : Prop :=
  ∃ x ∈ wireOf check post w a body, x.payload = some body ∧ x.post = post ∧ Http.accepts post x.status = true

/-- all wire requests of a handling, in the order made -/
def wireTrace (check : Check) (post : Bool) (w : World) : List Out → List Wire
  | [] => []
  | .request a body _ :: os => wireOf check post w a body ++ wireTrace check post w os
  | _ :: os => wireTrace check post w os

/-! ### driver -/
open Nsq.Line

/-- `1` → endpoint 1, the query is dropped; `1q` → endpoint 1, the `Location` repeats the query of the request -/
def locOf (l : String) : Option Loc :=
  if l.endsWith "q" then (String.ofList l.toList.dropLast).toNat?.map (fun k => ⟨k, true⟩)
  else l.toNat?.map (fun k => ⟨k, false⟩)

/-- `200`, `302>1` (Location = endpoint 1), `307>1q` (… with the query kept), `302` (no Location), `x` (transport error) -/
def ansOf (s : String) : Ans :=
  match s.splitOn ">" with
  | [c] => match c.toNat? with | some n => .status n none | none => .err
  | [c, l] => match c.toNat?, locOf l with
    | some n, some k => .status n (some k)
    | some n, none => .status n none
    | _, _ => .err
  | _ => .err

/-- the scripted world of the harness: the answer depends on the endpoint only -/
def worldOf (s : String) : World :=
  let xs := (s.splitOn ",").map ansOf
  fun ep _ _ => match xs[ep]? with | some a => a | none => .err

/-- the client of an `rd` op: `0` = `checkNever` (F45), `1` = `checkDefault` (no CheckRedirect), `2` = `checkSameMethod` (F45b) -/
def checkOf (s : String) : Option Check :=
  if s = "0" then some checkNever else if s = "1" then some checkDefault else if s = "2" then some checkSameMethod else none

def wireStr (x : Wire) : String :=
  s!"{x.ep}:{if x.post then "POST" else "GET"}:{match x.payload with | some b => hex b | none => "none"}:{match x.status with | some c => toString c | none => "x"}"

/-- what the source nsqd sees of a handling: `fin`, `req`, or nothing (panic) -/
def respStr (id : Nat) (os : List Out) : String :=
  if Out.fin id ∈ os then "fin" else if Out.req id ∈ os then "req" else "none"

/-- `rd client mode naddr post counter id body world` → what is observable from outside the real binary:
the FIN/REQ the source receives and the requests the destinations receive, in order -/
def driverLine (ws : List String) : String :=
  match ws with
  | ["rd", client, mode, naddr, post, counter, id, body, world] =>
    match checkOf client, modeOf mode, naddr.toNat?, b01 post, counter.toNat?, id.toNat?, unhex body with
    | some check, some mode, some naddr, some post, some counter, some id, some body =>
      let w := worldOf world
      let r := stepVia check ⟨mode, naddr, post, false⟩ counter ⟨id, body⟩ false 0 w
      s!"{respStr id r.2} | {" ".intercalate ((wireTrace check post w r.2).map wireStr)}"
    | _, _, _, _, _, _, _ => "bad-op"
  | _ => "bad-op"

end Nsq.Model.RelayRedirect
