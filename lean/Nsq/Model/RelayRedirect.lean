import Nsq.Model.Relay
/-
Wire-level model of ONE `Publish` of apps/nsq_to_http through the `http.Client` that `main()` builds
(audit round 7, item C3). Core Lean only (linked into drv_e8).

`Nsq.Model.Relay.Http.step` takes the status code *the publisher sees* (`resp a`). Between the
destination and the publisher sits `http.Client.Do`, which by default FOLLOWS redirects
(net/http `redirectBehavior` + `defaultCheckRedirect`):

* 301 / 302 / 303 with a `Location`: the request is repeated at the new URL as a **GET without a
  body** (a GET stays a GET; its URL — query string included — is replaced by the `Location`);
* 307 / 308 with a `Location`: method and body are kept (the body can be re-read: `bytes.Buffer`);
* any other status, or no `Location` header: the answer is handed to the caller;
* the 11th request of a chain is refused: "stopped after 10 redirects" (an error);
* with `CheckRedirect = func(…) error { return http.ErrUseLastResponse }` (fix F45) the first answer
  is handed to the caller whatever it is: `follow = false`.

The destination side is arbitrary: `World` gives the answer of every endpoint to every request
(method, carried message bytes).  Endpoints are numbered; the tool's configured addresses are the
endpoints `0 … naddr-1`, a `Location` may name any endpoint.  What a request *carries* is the POST
body, or for the GET publisher the message inside the query string of the configured URL; a
followed redirect of a GET goes to the `Location` URL, which does not contain the message
(assumption of the `follow = true` shape only: the destination does not echo the query).
-/
namespace Nsq.Model.RelayRedirect
open Nsq.Model.Relay

/-- the answer of an endpoint: status line (+ optional `Location` naming endpoint `loc`), or a transport error -/
inductive Ans
  | status (code : Nat) (loc : Option Nat)
  | err
deriving DecidableEq, Repr

/-- one request on the wire, with the status it was answered with (`none` = transport error) -/
structure Wire where
  ep : Nat
  post : Bool
  payload : Option Bytes
  status : Option Nat
deriving DecidableEq, Repr

abbrev World := Nat → Bool → Option Bytes → Ans

/-- net/http `redirectBehavior`: `some keep` = the status asks for a follow-up request; method and
body are kept iff `keep` -/
def redirectKind (code : Nat) : Option Bool :=
  if code = 301 ∨ code = 302 ∨ code = 303 then some false
  else if code = 307 ∨ code = 308 then some true
  else none

def finalOf : Ans → Option Nat
  | .status c _ => some c
  | .err => none

/-- the follow-up request the client prepares for this answer: target endpoint, keep method+body -/
def followUp : Ans → Option (Nat × Bool)
  | .status code (some next) =>
    match redirectKind code with
    | some keep => some (next, keep)
    | none => none
  | _ => none

/-- `http.Client.Do`; `left` = how many more requests `defaultCheckRedirect` allows (9 after the first) -/
def doReq (follow : Bool) (w : World) : Nat → Nat → Bool → Option Bytes → List Wire × Option Nat
  | 0, ep, post, payload =>
    match followUp (w ep post payload) with
    | none => ([⟨ep, post, payload, finalOf (w ep post payload)⟩], finalOf (w ep post payload))
    | some _ =>
      if follow then ([⟨ep, post, payload, finalOf (w ep post payload)⟩], none)     -- stopped after 10 redirects
      else ([⟨ep, post, payload, finalOf (w ep post payload)⟩], finalOf (w ep post payload))
  | left + 1, ep, post, payload =>
    match followUp (w ep post payload) with
    | none => ([⟨ep, post, payload, finalOf (w ep post payload)⟩], finalOf (w ep post payload))
    | some nk =>
      if follow then
        (⟨ep, post, payload, finalOf (w ep post payload)⟩ ::
           (doReq follow w left nk.1 (post && nk.2) (if post && nk.2 then payload else none)).1,
         (doReq follow w left nk.1 (post && nk.2) (if post && nk.2 then payload else none)).2)
      else ([⟨ep, post, payload, finalOf (w ep post payload)⟩], finalOf (w ep post payload))

/-- `defaultCheckRedirect`: `len(via) >= 10` is an error -/
def redirectLimit : Nat := 9

/-- the wire requests of one `Publisher.Publish(addr, body)` -/
def wireOf (follow post : Bool) (w : World) (a : Nat) (body : Bytes) : List Wire :=
  (doReq follow w redirectLimit a post (some body)).1

/-- the status the publisher sees -/
def seenBy (follow post : Bool) (w : World) (body : Bytes) : Nat → Option Nat :=
  fun a => (doReq follow w redirectLimit a post (some body)).2

/-- `HandleMessage` + go-nsq's response rule, the destinations seen through the client -/
def stepVia (follow : Bool) (c : Http.Cfg) (counter : Nat) (m : Msg) (sampledOut : Bool) (pick : Nat) (w : World) :
    Nat × List Out :=
  Http.step c counter m sampledOut pick (seenBy follow c.post w m.body)

/-- a destination received the message: some wire request to (a chain starting at) address `a`
carried the body, with the publisher's method, and was answered with an accepted status -/
def Delivered (follow post : Bool) (w : World) (a : Nat) (body : Bytes) : Prop :=
  ∃ x ∈ wireOf follow post w a body, x.payload = some body ∧ x.post = post ∧ Http.accepts post x.status = true

/-- all wire requests of a handling, in the order made -/
def wireTrace (follow post : Bool) (w : World) : List Out → List Wire
  | [] => []
  | .request a body _ :: os => wireOf follow post w a body ++ wireTrace follow post w os
  | _ :: os => wireTrace follow post w os

/-! ### driver -/
open Nsq.Line

/-- `200`, `302>1` (Location = endpoint 1), `302` (no Location), `x` (transport error) -/
def ansOf (s : String) : Ans :=
  match s.splitOn ">" with
  | [c] => match c.toNat? with | some n => .status n none | none => .err
  | [c, l] => match c.toNat?, l.toNat? with
    | some n, some k => .status n (some k)
    | some n, none => .status n none
    | _, _ => .err
  | _ => .err

/-- the scripted world of the harness: the answer depends on the endpoint only -/
def worldOf (s : String) : World :=
  let xs := (s.splitOn ",").map ansOf
  fun ep _ _ => match xs[ep]? with | some a => a | none => .err

def wireStr (x : Wire) : String :=
  s!"{x.ep}:{if x.post then "POST" else "GET"}:{match x.payload with | some b => hex b | none => "none"}:{match x.status with | some c => toString c | none => "x"}"

/-- what the source nsqd sees of a handling: `fin`, `req`, or nothing (panic) -/
def respStr (id : Nat) (os : List Out) : String :=
  if Out.fin id ∈ os then "fin" else if Out.req id ∈ os then "req" else "none"

/-- `rd follow mode naddr post counter id body world` → what is observable from outside the real binary:
the FIN/REQ the source receives and the requests the destinations receive, in order -/
def driverLine (ws : List String) : String :=
  match ws with
  | ["rd", follow, mode, naddr, post, counter, id, body, world] =>
    match b01 follow, modeOf mode, naddr.toNat?, b01 post, counter.toNat?, id.toNat?, unhex body with
    | some follow, some mode, some naddr, some post, some counter, some id, some body =>
      let w := worldOf world
      let r := stepVia follow ⟨mode, naddr, post, false⟩ counter ⟨id, body⟩ false 0 w
      s!"{respStr id r.2} | {" ".intercalate ((wireTrace follow post w r.2).map wireStr)}"
    | _, _, _, _, _, _, _ => "bad-op"
  | _ => "bad-op"

end Nsq.Model.RelayRedirect
