/-
E2 — the channel state machine (atomic-op granularity + the one F8 micro-step window).

One `Chan` models one `nsqd.Channel` together with the `clientV2` counters of its
subscribers:

* `msgs`     — every message object the channel currently owns, each with its location
               (`queued` = memoryMsgChan or backend, `inflight conn pri dts` = inFlightMessages /
               inFlightPQ, `deferred pri` = deferredMessages / deferredPQ).  One list with a
               location tag instead of three containers: a move between containers is an update
               of the tag, so "no id in two places" is `Nodup` of one list.
* `memLen/dqLen` — how many of the queued messages sit in the Go channel / in go-diskqueue.
               The queue is a *bag* (Go's `select` chooses); `resplit` is the observation of the
               runtime's choice.
* `clients`  — the `clientV2` atomics (`ReadyCount`, `InFlightCount`, `MessageCount`,
               `FinishCount`, `RequeueCount`, closing state) plus two ghost fields.
* `hist`     — ghost event history, newest first.
* `pendingFin` — connections whose `FIN` has completed on the channel but whose
               `client.FinishedMessage()` has not run yet (micro-step window F8).

Core Lean only (this file is linked into the driver executable).
-/
namespace Nsq.Model.Chan

inductive Loc where
  | queued
  | inflight (conn : Nat) (pri : Int) (dts : Int)
  | deferred (pri : Int)
deriving DecidableEq, Repr

/-- the envelope of a message that must survive every path unchanged (C07): the publish timestamp
`Message.Timestamp` and the body (abstract: the harness passes a checksum of the bytes). The id is
the key everything is indexed by. -/
structure Env where
  ts   : Int := 0
  body : Nat := 0
deriving DecidableEq, Repr

structure Entry where
  id  : Nat
  att : Nat
  loc : Loc
  env : Env := {}
deriving DecidableEq, Repr

/-- ghost envelope log of a channel: what was put on it and what was handed to consumers -/
inductive EEv where
  | put (id : Nat) (env : Env)
  | deliver (conn id att : Nat) (env : Env)
deriving DecidableEq, Repr

structure Client where
  conn       : Nat
  rdy        : Int  := 0
  inFlight   : Int  := 0
  msgCount   : Nat  := 0
  finCount   : Nat  := 0
  reqCount   : Nat  := 0
  closing    : Bool := false
  sample     : Nat  := 0
  msgTimeout : Int  := 0
  /-- ghost: `rdy` at this connection's last delivery -/
  lgr        : Int  := 0
  /-- ghost: RDY was lowered (or CLS sent) since the last delivery -/
  decr       : Bool := false
  /-- micro-step model of the pump: the guard was evaluated true and the pump is in its `select`
  with the queue cases enabled (one delivery is licensed) -/
  armed      : Bool := false
deriving DecidableEq, Repr

inductive Ev where
  | fanout (id : Nat) (dfr : Bool)
  | deliver (conn id att : Nat)
  | finOk (conn id : Nat)
  | reqOk (conn id delay : Nat)
  | touchOk (conn id : Nat)
  | timeout (id conn : Nat)
  | deferDue (id : Nat)
  | emptied (ids : List Nat)
  | sampledOut (conn id : Nat)
  | ephDrop (id : Nat)
  | rdySet (conn : Nat) (n : Int)
  | closed (conn : Nat)
  | joined (conn : Nat)
  | pauseSet (p : Bool)
  | guardOk (conn : Nat)
deriving DecidableEq, Repr

structure Conf where
  maxRdy        : Int := 2500
  maxMsgTimeout : Int := 900000000000
deriving DecidableEq, Repr

structure Chan where
  ephemeral    : Bool := false
  memCap       : Nat  := 0
  msgs         : List Entry := []
  memLen       : Nat := 0
  dqLen        : Nat := 0
  clients      : List Client := []
  paused       : Bool := false
  messageCount : Nat := 0
  requeueCount : Nat := 0
  timeoutCount : Nat := 0
  hist         : List Ev := []
  elog         : List EEv := []
  pendingFin   : List Nat := []
deriving DecidableEq, Repr

inductive Out where
  | ok
  | msg (att : Nat)
  | err (code : String) (fatal : Bool)
  | ids (l : List Nat)
  | reject (why : String)
deriving DecidableEq, Repr

/-! ### list helpers (all by id / by conn) -/

def findE (l : List Entry) (id : Nat) : Option Entry := l.find? (fun e => e.id == id)
def hasId (l : List Entry) (id : Nat) : Bool := l.any (fun e => e.id == id)
def removeE (l : List Entry) (id : Nat) : List Entry := l.filter (fun e => e.id != id)
def setE (l : List Entry) (id : Nat) (att : Nat) (loc : Loc) : List Entry :=
  l.map (fun e => if e.id == id then { e with att := att, loc := loc } else e)

def isQueued (e : Entry) : Bool := match e.loc with | .queued => true | _ => false
def isInflight (e : Entry) : Bool := match e.loc with | .inflight .. => true | _ => false
def isDeferred (e : Entry) : Bool := match e.loc with | .deferred .. => true | _ => false
def heldByE (k : Nat) (e : Entry) : Bool := match e.loc with | .inflight c _ _ => c == k | _ => false
def nQueued (l : List Entry) : Nat := l.countP isQueued
def heldBy (l : List Entry) (k : Nat) : Nat := l.countP (heldByE k)

def findC (l : List Client) (k : Nat) : Option Client := l.find? (fun c => c.conn == k)
def hasC (l : List Client) (k : Nat) : Bool := l.any (fun c => c.conn == k)
def removeC (l : List Client) (k : Nat) : List Client := l.filter (fun c => c.conn != k)
def updC (l : List Client) (k : Nat) (f : Client → Client) : List Client :=
  l.map (fun c => if c.conn == k then f c else c)

/-- `clientV2.IsReadyForMessages` (client_v2.go): false when the channel is paused, when
`inFlightCount >= readyCount` or `readyCount <= 0`. -/
def ready (paused : Bool) (cl : Client) : Bool :=
  !paused && decide (0 < cl.rdy) && decide (cl.inFlight < cl.rdy)

/-! ### primitives -/

/-- `Channel.put`: memory channel if it has room, else the backend; the backend of an
`#ephemeral` channel discards (`dummyBackendQueue.Put`).  `e` must already be in `msgs`
with location `queued` (the callers below arrange that); a drop removes it again. -/
def enqueue (c : Chan) (id : Nat) : Chan :=
  if c.memLen < c.memCap then { c with memLen := c.memLen + 1 }
  else if c.ephemeral then
    { c with msgs := removeE c.msgs id, hist := Ev.ephDrop id :: c.hist }
  else { c with dqLen := c.dqLen + 1 }

def decIn (cl : Client) : Client := { cl with inFlight := cl.inFlight - 1 }

/-- one timed-out message (body of the loop of `processInFlightQueue`) -/
def timeoutOne (c : Chan) (id : Nat) : Chan :=
  match findE c.msgs id with
  | some e =>
    match e.loc with
    | .inflight k _ _ =>
      enqueue { c with
        msgs := setE c.msgs id e.att .queued,
        timeoutCount := c.timeoutCount + 1,
        clients := updC c.clients k decIn,
        hist := Ev.timeout id k :: c.hist } id
    | _ => c
  | none => c

/-- one due deferred message (body of the loop of `processDeferredQueue`) -/
def deferDueOne (c : Chan) (id : Nat) : Chan :=
  match findE c.msgs id with
  | some e =>
    match e.loc with
    | .deferred _ =>
      enqueue { c with msgs := setE c.msgs id e.att .queued, hist := Ev.deferDue id :: c.hist } id
    | _ => c
  | none => c

def priOf (e : Entry) : Int :=
  match e.loc with
  | .inflight _ p _ => p
  | .deferred p => p
  | .queued => 0

/-- insertion into a list sorted by (pri, position): the heap pops in priority order -/
def insertByPri (e : Entry) : List Entry → List Entry
  | [] => [e]
  | x :: xs => if priOf e < priOf x then e :: x :: xs else x :: insertByPri e xs

def sortByPri (l : List Entry) : List Entry := l.foldr insertByPri []

def dueInflight (c : Chan) (t : Int) : List Nat :=
  (sortByPri (c.msgs.filter (fun e => isInflight e && decide (priOf e ≤ t)))).map (·.id)
def dueDeferred (c : Chan) (t : Int) : List Nat :=
  (sortByPri (c.msgs.filter (fun e => isDeferred e && decide (priOf e ≤ t)))).map (·.id)

/-- the channel part of FIN (`Channel.FinishMessage`): pop from the in-flight map (ownership
test) and the heap.  Returns `none` when the pop fails. -/
def finChanPart (c : Chan) (k id : Nat) : Option Chan :=
  match findE c.msgs id with
  | some e =>
    match e.loc with
    | .inflight k' _ _ =>
      if k' = k then some { c with msgs := removeE c.msgs id, hist := Ev.finOk k id :: c.hist }
      else none
    | _ => none
  | none => none

/-- `clientV2.FinishedMessage` -/
def finClientPart (c : Chan) (k : Nat) : Chan :=
  { c with clients := updC c.clients k (fun cl => { cl with finCount := cl.finCount + 1, inFlight := cl.inFlight - 1 }) }

inductive Op where
  | put (id : Nat) (env : Env := {})
  | putDeferred (id : Nat) (pri : Int) (env : Env := {})
  | addClient (conn : Nat) (msgTimeout : Int) (sample : Nat)
  | removeClient (conn : Nat)
  | rdy (conn : Nat) (n : Int)
  | cls (conn : Nat)
  | deliver (conn id : Nat) (now : Int)
  | sampleDrop (conn id : Nat)
  | fin (conn id : Nat)
  | req (conn id : Nat) (delay : Nat) (now : Int)
  | touch (conn id : Nat) (now : Int)
  | scanInFlight (t : Int)
  | scanDeferred (t : Int)
  | pause
  | unpause
  | empty
  | resplit (mem dq : Nat)
  /- micro-steps of FIN (window F8) -/
  | finChan (conn id : Nat)
  | finClient (conn : Nat)
  /- micro-steps of the delivery pump: guard evaluation | select + send (overshoot window) -/
  | guard (conn : Nat)
  | deliverArmed (conn id : Nat) (now : Int)
deriving DecidableEq, Repr

/-- the atomic operations: everything except the two halves of the split FIN -/
def Op.atomic : Op → Bool
  | .finChan .. => false
  | .finClient .. => false
  | .guard .. => false
  | .deliverArmed .. => false
  | _ => true

def nFanout (h : List Ev) (id : Nat) : Nat :=
  h.countP (fun e => match e with | .fanout i _ => i == id | _ => false)

def touchPri (conf : Conf) (now msgTimeout dts : Int) : Int :=
  if now + msgTimeout - dts ≥ conf.maxMsgTimeout then dts + conf.maxMsgTimeout else now + msgTimeout

/-- the effects of one delivery to client `cl` (= connection `k`) of the queued message `id` -/
def doDeliver (c : Chan) (cl : Client) (k id : Nat) (now : Int) : Chan × Out :=
  match findE c.msgs id with
  | none => (c, .reject "not-queued")
  | some e =>
    if !isQueued e then (c, .reject "not-queued") else
    ({ c with msgs := setE c.msgs id (e.att + 1) (.inflight k (now + cl.msgTimeout) now),
              memLen := if c.memLen > 0 then c.memLen - 1 else c.memLen,
              dqLen := if c.memLen > 0 then c.dqLen else c.dqLen - 1,
              clients := updC c.clients k (fun cl => { cl with inFlight := cl.inFlight + 1, msgCount := cl.msgCount + 1, lgr := cl.rdy, decr := false, armed := false }),
              hist := Ev.deliver k id (e.att + 1) :: c.hist,
              elog := EEv.deliver k id (e.att + 1) e.env :: c.elog }, .msg (e.att + 1))

def step (conf : Conf) (c : Chan) : Op → Chan × Out
  | .put id env =>
    -- Channel.PutMessage: put, then messageCount++ (ids are unique: C12)
    if nFanout c.hist id != 0 || hasId c.msgs id then (c, .reject "id-reused") else
    (enqueue { c with msgs := { id := id, att := 0, loc := .queued, env := env } :: c.msgs,
                      elog := EEv.put id env :: c.elog,
                      messageCount := c.messageCount + 1,
                      hist := Ev.fanout id false :: c.hist } id, .ok)
  | .putDeferred id pri env =>
    -- Channel.PutMessageDeferred: messageCount++, StartDeferredTimeout
    if nFanout c.hist id != 0 || hasId c.msgs id then (c, .reject "id-reused") else
    ({ c with msgs := { id := id, att := 0, loc := .deferred pri, env := env } :: c.msgs,
              elog := EEv.put id env :: c.elog,
              messageCount := c.messageCount + 1,
              hist := Ev.fanout id true :: c.hist }, .ok)
  | .addClient k mt sample =>
    -- connection ids come from nsqd.clientIDSequence and are never reused
    if hasC c.clients k || heldBy c.msgs k != 0 || c.pendingFin.contains k then (c, .reject "conn-reused") else
    ({ c with clients := { conn := k, msgTimeout := mt, sample := sample } :: c.clients,
              hist := Ev.joined k :: c.hist }, .ok)
  | .removeClient k =>
    if !hasC c.clients k then (c, .reject "no-client") else
    ({ c with clients := removeC c.clients k }, .ok)
  | .rdy k n =>
    match findC c.clients k with
    | none => (c, .reject "no-client")
    | some cl =>
      if cl.closing then (c, .ok)      -- "ignoring RDY after CLS"
      else if n < 0 || n > conf.maxRdy then
        -- fatal E_INVALID: the IOLoop exits and removes the client
        ({ c with clients := removeC c.clients k }, .err "E_INVALID" true)
      else
        ({ c with clients := updC c.clients k (fun cl => { cl with rdy := n, decr := cl.decr || decide (n < cl.rdy) }),
                  hist := Ev.rdySet k n :: c.hist }, .ok)
  | .cls k =>
    match findC c.clients k with
    | none => (c, .reject "no-client")
    | some cl =>
      if cl.closing then
        -- "cannot CLS in current state": fatal
        ({ c with clients := removeC c.clients k }, .err "E_INVALID" true)
      else
        ({ c with clients := updC c.clients k (fun cl => { cl with rdy := 0, closing := true, decr := cl.decr || decide (0 < cl.rdy) }),
                  hist := Ev.closed k :: c.hist }, .ok)
  | .deliver k id now =>
    -- one iteration of protocolV2.messagePump that received a message:
    -- guard, receive, Attempts++, SendingMessage, StartInFlightTimeout (count first, register second: F13), SendMessage
    match findC c.clients k with
    | none => (c, .reject "no-client")
    | some cl =>
      if !ready c.paused cl then (c, .reject "guard") else doDeliver c cl k id now
  | .guard k =>
    -- top of the pump loop: `if subChannel == nil || !client.IsReadyForMessages()` …
    match findC c.clients k with
    | none => (c, .reject "no-client")
    | some cl =>
      if ready c.paused cl then
        ({ c with clients := updC c.clients k (fun cl => { cl with armed := true }), hist := Ev.guardOk k :: c.hist }, .ok)
      else
        ({ c with clients := updC c.clients k (fun cl => { cl with armed := false }) }, .reject "guard")
  | .deliverArmed k id now =>
    -- … `select` picked a queue case although `ReadyStateChan` may be ready too: the send happens
    -- on the strength of the earlier guard evaluation
    match findC c.clients k with
    | none => (c, .reject "no-client")
    | some cl =>
      if !cl.armed then (c, .reject "not-armed") else doDeliver c cl k id now
  | .sampleDrop k id =>
    -- `if sampleRate > 0 && rand.Int31n(100) > sampleRate { continue }`
    match findC c.clients k with
    | none => (c, .reject "no-client")
    | some cl =>
      if !ready c.paused cl then (c, .reject "guard") else
      if cl.sample == 0 then (c, .reject "no-sampling") else
      match findE c.msgs id with
      | none => (c, .reject "not-queued")
      | some e =>
        if !isQueued e then (c, .reject "not-queued") else
        ({ c with msgs := removeE c.msgs id,
                  memLen := if c.memLen > 0 then c.memLen - 1 else c.memLen,
                  dqLen := if c.memLen > 0 then c.dqLen else c.dqLen - 1,
                  hist := Ev.sampledOut k id :: c.hist }, .ok)
  | .fin k id =>
    if !hasC c.clients k then (c, .reject "no-client") else
    match finChanPart c k id with
    | none => (c, .err "E_FIN_FAILED" false)
    | some c' => (finClientPart c' k, .ok)
  | .finChan k id =>
    if !hasC c.clients k then (c, .reject "no-client") else
    match finChanPart c k id with
    | none => (c, .err "E_FIN_FAILED" false)
    | some c' => ({ c' with pendingFin := k :: c'.pendingFin }, .ok)
  | .finClient k =>
    if !c.pendingFin.contains k then (c, .reject "no-pending-fin") else
    (finClientPart { c with pendingFin := c.pendingFin.erase k } k, .ok)
  | .req k id delay now =>
    if !hasC c.clients k then (c, .reject "no-client") else
    match findE c.msgs id with
    | none => (c, .err "E_REQ_FAILED" false)
    | some e =>
      match e.loc with
      | .inflight k' _ _ =>
        if k' ≠ k then (c, .err "E_REQ_FAILED" false) else
        let c1 : Chan := { c with
          requeueCount := c.requeueCount + 1,
          clients := updC c.clients k (fun cl => { cl with reqCount := cl.reqCount + 1, inFlight := cl.inFlight - 1 }),
          hist := Ev.reqOk k id delay :: c.hist }
        if delay = 0 then
          (enqueue { c1 with msgs := setE c.msgs id e.att .queued } id, .ok)
        else
          ({ c1 with msgs := setE c.msgs id e.att (.deferred (now + (delay : Int) * 1000000)) }, .ok)
      | _ => (c, .err "E_REQ_FAILED" false)
  | .touch k id now =>
    match findC c.clients k with
    | none => (c, .reject "no-client")
    | some cl =>
      match findE c.msgs id with
      | none => (c, .err "E_TOUCH_FAILED" false)
      | some e =>
        match e.loc with
        | .inflight k' _ dts =>
          if k' ≠ k then (c, .err "E_TOUCH_FAILED" false) else
          ({ c with msgs := setE c.msgs id e.att (.inflight k (touchPri conf now cl.msgTimeout dts) dts),
                    hist := Ev.touchOk k id :: c.hist }, .ok)
        | _ => (c, .err "E_TOUCH_FAILED" false)
  | .scanInFlight t =>
    let due := dueInflight c t
    (due.foldl timeoutOne c, .ids due)
  | .scanDeferred t =>
    let due := dueDeferred c t
    (due.foldl deferDueOne c, .ids due)
  | .pause => ({ c with paused := true, hist := Ev.pauseSet true :: c.hist }, .ok)
  | .unpause => ({ c with paused := false, hist := Ev.pauseSet false :: c.hist }, .ok)
  | .empty =>
    -- Channel.Empty (fix F13): `dropped := initPQ()` counts per consumer the in-flight messages the
    -- reset drops, `client.Discarded(dropped[id])` subtracts exactly that (a message already taken
    -- out of the map by a FIN whose `FinishedMessage` is still pending is not counted: that FIN
    -- decrements the counter itself); drain the memory channel, backend.Empty
    ({ c with msgs := [], memLen := 0, dqLen := 0,
              clients := c.clients.map (fun cl => { cl with inFlight := cl.inFlight - (heldBy c.msgs cl.conn : Int) }),
              hist := Ev.emptied (c.msgs.map (·.id)) :: c.hist }, .ids (c.msgs.map (·.id)))
  | .resplit m d =>
    if m + d = c.memLen + c.dqLen && decide (m ≤ c.memCap) && (!c.ephemeral || d == 0) then
      ({ c with memLen := m, dqLen := d }, .ok)
    else (c, .reject "split")

def run (conf : Conf) (c : Chan) : List Op → Chan
  | [] => c
  | op :: ops => run conf (step conf c op).1 ops

/-- the `Attempts` field on the wire and on disk is a `uint16` -/
def wireAttempts (a : Nat) : Nat := a % 65536

/-- is a delivery still enabled? (used at `settle` barriers: the implementation must not
under-deliver) -/
def deliverEnabled (c : Chan) : Bool :=
  c.msgs.any isQueued && c.clients.any (ready c.paused)

end Nsq.Model.Chan
