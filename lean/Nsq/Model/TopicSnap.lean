/-
E2 / C01 — fan-out completeness with channel creation split into its two halves (round 9, audit A15).

`C01.fanout_complete` is proved for runs of `Nsq.Model.ChanNsqd` WITHOUT `createChanRaw | refreshPump` (there `createChan`
is one step and `born` = the id counter at that step). The real `Topic.GetChannel` is: insert into `channelMap` under
`t.Lock` | send on `channelUpdateChan` (the pump rebuilds its snapshot `chans` from the map; only then does `GetChannel`,
hence SUB, return). Between the halves the pump keeps fanning out to its OLD snapshot. This model keeps only what the
statement needs — per channel the ids fanned out to it and the moment it ENTERED the snapshot — and makes the halves
separate steps (any schedule, any number of channels created / deleted mid-message):
  `createRaw c`  map insert (the channel exists, the pump does not know it)      `refresh`  the pump's `channelUpdateChan` case
  `deleteRaw c`  map delete (the pump may still hold the old object)             `pub`      a publish (acknowledged)
  `pump i`       the pump takes `i` off the topic queue and hands it to every channel OF ITS SNAPSHOT
`born` (ghost) is set by the `refresh` that first includes the channel — the moment `GetChannel` returns; with
`bornAtRaw = true` it is set at the map insert instead (the reading for which completeness is FALSE).
Core Lean only.
-/
namespace Nsq.Model.TopicSnap

structure SChan where
  cid    : Nat
  born   : Option Nat := none
  fanned : List Nat := []
deriving DecidableEq, Repr

structure St where
  chans  : List SChan := []
  snap   : List Nat := []
  queue  : List Nat := []
  pumped : List Nat := []
  nextId : Nat := 1
deriving DecidableEq, Repr

inductive Op where
  | createRaw (c : Nat)
  | deleteRaw (c : Nat)
  | refresh
  | pub
  | pump (i : Nat)
deriving DecidableEq, Repr

def step (bornAtRaw : Bool) (s : St) : Op → St × Bool
  | .createRaw c =>
    if s.chans.any (fun ch => ch.cid == c) then (s, false)
    else ({ s with chans := s.chans ++ [{ cid := c, born := if bornAtRaw then some s.nextId else none }] }, true)
  | .deleteRaw c => ({ s with chans := s.chans.filter (fun ch => ch.cid != c) }, true)
  | .refresh =>
    ({ s with chans := s.chans.map (fun ch => match ch.born with
                                            | none => { ch with born := some s.nextId }
                                            | some _ => ch),
              snap := s.chans.map (·.cid) }, true)
  | .pub => ({ s with queue := s.nextId :: s.queue, nextId := s.nextId + 1 }, true)
  | .pump i =>
    if s.queue.contains i then
      ({ s with queue := s.queue.erase i, pumped := i :: s.pumped,
                chans := s.chans.map (fun ch => if s.snap.contains ch.cid then { ch with fanned := i :: ch.fanned } else ch) }, true)
    else (s, false)

def run (bornAtRaw : Bool) (s : St) : List Op → St
  | [] => s
  | op :: ops => run bornAtRaw (step bornAtRaw s op).1 ops

end Nsq.Model.TopicSnap
