import Nsq.Model.Wire
/-
Engine E9 — go-diskqueue v1.1.0 (`diskqueue.go`) as an executable model.

State = the files of one queue (`name.diskqueue.NNNNNN.dat` by number, the quarantined
`….dat.bad` files by number, the metadata file as its five integers) + the fields of `diskQueue`
that survive one `ioLoop` iteration.  One API call of the Go type is one model operation; every
operation ends with `settle` = the part of `ioLoop` between the top of the `for` and the `select`
(sync when due, read-ahead `readOne`, `handleReadError` + `continue` on a read error).

Not modelled (assumptions, see docs/E9-diskqueue.md): I/O errors of the OS other than "file does
not exist"; `fmt.Fscanf/Fprintf` of the five integers (the harness compares the text of the file);
int32 wrap of `len(data)` for bodies ≥ 2 GiB; the temp-file + rename inside `persistMetaData`
(one atomic step here).
-/
namespace Nsq.Model.DiskQueue
open Nsq.Model.Wire

structure Cfg where
  maxBytesPerFile : Nat
  minMsgSize : Nat
  maxMsgSize : Nat
  syncEvery : Nat
deriving Repr, DecidableEq

/-- the metadata file `"%d\n%d,%d\n%d,%d\n"`: depth, readFileNum, readPos, writeFileNum, writePos -/
structure Meta where
  depth : Int
  rf : Nat
  rp : Nat
  wf : Nat
  wp : Nat
deriving Repr, DecidableEq

structure FS where
  /-- `<name>.diskqueue.%06d.dat` -/
  dat : Nat → Option Bytes
  /-- `<name>.diskqueue.%06d.dat.bad` -/
  bad : Nat → Option Bytes
  md : Option Meta

def FS.empty : FS := { dat := fun _ => none, bad := fun _ => none, md := none }

def FS.content (fs : FS) (i : Nat) : Bytes :=
  match fs.dat i with
  | some c => c
  | none => []

def setFile (f : Nat → Option Bytes) (i : Nat) (v : Option Bytes) : Nat → Option Bytes :=
  fun j => if j = i then v else f j

/-- remove the files numbered `lo … hi` (nothing when `hi < lo`) -/
def rmRange (f : Nat → Option Bytes) (lo hi : Nat) : Nat → Option Bytes :=
  fun j => if lo ≤ j ∧ j ≤ hi then none else f j

/-- `pwrite`: bytes before `pos` kept (a hole is zero-filled), bytes after the written range kept -/
def writeAt (old : Bytes) (pos : Nat) (data : Bytes) : Bytes :=
  old.take pos ++ List.replicate (pos - old.length) 0 ++ data ++ old.drop (pos + data.length)

structure St where
  cfg : Cfg
  fs : FS
  rf : Nat := 0
  rp : Nat := 0
  wf : Nat := 0
  wp : Nat := 0
  depth : Int := 0
  /-- `nextReadFileNum`, `nextReadPos` -/
  nrf : Nat := 0
  nrp : Nat := 0
  /-- `maxBytesPerFileRead` -/
  mbr : Nat := 0
  /-- `readFile != nil` -/
  rOpen : Bool := false
  /-- `bufio.Reader` over the read file: bytes fetched from the file and not yet consumed -/
  rbuf : Bytes := []
  /-- offset of the read file descriptor (= position after the fetched bytes) -/
  rfd : Nat := 0
  needSync : Bool := false
  /-- `count` of `ioLoop` -/
  count : Nat := 0
  /-- `dataRead` of `ioLoop` -/
  pending : Bytes := []
  /-- `exitFlag` -/
  exited : Bool := false

def St.metaNow (s : St) : Meta := { depth := s.depth, rf := s.rf, rp := s.rp, wf := s.wf, wp := s.wp }

/-- `sync` (fsync + `persistMetaData`) -/
def sync (s : St) : St :=
  { s with fs := { s.fs with md := some s.metaNow }, needSync := false }

def validSize (c : Cfg) (d : Bytes) : Bool := c.minMsgSize ≤ d.length && d.length ≤ c.maxMsgSize

/-- the roll inside `writeOne` -/
def rollWrite (s : St) : St :=
  sync { s with mbr := if s.rf = s.wf then s.wp else s.mbr, wf := s.wf + 1, wp := 0 }

def needRoll (s : St) (d : Bytes) : Bool :=
  0 < s.wp && s.cfg.maxBytesPerFile < s.wp + (4 + d.length)

def appendRec (s : St) (d : Bytes) : St :=
  { s with fs := { s.fs with dat := setFile s.fs.dat s.wf (some (writeAt (s.fs.content s.wf) s.wp (dqRecord d))) },
           wp := s.wp + (4 + d.length), depth := s.depth + 1 }

/-- `writeOne`: `false` = "invalid message write size", nothing changed -/
def writeOne (s : St) (d : Bytes) : Bool × St :=
  if validSize s.cfg d = false then (false, s)
  else if needRoll s d then (true, appendRec (rollWrite s) d)
  else (true, appendRec s d)

/-- size of the buffer of `bufio.NewReader` -/
def bufSize : Nat := 4096

/-- `bufio.Reader.Read` under `io.ReadFull`: consume `n` bytes known to be available in the stream
`rbuf ++ content.drop rfd`. Buffered bytes first; for the rest a direct read when it is at least one
buffer long, otherwise ONE read of up to `bufSize` bytes into the buffer. Returns the new buffer and
descriptor offset. (The fetched bytes are a snapshot: the writer overwriting them later is not seen.) -/
def consume (rbuf : Bytes) (rfd : Nat) (content : Bytes) (n : Nat) : Bytes × Nat :=
  if n ≤ rbuf.length then (rbuf.drop n, rfd)
  else if bufSize ≤ n - rbuf.length then ([], rfd + (n - rbuf.length))
  else (((content.drop rfd).take bufSize).drop (n - rbuf.length), rfd + ((content.drop rfd).take bufSize).length)

/-- what the reader will see next: buffered bytes, then the file from the descriptor offset on -/
def St.stream (s : St) : Bytes := s.rbuf ++ (s.fs.content s.rf).drop s.rfd

/-- the `os.OpenFile` (+ `Seek(readPos)`) part of `readOne` (`none`: the file does not exist) -/
def openRead (s : St) : Option St :=
  if s.rOpen then some s
  else match s.fs.dat s.rf with
    | none => none
    | some c => some { s with rOpen := true, rbuf := [], rfd := s.rp,
                              mbr := if s.rf < s.wf then c.length else s.cfg.maxBytesPerFile }

/-- the two `io.ReadFull`s of a successful `readOne`: 4 bytes, then the body -/
def consumed (s : St) (d : Bytes) : St :=
  { s with rbuf := (consume (consume s.rbuf s.rfd (s.fs.content s.rf) 4).1 (consume s.rbuf s.rfd (s.fs.content s.rf) 4).2
                      (s.fs.content s.rf) d.length).1,
           rfd := (consume (consume s.rbuf s.rfd (s.fs.content s.rf) 4).1 (consume s.rbuf s.rfd (s.fs.content s.rf) 4).2
                      (s.fs.content s.rf) d.length).2 }

def afterRead (s : St) (d : Bytes) : St :=
  if s.rf < s.wf ∧ s.mbr ≤ s.rp + (4 + d.length) then
    { s with pending := d, nrf := s.rf + 1, nrp := 0, rOpen := false }
  else { s with pending := d, nrf := s.rf, nrp := s.rp + (4 + d.length) }

/-- `readOne`; on any error the read file is closed -/
def readOne (s : St) : Bool × St :=
  match openRead s with
  | none => (false, { s with rOpen := false })
  | some s1 =>
    match dqRead s1.cfg.minMsgSize s1.cfg.maxMsgSize s1.stream with
    | none => (false, { s1 with rOpen := false })
    | some r => (true, afterRead (consumed s1 r.1) r.1)

def skipToNextRWFile (s : St) : St :=
  { s with fs := { s.fs with dat := rmRange s.fs.dat s.rf s.wf }, rOpen := false,
           wf := s.wf + 1, wp := 0, rf := s.wf + 1, rp := 0, nrf := s.wf + 1, nrp := 0, depth := 0 }

def checkTail (s : St) : St :=
  if s.rf < s.wf ∨ s.rp < s.wp then s
  else if s.depth ≠ 0 then
    (if s.rf ≠ s.wf ∨ s.rp ≠ s.wp then { skipToNextRWFile { s with depth := 0 } with needSync := true }
     else { s with depth := 0, needSync := true })
  else if s.rf ≠ s.wf ∨ s.rp ≠ s.wp then { skipToNextRWFile s with needSync := true }
  else s

def moveForward (s : St) : St :=
  if s.rf ≠ s.nrf then
    checkTail { s with fs := { s.fs with dat := setFile s.fs.dat s.rf none }, rf := s.nrf, rp := s.nrp,
                       depth := s.depth - 1, needSync := true }
  else checkTail { s with rf := s.nrf, rp := s.nrp, depth := s.depth - 1 }

/-- `os.Rename(fn, fn + ".bad")` (fails, and is only logged, when the file does not exist) -/
def quarantine (fs : FS) (i : Nat) : FS :=
  match fs.dat i with
  | none => fs
  | some c => { fs with dat := setFile fs.dat i none, bad := setFile fs.bad i (some c) }

def handleReadError (s : St) : St :=
  if s.rf = s.wf then
    checkTail { s with fs := quarantine s.fs s.rf, wf := s.wf + 1, wp := 0, rf := s.rf + 1, rp := 0,
                       nrf := s.rf + 1, nrp := 0, needSync := true }
  else
    checkTail { s with fs := quarantine s.fs s.rf, rf := s.rf + 1, rp := 0,
                       nrf := s.rf + 1, nrp := 0, needSync := true }

def canRead (s : St) : Bool := decide (s.rf < s.wf) || decide (s.rp < s.wp)

/-- top of the `for` in `ioLoop` up to the read-ahead -/
def syncDue (s : St) : St :=
  if s.count = s.cfg.syncEvery ∨ s.needSync then { sync s with count := 0 } else s

/-- one pass from the top of the loop to the `select`; `true` = `continue` (read error) -/
def settleStep (s : St) : Bool × St :=
  if canRead (syncDue s) then
    if (syncDue s).nrp = (syncDue s).rp then
      (if (readOne (syncDue s)).1 then (false, (readOne (syncDue s)).2)
       else (true, handleReadError (readOne (syncDue s)).2))
    else (false, syncDue s)
  else (false, syncDue s)

def settleN : Nat → St → St
  | 0, s => s
  | n + 1, s => if (settleStep s).1 then settleN n (settleStep s).2 else (settleStep s).2

/-- enough passes for every state with `rf ≤ wf` (`Proofs.DiskQueue.settle_settled`) -/
def settle (s : St) : St := settleN (s.wf + 3 - s.rf) s

/-! ### the API -/

inductive PutRes | ok | invalid | exiting
deriving Repr, DecidableEq

def put (s : St) (d : Bytes) : PutRes × St :=
  if s.exited then (.exiting, s)
  else if (writeOne { s with count := s.count + 1 } d).1 then (.ok, settle (writeOne { s with count := s.count + 1 } d).2)
  else (.invalid, settle { s with count := s.count + 1 })

/-- a consumer receives from `ReadChan()`; `none` = the channel is not offered -/
def recv (s : St) : Option Bytes × St :=
  if s.exited = false ∧ canRead s then
    (some s.pending, settle (moveForward { s with count := s.count + 1 }))
  else (none, s)

def deleteAllFiles (s : St) : St :=
  { skipToNextRWFile s with fs := { (skipToNextRWFile s).fs with md := none } }

/-- `Empty()`; `false` = "exiting" -/
def empty (s : St) : Bool × St :=
  if s.exited then (false, s) else (true, settle { deleteAllFiles s with count := 0 })

/-- the `syncTicker` case -/
def tick (s : St) : St :=
  if s.exited then s else if s.count = 0 then settle s else settle { s with needSync := true }

/-- `Close()` = `exit(false)` then `sync()` -/
def close (s : St) : St := sync { s with exited := true, rOpen := false }

/-- `Delete()` = `exit(true)`: closes, removes nothing, does not sync -/
def delete (s : St) : St := { s with exited := true, rOpen := false }

/-- `retrieveMetaData` on a fresh object -/
def retrieve (cfg : Cfg) (fs : FS) : St :=
  match fs.md with
  | none => { cfg := cfg, fs := fs }
  | some m =>
    match fs.dat m.wf with
    | none => { cfg := cfg, fs := fs, depth := m.depth, rf := m.rf, rp := m.rp, wf := m.wf, wp := m.wp,
                nrf := m.rf, nrp := m.rp }
    | some c =>
      if m.wp < c.length then
        { cfg := cfg, fs := fs, depth := m.depth, rf := m.rf, rp := m.rp, wf := m.wf + 1, wp := 0,
          nrf := m.rf, nrp := m.rp }
      else { cfg := cfg, fs := fs, depth := m.depth, rf := m.rf, rp := m.rp, wf := m.wf, wp := m.wp,
             nrf := m.rf, nrp := m.rp }

/-- `New(...)` on a data path -/
def openQ (cfg : Cfg) (fs : FS) : St := settle (retrieve cfg fs)

/-- a process kill: only the files survive -/
def crash (s : St) : FS := s.fs

end Nsq.Model.DiskQueue
