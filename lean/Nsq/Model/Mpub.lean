import Nsq.Model.ProtoV2Types
/-
Model of `readMPUB` (nsqd/protocol_v2.go), shared by TCP `MPUB` and binary HTTP `/mpub`, and of
the text splitter of `doMPUB` (nsqd/http.go). Core Lean only.
-/
namespace Nsq.Model.Mpub
open Nsq.Model.ProtoV2

inductive Res
  | ok (bodies : List Bytes) (rest : Bytes)
  | err (code : Code)
  | panic                       -- `make` with a negative size
deriving DecidableEq, Repr

/-- `(maxBodySize - 4) / 5` (Go int64 division truncates toward zero). -/
def maxMessages (maxBody : Int) : Int := Int.tdiv (maxBody - 4) 5

/-- The loop of `readMPUB`: `k` messages still to read; `acc` is reversed. -/
def readMsgs (maxMsg : Int) : Nat → Bytes → List Bytes → Res
  | 0, bs, acc => .ok acc.reverse bs
  | k + 1, bs, acc =>
    match readLen bs with
    | none => .err .E_BAD_MESSAGE                       -- failed to read message(i) body size
    | some (sz, r) =>
      if sz ≤ 0 then .err .E_BAD_MESSAGE                -- invalid message(i) body size
      else if sz > maxMsg then .err .E_BAD_MESSAGE      -- message too big
      else if sz < 0 then .panic                        -- make([]byte, messageSize)
      else if r.length < sz.toNat then .err .E_BAD_MESSAGE   -- failed to read message body
      else readMsgs maxMsg k (r.drop sz.toNat) (r.take sz.toNat :: acc)

/-- `readMPUB(r, tmp, topic, maxMessageSize, maxBodySize)`. -/
def readMPUB (maxMsg maxBody : Int) (bs : Bytes) : Res :=
  match readLen bs with
  | none => .err .E_BAD_BODY                            -- failed to read message count
  | some (n, r) =>
    if n ≤ 0 ∨ n > maxMessages maxBody then .err .E_BAD_BODY   -- invalid message count
    else if n < 0 then .panic                           -- make([]*Message, 0, numMessages)
    else readMsgs maxMsg n.toNat r []

/-- Wire encoding of a batch (what a client sends after the MPUB body-size field). -/
def be32 (n : Nat) : Bytes :=
  [(n / 16777216 % 256).toUInt8, (n / 65536 % 256).toUInt8, (n / 256 % 256).toUInt8, (n % 256).toUInt8]

def encodeMsgs : List Bytes → Bytes
  | [] => []
  | m :: ms => be32 m.length ++ m ++ encodeMsgs ms

def encode (ms : List Bytes) : Bytes := be32 ms.length ++ encodeMsgs ms

/-! ## Text `/mpub`: split on `\n`, drop empty blocks -/

/-- Split at every `\n` (the final block is what follows the last `\n`, possibly empty). -/
def splitNl : Bytes → List Bytes
  | [] => [[]]
  | c :: cs =>
    if c = 10 then [] :: splitNl cs
    else match splitNl cs with
      | [] => [[c]]
      | p :: ps => (c :: p) :: ps

/-- Blocks of a text `/mpub` body that become messages (empty ones are silently discarded). -/
def textBlocks (body : Bytes) : List Bytes := (splitNl body).filter (fun b => !b.isEmpty)

end Nsq.Model.Mpub
