/-
Model of the state-changing `ClusterInfo` methods of internal/clusterinfo/data.go at the level
of the HTTP requests they send to nsqlookupd / nsqd (CreateTopicChannel, DeleteTopic,
DeleteChannel, Pause/UnPause/Empty Topic/Channel via actionHelper, TombstoneNodeForTopic,
GetTopicProducers, nsqlookupdPOST, producersPOST). Core Lean only (linked into `drv_e7`).

An upstream answers or fails all its GET requests (`up`) and, independently, all its POST requests (`postUp`). The lookups run in
goroutines, so the order in which producers are collected is not fixed: `requests` lists the
requests phase by phase and the harness compares them as a sorted multiset.
-/
namespace Nsq.Model.AdminFanout

structure Lookupd where
  addr : String
  up : Bool                    -- answers GET requests
  producers : List String      -- HTTP addresses in its `/lookup?topic=` answer
  postUp : Bool := up          -- answers POST requests (may differ: 404 / 500 on the command only)
deriving Repr, DecidableEq

structure Nsqd where
  addr : String
  up : Bool                    -- answers GET requests
  hasTopic : Bool              -- its `/stats?topic=` answer lists the topic
  postUp : Bool := up          -- answers POST requests
  reports : String := addr     -- the HTTP address its `/info` answer claims (`broadcast_address:http_port`);
                               -- nsqadmin sends its commands *there* (direct-nsqd mode, tombstone), not to
                               -- the address it asked
deriving Repr, DecidableEq

structure World where
  lookupds : List Lookupd      -- configured nsqlookupd addresses ([] = direct-nsqd mode)
  nsqdAddrs : List String      -- configured nsqd addresses (direct-nsqd mode)
  nsqds : List Nsqd            -- every nsqd that exists; any other address refuses connections
deriving Repr

inductive Req
  | get (addr path : String)
  | post (addr path : String)
deriving Repr, DecidableEq

inductive Kind
  | createTopic | createChannel | deleteTopic | deleteChannel
  | pauseTopic | unpauseTopic | emptyTopic | pauseChannel | unpauseChannel | emptyChannel
  | tombstone
deriving Repr, DecidableEq

structure Action where
  kind : Kind
  topic : String
  channel : String := ""
  node : String := ""
deriving Repr

/-- `url.QueryEscape` (net/url `escape(s, encodeQueryComponent)`), byte by byte over the UTF-8 encoding:
ASCII letters, digits and `- _ . ~` are kept, a space becomes `+`, every other byte becomes `%XX` with
upper-case hexadecimal digits. Path parameters of nsqadmin's routes are not validated, so any string can
arrive here (`/api/topics/a&channel=b` reaches `DeleteTopic("a&channel=b")`). Tied to the real function by the
`strfn` correspondence stream. -/
def unreservedByte (b : Nat) : Bool :=
  (48 ≤ b && b ≤ 57) || (65 ≤ b && b ≤ 90) || (97 ≤ b && b ≤ 122) || b == 45 || b == 95 || b == 46 || b == 126

def hexDigit (n : Nat) : Char := Char.ofNat (if n < 10 then 48 + n else 55 + n)

def escByte (b : Nat) : String :=
  if unreservedByte b then String.singleton (Char.ofNat b)
  else if b == 32 then "+"
  else String.ofList ['%', hexDigit (b / 16), hexDigit (b % 16)]

/-- The UTF-8 encoding of a character, by arithmetic (so that closed examples reduce by `decide`). -/
def utf8Bytes (c : Char) : List Nat :=
  let n := c.toNat
  if n < 128 then [n]
  else if n < 2048 then [192 + n / 64, 128 + n % 64]
  else if n < 65536 then [224 + n / 4096, 128 + (n / 64) % 64, 128 + n % 64]
  else [240 + n / 262144, 128 + (n / 4096) % 64, 128 + (n / 64) % 64, 128 + n % 64]

def esc (s : String) : String := String.join ((s.toList.flatMap utf8Bytes).map escByte)

def topicQS (a : Action) : String := "topic=" ++ esc a.topic
def chanQS (a : Action) : String := "topic=" ++ esc a.topic ++ "&channel=" ++ esc a.channel

/-- The command POSTed to the producers of the topic ("" = none). -/
def nsqdCommand (a : Action) : String :=
  match a.kind with
  | .createTopic => ""
  | .createChannel => "/channel/create?" ++ chanQS a
  | .deleteTopic => "/topic/delete?" ++ topicQS a
  | .deleteChannel => "/channel/delete?" ++ chanQS a
  | .pauseTopic => "/topic/pause?" ++ topicQS a
  | .unpauseTopic => "/topic/unpause?" ++ topicQS a
  | .emptyTopic => "/topic/empty?" ++ topicQS a
  | .pauseChannel => "/channel/pause?" ++ chanQS a
  | .unpauseChannel => "/channel/unpause?" ++ chanQS a
  | .emptyChannel => "/channel/empty?" ++ chanQS a
  | .tombstone => "/topic/delete?" ++ topicQS a

def dedup : List String → List String
  | [] => []
  | x :: xs => x :: (dedup xs).filter (· != x)

def lookupdMode (w : World) : Bool := !w.lookupds.isEmpty

def nodeUp (w : World) (node : String) : Bool :=
  w.nsqds.any (fun n => n.addr == node && n.up)

def nodeHasTopic (w : World) (node : String) : Bool :=
  w.nsqds.any (fun n => n.addr == node && n.up && n.hasTopic)

/-- The address nsqadmin uses for a configured nsqd after it has read its `/info`: `Producer.HTTPAddress()`
= the reported broadcast address and HTTP port (an address nobody answers on is never looked at). -/
def reportOf (w : World) (node : String) : String :=
  match w.nsqds.find? (fun n => n.addr == node) with
  | some n => n.reports
  | none => node

/-- Does the producer lookup use the nsqlookupds? (`CreateTopicChannel` always does.) -/
def viaLookupd (w : World) (a : Action) : Bool :=
  a.kind == .createChannel || lookupdMode w

/-- The producer lookup fails as a whole ("failed to query any …", not a `PartialErr`). -/
def lookupFailed (w : World) (a : Action) : Bool :=
  match a.kind with
  | .createTopic => false
  | .tombstone => !nodeUp w a.node
  | _ =>
    if viaLookupd w a then w.lookupds.all (fun l => !l.up)
    else w.nsqdAddrs.all (fun a => !nodeUp w a)

/-- The producers the action is sent to: what the responding upstreams report. -/
def producersFor (w : World) (a : Action) : List String :=
  match a.kind with
  | .createTopic => []
  | .tombstone => if nodeUp w a.node then [reportOf w a.node] else []
  | _ =>
    if lookupFailed w a then []
    else if viaLookupd w a then
      dedup ((w.lookupds.filter (·.up)).flatMap (·.producers))
    else (w.nsqdAddrs.filter (nodeHasTopic w)).map (reportOf w)

/-- The commands POSTed to every configured nsqlookupd. -/
def lookupdCommands (w : World) (a : Action) : List String :=
  match a.kind with
  | .createTopic => ["/topic/create?" ++ topicQS a]
  | .createChannel => ["/topic/create?" ++ topicQS a, "/channel/create?" ++ chanQS a]
  | .deleteTopic => if lookupFailed w a then [] else ["/topic/delete?" ++ topicQS a]
  | .deleteChannel => if lookupFailed w a then [] else ["/channel/delete?" ++ chanQS a]
  | .tombstone => ["/topic/tombstone?" ++ topicQS a ++ "&node=" ++ esc a.node]
  | _ => []

/-- The GET requests of the producer lookup. -/
def lookupGets (w : World) (a : Action) : List Req :=
  match a.kind with
  | .createTopic => []
  | .tombstone =>
    Req.get a.node "/info" ::
      (if nodeUp w a.node then [Req.get a.node "/stats?format=json&include_clients=false"] else [])
  | _ =>
    if viaLookupd w a then w.lookupds.map (fun l => Req.get l.addr ("/lookup?" ++ topicQS a))
    else w.nsqdAddrs.flatMap (fun n =>
      Req.get n ("/stats?format=json&" ++ topicQS a ++ "&include_clients=false") ::
        (if nodeHasTopic w n then [Req.get n "/info"] else []))

def lookupdPosts (w : World) (a : Action) : List Req :=
  (lookupdCommands w a).flatMap (fun c => w.lookupds.map (fun l => Req.post l.addr c))

def producerPosts (w : World) (a : Action) : List Req :=
  (producersFor w a).map (fun p => Req.post p (nsqdCommand a))

/-- Every request the action sends (phase by phase). -/
def requests (w : World) (a : Action) : List Req :=
  lookupdPosts w a ++ lookupGets w a ++ producerPosts w a

inductive Err
  | none | partialErr | full
deriving Repr, DecidableEq

def reqFails (w : World) : Req → Bool
  | .get addr _ => !(w.lookupds.any (fun l => l.addr == addr && l.up) || nodeUp w addr)
  | .post addr _ => !(w.lookupds.any (fun l => l.addr == addr && l.postUp) ||
      w.nsqds.any (fun n => n.addr == addr && n.postUp))

/-- What the `ClusterInfo` method returns: a non-partial error only when the producer lookup
fails as a whole; an `ErrList` (partial) when any single request failed. -/
def result (w : World) (a : Action) : Err :=
  if lookupFailed w a then .full
  else if (requests w a).any (reqFails w) then .partialErr
  else .none

/-- Can the harness see this request (does anybody listen on the address)? -/
def observable (w : World) : Req → Bool
  | .get addr _ => w.lookupds.any (·.addr == addr) || w.nsqds.any (·.addr == addr)
  | .post addr _ => w.lookupds.any (·.addr == addr) || w.nsqds.any (·.addr == addr)

def kindOfName (n : String) : Option Kind :=
  if n == "DeleteTopic" then some .deleteTopic
  else if n == "DeleteChannel" then some .deleteChannel
  else if n == "PauseTopic" then some .pauseTopic
  else if n == "UnPauseTopic" then some .unpauseTopic
  else if n == "EmptyTopic" then some .emptyTopic
  else if n == "PauseChannel" then some .pauseChannel
  else if n == "UnPauseChannel" then some .unpauseChannel
  else if n == "EmptyChannel" then some .emptyChannel
  else if n == "TombstoneNodeForTopic" then some .tombstone
  else none

end Nsq.Model.AdminFanout
